#!/bin/sh
# Build the framework from files on disk only (offline).
set -e
cd "$(dirname "$0")"
exec python3 ./check --setup
