(* Property C16 - statements only (proofs in Proofs/C16.v). Not built yet. *)
From SC.Model Require Import Base.
