(* Property C16 - blanks, comments and the letter case of keywords never change a value.
   STATEMENTS ONLY (proofs: Proofs/C16.v).

   Model functions: Lexer.whitespace_body / comment_body / cleanup / month_parser / run_parser (timezone) / alias_apply,
   Post.token_generator / token_cleaner, Rules.update_token_variables / dyn_loop / rule_tokinizer, Match.token_match /
   token_field_compare / info_eq / info_eq_token / variable_compare, RuleFns.call_rule / read_currency,
   Api.tokinize / execute_text, Run64.exec64.
   Definitions from Proofs/C16.v:
     typed t / untyped t           ti_ty t <> None / = None
     extends_untyped st st'        st' = st plus token_infos without a type
     same_tok a b                  a and b have the same type and status (start, end, text are free)
     same_tokens, same_state       pointwise on lists / on the ts_infos of two lexer states
     fields_sim                    the same for the field maps handed to the rule functions
     rel_exact R r1 r2             both Ok and related by R, or the same panic
     rel_res R r1 r2               rel_exact, or one side is the panic of the highlighting bookkeeping (UI_SITE = 1701:
                                   ui_token.rs update_tokens drains an inverted range) - the only thing after the lexer
                                   that reads positions
     lexed cfg lang line           the lexer part of Api.tokinize (month parser, regex parsers, aliases)
     post_lexer ...                the rest of Api.tokinize (variables, units, rules, token list)
     obs_result o                  (value or error, token list) of a line result: not the highlighting, not the infos
     same_lower a a'               to_lowercase a = to_lowercase a' (two spellings of one word)
     values lang text              through Run64.exec64 with the loaded default configuration on 28 Sep 2026: for every
                                   line nothing / error message / result ast (not the printed text)
     agree lang orig [r1; ..]      values of every rewriting ri = values of orig, and orig evaluates to a value on every line

   WHAT IS PROVED FOR ALL INPUTS: blanks and comments never reach the token list (C16_untyped_..); after the lexer only
   the sequence of (type, status) of the token_infos matters (C16_positions_..: all lines, all configurations, all variable
   environments); every comparison of a keyword class goes through case-mapped copies (C16_case_..).
   WHAT IS PROVED FOR FAMILIES ONLY (vm_compute): blank-only lines up to 80 blanks, comment-only lines for 32 comment
   texts, original vs rewritten lines per feature area (C16_blank_only, C16_comment_only, C16_pipeline_..).
   NOT PROVED (covered by the correspondence check only): the lexical step - that inserting blanks at a token boundary of
   an arbitrary line, or appending `# text`, leaves the typed token sequence produced by the regexes unchanged; it needs
   a context lemma for every regex of config.json (C16_full_partial keeps the statement).
   KNOWN FINDING C16-K2 (C16_sign_in_literal_refuted): the number syntax [-+]?[0-9]+ reads a sign written directly in
   front of a digit into the literal, so `a+b` and `a + b` are different token sequences and a rule that starts at the
   second operand is not found (C16-K1, date - duration, is repaired: /repo acb6397). *)
From Coq Require Import Floats.
From SC.Model Require Import Base Num NumF64 Types Config Case Chrono UiTokens Rx Match Post Parser Items Interp RuleFns
     Rules Format Lexer Api Run64.
From SC.Proofs Require Import C16 RegexNeeds.

Section WithNum.
Context {F : Type} {NF : Num F}.

(* ---- blanks and comments are token_infos without a type and are dropped ---- *)
Theorem C16_untyped_whitespace : forall line c cp (st st' : @Rules.tstate F),
  whitespace_body line c cp st = Ok st' -> extends_untyped st st'.
Proof. exact whitespace_body_untyped. Qed.

Theorem C16_untyped_comment : forall line c cp (st st' : @Rules.tstate F),
  comment_body line c cp st = Ok st' -> extends_untyped st st'.
Proof. exact comment_body_untyped. Qed.

Theorem C16_untyped_dropped_by_cleanup : forall st : @Rules.tstate F, Forall typed (ts_infos (cleanup st)).
Proof. exact cleanup_typed. Qed.

Theorem C16_untyped_dropped : forall (infos : list (token_info F)) t,
  In t (token_generator infos) <-> exists ti, In ti infos /\ ti_active ti = true /\ ti_ty ti = Some t.
Proof. exact token_generator_in. Qed.

Theorem C16_untyped_skipped : forall (a b : list (token_info F)) ti,
  ti_ty ti = None \/ ti_active ti = false -> token_generator (a ++ ti :: b) = token_generator (a ++ b).
Proof. exact token_generator_skips. Qed.

(* ---- after the lexer only the sequence of typed tokens matters ---- *)
Theorem C16_positions_variables : forall line1 line2 (vs : vars F) st1 st2, same_state st1 st2 ->
  rel_res (rel_option same_state) (update_token_variables line1 vs st1) (update_token_variables line2 vs st2).
Proof. exact update_token_variables_sim. Qed.

Theorem C16_positions_units : forall fuel line1 line2 cfg (vs : vars F) st1 st2, same_state st1 st2 ->
  rel_res (rel_option same_state) (dyn_loop fuel line1 cfg vs st1) (dyn_loop fuel line2 cfg vs st2).
Proof. exact dyn_loop_sim. Qed.

Theorem C16_positions_call_rule : forall bexec yr cfg lang (vs : vars F) fname fs1 fs2, fields_sim fs1 fs2 ->
  call_rule bexec yr cfg lang vs fname fs1 = call_rule bexec yr cfg lang vs fname fs2.
Proof. exact call_rule_sim. Qed.

Theorem C16_positions_rules : forall bexec yr fuel line1 line2 cfg lang (vs : vars F) st1 st2, same_state st1 st2 ->
  rel_res (rel_option same_state) (rule_tokinizer bexec yr fuel line1 cfg lang vs st1)
                                  (rule_tokinizer bexec yr fuel line2 cfg lang vs st2).
Proof. exact rule_tokinizer_sim. Qed.

Theorem C16_positions_token_list : forall (l1 l2 : list (token_info F)) ts, same_tokens l1 l2 ->
  token_generator l1 = token_generator l2 /\ token_cleaner l1 ts = token_cleaner l2 ts.
Proof. intros l1 l2 ts H. split; [apply token_generator_sim, H|apply token_cleaner_sim, H]. Qed.

(* Api.tokinize = lexer ; post_lexer, and post_lexer reads the line for highlighting only *)
Theorem C16_tokinize_split : forall lx ck (cfg : config F) lang vs line,
  tokinize lx ck cfg lang vs line = bind (lexed lx ck cfg lang line) (post_lexer lx ck cfg lang vs line).
Proof. exact tokinize_split. Qed.

Theorem C16_positions_irrelevant : forall lx ck (cfg : config F) lang vs line1 line2 st1 st2, same_state st1 st2 ->
  rel_res tok_sim (post_lexer lx ck cfg lang vs line1 st1) (post_lexer lx ck cfg lang vs line2 st2).
Proof. exact post_lexer_sim. Qed.

(* two lines whose lexed token_infos agree in type and status evaluate to the same value (or error), leave the same
   variables and panic alike - up to the panic of the highlighting bookkeeping *)
Theorem C16_positions_execute_text : forall lx ck (cfg : config F) lang vs line1 line2,
  line1 <> [] -> line2 <> [] ->
  rel_res same_state (lexed lx ck cfg lang line1) (lexed lx ck cfg lang line2) ->
  rel_res exec_sim (execute_text lx ck cfg lang vs line1) (execute_text lx ck cfg lang vs line2).
Proof. exact execute_text_sim. Qed.

(* ---- the comparisons of the keyword classes ---- *)
(* connectives and variable names: literal words of rule patterns / variable definitions against words of the line *)
Theorem C16_case_token_match : forall a a' (r : token F), same_lower a a' ->
  token_match (TText a) r = token_match (TText a') r /\ token_match r (TText a) = token_match r (TText a').
Proof. intros a a' r H. split; [apply token_match_same_lower_l, H|apply token_match_same_lower_r, H]. Qed.

(* {TEXT:name:word} and {GROUP:name:group} fields (to in as into; unix; date ...) *)
Theorem C16_case_field_compare : forall a a' f, same_lower a a' ->
  token_field_compare (TText a : token F) f = token_field_compare (TText a' : token F) f.
Proof. exact field_compare_same_lower. Qed.

(* a word of the line against ANY rule / unit pattern token (rule loop, unit recognition) *)
Theorem C16_case_info_eq : forall (t t' p : token_info F) a a', same_lower a a' ->
  ti_ty t = Some (TText a) -> ti_ty t' = Some (TText a') -> ti_active t = ti_active t' ->
  info_eq t p = info_eq t' p.
Proof. exact info_eq_same_lower. Qed.

(* variable names: use side (a word of the line) and definition side (a word of the stored name tokens) *)
Theorem C16_case_variable_use : forall (t t' : token_info F) p a a', same_lower a a' ->
  ti_ty t = Some (TText a) -> ti_ty t' = Some (TText a') -> info_eq_token t p = info_eq_token t' p.
Proof. exact info_eq_token_same_lower. Qed.

Theorem C16_case_variable_definition : forall (t : token_info F) a a', same_lower a a' ->
  info_eq_token t (TText a) = info_eq_token t (TText a').
Proof. exact info_eq_token_same_lower_pat. Qed.

Theorem C16_case_variable_symbol : forall (vs : vars F) (p : token_info F) a a', same_lower a a' ->
  variable_compare vs p (ASymbol a) = variable_compare vs p (ASymbol a').
Proof. exact variable_compare_same_lower. Qed.

(* currency codes and aliases *)
Theorem C16_case_currency : forall (cfg : config F) a a', same_lower a a' -> read_currency cfg a = read_currency cfg a'.
Proof. exact read_currency_same_lower. Qed.

(* word operators and other aliases (times, minus, euro): matched on the lower-cased token text *)
Theorem C16_case_alias : forall lx today (cfg : config F) aliases (t t' : token_info F),
  same_lower (ti_text t) (ti_text t') -> ti_ty t = ti_ty t' -> ti_active t = ti_active t' ->
  rel_exact same_tok (alias_apply lx today cfg aliases t) (alias_apply lx today cfg aliases t').
Proof. exact alias_apply_same_lower. Qed.

(* month names: the month parser sees the lower-cased line; zone names: the zone parser sees the upper-cased line *)
Theorem C16_case_month : forall lx (cfg : config F) lang line line', to_lowercase line = to_lowercase line' ->
  forall st st', same_infos st st' ->
  rel_exact same_infos (month_parser lx cfg lang line st) (month_parser lx cfg lang line' st').
Proof. exact month_parser_reads_lowercase. Qed.

Theorem C16_case_zone : forall today (cfg : config F) lang line line' regexes, to_uppercase line = to_uppercase line' ->
  forall st st', same_infos st st' ->
  rel_exact same_infos (run_parser today cfg lang line (s "timezone") regexes st)
                       (run_parser today cfg lang line' (s "timezone") regexes st').
Proof. exact timezone_parser_reads_uppercase. Qed.

End WithNum.

(* ---- blank-only and comment-only lines (finite families through the whole model) ---- *)
Theorem C16_blank_only : blank_only_upto 80 = true.
Proof. exact blank_only_80. Qed.

Theorem C16_comment_only : comment_only_all = true.
Proof. exact comment_only_family. Qed.

Theorem C16_noise_between_lines :
  values "en" "v = 7
   
# v = 9
v * 3
  # march
v + 1" = Some [Some (inr (AItem (INumber 7%float Decimal))); None; None; Some (inr (AItem (INumber 21%float Decimal))); None;
               Some (inr (AItem (INumber 8%float Decimal)))].
Proof. exact noise_between. Qed.

(* ---- original vs rewritten lines through the whole model ---- *)
Local Open Scope string_scope.

Theorem C16_pipeline_arith :
  agree "en" "3 + 4 * 2" ["3  +   4 *  2"; "  3 + 4 * 2   "; "3 + 4 * 2 # 5 + 3"; "3 + 4 * 2# march 2020"; "3+4*2";
                          " 3+4 *2  #  x = 9"] /\
  agree "en" "(1 + 2) * 3" ["( 1 + 2 ) * 3"; "(  1+2  )*3"; "(1 + 2) * 3 # )"; "  ( 1 + 2 )   *   3  "] /\
  agree "en" "2 times 3" ["2 TIMES 3"; "2   Times   3"; "2 times 3 # times"] /\
  agree "en" "8 / 2 - 1" ["8/2-1"; "8 /2 -1"; "8  /  2  -  1   "; "8 / 2 - 1 #- 1"] /\
  agree "en" "0x1F + 1" ["0x1F  +  1"; "0x1F+1"; " 0x1F + 1 # 0x10"] /\
  agree "en" "255 to hex" ["255 TO hex"; "255  To   hex"; "255 to hex # to hex"; "  255 to hex"].
Proof. exact pipeline_arith. Qed.

Theorem C16_pipeline_percent :
  agree "en" "10% of 50" ["10% OF 50"; "10%   Of  50"; "10% of 50 # 50%"; " 10% of 50 "] /\
  agree "en" "10% on 50" ["10% ON 50"; "10%  on   50"; "10% on 50#on"] /\
  agree "en" "10% off 50 usd" ["10% OFF 50 USD"; "10%  oFf  50   Usd"; "10% off 50 usd  # $5"] /\
  agree "en" "50 + 10%" ["50  +  10%"; "50+10%"; "  50 + 10%  "; "50 + 10% # 1k"] /\
  agree "en" "10 is what % of 50" ["10 IS WHAT % OF 50"; "10 Is  What  %  oF 50"; "10 is what%of 50"; "10 is what % of 50 # of what"] /\
  agree "en" "5 is 10% of what" ["5 IS 10% OF WHAT"; "5  is  10%  of  what  "; "5 is 10% of what #what"].
Proof. exact pipeline_percent. Qed.

Theorem C16_pipeline_money :
  agree "en" "10 usd" ["10 USD"; "10 Usd"; "10    usd"; " 10 usd # usd"; "10 uSD  "] /\
  agree "en" "10 dollar" ["10 DOLLAR"; "10 Dollar"; "10   dollar"] /\
  agree "en" "10 usd to try" ["10 USD TO TRY"; "10 Usd tO tRy"; "10  usd   to  try"; "10 usd to try # 10 usd to try";
                              "   10 usd to try"; "10 usd to Tl"; "10 usd IN try"] /\
  agree "en" "10 usd + 5 eur" ["10 USD + 5 EUR"; "10 usd+5 eur"; "10  usd  +  5  euro"; "10 usd + 5 eur #+"] /\
  agree "en" "$10 + 5%" ["$10  +  5%"; " $10 + 5% "; "$10 + 5% # $5"] /\
  agree "en" "10 euro as usd" ["10 EURO AS USD"; "10 Euro  As  Usd"; "10 euro as usd # euro"].
Proof. exact pipeline_money. Qed.

Theorem C16_pipeline_dates :
  agree "en" "3 march 2020" ["3 MARCH 2020"; "3 March 2020"; "3   mArCh   2020"; "3 march 2020 # march 2020"; "  3 march 2020  ";
                             "3 march 2020#jan"] /\
  agree "en" "march 3, 2020" ["MARCH 3, 2020"; "March   3,   2020"; "march 3, 2020 # ,"] /\
  agree "en" "3/4/2020" ["3 / 4 / 2020"; "3/ 4 /2020"; " 3/4/2020 # /"] /\
  agree "en" "3 march 2020 + 5 days" ["3 MARCH 2020 + 5 days"; "3  march  2020  +  5  days"; "3 march 2020+5 days";
                                      "3 march 2020 + 5 days # - 1"] /\
  agree "en" "3 march 2020 - 2 months" ["3 Mar 2020 - 2 months"; "3 march 2020   -   2 months"; "3 march 2020 - 2 months #jan"] /\
  agree "en" "1 jan 2020 to 5 feb 2020" ["1 JAN 2020 TO 5 FEB 2020"; "1 Jan 2020   To   5 Feb 2020"; "1 jan 2020 to 5 feb 2020 # to"] /\
  agree "en" "5 march 2020 at 12:30" ["5 MARCH 2020 AT 12:30"; "5 march 2020   At   12:30"; "5 march 2020 at 12:30 # at"] /\
  agree "en" "17 jul" ["17 JUL"; "17   Jul"; "17 jul # 2020"; "  17 jul"].
Proof. exact pipeline_dates. Qed.

Theorem C16_pipeline_times :
  agree "en" "12:30 est" ["12:30 EST"; "12:30 Est"; "12:30    eSt"; "12:30 est # gmt"; " 12:30 est "] /\
  agree "en" "12:30 EST to GMT" ["12:30 est to gmt"; "12:30 Est TO Gmt"; "12:30  EST   to   GMT"; "12:30 EST to GMT # cet";
                                 "12:30 EST in GMT"; "12:30 EST As gmt"] /\
  agree "en" "12:30 gmt+3" ["12:30 GMT+3"; "12:30   Gmt+3"; "12:30 gmt+3 # GMT+3"] /\
  agree "en" "12:30 to 14:00" ["12:30 TO 14:00"; "12:30   to   14:00"; "12:30 to 14:00 # 12:30 pm"] /\
  agree "en" "3 pm + 2 hours" ["3 pm  +  2 hours"; "3 pm+2 hours"; "  3 pm + 2 hours  # 3 pm"] /\
  agree "en" "1600000000 to date" ["1600000000 TO DATE"; "1600000000   To   Date"; "1600000000 to date # date"] /\
  agree "en" "1600000000 to est" ["1600000000 TO EST"; "1600000000 to Est"; "1600000000  to  est  "] /\
  agree "en" "12:30 est to unix" ["12:30 EST TO UNIX"; "12:30 est  To  Unix"; "12:30 est to unix # unix"].
Proof. exact pipeline_times. Qed.

Theorem C16_pipeline_durations_units :
  agree "en" "1 hour 5 minutes" ["1  hour   5  minutes"; "  1 hour 5 minutes  "; "1 hour 5 minutes # 2 hours"] /\
  agree "en" "3 days + 1 week" ["3 days  +  1 week"; "3 days+1 week"; "3 days + 1 week #week"] /\
  agree "en" "2 hours as minutes" ["2 hours AS minutes"; "2 hours   As   minutes"; "2 hours TO minutes"; "2 hours as minutes # as"] /\
  agree "en" "10 km to m" ["10 km TO m"; "10 km   To   m"; "10  km  to  m"; "10 km to m # cm"; "10 km INTO m"] /\
  agree "en" "5 kb to mb" ["5 kb TO mb"; "5   kb   to   mb  "; "5 kb to mb#gb"] /\
  agree "en" "10 km + 5 m" ["10 km  +  5 m"; "10 km+5 m"; " 10 km + 5 m # m"].
Proof. exact pipeline_durations_units. Qed.

Theorem C16_pipeline_variables :
  agree "en" "x = 3
x + 1" ["X = 3
x + 1"; "x = 3
X + 1"; "x=3
x+1"; "  x  =  3  
  x  +  1  "; "x = 3 # x = 9
x + 1 # x"] /\
  agree "en" "my var = 10 usd
my var to try
my var + 5%" ["My Var = 10 usd
my var to try
MY VAR + 5%"; "my var = 10 USD
my var TO Try
my var + 5%"; "my   var   =   10 usd
my  var  to  try
my var  +  5%"; "my var = 10 usd # my var
my var to try # try
my var + 5% # 5%"] /\
  agree "en" "price = 12:30 est
price to gmt" ["PRICE = 12:30 EST
Price To Gmt"; "price=12:30 est
  price   to   gmt  # est"] /\
  agree "en" "d = 3 march 2020
d + 2 days" ["d = 3 MARCH 2020
D + 2 days"; "d  =  3  march  2020   # march
d+2 days"].
Proof. exact pipeline_variables. Qed.

Theorem C16_pipeline_tr :
  agree "tr" "10 usd try" ["10 USD TRY"; "10   Usd   Try"; "10 usd try # try"] /\
  agree "tr" "5 mart 2020" ["5 MART 2020"; "5   Mart   2020"; "5 mart 2020 # mart"; "  5 mart 2020 "] /\
  agree "tr" "5 mart 2020 + 3 hafta" ["5 MART 2020 + 3 hafta"; "5 mart 2020+3 hafta"; "5  mart  2020  +  3  hafta # ay"] /\
  agree "tr" "3 kere 4" ["3 KERE 4"; "3   Kere   4"; "3 kere 4 # kere"] /\
  agree "tr" "50 + 10%" ["50+10%"; "  50  +  10%  # 5"].
Proof. exact pipeline_tr. Qed.

(* ---- known finding C16-K2: a sign directly in front of a digit is read into the literal; the date - duration
        consequence (was C16-K1) is repaired in /repo acb6397 and is a positive example here ---- *)
Theorem C16_sign_in_literal_refuted :
  values "en" "1600000000+60 to date" <> values "en" "1600000000 + 60 to date" /\
  evaluates "en" "1600000000+60 to date" = true /\
  values "en" "5+3 km" <> values "en" "5 + 3 km" /\ evaluates "en" "5+3 km" = true /\
  agree "en" "12 jul 1997-5 days" ["12 jul 1997 - 5 days"] /\ agree "en" "10 usd-5 usd" ["10 usd - 5 usd"] /\
  agree "en" "12 jul 1997-1 year" ["12 jul 1997 - 1 year"; "12 jul 1997 + -1 year"] /\
  agree "en" "12 jul 1997-1 month" ["12 jul 1997 - 1 month"] /\ agree "en" "5 jan 2020-1 month" ["5 jan 2020 - 1 month"] /\
  agree "en" "3/4/1991-19 weeks" ["3 / 4 / 1991 - 19 weeks"] /\
  agree "en" "12:30-2 hours" ["12:30 - 2 hours"] /\ agree "en" "8-2*3" ["8 - 2 * 3"].
Proof. exact sign_in_literal_refuted. Qed.

(* words outside the classes the statement lists are compared as written; a blank inside a literal is not between tokens *)
Theorem C16_unlisted_classes_case_sensitive :
  values "en" "1 Hour 5 Minutes" <> values "en" "1 hour 5 minutes" /\
  values "en" "100 to Hex" <> values "en" "100 to hex" /\
  values "en" "5 kb to MB" <> values "en" "5 kb to mb" /\
  values "en" "Today" <> values "en" "today" /\
  values "en" "3  pm" <> values "en" "3 pm".
Proof. exact unlisted_classes_case_sensitive. Qed.

(* ---- the full statement, and what of it is proved ---- *)
(* [Rewriting line line'] is left abstract: any relation between an evaluable line and a line obtained from it by the
   rewritings of the statement.  The full property is FullC16 below.  Proved here: it follows for every pair of lines
   whose LEXED token_infos agree in type and status (C16_full_partial) - so the whole property is reduced to the lexical
   step `Rewriting line line' -> lexed lines agree`, which is not proved (tie + families above) and is FALSE for the
   sign-in-literal cases of C16_sign_in_literal_refuted. *)
Definition FullC16 {F} {NF : Num F} (Rewriting : str -> str -> Prop) : Prop :=
  forall lx ck (cfg : config F) lang vs line line', Rewriting line line' ->
  rel_res exec_sim (execute_text lx ck cfg lang vs line) (execute_text lx ck cfg lang vs line').

Theorem C16_full_partial : forall {F} {NF : Num F} (Rewriting : str -> str -> Prop),
  (forall line line', Rewriting line line' -> line <> [] /\ line' <> [] /\
     forall lx ck (cfg : config F) lang, rel_res same_state (lexed lx ck cfg lang line) (lexed lx ck cfg lang line')) ->
  FullC16 Rewriting.
Proof.
  intros F NF Rewriting Hlex lx ck cfg lang vs line line' HR.
  destruct (Hlex line line' HR) as (N1 & N2 & Hl). apply execute_text_sim; [exact N1|exact N2|apply Hl].
Qed.

(* a line of blanks of ANY length produces no token at all and evaluates to nothing: the unbounded
   form of C16_blank_only (Proofs/RegexNeeds.v: every regex of every parser except whitespace,
   and every month regex, needs a non-blank character - a finite table over the regenerated
   regexes plus a once-proved soundness lemma of the analysis against the matcher) *)
Theorem C16_blank_line_no_tokens : forall (F : Type) (NF : Num F) (today : Z) (cfg : config F) (lang line : str),
  blank_line line ->
  language_tokinizer LX cfg lang line empty_state = Ok empty_state /\
  regex_tokinizer LX today cfg lang line empty_state = Ok empty_state /\
  token_infos LX today cfg lang line = Ok [].
Proof. exact @blank_line_no_tokens. Qed.

Theorem C16_blank_line_evaluates_to_nothing : forall (F : Type) (NF : Num F) (ck : clock) (cfg : config F) (lang : str) (vs : vars F) (line : str),
  blank_line line -> cfg_rules_nonempty cfg -> cfg_units_nonempty cfg -> vars_nonempty vs ->
  execute_text LX ck cfg lang vs line = Ok (None, vs).
Proof. exact @blank_line_evaluates_to_nothing. Qed.

Print Assumptions C16_blank_line_no_tokens.
Print Assumptions C16_blank_line_evaluates_to_nothing.
Print Assumptions C16_untyped_whitespace.
Print Assumptions C16_untyped_comment.
Print Assumptions C16_untyped_dropped_by_cleanup.
Print Assumptions C16_untyped_dropped.
Print Assumptions C16_untyped_skipped.
Print Assumptions C16_positions_variables.
Print Assumptions C16_positions_units.
Print Assumptions C16_positions_call_rule.
Print Assumptions C16_positions_rules.
Print Assumptions C16_positions_token_list.
Print Assumptions C16_tokinize_split.
Print Assumptions C16_positions_irrelevant.
Print Assumptions C16_positions_execute_text.
Print Assumptions C16_case_token_match.
Print Assumptions C16_case_field_compare.
Print Assumptions C16_case_info_eq.
Print Assumptions C16_case_variable_use.
Print Assumptions C16_case_variable_definition.
Print Assumptions C16_case_variable_symbol.
Print Assumptions C16_case_currency.
Print Assumptions C16_case_alias.
Print Assumptions C16_case_month.
Print Assumptions C16_case_zone.
Print Assumptions C16_blank_only.
Print Assumptions C16_comment_only.
Print Assumptions C16_noise_between_lines.
Print Assumptions C16_pipeline_arith.
Print Assumptions C16_pipeline_percent.
Print Assumptions C16_pipeline_money.
Print Assumptions C16_pipeline_dates.
Print Assumptions C16_pipeline_times.
Print Assumptions C16_pipeline_durations_units.
Print Assumptions C16_pipeline_variables.
Print Assumptions C16_pipeline_tr.
Print Assumptions C16_sign_in_literal_refuted.
Print Assumptions C16_unlisted_classes_case_sensitive.
Print Assumptions C16_full_partial.
