(* Property C06 - money literals, currency conversion and money arithmetic follow the rate table.
   STATEMENTS ONLY (proofs: Proofs/C06.v).  Model functions: RuleFns.convert_money / read_currency /
   get_money / get_currency (the conversion rule and its field accessors), Items.calculate on IMoney
   with Items.convert_currency / rate_of (MoneyItem::calculate), Corr.step / Corr.run on
   OUpdateCurrency and OExec (SmartCalc::update_currency, SmartCalc::execute), Run64.default_config
   (the configuration loaded from the regenerated tables Gen/ConfigData.v).
   Spec: Spec/Money.v (conv, upd, request, table_after, last_write).
   Definitions used below and made in Proofs/C06.v: state_after (fold of step), updates_of / resolved
   (the update requests of a history / the accepted ones by currency code), money_fields (the two
   fields the conversion rule binds), table_codes, qconfig (the tables over exact rationals), ev (value of
   the single result line of Api.execute on default_config), plain_spellings / suffix_spellings /
   through_rate / alias_literal_ok / pair_ok / conversion_words / rated_codes (the finite end-to-end
   tables), example_history / brief.

   KNOWN FINDINGS (known_findings.json; refuted witnesses: C06_literal_limits).  The conversion, arithmetic
   and history theorems are unrestricted.  The literal clause ("every literal spelling") is restricted:
   - C06-K1 class C06-suffix-symbol-drops-rest: C06_alias_literals states the form amount+suffix+blank+symbol
     (`3M <symbol>`) only as a whole line; followed by anything, the rest of the line is dropped
     (C06_literal_limits, conjuncts 1-2).  C06_money_body_token shows why: the token ends at the suffix.
   - C06-K2 class C06-symbol-not-alias: C06_alias_literals quantifies over the one-character keys of
     currency_alias only ($, EUR and TRY signs); any other currency symbol of the table is not denotable
     (C06_literal_limits, conjunct 3; C06_money_body_declines: read_currency refuses it).
   - C06-K3 class C06-nonlatin-alias: C06_alias_literals covers an alias as a literal only when it is
     ASCII letters (is_word) or one character; the Cyrillic alias resolves by name (C06_alias_resolves,
     conjunct 5 of C06_literal_limits) but never lexes in a literal (conjunct 4).
   - C06-K4 class C06-code-is-timezone: C06_literal_suffix_spellings assumes
     assoc_mem code (cf_timezones default_config) = false (TMT, WST excluded; conjuncts 6-7);
     C06_all_pairs_executed ranges over the rated codes of the table, none of which is a time-zone name
     (C06_reachable_all_pairs is about the rule function, not the lexer, and is unrestricted). *)
From Coq Require Import QArith Qcanon Floats.
From SC.Model Require Import Base Num NumF64 NumQ Types Config Case Chrono Parser RuleFns Items UiTokens Regex Rx Rules Lexer Api Run64 Corr.
From SC.Spec Require Import Money.
From SC.Gen Require Import RustConsts ConfigData Regexes.
From SC.Proofs Require Import RegexLemmas RegexNeeds.
From SC.Proofs Require Import C06.

(* ---------- the conversion rule ---------- *)

(* exact characterisation for every number algebra: the rule fires iff the money field, the
   target currency and both rates are there, and then computes (a / rA) * rB with the guarded
   division, in this order (this fixes the binary64 reading), in the target currency *)
Theorem C06_convert_exact : forall (G : Type) (NG : Num G) (cfg : config G) (vs : vars G) (fs : fields G),
  convert_money cfg vs fs =
  match get_money vs (s "money") fs, get_currency cfg vs (s "currency") fs with
  | Some (a, A), Some B =>
    match rate_of cfg A, rate_of cfg B with
    | Some rA, Some rB => Ok (Some (TMoney (fmul (do_division a rA) rB) B))
    | _, _ => Ok None
    end
  | _, _ => Ok None
  end.
Proof. exact (@convert_money_exact). Qed.

(* over exact rationals: all amounts, all configurations, all pairs of currencies with a rate
   (non-zero for the source): the result is a * rate(B) / rate(A) in currency B *)
Theorem C06_convert : forall (cfg : config Qc) (vs : vars Qc) fs (a : Qc) A B rA rB,
  get_money vs (s "money") fs = Some (a, A) ->
  get_currency cfg vs (s "currency") fs = Some B ->
  rate_of cfg A = Some rA -> rate_of cfg B = Some rB -> rA <> Q2Qc 0 ->
  convert_money cfg vs fs = Ok (Some (TMoney (conv rA rB a) B)).
Proof. exact convert_money_Q. Qed.

(* the identity when A = B *)
Theorem C06_convert_id : forall (cfg : config Qc) (vs : vars Qc) fs (a : Qc) A rA,
  get_money vs (s "money") fs = Some (a, A) ->
  get_currency cfg vs (s "currency") fs = Some A ->
  rate_of cfg A = Some rA -> rA <> Q2Qc 0 ->
  convert_money cfg vs fs = Ok (Some (TMoney a A)).
Proof. exact convert_money_Q_id. Qed.

(* ---------- money arithmetic ---------- *)

(* every number algebra: + and - convert the RIGHT operand into the LEFT currency and keep the left
   currency; * and / by a number keep the currency; money / money is a plain number *)
Theorem C06_arith_ops : forall (G : Type) (NG : Num G) (bexec : config G -> str -> res (option G))
    (cfg : config G) (a : G) A (b : G) B (n : G) nt,
  calculate bexec cfg (IMoney a A) (IMoney b B) OAdd = Ok (Some (IMoney (fadd a (convert_currency cfg A b B)) A)) /\
  calculate bexec cfg (IMoney a A) (IMoney b B) OSub = Ok (Some (IMoney (fsub a (convert_currency cfg A b B)) A)) /\
  calculate bexec cfg (IMoney a A) (IMoney b B) ODiv = Ok (Some (INumber (do_division a (convert_currency cfg A b B)) Decimal)) /\
  calculate bexec cfg (IMoney a A) (INumber n nt) OMul = Ok (Some (IMoney (fmul a n) A)) /\
  calculate bexec cfg (IMoney a A) (INumber n nt) ODiv = Ok (Some (IMoney (do_division a n) A)).
Proof. exact (@money_calc_ops). Qed.

Theorem C06_convert_currency_ops : forall (G : Type) (NG : Num G) (cfg : config G) A (b : G) B rA rB,
  rate_of cfg A = Some rA -> rate_of cfg B = Some rB ->
  convert_currency cfg A b B = fmul (do_division b rB) rA.
Proof. exact (@convert_currency_ops). Qed.

(* over exact rationals: the table of the statement *)
Theorem C06_arith : forall bexec (cfg : config Qc) (a : Qc) A (b : Qc) B rA rB (n : Qc) nt,
  rate_of cfg A = Some rA -> rate_of cfg B = Some rB -> rB <> Q2Qc 0 ->
  calculate bexec cfg (IMoney a A) (IMoney b B) OAdd = Ok (Some (IMoney (a + conv rB rA b)%Qc A)) /\
  calculate bexec cfg (IMoney a A) (IMoney b B) OSub = Ok (Some (IMoney (a - conv rB rA b)%Qc A)) /\
  calculate bexec cfg (IMoney a A) (IMoney b B) ODiv = Ok (Some (INumber (a / conv rB rA b)%Qc Decimal)) /\
  calculate bexec cfg (IMoney a A) (INumber n nt) OMul = Ok (Some (IMoney (a * n)%Qc A)) /\
  calculate bexec cfg (IMoney a A) (INumber n nt) ODiv = Ok (Some (IMoney (a / n)%Qc A)).
Proof. exact money_calc_Q. Qed.

(* ---------- rate updates and histories ---------- *)

(* the model of BTreeMap::insert changes exactly the key inserted *)
Theorem C06_assoc_insert : forall (A : Type) k k0 (v : A) l,
  assoc k0 (assoc_insert k v l) = if str_eqb k0 k then Some v else assoc k0 l.
Proof. exact (@assoc_insert_spec). Qed.

(* an accepted update changes the rate of exactly that currency and nothing else in the state *)
Theorem C06_update_accepted : forall ck m name r X,
  read_currency (m_cfg m) name = Some X ->
  let m' := fst (step ck m (OUpdateCurrency name r)) in
  snd (step ck m (OUpdateCurrency name r)) = MRet (Some true) /\
  rate_of (m_cfg m') X = Some r /\
  (forall Y, Y <> X -> rate_of (m_cfg m') Y = rate_of (m_cfg m) Y) /\
  m_cfg m' = set_rates (m_cfg m) (assoc_insert X r (cf_rates (m_cfg m))) /\
  m_sessions m' = m_sessions m.
Proof. exact update_accepted. Qed.

(* update_currency returns false exactly for unknown names, and then changes nothing *)
Theorem C06_update_refused : forall ck m name r,
  read_currency (m_cfg m) name = None ->
  step ck m (OUpdateCurrency name r) = (m, MRet (Some false)).
Proof. exact update_refused. Qed.

Theorem C06_update_false_iff : forall ck m name r,
  snd (step ck m (OUpdateCurrency name r)) = MRet (Some false) <-> read_currency (m_cfg m) name = None.
Proof. exact update_returns_false_iff. Qed.

(* evaluation never changes the calculator and reads the configuration of its state *)
Theorem C06_exec_keeps_state : forall ck m lang text,
  fst (step ck m (OExec lang text)) = m /\
  fst (step ck m (OExecFresh lang text)) = m /\
  snd (step ck m (OExec lang text)) =
    match execute LX ck (m_cfg m) lang text with Ok r => MRes r | Panic st => MPanic st end.
Proof. exact exec_keeps_state. Qed.

Theorem C06_exec_session_keeps_cfg : forall ck m sid, m_cfg (fst (step ck m (OExecSession sid))) = m_cfg m.
Proof. exact exec_session_keeps_cfg. Qed.

(* operations other than update_currency change neither the rates nor the currency tables *)
Theorem C06_other_ops_keep_rates : forall ck m o,
  (forall name r, o <> OUpdateCurrency name r) ->
  cf_rates (m_cfg (fst (step ck m o))) = cf_rates (m_cfg m) /\
  cf_currency (m_cfg (fst (step ck m o))) = cf_currency (m_cfg m) /\
  cf_currency_alias (m_cfg (fst (step ck m o))) = cf_currency_alias (m_cfg m).
Proof. exact other_ops_keep_rates. Qed.

(* the names update_currency and the lexer understand never change *)
Theorem C06_names_after : forall ck ops m n,
  read_currency (m_cfg (state_after ck m ops)) n = read_currency (m_cfg m) n.
Proof. exact read_currency_after. Qed.

(* ALL histories (any operations of the protocol): the rate table is the fold of the accepted
   updates over the model's BTreeMap insert ... *)
Theorem C06_rates_after_fold : forall ck ops m,
  cf_rates (m_cfg (state_after ck m ops)) =
  fold_left (fun l u => assoc_insert (fst u) (snd u) l) (resolved (m_cfg m) ops) (cf_rates (m_cfg m)).
Proof. exact rates_after_fold. Qed.

(* ... and, read as a function from codes to rates, it is the reference table of Spec/Money.v *)
Theorem C06_rates_after : forall ck ops m Y,
  rate_of (m_cfg (state_after ck m ops)) Y =
  table_after (read_currency (m_cfg m)) (rate_of (m_cfg m)) (updates_of ops) Y.
Proof. exact rates_after. Qed.

(* the reference table: the last accepted request for a currency wins, a currency no accepted
   request names keeps its rate *)
Theorem C06_table_last_write : forall (R : Type) resolve (us : list (str * R)) t Y,
  table_after resolve t us Y = match last_write resolve Y us None with Some r => Some r | None => t Y end.
Proof. exact (@table_after_last_write). Qed.

Theorem C06_last_write_wins : forall ck m pre name r post X,
  read_currency (m_cfg m) name = Some X ->
  (forall n' r' X', In (n', r') (updates_of post) -> read_currency (m_cfg m) n' = Some X' -> X' <> X) ->
  rate_of (m_cfg (state_after ck m (pre ++ OUpdateCurrency name r :: post))) X = Some r.
Proof. exact last_write_wins. Qed.

Theorem C06_untouched : forall ck m ops Y,
  (forall n r X, In (n, r) (updates_of ops) -> read_currency (m_cfg m) n = Some X -> X <> Y) ->
  rate_of (m_cfg (state_after ck m ops)) Y = rate_of (m_cfg m) Y.
Proof. exact untouched. Qed.

(* what is observed at a position of a history (Corr.run) *)
Theorem C06_update_in_history : forall ck m pre name r post,
  run ck m (pre ++ OUpdateCurrency name r :: post) =
  run ck m pre ++
  MRet (Some (match read_currency (m_cfg m) name with Some _ => true | None => false end)) ::
  run ck (state_after ck m (pre ++ [OUpdateCurrency name r])) post.
Proof. exact update_in_history. Qed.

Theorem C06_exec_in_history : forall ck m pre lang text post,
  run ck m (pre ++ OExec lang text :: post) =
  run ck m pre ++
  (match execute LX ck (m_cfg (state_after ck m pre)) lang text with Ok r => MRes r | Panic st => MPanic st end) ::
  run ck (state_after ck m pre) post.
Proof. exact exec_in_history. Qed.

(* histories of rate updates and evaluations only: the whole state *)
Theorem C06_money_history_state : forall ck ops m, money_history ops = true ->
  state_after ck m ops =
  with_cfg m (set_rates (m_cfg m)
               (fold_left (fun l u => assoc_insert (fst u) (snd u) l) (resolved (m_cfg m) ops) (cf_rates (m_cfg m)))).
Proof. exact money_history_state. Qed.

(* ---------- the regenerated tables ---------- *)

Theorem C06_default_tables :
  cf_currency default_config = d_currency /\ cf_currency_alias default_config = d_currency_alias /\
  cf_rates default_config = d_rates.
Proof. exact default_tables. Qed.

(* every currency of the table is found under its code written in any letter case *)
Theorem C06_code_any_case : forall code name,
  In code (table_codes default_config) ->
  to_lowercase name = to_lowercase code ->
  read_currency default_config name = Some code.
Proof. exact code_found_any_case. Qed.

Theorem C06_code_lower_upper : forall code,
  In code (table_codes default_config) ->
  read_currency default_config (to_lowercase code) = Some code /\
  read_currency default_config (to_uppercase code) = Some code /\
  read_currency default_config code = Some code.
Proof. exact code_found_lower_upper. Qed.

(* every currency that has a rate is a currency of the table *)
Theorem C06_rated_any_case : forall A name,
  rate_of default_config A <> None ->
  to_lowercase name = to_lowercase A ->
  read_currency default_config name = Some A.
Proof. exact rated_found_any_case. Qed.

(* every alias resolves to a currency of the table that has a rate *)
Theorem C06_alias_resolves : forall al key,
  In (al, key) (cf_currency_alias default_config) ->
  exists cur, assoc key (cf_currency default_config) = Some cur /\
              read_currency default_config al = Some (c_code cur) /\
              read_currency default_config (to_uppercase al) = Some (c_code cur) /\
              rate_of default_config (c_code cur) <> None.
Proof. exact alias_resolves. Qed.

(* all rates are finite and positive at binary64, non-zero as exact decimals *)
Theorem C06_rates_finite_positive : forall A r,
  rate_of default_config A = Some r -> fcls r = FFinite /\ fltb f0 r = true.
Proof. exact rates_finite_positive. Qed.

Theorem C06_rates_nonzero_Q : forall A r, rate_of qconfig A = Some r -> r <> Q2Qc 0.
Proof. exact q_rates_nonzero. Qed.

(* all ordered pairs of rated currencies of the table, all amounts, the target currency written
   in any letter case: exact rationals (the formula) and binary64 (the operation sequence) *)
Theorem C06_all_pairs : forall (vs : vars Qc) (a : Qc) A B rA rB name,
  rate_of qconfig A = Some rA -> rate_of qconfig B = Some rB ->
  to_lowercase name = to_lowercase B ->
  convert_money qconfig vs (money_fields a A name) = Ok (Some (TMoney (conv rA rB a) B)).
Proof. exact all_pairs_Q. Qed.

Theorem C06_all_pairs_f64 : forall (vs : vars float) (a : float) A B rA rB name,
  rate_of default_config A = Some rA -> rate_of default_config B = Some rB ->
  to_lowercase name = to_lowercase B ->
  convert_money default_config vs (money_fields a A name)
  = Ok (Some (TMoney (fmul (do_division a rA) rB) B)).
Proof. exact all_pairs_f64. Qed.

(* ... and in every state reachable from the initial one by any history, with the rates current
   at that point (a currency that received its first rate by an update included) *)
Theorem C06_reachable_all_pairs : forall ck ops (vs : vars float) (a : float) A B rA rB name,
  let cfg := m_cfg (state_after ck init_state ops) in
  rate_of cfg A = Some rA -> rate_of cfg B = Some rB ->
  to_lowercase name = to_lowercase B ->
  convert_money cfg vs (money_fields a A name) = Ok (Some (TMoney (fmul (do_division a rA) rB) B)).
Proof. exact reachable_all_pairs. Qed.

(* ---------- literals ---------- *)

(* the money regex parser, every number algebra: a capture whose PRICE reads as a decimal and whose
   CURRENCY is a name read_currency knows yields the token Money(price x multiplier of the suffix, that
   currency); nothing else yields a token *)
Theorem C06_money_body_token : forall (G : Type) (NG : Num G) (cfg : config G) line c cp st psp price0 csp code b e0,
  cap_name c cp "PRICE" = Some psp ->
  read_decimal cfg (slice line psp) = Some price0 ->
  cap_name c cp "CURRENCY" = Some csp ->
  read_currency cfg (slice line csp) = Some code ->
  cap_get cp 0 = Some (b, e0) ->
  let notation := cap_name c cp "NOTATION" in
  let price := match notation with
               | Some nsp => fmul price0 (notation_mult NOTATION_MONEY (slice line nsp))
               | None => price0 end in
  let e := match notation with Some nsp => snd nsp | None => snd csp end in
  exists st', money_body cfg line c cp st = Ok st' /\
    (collides (ts_infos st) b e = false ->
       ts_infos st' = ts_infos st ++ [{| ti_start := b; ti_end := e; ti_ty := Some (TMoney price code);
                                         ti_text := slice line psp; ti_active := true |}]) /\
    (collides (ts_infos st) b e = true -> st' = st).
Proof. exact (@money_body_token). Qed.

Theorem C06_money_body_declines : forall (G : Type) (NG : Num G) (cfg : config G) line c cp st psp,
  cap_name c cp "PRICE" = Some psp ->
  (read_decimal cfg (slice line psp) = None \/
   cap_name c cp "CURRENCY" = None \/
   (exists csp, cap_name c cp "CURRENCY" = Some csp /\ read_currency cfg (slice line csp) = None)) ->
  money_body cfg line c cp st = Ok st.
Proof. exact (@money_body_declines). Qed.

Theorem C06_money_suffixes : forall (G : Type) (NG : Num G),
  notation_mult NOTATION_MONEY (s "k") = fofZ 1000 /\
  notation_mult NOTATION_MONEY (s "K") = fofZ 1000 /\
  notation_mult NOTATION_MONEY (s "M") = fofZ 1000000 /\
  notation_mult (F:=G) NOTATION_MONEY [] = f1.
Proof. exact (@money_suffixes). Qed.

(* end to end (Api.execute at binary64 on the loaded configuration; `ev text` = the value of the one
   result line): every currency code of the table x the spellings `25 code`, `25code`, `25  CODE`,
   `25CODE`, `-25 code`, `12,5 code`, `1.250,75 CODE` denotes exactly that amount in that currency *)
Theorem C06_literal_spellings : forall code mk x,
  In code (table_codes default_config) -> In (mk, x) plain_spellings ->
  opt_token_exact (ev (mk code)) (Some (TMoney x code)) = true.
Proof. exact literal_spellings. Qed.

(* ... with a suffix (`25k code`, `25K  CODE`, `25M code`): that amount, passed through the rate of
   the currency when it has one ((x / r) * r at binary64), for every code that is not also the name
   of a time zone *)
Theorem C06_literal_suffix_spellings : forall code mk x,
  In code (table_codes default_config) -> assoc_mem code (cf_timezones default_config) = false ->
  In (mk, x) suffix_spellings ->
  opt_token_exact (ev (mk code)) (Some (TMoney (through_rate default_config code x) code)) = true.
Proof. exact literal_suffix_spellings. Qed.

(* every alias made of ASCII letters after the amount (also in upper case, also after a suffix),
   every one-character alias (currency symbol) before and after the amount, with and without suffix *)
Theorem C06_alias_literals : forall kv, In kv (cf_currency_alias default_config) -> alias_literal_ok kv = true.
Proof. exact alias_literals. Qed.

(* end to end: all ordered pairs of rated currencies x every conversion word of English:
   `100 a <word> b` evaluates to Money((100 / rate a) * rate b, B), bit for bit *)
Theorem C06_all_pairs_executed : forall w A B,
  In w conversion_words -> In A rated_codes -> In B rated_codes -> pair_ok w A B = true.
Proof. exact all_pairs_executed. Qed.

Theorem C06_pairs_nonvacuous : (1 <=? length conversion_words)%nat && (2 <=? length rated_codes)%nat = true.
Proof. exact pairs_nonvacuous. Qed.

(* ---------- the money regexes on ALL digit strings ---------- *)
(* Scope of this group.  Universal in the amount digits (unbounded): the forms `digits blanks word`
   (k >= 0 blanks, word in any letter case) and `symbol digits`, at the level of the money parser
   (over_regexes money_body over the five regexes of parse.money, from the empty token state).
   NOT covered universally, only by the finite end-to-end tables above (C06_literal_spellings,
   C06_literal_suffix_spellings, C06_alias_literals) and by the generator: amounts with a sign, a
   decimal or a thousands separator (`12,5`, `1.250,75`), the suffix forms (k K M), a symbol after
   the amount, and the parsers that run after the money parser in regex_tokinizer (the token_infos
   level; the time regex `(hour) ?(am|pm)` and the text / time-zone regexes do match on letter words,
   so the alphabet analysis of RegexNeeds does not silence them). *)
(* Covered form: `ds blanks w` - ds any non-empty string of the digits 0-9 (no sign, no separator),
   any number k >= 0 of blanks (so `25usd` and `25 usd`), w any word of two or more ASCII letters in
   any letter case.  MONEY = the compiled regexes of parse.money regenerated from config.json
   (RegexNeeds.cres_of "money"); digit, blanks: Proofs/RegexNeeds.v; letter: Proofs/C06.v. *)

(* regex level: regex 2 (PRICE blanks CURRENCY) matches exactly once, the whole line, with PRICE = the
   digits and CURRENCY = the word; the other four regexes do not match at all *)
Theorem C06_money_regexes_on_literal : forall (ds w : str) (k : nat),
  ds <> [] -> forallb digit ds = true -> forallb letter w = true -> (2 <= length w)%nat ->
  let n := N.of_nat (length ds) in
  let pw := (n + N.of_nat k)%N in
  let tot := (pw + N.of_nat (length w))%N in
  MONEY = [R1; R2; R3; R4; R5] /\
  caps_iter R2 (ds ++ blanks k ++ w) = [[Some (0%N, tot); Some (0%N, n); Some (pw, tot)]] /\
  caps_iter R1 (ds ++ blanks k ++ w) = [] /\ caps_iter R3 (ds ++ blanks k ++ w) = [] /\
  caps_iter R4 (ds ++ blanks k ++ w) = [] /\ caps_iter R5 (ds ++ blanks k ++ w) = [].
Proof. exact money_regexes_on_literal. Qed.

(* parser level, every number algebra and configuration: from the empty state the money parser adds
   exactly ONE token: Money(x, code) over the whole line, x the decimal reading of the digits and code
   what read_currency makes of the word (infos_shape = start, end, type, text, active of each token) *)
Theorem C06_money_literal_parser : forall (G : Type) (NG : Num G) (cfg : config G) (ds w : str) (k : nat) (x : G) (code : str),
  ds <> [] -> forallb digit ds = true -> forallb letter w = true -> (2 <= length w)%nat ->
  read_decimal cfg ds = Some x -> read_currency cfg w = Some code ->
  infos_shape (over_regexes (money_body cfg (ds ++ blanks k ++ w)) (ds ++ blanks k ++ w) MONEY empty_state)
  = Some [(0%N, (N.of_nat (length ds) + N.of_nat k + N.of_nat (length w))%N, Some (TMoney x code), ds, true)].
Proof. exact (@money_literal_parser). Qed.

(* the regenerated currency table (all of its codes, rated or not; TMT and WST included: class C06-K4
   concerns the later time-zone parser, not the money parser): the code written in ANY mix of cases *)
Theorem C06_money_literal_any_case : forall (ds : str) (k : nat) (name A : str) (x : float),
  ds <> [] -> forallb digit ds = true ->
  forallb letter name = true -> (2 <= length name)%nat ->
  In A (table_codes default_config) -> to_lowercase name = to_lowercase A ->
  read_decimal default_config ds = Some x ->
  infos_shape (over_regexes (money_body default_config (ds ++ blanks k ++ name)) (ds ++ blanks k ++ name) MONEY empty_state)
  = Some [(0%N, (N.of_nat (length ds) + N.of_nat k + N.of_nat (length name))%N, Some (TMoney x A), ds, true)].
Proof. exact money_literal_any_case. Qed.

(* ... in particular in lower and in upper case (that these are words is checked over the table) *)
Theorem C06_money_literal_codes : forall (ds : str) (k : nat) (A : str) (x : float),
  ds <> [] -> forallb digit ds = true -> In A (table_codes default_config) ->
  read_decimal default_config ds = Some x ->
  forall name, name = to_lowercase A \/ name = to_uppercase A ->
  infos_shape (over_regexes (money_body default_config (ds ++ blanks k ++ name)) (ds ++ blanks k ++ name) MONEY empty_state)
  = Some [(0%N, (N.of_nat (length ds) + N.of_nat k + N.of_nat (length name))%N, Some (TMoney x A), ds, true)].
Proof. exact money_literal_codes. Qed.

Theorem C06_money_literal_nonvacuous :
  read_decimal default_config (s "250") = Some 250%float /\ forallb digit (s "0123456789") = true /\
  mem_str (s "USD") (table_codes default_config) = true /\ word_ok (s "usd") = true /\
  length (table_codes default_config) = length (cf_currency default_config).
Proof. exact money_literal_nonvacuous. Qed.

(* Covered form: `c ds` - c a currency symbol with sym_ok c = true (it is a Unicode currency symbol, no
   sign or digit, and regexes 2, 4, 5 cannot match on c and digits), ds as above.  Regex 1 matches once
   with an EMPTY NOTATION group, so the amount is x * 1 (fmul x f1; equal to x at binary64). *)
Theorem C06_money_symbol_parser : forall (G : Type) (NG : Num G) (cfg : config G) (c : N) (ds : str) (x : G) (code : str),
  sym_ok c = true -> ds <> [] -> forallb digit ds = true ->
  read_decimal cfg ds = Some x -> read_currency cfg [c] = Some code ->
  infos_shape (over_regexes (money_body cfg (c :: ds)) (c :: ds) MONEY empty_state)
  = Some [(0%N, (utf8_width c + N.of_nat (length ds))%N, Some (TMoney (fmul x f1) code), ds, true)].
Proof. exact (@money_symbol_parser). Qed.

(* every one-character currency-symbol key of the regenerated alias table ($, EUR sign, TRY sign) *)
Theorem C06_money_symbol_table : forall (c : N) (ds : str) (x : float),
  In c (alias_symbols default_config) -> ds <> [] -> forallb digit ds = true ->
  read_decimal default_config ds = Some x ->
  exists A, read_currency default_config [c] = Some A /\ rate_of default_config A <> None /\
    infos_shape (over_regexes (money_body default_config (c :: ds)) (c :: ds) MONEY empty_state)
    = Some [(0%N, (utf8_width c + N.of_nat (length ds))%N, Some (TMoney (fmul x f1) A), ds, true)].
Proof. exact money_symbol_table. Qed.

Theorem C06_money_symbol_nonvacuous :
  alias_symbols default_config <> [] /\ mem_str [36%N] (map (fun c => [c]) (alias_symbols default_config)) = true.
Proof. exact money_symbol_nonvacuous. Qed.

(* ---------- non-vacuity, and where the literal clause does not hold ---------- *)
Theorem C06_examples :
  map brief (run CK0 init_state example_history) =
  [ inr (Some true); inr (Some true); inr (Some false);
    inl (Some (TMoney 40%float (s "TRY")));
    inl (Some (TMoney 14%float (s "USD")));
    inl (Some (TMoney 6%float (s "USD")));
    inl (Some (TMoney 30%float (s "USD")));
    inl (Some (TMoney 3%float (s "EUR")));
    inl (Some (TNumber 4%float Decimal));
    inl (Some (TMoney 7%float (s "EUR")));
    inr (Some true);
    inl (Some (TMoney 2%float (s "TRY")));
    inl (Some (TMoney 10%float (s "USD"))) ].
Proof. exact examples. Qed.

(* known limits (reported; kept under the correspondence check by the generator): after
   `<amount><suffix> <symbol>` the rest of the line is dropped; a currency symbol that is not a
   configured alias and the alias written in Cyrillic letters never make a money literal; a code that
   is also a time-zone abbreviation is read as the time zone after a suffixed amount *)
Theorem C06_literal_limits :
  ev (s "1k $ * 2") = Some (TMoney 1000%float (s "USD")) /\
  ev (s "1M " ++ [8364%N] ++ s " + 5cny") = Some (TMoney 1000000%float (s "EUR")) /\
  ev ([163%N] ++ s "10") = Some (TNumber 0%float Decimal) /\
  ev (s "10 " ++ [1083%N; 1074%N]) = Some (TNumber 10%float Decimal) /\
  read_currency default_config [1083%N; 1074%N] = Some (s "BGN") /\
  ev (s "25k tmt") = None /\ ev (s "25 tmt") = Some (TMoney 25%float (s "TMT")).
Proof. exact literal_limits. Qed.


Print Assumptions C06_convert_exact.
Print Assumptions C06_convert.
Print Assumptions C06_convert_id.
Print Assumptions C06_arith_ops.
Print Assumptions C06_convert_currency_ops.
Print Assumptions C06_arith.
Print Assumptions C06_assoc_insert.
Print Assumptions C06_update_accepted.
Print Assumptions C06_update_refused.
Print Assumptions C06_update_false_iff.
Print Assumptions C06_exec_keeps_state.
Print Assumptions C06_exec_session_keeps_cfg.
Print Assumptions C06_other_ops_keep_rates.
Print Assumptions C06_names_after.
Print Assumptions C06_rates_after_fold.
Print Assumptions C06_rates_after.
Print Assumptions C06_table_last_write.
Print Assumptions C06_last_write_wins.
Print Assumptions C06_untouched.
Print Assumptions C06_update_in_history.
Print Assumptions C06_exec_in_history.
Print Assumptions C06_money_history_state.
Print Assumptions C06_default_tables.
Print Assumptions C06_code_any_case.
Print Assumptions C06_code_lower_upper.
Print Assumptions C06_rated_any_case.
Print Assumptions C06_alias_resolves.
Print Assumptions C06_rates_finite_positive.
Print Assumptions C06_rates_nonzero_Q.
Print Assumptions C06_all_pairs.
Print Assumptions C06_all_pairs_f64.
Print Assumptions C06_reachable_all_pairs.
Print Assumptions C06_money_body_token.
Print Assumptions C06_money_body_declines.
Print Assumptions C06_money_suffixes.
Print Assumptions C06_literal_spellings.
Print Assumptions C06_literal_suffix_spellings.
Print Assumptions C06_alias_literals.
Print Assumptions C06_all_pairs_executed.
Print Assumptions C06_pairs_nonvacuous.
Print Assumptions C06_examples.
Print Assumptions C06_literal_limits.
Print Assumptions C06_money_regexes_on_literal.
Print Assumptions C06_money_literal_parser.
Print Assumptions C06_money_literal_any_case.
Print Assumptions C06_money_literal_codes.
Print Assumptions C06_money_literal_nonvacuous.
Print Assumptions C06_money_symbol_parser.
Print Assumptions C06_money_symbol_table.
Print Assumptions C06_money_symbol_nonvacuous.
