(* Property C06 - statements only (proofs in Proofs/C06.v). Not built yet. *)
From SC.Model Require Import Base.
