(* Property C17 - highlight (UI) tokens are well-formed character spans.
   STATEMENTS ONLY (proofs: Proofs/C17.v).  Model functions: UiTokens.get_position /
   check_collision / ui_add / ui_add_opt / ui_sort / ui_update (src/token/ui_token.rs), the
   lexer passes Lexer.language_tokinizer / regex_tokinizer / alias_tokinizer (every parser
   body adds its UI token through ui_add), Rules.update_token_variables / dyn_loop /
   rule_tokinizer (ui_update), Api.tokinize / execute_text.
   Spec: Spec/Spans.v (span_ok, disjoint, Inv, sorted_by_start, WF, byte_off, span_text). *)
From SC.Model Require Import Base Num Types Config Case UiTokens Rx RuleFns Rules Lexer Api.
From SC.Model Require Import NumF64 Run64.
From SC.Spec Require Import Spans.
From SC.Proofs Require Import C17.
From Coq Require Import Sorting.Sorted Sorting.Permutation.

Local Open Scope N_scope.

(* ---- the byte -> character map, for ALL lines ---- *)
(* the byte offset of character i is reported as i, for every index including the end *)
Theorem C17_get_position_char : forall line i, (i <= length line)%nat ->
  get_position line (byte_off line i) = N.of_nat i.
Proof. exact get_position_char. Qed.

(* every byte inside character i maps to i; the byte length maps to the character count *)
Theorem C17_get_position_inside : forall line,
  (forall i b, (i < length line)%nat -> byte_off line i <= b < byte_off line (S i) ->
     get_position line b = N.of_nat i) /\
  get_position line (byte_length line) = N.of_nat (length line).
Proof. intro line. split; [exact (get_position_inside line)|exact (get_position_end line)]. Qed.

(* any byte argument whatsoever yields a character position of the line; monotone on the
   line; an offset past the end is reported as 0 *)
Theorem C17_get_position_range : forall line,
  (forall b, get_position line b <= N.of_nat (length line)) /\
  (forall b1 b2, b1 <= b2 -> b2 <= byte_length line -> get_position line b1 <= get_position line b2) /\
  (forall i j, (i < j <= length line)%nat ->
     get_position line (byte_off line i) < get_position line (byte_off line j)) /\
  (forall b, byte_length line < b -> get_position line b = 0).
Proof.
  intro line. repeat split.
  - exact (get_position_range line).
  - exact (get_position_mono line).
  - exact (get_position_strict line).
  - exact (get_position_outside line).
Qed.

(* ---- filling the collection ---- *)
(* for ANY byte span and kind: bounds 0 <= s < e <= length (characters) and pairwise
   disjointness are kept (the function checks s < e and collisions itself) *)
Theorem C17_add_inv : forall line us st en k m,
  Inv (N.of_nat (length line)) us ->
  Inv (N.of_nat (length line)) (ui_add line us st en k) /\
  Inv (N.of_nat (length line)) (ui_add_opt line us m k).
Proof. intros. split; [now apply ui_add_inv|now apply ui_add_opt_inv]. Qed.

(* a token is reported with its own kind over exactly its characters: the free byte range of
   characters i..j is appended as (i, j, k); a range touching a claimed span is dropped whole *)
Theorem C17_add_exact : forall line us k,
  (forall i j, (i < j <= length line)%nat ->
     check_collision us (N.of_nat i) (N.of_nat j) = true ->
     ui_add line us (byte_off line i) (byte_off line j) k =
     us ++ [{| ui_start := N.of_nat i; ui_end := N.of_nat j; ui_kind := k |}]) /\
  (forall st en it, In it us ->
     ui_start it < get_position line en -> get_position line st < ui_end it ->
     ui_add line us st en k = us).
Proof. intros. split; [intros; now apply ui_add_exact|intros; eapply ui_add_collision; eauto]. Qed.

(* any sequence of additions from the empty collection satisfies the invariant *)
Theorem C17_built_inv : forall line,
  (forall us, ui_built line us -> Inv (N.of_nat (length line)) us) /\
  (forall spans : list (N * N * uikind),
     Inv (N.of_nat (length line))
       (fold_left (fun us sp => ui_add line us (fst (fst sp)) (snd (fst sp)) (snd sp)) spans [])).
Proof. intro line. split; [exact (ui_built_inv line)|exact (fold_ui_add_inv line)]. Qed.

(* ---- sort ---- *)
Theorem C17_sort : forall n us,
  Permutation (ui_sort us) us /\ sorted_by_start (ui_sort us) /\ (Inv n us -> Inv n (ui_sort us)).
Proof. intros. split; [|split]; [apply ui_sort_perm|apply ui_sort_sorted|apply ui_sort_inv]. Qed.

(* bounds + pairwise disjoint + sorted by start = the statement's well-formedness *)
Theorem C17_sorted_disjoint_wf : forall line us,
  Inv (N.of_nat (length line)) us -> sorted_by_start us -> WF line us.
Proof. exact sorted_inv_wf. Qed.

Theorem C17_chain_iff : forall n us, Chain n us <-> Inv n us /\ sorted_by_start us.
Proof. intros. split; [apply sorted_inv_of_chain|intros [? ?]; now apply chain_of_sorted_inv]. Qed.

(* ---- update_tokens ---- *)
(* the result is the list itself or one merged token (char of pst, char of pen, k) in place of
   the block a .. j *)
Theorem C17_update_shape : forall line us pst pen k us', ui_update line us pst pen k = Ok us' ->
  us' = us \/
  exists a j, (a <= S j)%nat /\ (S j <= length us)%nat /\
    us' = firstn a us ++ {| ui_start := get_position line pst; ui_end := get_position line pen; ui_kind := k |}
                      :: skipn (S j) us.
Proof. exact ui_update_shape. Qed.

(* on a sorted disjoint collection a merge with a non-empty character span keeps
   well-formedness (also when the i8 index wraps and the block starts before token i) *)
Theorem C17_update_wf : forall line us pst pen k us',
  Chain (N.of_nat (length line)) us ->
  ui_update line us pst pen k = Ok us' ->
  get_position line pst < get_position line pen \/ us' = us ->
  Chain (N.of_nat (length line)) us' /\ WF line us'.
Proof.
  intros line us pst pen k us' Hc Hu Hcond.
  pose proof (ui_update_chain line us pst pen k us' Hc Hu Hcond) as H. split; [exact H|now apply chain_wf].
Qed.

(* ... and the drain cannot panic then: the start token is not after the end token *)
Theorem C17_update_no_panic : forall line us pst pen k n, Chain n us ->
  get_position line pst < get_position line pen ->
  exists us', ui_update line us pst pen k = Ok us'.
Proof. exact ui_update_no_panic. Qed.

(* exactly when it panics: the start token's i8 index is more than one past the end token *)
Theorem C17_update_panic_iff : forall line us pst pen k site,
  ui_update line us pst pen k = Panic site <->
  site = 1701 /\
  exists i j, find_index (fun t => N.eqb (ui_start t) (get_position line pst)) us = Some i /\
              (as_i8 i > -1)%Z /\
              find_index (fun t => N.eqb (ui_end t) (get_position line pen)) us = Some j /\
              (S j < Z.to_nat (as_i8 i))%nat.
Proof. exact ui_update_panic_iff. Qed.

(* `index as i8`: a start token at index 128..255 is left alone *)
Theorem C17_update_i8 : forall line us pst pen k i,
  find_index (fun t => N.eqb (ui_start t) (get_position line pst)) us = Some i ->
  (128 <= i < 256)%nat -> ui_update line us pst pen k = Ok us.
Proof. exact ui_update_i8_skip. Qed.

(* outside the condition of C17_update_wf the function does insert malformed tokens / panic *)
Theorem C17_update_degenerate_refuted :
  let line := s "ab cd" in
  ui_update line [tk 0 2 UText; tk 3 5 UText] 3 2 UVariableUse
    = Ok [tk 0 2 UText; tk 3 2 UVariableUse; tk 3 5 UText] /\
  ui_update line [tk 0 2 UText; tk 2 5 UText] 2 2 UVariableUse
    = Ok [tk 0 2 UText; tk 2 2 UVariableUse; tk 2 5 UText] /\
  ui_update line [tk 0 1 UText; tk 1 2 UText; tk 2 3 UText] 2 1 UVariableUse = Panic 1701.
Proof. exact ui_update_degenerate_examples. Qed.

(* ---- the model's entry points, all inputs ---- *)
Section WithNum.
Context {F : Type} {NF : Num F}.

(* every line, configuration, language: the collection left by the lexer passes satisfies the
   invariant, and the sort that the variable stage starts with makes it well-formed *)
Theorem C17_lexer_inv : forall (lx : lexdata) today (cfg : config F) lang line st1 st2 st3,
  language_tokinizer lx cfg lang line empty_state = Ok st1 ->
  regex_tokinizer lx today cfg lang line st1 = Ok st2 ->
  alias_tokinizer lx today cfg lang st2 = Ok st3 ->
  Inv (N.of_nat (length line)) (ts_ui st3) /\
  WF line (ui_sort (ts_ui st3)) /\ Chain (N.of_nat (length line)) (ui_sort (ts_ui st3)).
Proof.
  intros lx today cfg lang line st1 st2 st3 H1 H2 H3. split.
  - exact (lexer_inv lx today cfg lang line st1 st2 st3 H1 H2 H3).
  - exact (lexer_sorted_wf lx today cfg lang line st1 st2 st3 H1 H2 H3).
Qed.

(* the complete tokenizer (variables, units, rules included) and execute_text: every reported
   offset is a character position of the line, never a byte offset beyond it *)
Theorem C17_tokinize_in_line : forall (lx : lexdata) ck (cfg : config F) lang vs line st toks,
  tokinize lx ck cfg lang vs line = Ok (st, toks) ->
  Forall (in_line (N.of_nat (length line))) (ts_ui st).
Proof. exact tokinize_in_line. Qed.

Theorem C17_execute_text_in_line : forall (lx : lexdata) ck (cfg : config F) lang vs line lo vs',
  execute_text lx ck cfg lang vs line = Ok (Some lo, vs') ->
  Forall (in_line (N.of_nat (length line))) (lo_ui lo).
Proof. exact execute_text_in_line. Qed.

End WithNum.

(* ---- non-vacuity: the real model at binary64 on Turkish lines ---- *)
Theorem C17_examples :
  ui_of_line (s "en") line_tr1
    = Some [tk 0 3 UText; tk 4 5 UNumber; tk 6 7 UOperator; tk 8 9 UNumber; tk 10 15 UComment] /\
  ui_of_line (s "tr") line_tr2
    = Some [tk 0 2 UText; tk 3 5 UNumber; tk 6 13 UMonth; tk 14 18 UNumber] /\
  ui_of_line (s "tr") line_tr3
    = Some [tk 0 1 UVariableDefination; tk 2 3 UOperator; tk 4 6 UNumber; tk 7 14 UMonth] /\
  (byte_length line_tr1 = 21 /\ length line_tr1 = 15%nat) /\
  span_text line_tr1 (tk 4 5 UNumber) = s "1" /\ span_text line_tr1 (tk 6 7 UOperator) = s "+" /\
  span_text line_tr1 (tk 10 15 UComment) = [35;32;246;246;246]%N /\
  span_text line_tr2 (tk 6 13 UMonth) = [97;287;117;115;116;111;115]%N.
Proof. exact real_examples. Qed.

Theorem C17_examples_wf :
  (forall us, ui_of_line (s "en") line_tr1 = Some us -> WF line_tr1 us) /\
  (forall us, ui_of_line (s "tr") line_tr2 = Some us -> WF line_tr2 us) /\
  (forall us, ui_of_line (s "tr") line_tr3 = Some us -> WF line_tr3 us).
Proof. exact real_examples_wf. Qed.

(* ---- known finding C17-casemap: spans computed on a case-mapped copy of the line ---- *)
(* "ıııı est 12:30" and "İİİ 5 march 2020": well-formed spans over the wrong characters *)
Theorem C17_casemap_refuted :
  ui_of_line (s "en") line_cm1 = Some [tk 2 4 USymbol1; tk 5 8 UText; tk 9 14 UDateTime] /\
  span_text line_cm1 (tk 2 4 USymbol1) = [305;305]%N /\
  span_text line_cm1 (tk 5 8 UText) = s "est" /\
  ui_of_line (s "en") line_cm2 = Some [tk 0 3 UText; tk 4 5 UNumber; tk 9 14 UMonth] /\
  span_text line_cm2 (tk 9 14 UMonth) = s "ch 20" /\
  firstn 5 (skipn 6 line_cm2) = s "march".
Proof. exact casemap_misplaced. Qed.

(* ... and well-formedness itself: `est = 5` then `ıııııKKK7𠀀 est may` (K = KELVIN SIGN) reports the EMPTY
   span (9, 9, VariableUse): update_tokens is called with the zone token's offsets in the upper-cased
   copy, both of which fall into the 4-byte character 9 of the line (the excluded case of C17_update_wf) *)
Theorem C17_pipeline_refuted :
  ui_of_text (s "en") (s "est = 5" ++ [10%N] ++ line_em)
    = Some [[tk 0 3 UVariableDefination; tk 4 5 UOperator; tk 6 7 UNumber];
            [tk 0 8 UText; tk 8 9 UNumber; tk 9 9 UVariableUse; tk 9 12 UMonth; tk 15 18 UText]] /\
  ~ WF line_em [tk 0 8 UText; tk 8 9 UNumber; tk 9 9 UVariableUse; tk 9 12 UMonth; tk 15 18 UText] /\
  get_position line_em 20 = 9 /\ get_position line_em 23 = 9.
Proof. exact pipeline_empty_span. Qed.

Print Assumptions C17_get_position_char.
Print Assumptions C17_get_position_inside.
Print Assumptions C17_get_position_range.
Print Assumptions C17_add_inv.
Print Assumptions C17_add_exact.
Print Assumptions C17_built_inv.
Print Assumptions C17_sort.
Print Assumptions C17_sorted_disjoint_wf.
Print Assumptions C17_chain_iff.
Print Assumptions C17_update_shape.
Print Assumptions C17_update_wf.
Print Assumptions C17_update_no_panic.
Print Assumptions C17_update_panic_iff.
Print Assumptions C17_update_i8.
Print Assumptions C17_update_degenerate_refuted.
Print Assumptions C17_lexer_inv.
Print Assumptions C17_tokinize_in_line.
Print Assumptions C17_execute_text_in_line.
Print Assumptions C17_examples.
Print Assumptions C17_examples_wf.
Print Assumptions C17_casemap_refuted.
Print Assumptions C17_pipeline_refuted.
