(* Property C17 - statements only (proofs in Proofs/C17.v). Not built yet. *)
From SC.Model Require Import Base.
