(* Property C13 - statements only (proofs in Proofs/C13.v). Not built yet. *)
From SC.Model Require Import Base.
