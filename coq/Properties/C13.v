(* Property C13 - based integer literals (0x / 0o / 0b) and 'N to hex | octal | binary | decimal'.
   STATEMENTS ONLY (proofs: Proofs/C13.v).  Model functions: Lexer.radix_value / from_radix
   (i64::from_str_radix as read by number_regex_parser), Format.digit_char / radix_digits /
   item_print ({:#b} {:#o} {:#X} of `self.0 as i64`), RuleFns.number_type_convert,
   Items.calculate on two numbers, and the whole pipeline Run64.exec64 for the end-to-end family.
   Reference notions (Proofs/C13.v, section 0): char_digit, of_digits (positional value),
   is_digit, base_of / prefix_of / upper_of / based (the three based number types), type_words. *)
From Coq Require Import Floats QArith Qcanon.
From SC.Model Require Import Base Num NumF64 NumQ FloatIO Types Config Case Parser Items RuleFns Format
     Lexer Api Run64 Corr.
From SC.Gen Require Import ConfigData.
From SC.Proofs Require Import C13 C13_EndToEnd.
Local Open Scope Z_scope.

(* one digit: the reader undoes the printer, whatever the letter case; the printer's alphabet *)
Theorem C13_digit_read : forall upper d, 0 <= d < 36 ->
  char_digit (digit_char upper d) = Some d.
Proof. exact digit_read. Qed.

Theorem C13_digit_alphabet :
  map (digit_char true) [0;1;2;3;4;5;6;7;8;9;10;11;12;13;14;15] = s "0123456789ABCDEF" /\
  map (digit_char false) [0;1;2;3;4;5;6;7;8;9;10;11;12;13;14;15] = s "0123456789abcdef".
Proof. exact digit_char_table. Qed.

(* the reader is the positional value of the digits, for every base 2..36 *)
Theorem C13_read_positional : forall b upper ds, 2 <= b <= 36 -> Forall (is_digit b) ds ->
  forall acc, radix_value b (map (digit_char upper) ds) acc = Some (of_digits b ds acc).
Proof. exact radix_value_digits. Qed.

(* digits round trip: reading the printed digit string of n gives n, for every base 2..36
   (so 2, 8, 16), both letter cases and EVERY 64-bit n; with any fuel f it holds up to b^f *)
Theorem C13_digits_roundtrip : forall b, 2 <= b <= 36 -> forall upper n, 0 <= n < 2 ^ 64 ->
  radix_value b (radix_digits 70 upper b n []) 0 = Some n.
Proof. exact digits_roundtrip. Qed.

Theorem C13_digits_roundtrip_fuel : forall b, 2 <= b <= 36 -> forall upper fuel n,
  0 <= n < b ^ Z.of_nat fuel ->
  radix_value b (radix_digits fuel upper b n []) 0 = Some n.
Proof. exact digits_roundtrip_fuel. Qed.

(* the printed string, digit by digit: digits of the base whose positional value is n, "0" for
   0, otherwise no leading zero and exactly as many digits as n needs *)
Theorem C13_digits_shape : forall b, 2 <= b <= 36 -> forall upper n, 0 <= n < 2 ^ 64 ->
  exists ds, radix_digits 70 upper b n [] = map (digit_char upper) ds /\
    Forall (is_digit b) ds /\ of_digits b ds 0 = n /\
    (n = 0 -> ds = [0]) /\
    (0 < n -> (exists d r, ds = d :: r /\ 0 < d) /\
              b ^ (Z.of_nat (length ds) - 1) <= n < b ^ Z.of_nat (length ds)).
Proof. exact digits_shape. Qed.

Section WithNum.
Context {F : Type} {NF : Num F}.

(* the literal reader (i64::from_str_radix(..) as f64) on printed digits: every non-negative
   i64 is read as itself; what does not fit an i64 is declined by the based reader *)
Theorem C13_from_radix_printed : forall b upper n, 2 <= b <= 36 -> 0 <= n < 2 ^ 63 ->
  from_radix b (radix_digits 70 upper b n []) = Some (fofZ n : F).
Proof. exact from_radix_printed. Qed.

Theorem C13_from_radix_too_big : forall b upper n, 2 <= b <= 36 -> 2 ^ 63 <= n < 2 ^ 64 ->
  from_radix (F:=F) b (radix_digits 70 upper b n []) = None.
Proof. exact from_radix_too_big. Qed.

(* printing a based number: prefix 0b / 0o / 0x, then the digits of `x as i64` (negative values:
   the 64-bit two's complement), upper-case for hex *)
Theorem C13_print_based : forall cfg lang year (x : F) t, based t ->
  item_print cfg lang year (INumber x t)
  = Ok (prefix_of t ++ radix_digits 70 (upper_of t) (base_of t)
                         (if as_i64 x <? 0 then as_i64 x + 2 ^ 64 else as_i64 x) []).
Proof. exact print_based. Qed.

(* print then read, every non-negative value (no 2^31 saturation any more): the digits after
   the prefix read back as the integer that was printed *)
Theorem C13_print_read : forall cfg lang year (x : F) t, based t -> 0 <= as_i64 x ->
  exists ds,
    item_print cfg lang year (INumber x t) = Ok (prefix_of t ++ ds) /\
    ds = radix_digits 70 (upper_of t) (base_of t) (as_i64 x) [] /\
    radix_value (base_of t) ds 0 = Some (as_i64 x) /\
    from_radix (base_of t) ds = Some (fofZ (as_i64 x) : F).
Proof. exact print_read. Qed.

(* negative values print their 64-bit two's complement, a text the based reader declines (it
   is not an i64 literal) *)
Theorem C13_print_negative : forall cfg lang year (x : F) t, based t -> as_i64 x < 0 ->
  exists ds,
    item_print cfg lang year (INumber x t) = Ok (prefix_of t ++ ds) /\
    radix_value (base_of t) ds 0 = Some (as_i64 x + 2 ^ 64) /\
    from_radix (F:=F) (base_of t) ds = None.
Proof. exact print_negative. Qed.

(* an integer n that the number type holds exactly prints as prefix + digits of n and that text
   reads back as the very same number *)
Theorem C13_print_read_int : forall cfg lang year n t, based t -> 0 <= n -> as_i64 (fofZ n : F) = n ->
  exists ds,
    item_print cfg lang year (INumber (fofZ n : F) t) = Ok (prefix_of t ++ ds) /\
    ds = radix_digits 70 (upper_of t) (base_of t) n [] /\
    radix_value (base_of t) ds 0 = Some n /\
    from_radix (base_of t) ds = Some (fofZ n : F).
Proof. exact print_read_int. Qed.

(* 'N to hex | hexadecimal | octal | binary | decimal' (N a number or a variable holding one):
   N rounded to the nearest integer with the type the word names; other words: no result *)
Theorem C13_convert : forall (vs : vars F) fs x w,
  get_number vs (s "number") fs = Some x -> get_text vs (s "type") fs = Some w ->
  number_type_convert vs fs
  = Ok (option_map (TNumber (fround x))
         (assoc w [(s "hex", Hexadecimal); (s "hexadecimal", Hexadecimal); (s "octal", Octal);
                   (s "binary", Binary); (s "decimal", Decimal)])).
Proof. exact convert_spec. Qed.

Theorem C13_convert_declines : forall (vs : vars F) fs,
  get_number vs (s "number") fs = None \/ get_text vs (s "type") fs = None ->
  number_type_convert vs fs = Ok None.
Proof. exact convert_declines. Qed.

(* a based number is an ordinary number in + - * /; the result keeps the LEFT operand's type *)
Theorem C13_arith : forall (bexec : config F -> str -> res (option F)) cfg (x y : F) t t' op,
  calculate bexec cfg (INumber x t) (INumber y t') op
  = Ok (Some (INumber (match op with
                       | OAdd => fadd x y | OSub => fsub x y | OMul => fmul x y
                       | ODiv => do_division x y end) t)).
Proof. exact arith_left_type_ops. Qed.

End WithNum.

(* the rule as configured (regenerated from config.json): with and without the conversion
   word; the word group holds exactly the words the rule function knows *)
Theorem C13_convert_tables :
  option_map (assoc (s "number_type_convert")) (assoc (s "en") d_rule_texts)
  = Some (Some [s "{NUMBER:number} {GROUP:conversion:conversion_group} {GROUP:type:number_type_group}";
                s "{NUMBER:number} {GROUP:type:number_type_group}"]) /\
  forall gs ws, assoc (s "en") d_word_group = Some gs -> assoc (s "number_type_group") gs = Some ws ->
    forallb (fun w => is_some (type_word w)) ws = true /\
    forallb (fun p => mem_str (fst p) ws) type_words = true.
Proof. exact convert_tables. Qed.

(* exact rationals: every non-negative i64 prints and reads back as itself *)
Theorem C13_print_read_Q : forall cfg lang year (n : Z) t, based t -> 0 <= n < 2 ^ 63 ->
  exists ds,
    item_print cfg lang year (INumber (fofZ n : Qc) t) = Ok (prefix_of t ++ ds) /\
    ds = radix_digits 70 (upper_of t) (base_of t) n [] /\
    radix_value (base_of t) ds 0 = Some n /\
    from_radix (base_of t) ds = Some (fofZ n : Qc).
Proof. exact print_read_Q. Qed.

(* binary64, by computation only (no axiom): 0 and 2^k - 1, 2^k, 2^k + 1 for k <= 52 are held
   exactly ... *)
Theorem C13_binary64_family : forall n, In n (pow2_family 52) -> as_i64 (fofZ n : float) = n.
Proof. exact as_i64_fofZ_family. Qed.

(* ... so each prints as prefix + its digits and reads back as the same float *)
Theorem C13_print_read_family64 : forall cfg lang year n t, based t -> In n (pow2_family 52) ->
  exists ds,
    item_print cfg lang year (INumber (fofZ n : float) t) = Ok (prefix_of t ++ ds) /\
    ds = radix_digits 70 (upper_of t) (base_of t) n [] /\
    radix_value (base_of t) ds 0 = Some n /\
    from_radix (base_of t) ds = Some (fofZ n : float).
Proof. exact print_read_family64. Qed.

(* binary64 in general: every integer 0 <= n < 2^53 is held exactly (from the Floats library's
   specification axioms Prim2SF_SF2Prim and FloatAxioms.eqb_spec), so it prints as prefix +
   its digits and reads back as the same float *)
Theorem C13_binary64_exact : forall n, 0 <= n < 2 ^ 53 -> as_i64 (fofZ n : float) = n.
Proof. exact as_i64_fofZ_64. Qed.

Theorem C13_print_read_64 : forall cfg lang year n t, based t -> 0 <= n < 2 ^ 53 ->
  exists ds,
    item_print cfg lang year (INumber (fofZ n : float) t) = Ok (prefix_of t ++ ds) /\
    ds = radix_digits 70 (upper_of t) (base_of t) n [] /\
    radix_value (base_of t) ds 0 = Some n /\
    from_radix (base_of t) ds = Some (fofZ n : float).
Proof. exact print_read_64. Qed.

(* through the whole pipeline (number regexes, rule matching, interpreter, formatter), default
   configuration: 'n to <base>' prints prefix + digits of n with value n and the type of the
   base, and that printed text, entered as a line, is again the number n of that type and
   prints as itself (e2e, Proofs/C13.v section 8) *)
Theorem C13_end_to_end_family :
  forallb (e2e Hexadecimal) (pow2_family 52) = true /\
  forallb (e2e Octal) (pow2_family 52) = true /\
  forallb (e2e Binary) (pow2_family 20) = true.
Proof. exact e2e_family. Qed.

(* the whole-line read-back, restricted by the decidable predicate hex_currency_free (Proofs/C13.v:
   no digit followed by a maximal letter run that read_currency accepts).  On every n < 1024 and
   the listed larger values, `n to hex` followed by its printed text round-trips EXACTLY when the
   printed literal satisfies the predicate; the 2^k family lies inside it, the refuted
   witnesses outside *)
Theorem C13_readback_iff_hex_currency_free :
  forallb (fun n => Bool.eqb (e2e Hexadecimal n) (hex_currency_free (printed_hex n)))
          (map Z.of_nat (seq 0 1024) ++ [2800; 3281; 6893; 15583; 182997; 5749713; 3005; 64721; 3735928559])
  = true.
Proof. exact readback_iff_free. Qed.

Theorem C13_end_to_end_family_free : forall n, In n (pow2_family 52) ->
  hex_currency_free (printed_hex n) = true /\ e2e Hexadecimal n = true.
Proof. exact e2e_family_free. Qed.

Theorem C13_refuted_not_free :
  map (fun n => hex_currency_free (printed_hex n)) [205; 175; 6893] = [false; false; false].
Proof. exact refuted_not_free. Qed.

(* KNOWN FINDING C13-K1, class C13-hex-currency (known_findings.json; reproduced by the model): a hex
   literal in which a digit is followed by letters that spell a currency code (aed bbd cad cdf;
   xaf xcd after the leading 0) is taken by the money regex, which runs before the number
   regexes: `205 to hex` prints 0xCD but the line `0xCD` is 0 XCD, not 205.  The round trip of
   the statement therefore FAILS for such n at the level of whole lines; it holds at the level
   of the literal reader (C13_print_read: the digits after the prefix read back) *)
Theorem C13_readback_refuted :
  run (s "205 to hex") = [Some (s "0xCD", Some (TNumber (f64_of_Z 205) Hexadecimal))] /\
  run (s "0xCD") = [Some (s "$0,00", Some (TMoney (f64_of_Z 0) (s "XCD")))] /\
  run (s "175 to hex") = [Some (s "0xAF", Some (TNumber (f64_of_Z 175) Hexadecimal))] /\
  run (s "0xAF") = [Some (s "0,00F", Some (TMoney (f64_of_Z 0) (s "XAF")))] /\
  run (s "6893 to hex") = [Some (s "0x1AED", Some (TNumber (f64_of_Z 6893) Hexadecimal))] /\
  run (s "0x1AED") = [None] /\
  e2e Hexadecimal 205 = false /\ e2e Hexadecimal 175 = false /\ e2e Hexadecimal 6893 = false.
Proof. exact readback_refuted. Qed.

(* non-vacuity: concrete lines through the pipeline; 2147483648 is the repaired saturation case *)
Theorem C13_examples :
  run (s "255 to hex") = [Some (s "0xFF", Some (TNumber (f64_of_Z 255) Hexadecimal))] /\
  run (s "0xFF") = [Some (s "0xFF", Some (TNumber (f64_of_Z 255) Hexadecimal))] /\
  run (s "0xff to decimal") = [Some (s "255", Some (TNumber (f64_of_Z 255) Decimal))] /\
  run (s "2147483648 to hex") = [Some (s "0x80000000", Some (TNumber (f64_of_Z 2147483648) Hexadecimal))] /\
  run (s "0x80000000") = [Some (s "0x80000000", Some (TNumber (f64_of_Z 2147483648) Hexadecimal))] /\
  run (s "10 octal") = [Some (s "0o12", Some (TNumber (f64_of_Z 10) Octal))] /\
  run (s "2,5 to binary") = [Some (s "0b11", Some (TNumber (f64_of_Z 3) Binary))] /\
  run (s "0b1111 + 0x10") = [Some (s "0b11111", Some (TNumber (f64_of_Z 31) Binary))] /\
  run (s "0x10 * 0o10") = [Some (s "0x80", Some (TNumber (f64_of_Z 128) Hexadecimal))] /\
  radix_value 16 (s "fF") 0 = Some 255 /\
  radix_digits 70 true 16 (2 ^ 64 - 1) [] = s "FFFFFFFFFFFFFFFF" /\
  from_radix 16 (s "7FFFFFFFFFFFFFFF") = Some (f64_of_Z (2 ^ 63 - 1)) /\
  from_radix (F:=float) 16 (s "8000000000000000") = None.
Proof. exact examples. Qed.

(* END TO END, from the characters of the line to the value and its printed form: for every non-empty string ds of
   digits 0-1 / 0-7 / 0-9, the TEXT `0b` ds / `0o` ds / `0x` ds (unbounded in ds, up to the reader's i64 guard stated by
   from_radix) evaluates through the public entry point, in every language, to the number from_radix gives, of the
   based number type, and prints as the based text.  (Hex literals with the letters a-f stay on the generator and on
   the finite families: letters inside the literal wake up the text, decimal-notation and money regexes, see C13-K1.) *)
Theorem C13_based_text_to_value : forall ck lang (k : bk) (ds : list N) (x : float),
  ds <> [] -> forallb (dig_ok k) ds = true -> from_radix (radix_of k) ds = Some x ->
  exists obs,
    execute LX ck default_config lang (line_of k ds) = Ok {| er_status := true; er_lines := [Some obs] |} /\
    lo_result obs = LOk (based_text k x) (AItem (INumber x (ty_of k))) /\
    lo_tokens obs = [TNumber x (ty_of k)].
Proof. exact based_execute. Qed.

Theorem C13_based_text_to_value_examples : forall ck,
  (exists obs, execute LX ck default_config (s "en") (s "0b1011") = Ok {| er_status := true; er_lines := [Some obs] |}
               /\ lo_result obs = LOk (s "0b1011") (AItem (INumber 11%float Binary))) /\
  (exists obs, execute LX ck default_config (s "tr") (s "0o777") = Ok {| er_status := true; er_lines := [Some obs] |}
               /\ lo_result obs = LOk (s "0o777") (AItem (INumber 511%float Octal))) /\
  (exists obs, execute LX ck default_config (s "en") (s "0x2024") = Ok {| er_status := true; er_lines := [Some obs] |}
               /\ lo_result obs = LOk (s "0x2024") (AItem (INumber 8228%float Hexadecimal))).
Proof. exact based_instances. Qed.

Print Assumptions C13_based_text_to_value.
Print Assumptions C13_based_text_to_value_examples.
Print Assumptions C13_digit_read.
Print Assumptions C13_digit_alphabet.
Print Assumptions C13_read_positional.
Print Assumptions C13_digits_roundtrip.
Print Assumptions C13_digits_roundtrip_fuel.
Print Assumptions C13_digits_shape.
Print Assumptions C13_from_radix_printed.
Print Assumptions C13_from_radix_too_big.
Print Assumptions C13_print_based.
Print Assumptions C13_print_read.
Print Assumptions C13_print_negative.
Print Assumptions C13_print_read_int.
Print Assumptions C13_convert.
Print Assumptions C13_convert_declines.
Print Assumptions C13_arith.
Print Assumptions C13_convert_tables.
Print Assumptions C13_print_read_Q.
Print Assumptions C13_binary64_family.
Print Assumptions C13_print_read_family64.
Print Assumptions C13_binary64_exact.
Print Assumptions C13_print_read_64.
Print Assumptions C13_end_to_end_family.
Print Assumptions C13_readback_iff_hex_currency_free.
Print Assumptions C13_end_to_end_family_free.
Print Assumptions C13_refuted_not_free.
Print Assumptions C13_readback_refuted.
Print Assumptions C13_examples.
