(* Property C07 - numbers print correctly rounded, grouped and signed in every format setting.
   STATEMENTS ONLY (proofs: Proofs/C07.v).  Model functions: Format.format_number (with
   Format.group_loop), Format.item_print for INumber, IPercent, IMoney, IDynamicType; at binary64
   the renderings are FloatIO.f64_to_fixed ("{:.N}") and FloatIO.f64_to_display ("{}").
   Reference (Proofs/C07.v, Spec/Fixed.v): group3 (separator in front of every complete group of
   three counted from the right), int_part / frac_part (a rendering split at its '.'), spec_print
   (sign, grouped integer part, decimal separator and fraction; fraction omitted iff there is none,
   or removal is on and all its digits are zero), money_place, fixed_scaled (half-even rounding of
   the exact binary64 value).
   The former known finding C07-double-rounding (integer-part length and zero-fraction test taken
   from a separately rounded copy) was repaired in /repo 9ef4dcc; C07_format_correct is now
   unconditional and C07_former_witnesses computes the old witnesses. *)
From SC.Model Require Import Base Num NumF64 FloatIO Types Config Case Chrono Parser Format Run64.
From SC.Spec Require Import Fixed.
From SC.Gen Require Import ConfigData.
From Coq Require Import ZArith Floats.
From SC.Proofs Require Import C07.

(* ---- grouping, all digit lists of any length, any separator string ---- *)
Theorem C07_group3 : forall (ds tsep : str),
  group_loop ds 0 (length ds) (3 - Nat.modulo (length ds) 3) tsep = group3 tsep ds.
Proof. exact group_loop_group3. Qed.

(* group3 is grouping in threes from the right: up to three digits are left alone, and a block of
   3k digits at the right end is preceded by exactly one separator; nothing leads or trails *)
Theorem C07_group3_spec : forall tsep,
  (forall ds, (length ds <= 3)%nat -> group3 tsep ds = ds) /\
  (forall a b, a <> [] -> b <> [] -> Nat.modulo (length b) 3 = 0%nat ->
     group3 tsep (a ++ b) = group3 tsep a ++ tsep ++ group3 tsep b) /\
  (forall ds, length (group3 tsep ds) = (length ds + length tsep * ((length ds - 1) / 3))%nat) /\
  (forall ds, group3 [] ds = ds).
Proof.
  intro tsep. split; [exact (group3_short tsep)|]. split; [exact (group3_app tsep)|].
  split; [exact (group3_length tsep)|exact group3_no_sep].
Qed.

Section WithNum.
Context {F : Type} {NF : Num F}.

(* ---- format_number is the specified print: all values, separator strings, digit counts, both
        flags, any number algebra; in particular it never panics ---- *)
Theorem C07_format_correct : forall (x : F) (tsep dsep : str) (digits : N) (rm rnd : bool),
  format_number x tsep dsep digits rm rnd
  = Ok (spec_print (fltb x f0) tsep dsep rm
          (if rnd then ffixed (fabs x) digits else fdisplay (fabs x))).
Proof. exact format_correct. Qed.

(* ---- sign: '-' in front exactly for values below zero ---- *)
Theorem C07_sign : forall (x : F) tsep dsep digits rm rnd out,
  format_number x tsep dsep digits rm rnd = Ok out ->
  starts_minus (fmt_string x digits rnd) = false ->
  int_part (fmt_string x digits rnd) <> [] ->
  starts_minus out = fltb x f0.
Proof. exact format_sign. Qed.

(* ---- the same rule renders plain numbers, percentages, money and unit quantities ---- *)
Theorem C07_print_number : forall (cfg : config F) lang y x,
  item_print cfg lang y (INumber x Decimal)
  = format_number x (cf_tsep cfg) (cf_dsep cfg) (nc_digits (cf_number cfg))
                  (nc_rm (cf_number cfg)) (nc_round (cf_number cfg)).
Proof. exact print_number. Qed.

Theorem C07_print_percent : forall (cfg : config F) lang y x,
  item_print cfg lang y (IPercent x)
  = map_res (fun r => 37%N :: r)
      (format_number x (cf_tsep cfg) (cf_dsep cfg) (nc_digits (cf_percent cfg))
                     (nc_rm (cf_percent cfg)) (nc_round (cf_percent cfg))).
Proof. exact print_percent. Qed.

Theorem C07_print_money : forall (cfg : config F) lang y x code c,
  currency_by_code cfg code = Some c ->
  item_print cfg lang y (IMoney x code)
  = map_res (money_place c)
      (format_number x (cf_tsep cfg) (cf_dsep cfg) (c_digits c) (nc_rm (cf_money cfg)) (nc_round (cf_money cfg))).
Proof. exact print_money. Qed.

Theorem C07_print_unit : forall (cfg : config F) lang y x u d,
  unit_of cfg u = Some d ->
  item_print cfg lang y (IDynamicType x u)
  = map_res (fun p => replace_all (s "{value}") p (dt_format d))
      (format_number x (cf_tsep cfg) (cf_dsep cfg)
         (match dt_digits d with Some n => n | None => 2%N end)
         (match dt_rm d with Some b => b | None => true end)
         (match dt_round d with Some b => b | None => true end)).
Proof. exact print_unit. Qed.

End WithNum.

(* ---- binary64 ---- *)
(* the witnesses of the repaired defect print as specified *)
Theorem C07_former_witnesses :
  fmt64 "0.995" 2 true true = Ok (s "0,99") /\
  fmt64 "-0.995" 2 true true = Ok (s "-0,99") /\
  fmt64 "999999.995" 2 true true = Ok (s "999.999,99") /\
  fmt64 "1e21" 2 true true = Ok (s "1.000.000.000.000.000.000.000") /\
  fmt64 "1e21" 2 false true = Ok (s "1.000.000.000.000.000.000.000,00") /\
  fmt64 "99.995" 2 false false = Ok (s "99,995") /\
  fmt64 "999.995" 2 false false = Ok (s "999,995") /\
  fmt64 "5.001" 2 true false = Ok (s "5,001") /\
  fmt64 "1.0005" 3 true true = Ok (s "1").
Proof. pose proof former_witnesses as H. tauto. Qed.

(* ---- "correctly rounded": the rendering "{:.N}" of the executed instance shows, for a finite
        binary64 (-1)^sg * m * 2^e, the integer nearest to m * 2^e * 10^n, ties to even
        (Spec/Fixed.v fixed_scaled), printed with the point n places from the right; all floats,
        all digit counts ---- *)
Theorem C07_fixed_exact : forall (x : float) (n : N),
  f64_to_fixed x n =
  match Prim2SF x with
  | S754_nan => s_NaN
  | S754_infinity sg => with_sign sg s_inf
  | S754_zero sg => with_sign sg (fixed_str 0 (Z.of_N n))
  | S754_finite sg m e => with_sign sg (fixed_str (fixed_scaled (Zpos m) e (Z.of_N n)) (Z.of_N n))
  end.
Proof. exact fixed_exact. Qed.

(* the reference rounding is a nearest integer, the even one at a tie *)
Theorem C07_round_half_even_nearest : forall num den, 0 < den ->
  let q := round_half_even num den in
  2 * Z.abs (num - q * den) <= den /\
  (2 * Z.abs (num - q * den) = den -> Z.even q = true).
Proof. exact round_half_even_nearest. Qed.

(* non-vacuity: 30 prints (ties, values below one unit of the last digit, negative zero, 10^15,
   10^14 at 9 digits, the smallest subnormal, 21 integer digits) *)
Theorem C07_examples : forall r, In r good_rows -> good_row_ok r = true.
Proof. exact good_rows_ok. Qed.

(* on binary64 the rendering of a magnitude does not start with '-' and its integer part is not
   empty (the side conditions of C07_sign), checked family x digits 0..9 *)
Theorem C07_magnitude_unsigned : forall x n, In x sign_family -> In n digit_range ->
  starts_minus (fmt_string x n true) = false /\ starts_minus (fmt_string x n false) = false /\
  int_part (fmt_string x n true) <> [] /\ int_part (fmt_string x n false) <> [].
Proof. exact magnitude_unsigned. Qed.

(* every currency of config.json: found by its code, printed with its digits, symbol, placement *)
Theorem C07_money_table : forall kv, In kv d_currency ->
  money_row_ok (v "1234567.891") kv = true /\ money_row_ok (v "-0.75") kv = true.
Proof. exact money_table. Qed.

Theorem C07_money_table_nonempty : (12 <= length d_currency)%nat /\
  (exists kv, In kv d_currency /\ c_left (snd kv) = true /\ c_space (snd kv) = true) /\
  (exists kv, In kv d_currency /\ c_left (snd kv) = true /\ c_space (snd kv) = false) /\
  (exists kv, In kv d_currency /\ c_left (snd kv) = false /\ c_space (snd kv) = true) /\
  (exists kv, In kv d_currency /\ c_left (snd kv) = false /\ c_space (snd kv) = false).
Proof. exact money_table_nonempty. Qed.

Theorem C07_wrappers_examples :
  item_print default_config (s "en") 2026 (IPercent (v "-1234.567")) = Ok (s "%-1.234,57") /\
  item_print default_config (s "en") 2026 (IMoney (v "1234.5") (s "USD")) = Ok (s "$1.234,50") /\
  item_print default_config (s "en") 2026 (IMoney (v "1234.5") (s "JPY")) = Ok (165%N :: s "1.234") /\
  item_print default_config (s "en") 2026 (IMoney (v "1234.5") (s "EUR")) = Ok (s "1.234,50 " ++ [8364%N]) /\
  item_print default_config (s "en") 2026 (IDynamicType (v "1.5") {| u_group := s "metric-length"; u_index := 7 |})
    = Ok (s "1,50 Kilometer").
Proof. exact wrappers_examples. Qed.

Print Assumptions C07_group3.
Print Assumptions C07_group3_spec.
Print Assumptions C07_format_correct.
Print Assumptions C07_sign.
Print Assumptions C07_print_number.
Print Assumptions C07_print_percent.
Print Assumptions C07_print_money.
Print Assumptions C07_print_unit.
Print Assumptions C07_former_witnesses.
Print Assumptions C07_fixed_exact.
Print Assumptions C07_round_half_even_nearest.
Print Assumptions C07_examples.
Print Assumptions C07_magnitude_unsigned.
Print Assumptions C07_money_table.
Print Assumptions C07_money_table_nonempty.
Print Assumptions C07_wrappers_examples.
