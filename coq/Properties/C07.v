(* Property C07 - statements only (proofs in Proofs/C07.v). Not built yet. *)
From SC.Model Require Import Base.
