(* Property C18 - custom rules and user-defined unit families: registration, effect, removal.
   STATEMENTS ONLY (proofs: Proofs/C18.v).  The public API is the state machine Corr.step;
   [rules_of m lang] is the rule list of a language, [api_of] / [internal_of] its API and
   built-in parts in order, [remove_first] the reference meaning of delete_rule, [final] the
   state after a history.  API rules are the closed family of Types.rulekind (implemented
   identically in the harness). *)
From Coq Require Import Floats.
From SC.Model Require Import Base Num NumF64 FloatIO Types Config Case Match Chrono UiTokens Rx Post Parser Items Interp
     RuleFns Rules Format Lexer Api Run64 Corr.
From SC.Proofs Require Import C04 C18 C18_Fresh.

(* add_rule: refused (nothing changes) exactly for an unknown language; otherwise the rule is
   appended behind all existing rules of that language and nothing else changes *)
Theorem C18_add_rule : forall ck m lang patterns name kind k cur ps0,
  tokenise_patterns LX ck (m_cfg m) lang patterns = Ok ps0 ->
  let r := step ck m (OAddRule lang patterns name kind k cur) in
  match rules_of m lang with
  | None => r = (m, MRet (Some false))
  | Some rs =>
    snd r = MRet (Some true) /\
    rules_of (fst r) lang = Some (rs ++ [RApi (nonempty_pats ps0) (mk_api name kind k cur)]) /\
    (forall l', l' <> lang -> rules_of (fst r) l' = rules_of m l') /\
    same_but_rules (m_cfg m) (m_cfg (fst r)) /\ m_sessions (fst r) = m_sessions m
  end.
Proof. exact add_rule_spec. Qed.

(* delete_rule: refused (nothing changes) exactly for an unknown language or name; otherwise
   the FIRST registration of that name is removed, the other registrations keep their order and
   the built-in rules are untouched *)
Theorem C18_delete_rule : forall ck m lang name,
  let r := step ck m (ODeleteRule lang name) in
  match rules_of m lang with
  | None => r = (m, MRet (Some false))
  | Some rs =>
    if has_name name (api_of rs) then
      snd r = MRet (Some true) /\
      (exists rs', rules_of (fst r) lang = Some rs' /\
                   api_of rs' = remove_first name (api_of rs) /\ internal_of rs' = internal_of rs) /\
      (forall l', l' <> lang -> rules_of (fst r) l' = rules_of m l') /\
      same_but_rules (m_cfg m) (m_cfg (fst r)) /\ m_sessions (fst r) = m_sessions m
    else r = (m, MRet (Some false))
  end.
Proof. exact delete_rule_spec. Qed.

(* all histories of registrations and deletions: the API rules are exactly the reference list
   (add appends, delete removes the first of that name), i.e. the surviving registrations in
   registration order; the built-in rules, the other languages and the sessions are untouched *)
Theorem C18_rule_history : forall ck lang ops ros m rs,
  rules_of m lang = Some rs -> realises ck lang m ops ros ->
  exists rs', rules_of (final ck m ops) lang = Some rs' /\
              api_of rs' = fold_left spec_rop ros (api_of rs) /\
              internal_of rs' = internal_of rs /\
              (forall l', l' <> lang -> rules_of (final ck m ops) l' = rules_of m l') /\
              m_sessions (final ck m ops) = m_sessions m.
Proof. exact rule_history. Qed.

(* THE central clause: after ANY history of registrations and deletions (on a calculator without
   custom rules for that language, e.g. a fresh one) the whole state - configuration and sessions -
   equals the state of the calculator on which only the surviving registrations were made, in
   registration order; hence every later operation is observed identically.  [survivors_spec]:
   add appends, delete removes the first registration of that name; [adds_of]: one add_rule per
   survivor.  [rule_op_ok]: the operation is add_rule / delete_rule on [lang] and an add's
   patterns tokenise without a panic.  Uses: the lexer never reads the rule table. *)
Theorem C18_lexer_ignores_rules : forall lx ck (c : config float) r lang pats,
  tokenise_patterns lx ck (set_rules c r) lang pats = tokenise_patterns lx ck c lang pats.
Proof. exact (@tokenise_patterns_set_rules float NumF64). Qed.

Theorem C18_fresh_equiv : forall ck m lang rs ops,
  rules_of m lang = Some rs -> api_of rs = [] -> Forall (rule_op_ok ck (m_cfg m) lang) ops ->
  final ck m ops = final ck m (adds_of lang (survivors_spec ops)).
Proof. exact fresh_equiv. Qed.

Theorem C18_fresh_equiv_init : forall ck lang ops,
  Forall (rule_op_ok ck default_config lang) ops ->
  final ck init_state ops = final ck init_state (adds_of lang (survivors_spec ops)).
Proof. exact fresh_equiv_init. Qed.

Theorem C18_fresh_run_init : forall ck lang ops evals,
  Forall (rule_op_ok ck default_config lang) ops ->
  run ck (final ck init_state ops) evals =
  run ck (final ck init_state (adds_of lang (survivors_spec ops))) evals.
Proof. exact fresh_run_init. Qed.

(* register then delete: the previous registrations are restored *)
Theorem C18_delete_restores : forall name l p a,
  has_name name l = false -> ar_name a = name -> remove_first name (l ++ [(p, a)]) = l.
Proof. exact remove_first_snoc. Qed.

(* a rule that declines: the rewrite loop over a rule list containing it (anywhere) is the
   loop over the list without it, for every line, fuel and state; it never panics *)
Theorem C18_decline_absent : forall bexec now_year line cfg lang vs ps ar pre post,
  ar_kind ar = RDecline -> Forall (fun p => p <> []) ps ->
  forall fuel st,
  rule_loop bexec now_year fuel line cfg lang vs (pre ++ RApi ps ar :: post) st =
  rule_loop bexec now_year fuel line cfg lang vs (pre ++ post) st.
Proof. exact decline_loop. Qed.

Theorem C18_stored_patterns_nonempty : forall ps0, Forall (fun p => p <> []) (nonempty_pats ps0).
Proof. exact nonempty_pats_ok. Qed.

(* matching never panics on a non-empty pattern *)
Theorem C18_find_match_total : forall vs pat tokens, pat <> [] -> exists m, find_match vs pat tokens = Ok m.
Proof. exact find_match_ok. Qed.

(* unit families: duplicates are refused without any change *)
Theorem C18_add_type : forall ck m name,
  let r := step ck m (OAddType name) in
  match assoc name (cf_types (m_cfg m)) with
  | Some _ => r = (m, MRet (Some false))
  | None => snd r = MRet (Some true) /\
            cf_types (m_cfg (fst r)) = assoc_insert name [] (cf_types (m_cfg m)) /\
            cf_rules (m_cfg (fst r)) = cf_rules (m_cfg m) /\ m_sessions (fst r) = m_sessions m
  end.
Proof. exact add_type_spec. Qed.

Theorem C18_add_type_item_duplicate : forall ck m name index format parse up down names digits rnd rm g d,
  assoc name (cf_types (m_cfg m)) = Some g -> nassoc index g = Some d ->
  step ck m (OAddTypeItem name index format parse up down names digits rnd rm) = (m, MRet (Some false)).
Proof. exact add_type_item_duplicate. Qed.

Theorem C18_add_type_item_unknown_family : forall ck m name index format parse up down names digits rnd rm,
  assoc name (cf_types (m_cfg m)) = None ->
  step ck m (OAddTypeItem name index format parse up down names digits rnd rm) = (m, MRet (Some false)).
Proof. exact add_type_item_unknown_family. Qed.

Theorem C18_add_type_item_new : forall ck m name index format parse up down names digits rnd rm g ps0,
  assoc name (cf_types (m_cfg m)) = Some g -> nassoc index g = None ->
  tokenise_patterns LX ck (m_cfg m) (s "en") parse = Ok ps0 ->
  let r := step ck m (OAddTypeItem name index format parse up down names digits rnd rm) in
  snd r = MRet (Some true) /\
  cf_types (m_cfg (fst r)) =
    assoc_insert name (ninsert index {| dt_group := name; dt_index := index; dt_format := format;
                                        dt_parse := nonempty_pats ps0; dt_up := up; dt_down := down;
                                        dt_names := names; dt_digits := digits; dt_round := rnd; dt_rm := rm |} g)
                 (cf_types (m_cfg m)) /\
  cf_rules (m_cfg (fst r)) = cf_rules (m_cfg m).
Proof. exact add_type_item_new. Qed.

(* non-vacuity, computed through the whole model at binary64: two rules with overlapping
   patterns, evaluation, deletion of the first, evaluation; then a user-defined family
   (12 penny = 1 shilling, 20 shilling = 1 pound) converting along its chain *)
Definition c18_ck : clock := {| ck_today := 20000; ck_year := 2024 |}.
Definition two : float := Eval vm_compute in f64_of_Z 2.
Definition ten : float := Eval vm_compute in f64_of_Z 10.
Definition c18_hist : list op :=
  [OAddRule (s "en") [s "{NUMBER:x} widgets"] (s "double") RScale two [];
   OAddRule (s "en") [s "{NUMBER:x} widgets"] (s "tenfold") RScale ten [];
   OAddRule (s "xx") [s "{NUMBER:x} widgets"] (s "nolang") RScale ten [];
   OExec (s "en") (s "3 widgets");
   ODeleteRule (s "en") (s "double");
   OExec (s "en") (s "3 widgets");
   ODeleteRule (s "en") (s "double");
   ODeleteRule (s "en") (s "tenfold");
   OExec (s "en") (s "3 widgets");
   OAddType (s "coin"); OAddType (s "coin");
   OAddTypeItem (s "coin") 1 (s "{value} d") [s "{NUMBER:value} {TEXT:type:penny}"] (s "{value} / 12") (s "{value}") [s "penny"] None None None;
   OAddTypeItem (s "coin") 2 (s "{value} s") [s "{NUMBER:value} {TEXT:type:shilling}"] (s "{value} / 20") (s "{value} * 12") [s "shilling"] None None None;
   OAddTypeItem (s "coin") 3 (s "{value} L") [s "{NUMBER:value} {TEXT:type:pound}"] (s "{value}") (s "{value} * 20") [s "pound"] None None None;
   OAddTypeItem (s "coin") 3 (s "{value} X") [s "{NUMBER:value} {TEXT:type:pound}"] (s "{value}") (s "{value} * 2") [s "pound"] None None None;
   OExec (s "en") (s "480 penny to pound");
   OExec (s "en") (s "1 pound to penny")].
Definition c18_show (o : mobs) : list (option str) :=
  match o with
  | MRes r => map (fun l => match l with
                            | Some lo => match lo_result lo with LOk out _ => Some out | LErr _ => None end
                            | None => None end) (er_lines r)
  | MRet (Some true) => [Some (s "true")]
  | MRet (Some false) => [Some (s "false")]
  | _ => []
  end.
Theorem C18_example :
  map c18_show (run c18_ck init_state c18_hist) =
  map (fun x => [Some (s x)])
      ["true"; "true"; "false"; "6"; "true"; "30"; "false"; "true"; "3"; "true"; "false"; "true"; "true"; "true";
       "false"; "2 L"; "240 d"]%string.
Proof. vm_compute. reflexivity. Qed.

Print Assumptions C18_lexer_ignores_rules.
Print Assumptions C18_fresh_equiv.
Print Assumptions C18_fresh_equiv_init.
Print Assumptions C18_fresh_run_init.
Print Assumptions C18_add_rule.
Print Assumptions C18_delete_rule.
Print Assumptions C18_rule_history.
Print Assumptions C18_delete_restores.
Print Assumptions C18_decline_absent.
Print Assumptions C18_stored_patterns_nonempty.
Print Assumptions C18_find_match_total.
Print Assumptions C18_add_type.
Print Assumptions C18_add_type_item_duplicate.
Print Assumptions C18_add_type_item_unknown_family.
Print Assumptions C18_add_type_item_new.
Print Assumptions C18_example.
