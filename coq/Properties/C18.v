(* Property C18 - statements only (proofs in Proofs/C18.v). Not built yet. *)
From SC.Model Require Import Base.
