(* Property C11 - statements only (proofs in Proofs/C11.v). Not built yet. *)
From SC.Model Require Import Base.
