(* Property C11 - clock times and zones: conversion keeps the instant, arithmetic is modulo 24 h.
   STATEMENTS ONLY (proofs: Proofs/C11.v).  Model functions: Format.time_print (TimeItem::print),
   RuleFns.time_with_timezone / convert_timezone / to_duration, Items.calculate on a time and a
   duration (Items.duration_as_time inside), Lexer.parse_timezone through the zone regex of
   config.json (lex_zone), Corr.set_timezone / step (SmartCalc::set_timezone, get_time_offset),
   Api.execute (run_line).  In the model a time is a UTC instant in seconds since the epoch plus the
   display zone {tz_name; tz_off (minutes east)}.
   Spec: Spec/Clock.v (wall_ok, wall_of, instant_of, clock_of, shown, shift_add, shift_sub,
   clock_diff, clock_text). *)
From Coq Require Import ZArith Floats.
From SC.Model Require Import Base Num NumF64 Types Config Case Chrono Regex Rx UiTokens Parser RuleFns Rules Items Format Lexer Api Run64 Corr.
From SC.Spec Require Import Clock.
From SC.Gen Require Import RustConsts ConfigData Regexes.
From SC.Proofs Require Import C11.

(* ---- printing: for ALL instants and ALL display offsets the printed HH:MM:SS is the wall time
   of the instant in the display zone, followed by the zone name *)
Theorem C11_print_clock : forall t tz,
  time_print t tz = clock_text (clock_of t (tz_off tz)) ++ 32%N :: tz_name tz.
Proof. exact print_clock. Qed.

(* hours < 24, minutes and seconds < 60, and they determine the wall time *)
Theorem C11_print_components : forall t off,
  let w := clock_of t off in
  0 <= w / 3600 < 24 /\ 0 <= (w / 60) mod 60 < 60 /\ 0 <= w mod 60 < 60 /\
  w = wall_of (w / 3600) ((w / 60) mod 60) (w mod 60).
Proof. exact print_components. Qed.

(* different wall times print differently (the printed text can be compared instead of the value) *)
Theorem C11_clock_text_inj : forall w1 w2,
  wall_ok w1 -> wall_ok w2 -> clock_text w1 = clock_text w2 -> w1 = w2.
Proof. exact clock_text_inj. Qed.

(* ---- the spec's conversion: identity on the same zone, composes, and round-trips *)
Theorem C11_shown_laws : forall w a b c,
  wall_ok (shown w a b) /\
  (wall_ok w -> shown w a a = w) /\
  shown (shown w a b) b c = shown w a c /\
  (wall_ok w -> shown (shown w a b) b a = w).
Proof.
  intros w a b c. split; [apply shown_ok|]. split; [apply shown_same|].
  split; [apply shown_compose | apply shown_roundtrip].
Qed.

Section WithNum.
Context {F : Type} {NF : Num F}.

(* ---- `T ZONE`: the wall time is re-anchored in ZONE (instant = wall - 60*offset), whatever the
   default zone [cur] the literal was first read in; all days, all w, all offsets *)
Theorem C11_with_timezone : forall (vs : vars F) fs day w cur n o,
  get_time vs (s "time") fs = Some (instant_of day w (tz_off cur), cur) ->
  get_timezone vs (s "timezone") fs = Some (n, o) ->
  time_with_timezone vs fs = Ok (Some (TTime (instant_of day w o) (zone_of n o))).
Proof. exact with_timezone_wall. Qed.

(* ---- `X to ZONE`: the instant is kept, only the display zone is swapped *)
Theorem C11_convert_keeps_instant : forall (vs : vars F) fs t z n o,
  get_time vs (s "time") fs = Some (t, z) -> get_timezone vs (s "timezone") fs = Some (n, o) ->
  convert_timezone vs fs = Ok (Some (TTime t (zone_of n o))).
Proof. exact convert_keeps_instant. Qed.

(* ---- `T ZONE_A to ZONE_B` prints shown w a b and the name of ZONE_B: for ALL wall times w, ALL
   offsets a b (unbounded), all days, whatever the default zone *)
Theorem C11_convert_shows : forall (vs : vars F) day w cur na a nb b fs1,
  get_time vs (s "time") fs1 = Some (instant_of day w (tz_off cur), cur) ->
  get_timezone vs (s "timezone") fs1 = Some (na, a) ->
  let t1 := instant_of day w a in
  time_with_timezone vs fs1 = Ok (Some (TTime t1 (zone_of na a))) /\
  time_print t1 (zone_of na a) = clock_text (shown w a a) ++ 32%N :: to_uppercase na /\
  forall fs2,
    get_time vs (s "time") fs2 = Some (t1, zone_of na a) ->
    get_timezone vs (s "timezone") fs2 = Some (nb, b) ->
    convert_timezone vs fs2 = Ok (Some (TTime t1 (zone_of nb b))) /\
    time_print t1 (zone_of nb b) = clock_text (shown w a b) ++ 32%N :: to_uppercase nb.
Proof. exact convert_shows. Qed.

(* ---- `T to ZONE_B` (no source zone): the source is the configured default zone *)
Theorem C11_convert_default_shows : forall (vs : vars F) day w cur nb b fs,
  get_time vs (s "time") fs = Some (instant_of day w (tz_off cur), cur) ->
  get_timezone vs (s "timezone") fs = Some (nb, b) ->
  convert_timezone vs fs = Ok (Some (TTime (instant_of day w (tz_off cur)) (zone_of nb b))) /\
  time_print (instant_of day w (tz_off cur)) (zone_of nb b)
    = clock_text (shown w (tz_off cur) b) ++ 32%N :: to_uppercase nb.
Proof. exact convert_default_shows. Qed.

(* a literal prints its own wall time and zone *)
Theorem C11_literal_prints : forall day w z, wall_ok w ->
  time_print (instant_of day w (tz_off z)) z = clock_text w ++ 32%N :: tz_name z.
Proof. exact literal_prints. Qed.

(* ---- T +/- duration: exactly what is computed ([dt_ok]: chrono's NaiveDateTime range) ... *)
Theorem C11_calc_exact : forall (bexec : config F -> str -> res (option F)) cfg t tz d op,
  calculate bexec cfg (ITime t tz : item F) (IDuration d) op =
  let m := Z.abs d mod DAY_SECS in
  let plus := if dt_ok (t + m) then Ok (Some (ITime (t + m) tz)) else Panic SITE_DT_ADD in
  let minus := if dt_ok (t - m) then Ok (Some (ITime (t - m) tz)) else Panic SITE_DT_ADD in
  if d <? 0 then minus
  else match op with OAdd => plus | OSub => minus | _ => Ok None end.
Proof. exact calc_time_duration. Qed.

(* ... the clock moves by the duration modulo 24 h in every display zone, the zone is kept; all
   instants, all durations d >= 0 *)
Theorem C11_calc_add : forall (bexec : config F -> str -> res (option F)) cfg t tz d t' tz',
  0 <= d ->
  calculate bexec cfg (ITime t tz : item F) (IDuration d) OAdd = Ok (Some (ITime t' tz')) ->
  tz' = tz /\ forall off, clock_of t' off = shift_add (clock_of t off) d.
Proof. exact calc_add_clock. Qed.

Theorem C11_calc_sub : forall (bexec : config F -> str -> res (option F)) cfg t tz d t' tz',
  0 <= d ->
  calculate bexec cfg (ITime t tz : item F) (IDuration d) OSub = Ok (Some (ITime t' tz')) ->
  tz' = tz /\ forall off, clock_of t' off = shift_sub (clock_of t off) d.
Proof. exact calc_sub_clock. Qed.

(* a negative duration moves the clock back by its magnitude under + and under - alike *)
Theorem C11_calc_negative : forall (bexec : config F -> str -> res (option F)) cfg t tz d op t' tz',
  d < 0 ->
  calculate bexec cfg (ITime t tz : item F) (IDuration d) op = Ok (Some (ITime t' tz')) ->
  tz' = tz /\ forall off, clock_of t' off = shift_sub (clock_of t off) (- d).
Proof. exact calc_negative_clock. Qed.

(* it succeeds (no panic, no refusal) for every instant within +-250,000 years, every duration *)
Theorem C11_calc_total : forall (bexec : config F -> str -> res (option F)) cfg t tz d op,
  - 8 * 10 ^ 12 <= t <= 8 * 10 ^ 12 -> op = OAdd \/ op = OSub ->
  exists t', calculate bexec cfg (ITime t tz : item F) (IDuration d) op = Ok (Some (ITime t' tz)).
Proof. exact calc_time_duration_total. Qed.

(* the printed result for a literal of wall time w in zone z *)
Theorem C11_calc_prints : forall (bexec : config F -> str -> res (option F)) cfg day w z d t' tz',
  0 <= d ->
  (calculate bexec cfg (ITime (instant_of day w (tz_off z)) z : item F) (IDuration d) OAdd = Ok (Some (ITime t' tz')) ->
   time_print t' tz' = clock_text (shift_add w d) ++ 32%N :: tz_name z) /\
  (calculate bexec cfg (ITime (instant_of day w (tz_off z)) z : item F) (IDuration d) OSub = Ok (Some (ITime t' tz')) ->
   time_print t' tz' = clock_text (shift_sub w d) ++ 32%N :: tz_name z).
Proof.
  intros bexec cfg day w z d t' tz' Hd. split; [apply calc_add_prints | apply calc_sub_prints]; exact Hd.
Qed.

(* ---- `T1 to T2` is the absolute difference of the two instants; for two literals of one day
   under one default zone, of the two wall times *)
Theorem C11_to_duration : forall (vs : vars F) fs t1 z1 t2 z2,
  get_time vs (s "source") fs = Some (t1, z1) -> get_time vs (s "target") fs = Some (t2, z2) ->
  to_duration vs fs = Ok (Some (TDuration (clock_diff t1 t2))).
Proof. exact to_duration_abs. Qed.

Theorem C11_to_duration_walls : forall (vs : vars F) fs day w1 w2 z,
  get_time vs (s "source") fs = Some (instant_of day w1 (tz_off z), z) ->
  get_time vs (s "target") fs = Some (instant_of day w2 (tz_off z), z) ->
  to_duration vs fs = Ok (Some (TDuration (clock_diff w1 w2))).
Proof. exact to_duration_walls. Qed.

(* ---- literals.  The token time_body makes from a match of a time regex: for ALL days, ALL
   default zones (|offset| < 24 h) and all values the hour / minute / second groups read as, it
   is the instant of that wall time of today in the default zone, carrying the default zone; a
   "pm" meridiem adds 12 to hours 0..11 *)
Theorem C11_literal_token : forall (today : Z) (cfg : config F) line c cp (st : Lexer.tstate) hsp h0 m sec b e,
  cap_name c cp "hour" = Some hsp -> parse_i64 (slice line hsp) = Some h0 ->
  group_reads line (cap_name c cp "minute") m ->
  group_reads line (cap_name c cp "second") sec ->
  cap_get cp 0 = Some (b, e) ->
  let h := if is_pm line (cap_name c cp "meridiem") && (h0 <? 12) && (0 <=? h0) then h0 + 12 else h0 in
  Z.abs (tz_off (cf_tz cfg)) < 1440 -> h < 24 -> m < 60 -> sec < 60 ->
  exists en,
    time_body today cfg line c cp st =
    let '(st1, ok) := add_token st b en
          (Some (TTime (instant_of today (wall_of h m sec) (tz_off (cf_tz cfg))) (cf_tz cfg))) (slice line (b, e)) in
    Ok (if ok then with_ui st1 (ui_add line (ts_ui st1) b e UDateTime) else st1).
Proof. exact time_body_token. Qed.

End WithNum.

(* ... and which groups the five time regexes of config.json deliver (finite, executed): every
   H:MM / HH:MM of the day under three default zones (UTC, GMT+5:30, HNT = -3:30) ... *)
Theorem C11_literal_hm : forall cfg h hs m,
  In cfg lit_cfgs -> 0 <= h < 24 -> In hs (hour_spellings h) -> 0 <= m < 60 ->
  literal_tokens DAY1 cfg (text_hm hs m) = whole_line_time DAY1 cfg (text_hm hs m) (wall_of h m 0).
Proof. exact literal_hm. Qed.

(* ... every H:MM:SS with minutes 0, 7, 30, 59 ... *)
Theorem C11_literal_hms : forall h hs m sec,
  0 <= h < 24 -> In hs (hour_spellings h) -> In m some_minutes -> 0 <= sec < 60 ->
  literal_tokens DAY1 default_config (text_hms hs m sec)
    = whole_line_time DAY1 default_config (text_hms hs m sec) (wall_of h m sec).
Proof. exact literal_hms. Qed.

(* ... and every 1-11 am/pm form: H:MM am, H:MMam, HH:MM am, H am, Ham with am/pm/AM/PM/Pm *)
Theorem C11_literal_ampm : forall h hs mer pm sep m,
  1 <= h <= 11 -> In hs (hour_spellings h) -> In (mer, pm) meridiems -> In sep seps -> 0 <= m < 60 ->
  literal_tokens DAY1 default_config (text_hm hs m ++ sep ++ mer)
    = whole_line_time DAY1 default_config (text_hm hs m ++ sep ++ mer) (wall_of (hour24 h pm) m 0) /\
  literal_tokens DAY1 default_config (hs ++ sep ++ mer)
    = whole_line_time DAY1 default_config (hs ++ sep ++ mer) (wall_of (hour24 h pm) 0 0).
Proof. exact literal_ampm. Qed.

(* ... and every 1-11 am/pm form with seconds: H:MM:SS pm, H:MM:SSpm, HH:MM:SS pm (minutes 0, 7,
   30, 59; all seconds).  Was a defect (`1:20:30 pm` read as 01:20:30), repaired in /repo 6e1968b *)
Theorem C11_literal_hms_ampm : forall h hs mer pm sep m sec,
  1 <= h <= 11 -> In hs (hour_spellings h) -> In (mer, pm) meridiems -> In sep seps ->
  In m some_minutes -> 0 <= sec < 60 ->
  literal_tokens DAY1 default_config (text_hms hs m sec ++ sep ++ mer)
    = whole_line_time DAY1 default_config (text_hms hs m sec ++ sep ++ mer) (wall_of (hour24 h pm) m sec).
Proof. exact literal_hms_ampm. Qed.

Theorem C11_meridiem_with_seconds_examples :
  option_map fst (run_line default_config (s "1:20:30 pm")) = Some (s "13:20:30 UTC") /\
  option_map fst (run_line default_config (s "11:59:59 PM + 1 second")) = Some (s "00:00:00 UTC") /\
  option_map fst (run_line default_config (s "1:20:30 pm EST to CET")) = Some (s "19:20:30 CET") /\
  option_map fst (run_line default_config (s "12:30 am")) = Some (s "12:30:00 UTC").
Proof. exact meridiem_with_seconds_examples. Qed.

(* ---- finite table (regenerated from config.json on every run): every zone name of the table
   that [A-Z]{2,4} can express and that is not a currency code (174 of 191), through the whole
   pipeline: `10:30 Z` is 10:30 in Z with the table's offset; Z as source and as target of a
   conversion; Z as the default zone *)
Theorem C11_zone_table : forall n o, In (n, o) table_zones ->
  run_line default_config (s "10:30 " ++ n)
    = Some (clock_text W1030 ++ 32%N :: n, Some (TTime (instant_of 20000 W1030 o) {| tz_name := n; tz_off := o |})) /\
  run_line default_config (s "10:30 " ++ n ++ s " to GMT+3")
    = Some (clock_text (shown W1030 o 180) ++ s " GMT+3",
            Some (TTime (instant_of 20000 W1030 o) {| tz_name := s "GMT+3"; tz_off := 180 |})) /\
  run_line default_config (s "10:30 EST to " ++ n)
    = Some (clock_text (shown W1030 (-300) o) ++ 32%N :: n,
            Some (TTime (instant_of 20000 W1030 (-300)) {| tz_name := n; tz_off := o |})) /\
  set_timezone default_config n = Some (n, o).
Proof. exact zone_table. Qed.

Theorem C11_zone_table_size : length d_timezones = 191%nat /\ length table_zones = 174%nat.
Proof. exact zone_table_size. Qed.

(* ---- every GMT form: sign +, - or none, hour 0..19 in one or two digits, optional :mm with
   mm in 0..59 (5,490 forms): the zone regex + parse_timezone yield the text itself as the name
   and +-(60h + m) as the offset; set_timezone accepts it with the same result *)
Theorem C11_gmt_forms : forall sign h hh mm,
  In sign [s "+"; s "-"; []] -> 0 <= h < 20 -> In hh (hour_spellings h) ->
  match mm with Some m => 0 <= m < 60 | None => True end ->
  lex_zone default_config (gmt_text sign hh mm) = [(gmt_text sign hh mm, gmt_offset sign h mm)] /\
  set_timezone default_config (gmt_text sign hh mm) = Some (gmt_text sign hh mm, gmt_offset sign h mm).
Proof. exact gmt_forms. Qed.

Theorem C11_gmt_offset_signs : forall h m,
  gmt_offset (s "+") h (Some m) = 60 * h + m /\
  gmt_offset [] h (Some m) = 60 * h + m /\ gmt_offset (s "-") h (Some m) = - (60 * h + m) /\
  gmt_offset (s "+") h None = 60 * h /\ gmt_offset (s "-") h None = - (60 * h).
Proof. exact gmt_offset_signs. Qed.

(* ---- the default zone (operation machine of the correspondence layer = the public API) *)
Theorem C11_set_tz_ok : forall ck m v n o, set_timezone (m_cfg m) v = Some (n, o) ->
  let m' := fst (step ck m (OSetTz v)) in
  snd (step ck m (OSetTz v)) = MTz true n o /\
  get_time_offset (m_cfg m') = {| tz_name := n; tz_off := o |} /\
  step ck m' OGetTz = (m', MTz true n o) /\
  m_sessions m' = m_sessions m.
Proof. exact set_tz_ok. Qed.

Theorem C11_set_tz_fail : forall ck m v,
  set_timezone (m_cfg m) v = None -> step ck m (OSetTz v) = (m, MTz false [] 0).
Proof. exact set_tz_fail. Qed.

Theorem C11_exec_keeps_state : forall ck m lang text, fst (step ck m (OExec lang text)) = m.
Proof. exact exec_keeps_state. Qed.

Theorem C11_only_set_tz_changes_zone : forall ck m o,
  (forall v, o <> OSetTz v) -> get_time_offset (m_cfg (fst (step ck m o))) = get_time_offset (m_cfg m).
Proof. exact only_set_tz_changes_zone. Qed.

(* all histories: the default zone is the last one set successfully *)
Theorem C11_default_zone_history : forall ck ops m,
  get_time_offset (m_cfg (final_state ck m ops)) = last_zone (m_cfg m) (get_time_offset (m_cfg m)) ops.
Proof. exact default_zone_history. Qed.

(* ---- non-vacuity: whole-pipeline runs *)
Theorem C11_examples :
  run_line default_config (s "10:30 EST to GMT+3")
    = Some (s "18:30:00 GMT+3", Some (TTime (20000 * 86400 + 15 * 3600 + 30 * 60) {| tz_name := s "GMT+3"; tz_off := 180 |})) /\
  run_line default_config (s "1:15 JST to PST")
    = Some (s "08:15:00 PST", Some (TTime (20000 * 86400 + 3600 + 900 - 9 * 3600) {| tz_name := s "PST"; tz_off := -480 |})) /\
  run_line default_config (s "3 pm") = Some (s "15:00:00 UTC", Some (TTime (20000 * 86400 + 15 * 3600) {| tz_name := s "UTC"; tz_off := 0 |})) /\
  run_line default_config (s "11:05 AM CET") = Some (s "11:05:00 CET", Some (TTime (20000 * 86400 + 10 * 3600 + 300) {| tz_name := s "CET"; tz_off := 60 |})) /\
  option_map fst (run_line default_config (s "23:30 + 45 minutes")) = Some (s "00:15:00 UTC") /\
  option_map fst (run_line default_config (s "0:15 - 30 minutes")) = Some (s "23:45:00 UTC") /\
  option_map fst (run_line default_config (s "12:00 - 36 hours")) = Some (s "00:00:00 UTC") /\
  run_line default_config (s "10:30 to 13:00") = Some (s "2 hours 30 minutes", Some (TDuration 9000)) /\
  run_line default_config (s "13:00 to 10:30") = Some (s "2 hours 30 minutes", Some (TDuration 9000)) /\
  option_map fst (run_line (cfg_with_zone (s "GMT+5:30")) (s "9:00 pm to UTC")) = Some (s "15:30:00 UTC") /\
  option_map fst (run_line (cfg_with_zone (s "GMT+5:30")) (s "10:30 EST to GMT+3")) = Some (s "18:30:00 GMT+3") /\
  run_line (cfg_with_zone (s "GMT+5:30")) (s "21:00")
    = Some (s "21:00:00 GMT+5:30", Some (TTime (20000 * 86400 + 21 * 3600 - 330 * 60) {| tz_name := s "GMT+5:30"; tz_off := 330 |})) /\
  set_timezone default_config (s "EST") = Some (s "EST", -300) /\
  set_timezone default_config (s "Mars") = None /\
  shown (wall_of 10 30 0) (-300) 180 = wall_of 18 30 0.
Proof. exact examples. Qed.

(* ---- KNOWN FINDING C11-K1 in the model: `T1 Z1 to T2 Z2` written on one line fails (the second zone is left over
        by the rule pass); with one zone on the line, or with the zoned operand in a variable, the instants are compared *)
Theorem C11_both_zoned_refuted :
  line_error default_config (s "10:00 EST to 12:00 CET") = Some (s "No more token") /\
  option_map fst (run_line default_config (s "10:00 EST to 12:00")) = Some (s "3 hours") /\
  option_map fst (run_line default_config (s "10:00 to 12:00 CET")) = Some (s "1 hour") /\
  last_line default_config (s "a = 10:00 EST
a to 12:00 CET") = Some (s "4 hours").
Proof. exact both_zoned_refuted. Qed.

Print Assumptions C11_both_zoned_refuted.
Print Assumptions C11_print_clock.
Print Assumptions C11_print_components.
Print Assumptions C11_clock_text_inj.
Print Assumptions C11_shown_laws.
Print Assumptions C11_with_timezone.
Print Assumptions C11_convert_keeps_instant.
Print Assumptions C11_convert_shows.
Print Assumptions C11_convert_default_shows.
Print Assumptions C11_literal_prints.
Print Assumptions C11_calc_exact.
Print Assumptions C11_calc_add.
Print Assumptions C11_calc_sub.
Print Assumptions C11_calc_negative.
Print Assumptions C11_calc_total.
Print Assumptions C11_calc_prints.
Print Assumptions C11_to_duration.
Print Assumptions C11_to_duration_walls.
Print Assumptions C11_literal_token.
Print Assumptions C11_literal_hm.
Print Assumptions C11_literal_hms.
Print Assumptions C11_literal_ampm.
Print Assumptions C11_literal_hms_ampm.
Print Assumptions C11_meridiem_with_seconds_examples.
Print Assumptions C11_zone_table.
Print Assumptions C11_zone_table_size.
Print Assumptions C11_gmt_forms.
Print Assumptions C11_gmt_offset_signs.
Print Assumptions C11_set_tz_ok.
Print Assumptions C11_set_tz_fail.
Print Assumptions C11_exec_keeps_state.
Print Assumptions C11_only_set_tz_changes_zone.
Print Assumptions C11_default_zone_history.
Print Assumptions C11_examples.
