(* Property C09 - statements only (proofs in Proofs/C09.v). Not built yet. *)
From SC.Model Require Import Base.
