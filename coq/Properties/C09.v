(* Property C09 - dates are read as calendar dates and date arithmetic is calendar arithmetic.
   STATEMENTS ONLY (proofs: Proofs/C09.v).  Model functions: Chrono.date_of_ymd_opt
   (NaiveDate::from_ymd_opt), RuleFns.small_date, RuleFns.to_duration, Items.date_calc /
   Items.calculate (DateItem::calculate), Lexer.token_infos (the today / tomorrow / yesterday
   constants), Format.date_print.  Spec: Spec/Calendar.v (proleptic Gregorian calendar:
   valid_date, days_from_civil, civil_from_days, add_days, add_months, add_years, diff_days,
   next_date).

   Two genuine defects of the crate are pinned by its own tests (execute_19..26) and are
   recorded in known_findings.json instead of repaired; the theorems below say exactly where
   the arithmetic is calendar arithmetic and what is computed elsewhere:
     C09-duration-quantised        a Duration has no unit: 30 days or more are re-read as 365-day
                                   years, 30-day months and a remainder (C09_days_quantised,
                                   C09_days_refuted)
     C09-month-sub-no-year-borrow  subtracting months wraps below january without decreasing the
                                   year (C09_months_sub, C09_months_sub_refuted) *)
From SC.Model Require Import Base Num NumF64 Types Config Case Chrono Parser RuleFns Items Format Lexer Api Run64.
From SC.Spec Require Import Calendar.
From SC.Gen Require Import RustConsts ConfigData.
From SC.Proofs Require Import C09.
From Coq Require Import ZArith Bool List Floats.
Import ListNotations.
Local Open Scope Z_scope.

(* ---------------------------------------------------------------- reading a date *)

(* from_ymd_opt accepts exactly the existing calendar dates, for every integer year, month and
   day (within chrono's years -262143 .. 262142), and returns the day number of that date *)
Theorem C09_valid_iff : forall y m d,
  MIN_YEAR <= y <= MAX_YEAR ->
  (date_of_ymd_opt y m d <> None <-> valid_date y m d = true) /\
  (forall n, date_of_ymd_opt y m d = Some n -> civil_from_days n = (y, m, d)).
Proof. exact ymd_opt_iff. Qed.

Section WithNum.
Context {F : Type} {NF : Num F}.

(* the date rule, for all field values: what it accepts is the existing calendar date
   (year, month, day) written in the fields, the year being the current year when the pattern
   has no year field *)
Theorem C09_small_date_sound : forall now_year (cfg : config F) vs fs t,
  small_date now_year cfg vs fs = Ok (Some t) ->
  exists day month n,
    get_number vs (s "day") fs = Some day /\ get_number_or_month vs (s "month") fs = Some month /\
    t = TDate n (get_time_offset cfg) /\
    let y := match get_number vs (s "year") fs with Some y => as_i32 y | None => now_year end in
    valid_date y month (as_u32 day) = true /\ MIN_YEAR <= y <= MAX_YEAR /\
    n = days_from_civil y month (as_u32 day) /\
    civil_from_days n = (y, month, as_u32 day).
Proof. exact small_date_sound. Qed.

(* every existing date is accepted, impossible dates (31 april, 29 feb of a non-leap year,
   month 13, day 0, ...) never are *)
Theorem C09_small_date_complete : forall now_year (cfg : config F) vs fs day month,
  has "day" fs && has "month" fs = true ->
  get_number vs (s "day") fs = Some day -> get_number_or_month vs (s "month") fs = Some month ->
  let y := match get_number vs (s "year") fs with Some y => as_i32 y | None => now_year end in
  (valid_date y month (as_u32 day) = true -> MIN_YEAR <= y <= MAX_YEAR ->
   small_date now_year cfg vs fs
   = Ok (Some (TDate (days_from_civil y month (as_u32 day)) (get_time_offset cfg)))) /\
  (valid_date y month (as_u32 day) = false -> small_date now_year cfg vs fs = Ok None).
Proof. exact small_date_complete. Qed.

Theorem C09_small_date_no_panic : forall now_year (cfg : config F) vs fs,
  exists o, small_date now_year cfg vs fs = Ok o.
Proof. exact small_date_no_panic. Qed.

(* ---------------------------------------------------------------- A to B *)
Theorem C09_to_days : forall (vs : vars F) (fs : fields F) a b tza tzb,
  has "source" fs && has "target" fs = true ->
  get_date vs (s "source") fs = Some (a, tza) -> get_date vs (s "target") fs = Some (b, tzb) ->
  to_duration vs fs = Ok (Some (TDuration (Z.abs (diff_days a b) * 86400))).
Proof. exact to_duration_dates. Qed.

Theorem C09_to_symmetric : forall (vs : vars F) (fs1 fs2 : fields F) a b tza tzb tza' tzb',
  has "source" fs1 && has "target" fs1 = true -> has "source" fs2 && has "target" fs2 = true ->
  get_date vs (s "source") fs1 = Some (a, tza) -> get_date vs (s "target") fs1 = Some (b, tzb) ->
  get_date vs (s "source") fs2 = Some (b, tzb') -> get_date vs (s "target") fs2 = Some (a, tza') ->
  to_duration vs fs1 = to_duration vs fs2.
Proof. exact to_duration_symmetric. Qed.

(* ---------------------------------------------------------------- date +/- duration *)
(* only a duration can be added to a date; the time zone label is kept; no panic *)
Theorem C09_calc_item : forall (bexec : config F -> str -> res (option F)) cfg n tz r op,
  calculate bexec cfg (IDate n tz) r op =
  match r with
  | IDuration dur =>
    match date_calc n dur op with
    | Ok o => Ok (option_map (fun n' => IDate n' tz) o)
    | Panic p => Panic p
    end
  | _ => Ok None
  end /\ (forall dur, exists o, date_calc n dur op = Ok o).
Proof. exact calc_item. Qed.

End WithNum.

(* fewer than 30 days (up to 4 weeks): the date exactly that many days away, or no result when
   that day is outside chrono's range *)
Theorem C09_days_exact : forall n k,
  -30 < k < 30 ->
  date_calc n (k * 86400) OAdd = Ok (if day_in_range (n + k) then Some (add_days n k) else None) /\
  date_calc n (k * 86400) OSub = Ok (if day_in_range (n - k) then Some (add_days n (- k)) else None).
Proof. exact calc_days. Qed.

(* a negative duration (`12 jul 1997-1 year` is read as the date and the signed literal -1 year)
   swaps the operation and is applied with its absolute value *)
Theorem C09_negative_duration : forall days dur,
  dur < 0 ->
  date_calc days dur OAdd = date_calc days (- dur) OSub /\
  date_calc days dur OSub = date_calc days (- dur) OAdd.
Proof. exact negative_duration. Qed.

(* KNOWN C09-duration-quantised: what k days do in general: k / 365 years, then (k mod 365) / 30
   months, then the remaining days *)
Theorem C09_days_quantised : forall n y m d k,
  civil_from_days n = (y, m, d) -> day_in_range n = true -> 0 <= k ->
  date_calc n (k * 86400) OAdd =
  Ok (option_bind (civil_opt (add_years y m d (k / 365))) (fun _ =>
      option_bind (civil_opt (add_months (y + k / 365) m d (k mod 365 / 30))) (fun n2 =>
        if day_in_range (n2 + k mod 365 mod 30) then Some (add_days n2 (k mod 365 mod 30)) else None))).
Proof. exact calc_days_quantised. Qed.

Theorem C09_days_refuted :
  let n := days_from_civil 2021 3 1 in
  date_calc n (30 * 86400) OSub = Ok (Some (days_from_civil 2021 2 1)) /\
  add_days n (- 30) = days_from_civil 2021 1 30 /\
  date_calc n (35 * 86400) OAdd = Ok (Some (days_from_civil 2021 4 6)) /\
  add_days n 35 = days_from_civil 2021 4 5 /\
  date_calc (days_from_civil 2020 2 29) (month_secs 13) OAdd = Ok None /\
  add_months 2020 2 29 13 = Some (2021, 3, 29).
Proof. exact calc_days_refuted. Qed.

(* + N months (N months = N / 12 years of 365 days + N mod 12 months of 30 days, C10_parse_month):
   the day of the month is kept and the calendar month moves by N, with the year carry; no
   result when the target day does not exist (or, for N >= 12, when the date reached after the
   whole years does not exist: 29 feb) *)
Theorem C09_months_add : forall n y m d N,
  civil_from_days n = (y, m, d) -> day_in_range n = true -> 0 <= N ->
  date_calc n (month_secs N) OAdd =
  Ok (option_bind (civil_opt (add_years y m d (N / 12))) (fun _ => civil_opt (add_months y m d N))).
Proof. exact calc_months_add. Qed.

Theorem C09_months_add_small : forall n y m d N,
  civil_from_days n = (y, m, d) -> day_in_range n = true -> 0 <= N <= 11 ->
  date_calc n (N * MONTH) OAdd = Ok (civil_opt (add_months y m d N)).
Proof. exact calc_months_add_small. Qed.

(* - N months: KNOWN C09-month-sub-no-year-borrow: whenever month <= N mod 12 the result is the
   calendar result of the date one year later *)
Theorem C09_months_sub : forall n y m d N,
  civil_from_days n = (y, m, d) -> day_in_range n = true -> 0 <= N ->
  date_calc n (month_secs N) OSub =
  Ok (option_bind (civil_opt (add_years y m d (- (N / 12)))) (fun _ =>
        civil_opt (add_months (if m <=? N mod 12 then y + 1 else y) m d (- N)))).
Proof. exact calc_months_sub. Qed.

(* outside that class: calendar arithmetic *)
Theorem C09_months_sub_calendar : forall n y m d N,
  civil_from_days n = (y, m, d) -> day_in_range n = true -> 0 <= N -> N mod 12 < m ->
  valid_date (y - N / 12) m d = true -> MIN_YEAR <= y - N / 12 <= MAX_YEAR ->
  date_calc n (month_secs N) OSub = Ok (civil_opt (add_months y m d (- N))).
Proof. exact calc_months_sub_calendar. Qed.

Theorem C09_months_sub_refuted :
  date_calc (days_from_civil 2021 3 15) (month_secs 3) OSub = Ok (Some (days_from_civil 2021 12 15)) /\
  add_months 2021 3 15 (- 3) = Some (2020, 12, 15) /\
  date_calc (days_from_civil 2019 1 28) (month_secs 14) OSub = Ok (Some (days_from_civil 2018 11 28)) /\
  add_months 2019 1 28 (- 14) = Some (2017, 11, 28).
Proof. exact calc_months_sub_refuted. Qed.

(* +/- N years (N years = N * 365 days): same month and day, the year moves by N; no result
   for 29 feb when the target year is not a leap year *)
Theorem C09_years : forall n y m d N,
  civil_from_days n = (y, m, d) -> day_in_range n = true -> 0 <= N ->
  date_calc n (N * YEAR) OAdd = Ok (civil_opt (add_years y m d N)) /\
  date_calc n (N * YEAR) OSub = Ok (civil_opt (add_years y m d (- N))).
Proof. exact calc_years. Qed.

(* the general shape behind the theorems above *)
Theorem C09_add_split : forall n y m d Y M R,
  civil_from_days n = (y, m, d) -> day_in_range n = true ->
  0 <= Y -> 0 <= M -> 0 <= R < MONTH -> M * MONTH + R < YEAR ->
  date_calc n (Y * YEAR + (M * MONTH + R)) OAdd =
  Ok (option_bind (civil_opt (add_years y m d Y)) (fun _ =>
      option_bind (civil_opt (add_months (y + Y) m d M)) (fun n2 => date_add_opt n2 R))).
Proof. exact calc_add_split. Qed.

Theorem C09_sub_split : forall n y m d Y M R,
  civil_from_days n = (y, m, d) -> day_in_range n = true ->
  0 <= Y -> 0 <= M -> 0 <= R < MONTH -> M * MONTH + R < YEAR ->
  date_calc n (Y * YEAR + (M * MONTH + R)) OSub =
  Ok (option_bind (civil_opt (add_years y m d (- Y))) (fun _ =>
      option_bind (civil_opt (add_months (if m <=? M mod 12 then y - Y + 1 else y - Y) m d (- M)))
                  (fun n2 => date_add_opt n2 (- R)))).
Proof. exact calc_sub_split. Qed.

(* ---------------------------------------------------------------- today, tomorrow, yesterday *)
(* the lexer (default configuration) turns the words into the dates today, today + 1, today - 1,
   for every value of the clock *)
Theorem C09_today_words : forall today,
  map (line_tokens today (s "en")) [s "today"; s "tomorrow"; s "yesterday"]
  = map (fun d => Some [Some (TDate d UTC)]) [today; today + 1; today - 1] /\
  map (line_tokens today (s "tr")) tr_today
  = map (fun d => Some [Some (TDate d UTC)]) [today; today; today + 1; today + 1; today - 1; today - 1].
Proof. exact today_words. Qed.

(* ... which are consecutive calendar days *)
Theorem C09_consecutive : forall today,
  add_days today 1 = today + 1 /\ add_days today (- 1) = today - 1 /\
  prev_date_of (civil_from_days today) (civil_from_days (today + 1)) /\
  prev_date_of (civil_from_days (today - 1)) (civil_from_days today) /\
  diff_days (today - 1) today = 1 /\ diff_days today (today + 1) = 1.
Proof. exact consecutive_days. Qed.

(* ---------------------------------------------------------------- printing *)
(* tables regenerated from config.json: the printed month words are the language's month names
   in calendar order (en and tr), and the two date patterns are 'day Month' / 'day Mon year' *)
Theorem C09_print_tables :
  forall lang, In lang [s "en"; s "tr"] ->
  option_map (map (fun mi => (uppercase_first_letter (mi_long mi), uppercase_first_letter (mi_short mi), mi_month mi)))
             (assoc lang d_months)
  = Some (combine (combine (fst (month_names lang)) (snd (month_names lang))) [1; 2; 3; 4; 5; 6; 7; 8; 9; 10; 11; 12]) /\
  option_map (fun f => (lf_language f, assoc (s "current_year") (lf_date f), assoc (s "full_date") (lf_date f)))
             (assoc lang d_format)
  = Some (lang, Some (s "{day} {month_long}"), Some (s "{day} {month_short} {year}")).
Proof. exact print_tables. Qed.

(* every day from 31 dec 2023 to 1 jan 2025 (a leap year and its borders), en and tr, every value
   of the clock: the text is 'day Month' with the long month name iff the year of the date is the
   current year, 'day Mon year' otherwise (ref_print, Proofs/C09.v) *)
Theorem C09_print_2024 : forall lang now_year n,
  In lang [s "en"; s "tr"] ->
  days_from_civil 2023 12 31 <= n <= days_from_civil 2025 1 1 ->
  date_print default_config lang now_year n UTC = ref_print lang now_year n.
Proof. exact print_2024. Qed.

(* the year of the date is compared with the clock and nothing else *)
Theorem C09_print_now : forall {F} (cfg : config F) lang ny1 ny2 n tz,
  (year_of n =? ny1) = (year_of n =? ny2) -> date_print cfg lang ny1 n tz = date_print cfg lang ny2 n tz.
Proof. exact @date_print_now. Qed.

(* ---------------------------------------------------------------- non-vacuity *)
Theorem C09_examples :
  date_calc (days_from_civil 2020 2 28) (2 * 86400) OAdd = Ok (Some (days_from_civil 2020 3 1)) /\
  date_calc (days_from_civil 2021 2 28) (2 * 86400) OAdd = Ok (Some (days_from_civil 2021 3 2)) /\
  date_calc (days_from_civil 2021 1 1) (1 * 86400) OSub = Ok (Some (days_from_civil 2020 12 31)) /\
  date_calc (days_from_civil 2021 1 31) (month_secs 1) OAdd = Ok None /\
  date_calc (days_from_civil 2021 11 15) (month_secs 1) OAdd = Ok (Some (days_from_civil 2021 12 15)) /\
  date_calc (days_from_civil 2021 12 15) (month_secs 1) OAdd = Ok (Some (days_from_civil 2022 1 15)) /\
  date_calc (days_from_civil 2019 4 1) (month_secs 3) OSub = Ok (Some (days_from_civil 2019 1 1)) /\
  date_calc (days_from_civil 2020 2 29) (4 * YEAR) OAdd = Ok (Some (days_from_civil 2024 2 29)) /\
  date_calc (days_from_civil 2020 2 29) (1 * YEAR) OAdd = Ok None /\
  date_calc (days_from_civil 1988 2 12) (32 * YEAR) OAdd = Ok (Some (days_from_civil 2020 2 12)).
Proof. exact calc_examples. Qed.

Print Assumptions C09_valid_iff.
Print Assumptions C09_small_date_sound.
Print Assumptions C09_small_date_complete.
Print Assumptions C09_small_date_no_panic.
Print Assumptions C09_to_days.
Print Assumptions C09_to_symmetric.
Print Assumptions C09_calc_item.
Print Assumptions C09_days_exact.
Print Assumptions C09_negative_duration.
Print Assumptions C09_days_quantised.
Print Assumptions C09_days_refuted.
Print Assumptions C09_months_add.
Print Assumptions C09_months_add_small.
Print Assumptions C09_months_sub.
Print Assumptions C09_months_sub_calendar.
Print Assumptions C09_months_sub_refuted.
Print Assumptions C09_years.
Print Assumptions C09_add_split.
Print Assumptions C09_sub_split.
Print Assumptions C09_today_words.
Print Assumptions C09_consecutive.
Print Assumptions C09_print_tables.
Print Assumptions C09_print_2024.
Print Assumptions C09_print_now.
Print Assumptions C09_examples.
