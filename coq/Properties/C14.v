(* Property C14 - statements only (proofs in Proofs/C14.v). Not built yet. *)
From SC.Model Require Import Base.
