(* Property C14 - unix timestamps convert to and from date-times as mutual inverses.
   STATEMENTS ONLY (proofs: Proofs/C14.v).  Model functions: RuleFns.from_unixtime / to_unixtime /
   at_date (the three rules), Chrono.dt_of / day_of_dt / secs_of_day / dt_ok (NaiveDateTime as
   seconds since the epoch), Format.datetime_print (DateTimeItem::print), Format.item_print on
   a Raw number and Parser.Z_to_str (the printed timestamp), Format.parse_i64 (the reader).
   Spec: Spec/Calendar.v (days_from_civil / civil_from_days / valid_date) and, from Proofs/C14.v,
   civil_of_ts n = (civil date of n / 86400, h:m:s of n mod 86400) with floor division,
   ts_of_civil = its inverse, local_of t off = t + 60 * off, field_is (a rule field holds an item
   directly or through a variable), instant_of, shown_zone, ndigits. *)
From SC.Model Require Import Base Num NumQ NumF64 Types Config Case Chrono Parser RuleFns Items Format Run64 Api Corr FloatIO.
From SC.Gen Require Import ConfigData.
From SC.Spec Require Import Calendar.
From SC.Proofs Require Import C14.
From Coq Require Import ZArith QArith Qcanon Floats.
Local Open Scope Z_scope.

(* an instant is a day number and a second of that day - every integer, negatives included
   (floor division: one second before the epoch is 23:59:59 of the day before) *)
Theorem C14_instant_decompose : forall n,
  dt_of (day_of_dt n) (secs_of_day n) = n /\ 0 <= secs_of_day n < 86400.
Proof. exact instant_decompose. Qed.

Theorem C14_instant_compose : forall d sec, 0 <= sec < 86400 ->
  day_of_dt (dt_of d sec) = d /\ secs_of_day (dt_of d sec) = sec.
Proof. exact instant_compose. Qed.

(* timestamp -> civil (y, m, d) (h, mi, s) -> timestamp is the identity, for every timestamp *)
Theorem C14_civil_ts_roundtrip : forall n,
  valid_ymd (fst (civil_of_ts n)) /\ valid_hms (snd (civil_of_ts n)) /\
  ts_of_civil (fst (civil_of_ts n)) (snd (civil_of_ts n)) = n.
Proof. exact civil_ts_roundtrip. Qed.

(* civil -> timestamp -> civil is the identity, for every valid date and time of day *)
Theorem C14_ts_civil_roundtrip : forall y m d h mi sec,
  valid_date y m d = true -> 0 <= h < 24 /\ 0 <= mi < 60 /\ 0 <= sec < 60 ->
  civil_of_ts (dt_of (days_from_civil y m d) (h * 3600 + mi * 60 + sec)) = ((y, m, d), (h, mi, sec)).
Proof. exact ts_civil_roundtrip. Qed.

(* the timestamps of the years 1..9999 are -62135596800 .. 253402300799, all accepted *)
Theorem C14_years_1_9999 : forall n,
  (-62135596800 <= n <= 253402300799 <-> 1 <= year_of (day_of_dt n) <= 9999) /\
  (-62135596800 <= n <= 253402300799 -> dt_ok n = true).
Proof. exact years_1_9999. Qed.

Section WithNum.
Context {F : Type} {NF : Num F}.

(* '<date> as unix' = 86400 * day number (midnight UTC), '<time>' and '<date-time> as unix' =
   their instant; the zone the item is displayed in does not enter *)
Theorem C14_to_unixtime : forall (vs : vars F) (fs : fields F),
  (forall d z, field_is vs "data" fs (IDate d z) ->
     to_unixtime vs fs = Ok (Some (TNumber (fofZ (86400 * d)) Raw))) /\
  (forall t z, field_is vs "data" fs (IDateTime t z) ->
     to_unixtime vs fs = Ok (Some (TNumber (fofZ t) Raw))) /\
  (forall t z, field_is vs "data" fs (ITime t z) ->
     to_unixtime vs fs = Ok (Some (TNumber (fofZ t) Raw))).
Proof. exact to_unixtime_cases. Qed.

(* 'N to date' / 'N to ZONE': the instant is N itself; only the zone shown differs; an instant
   outside chrono's range is declined, never a panic *)
Theorem C14_from_unixtime : forall (cfg : config F) (vs : vars F) (fs : fields F) x nt,
  field_is vs "number" fs (INumber x nt) ->
  from_unixtime cfg vs fs =
    Ok (if dt_ok (as_i64 x) then Some (TDateTime (as_i64 x) (shown_zone cfg vs fs)) else None) /\
  (assoc (s "timezone") fs = None -> shown_zone cfg vs fs = cf_tz cfg) /\
  (forall ti n o, assoc (s "timezone") fs = Some ti -> ti_ty ti = Some (TTimezone n o) ->
     shown_zone cfg vs fs = {| tz_name := to_uppercase n; tz_off := o |}).
Proof. exact from_unixtime_cases. Qed.

(* mutual inverses at the level of the rules: N -> date-time -> N ... *)
Theorem C14_roundtrip_number : forall (cfg : config F) (vs : vars F) (fs : fields F) n nt,
  field_is vs "number" fs (INumber (fofZ n) nt) -> as_i64 (fofZ n) = n -> dt_ok n = true ->
  from_unixtime cfg vs fs = Ok (Some (TDateTime n (shown_zone cfg vs fs))) /\
  forall (vs' : vars F) (fs' : fields F), field_is vs' "data" fs' (IDateTime n (shown_zone cfg vs fs)) ->
    to_unixtime vs' fs' = Ok (Some (TNumber (fofZ n) Raw)).
Proof. exact roundtrip_number. Qed.

(* ... and date-time -> N -> the same instant *)
Theorem C14_roundtrip_datetime : forall (vs : vars F) (fs : fields F) t z,
  field_is vs "data" fs (IDateTime t z) -> as_i64 (fofZ t) = t -> dt_ok t = true ->
  to_unixtime vs fs = Ok (Some (TNumber (fofZ t) Raw)) /\
  forall (cfg : config F) (vs' : vars F) (fs' : fields F), field_is vs' "number" fs' (INumber (fofZ t) Raw) ->
    from_unixtime cfg vs' fs' = Ok (Some (TDateTime t (shown_zone cfg vs' fs'))).
Proof. exact roundtrip_datetime. Qed.

(* '<date> at H': hours 0..23 give that hour of that day, 24 and more are declined *)
Theorem C14_at_hour : forall (vs : vars F) (fs : fields F) d z x nt,
  field_is vs "source" fs (IDate d z) -> field_is vs "time" fs (INumber x nt) ->
  at_date vs fs = Ok (if as_u32 x <? 24 then Some (TDateTime (86400 * d + 3600 * as_u32 x) z) else None) /\
  (as_u32 x < 24 ->
   day_of_dt (86400 * d + 3600 * as_u32 x) = d /\
   hms_of (secs_of_day (86400 * d + 3600 * as_u32 x)) = (as_u32 x, 0, 0)).
Proof. exact at_date_hour. Qed.

(* '<date> at <time>': that day, the time of day of the time *)
Theorem C14_at_time : forall (vs : vars F) (fs : fields F) d z t tz,
  field_is vs "source" fs (IDate d z) -> field_is vs "time" fs (ITime t tz) ->
  at_date vs fs = Ok (Some (TDateTime (86400 * d + secs_of_day t) z)) /\
  day_of_dt (86400 * d + secs_of_day t) = d /\
  secs_of_day (86400 * d + secs_of_day t) = secs_of_day t.
Proof. exact at_date_time. Qed.

(* the printed timestamp is the decimal representation of the 64-bit integer *)
Theorem C14_raw_print : forall (cfg : config F) lang ny n,
  as_i64 (fofZ n) = n ->
  item_print cfg lang ny (INumber (fofZ n) Raw) = Ok (Z_to_str n) /\
  parse_i64 (Z_to_str n) = Some n.
Proof. exact raw_print_all_digits. Qed.

(* a printed date-time shows the civil fields of the instant shifted by the zone offset ... *)
Theorem C14_datetime_print : forall (cfg : config F) lang now_year t tz,
  datetime_print cfg lang now_year t tz =
  match lang_format cfg lang with
  | None => []
  | Some fmt => fill_datetime cfg fmt now_year tz (fst (civil_of_ts (t + 60 * tz_off tz)))
                                                  (snd (civil_of_ts (t + 60 * tz_off tz)))
  end.
Proof. exact datetime_print_fields. Qed.

End WithNum.

(* ... and these fields determine the instant (offset applied once, with the right sign) *)
Theorem C14_datetime_fields : forall t off,
  valid_ymd (fst (civil_of_ts (t + 60 * off))) /\ valid_hms (snd (civil_of_ts (t + 60 * off))) /\
  ts_of_civil (fst (civil_of_ts (t + 60 * off))) (snd (civil_of_ts (t + 60 * off))) - 60 * off = t.
Proof. exact datetime_fields_instant. Qed.

(* every digit: for every integer z the text is an optional '-' and exactly as many digit
   characters as |z| has decimal digits, and it reads back as z *)
Theorem C14_prints_every_digit : forall z,
  parse_i64 (Z_to_str z) = Some z /\
  exists ds, Z_to_str z = (if z <? 0 then [45%N] else []) ++ ds /\
             (ds <> [] /\ Forall (fun c => (48 <= c <= 57)%N) ds /\ Z.abs z < 10 ^ Z.of_nat (length ds) /\
              (Z.abs z < 10 -> length ds = 1%nat) /\ (10 <= Z.abs z -> 10 ^ (Z.of_nat (length ds) - 1) <= Z.abs z)) /\
             parse_digits ds 0 = Some (Z.abs z).
Proof. exact z_to_str_decimal. Qed.

(* the side condition `as_i64 (fofZ n) = n`: every i64 over the exact rationals; over binary64
   (the executed instance) a checked family - day borders around the epoch, +-2^31, +-2^32, the
   first and last seconds of the years 1..9999, 2^53; the first and the last second of
   every year 1..9999; every second of four windows of 8193 seconds *)
Theorem C14_number_keeps_timestamp_Q : forall n, - 2 ^ 63 <= n < 2 ^ 63 -> @as_i64 Qc NumQ (fofZ n) = n.
Proof. exact as_i64_fofZ_Q. Qed.

Theorem C14_number_keeps_timestamp_f64 : forall n,
  (In n f64_family \/
   (exists y, 1 <= y <= 9999 /\ (n = 86400 * days_from_civil y 1 1 \/ n = 86400 * days_from_civil (y + 1) 1 1 - 1)) \/
   -4096 <= n <= 4096 \/ 2 ^ 31 - 4096 <= n <= 2 ^ 31 + 4096 \/
   -62135596800 - 4096 <= n <= -62135596800 + 4096 \/ 253402300799 - 4096 <= n <= 253402300799 + 4096) ->
  @as_i64 float NumF64 (fofZ n) = n.
Proof. exact as_i64_fofZ_f64. Qed.

(* '<date> at <time>' with the time written as wall clock w in a zone `off` minutes east (its
   instant on the UTC date `today` is today*86400 + w - 60*off): shown in that zone the result
   reads (d, w) whenever w - 60*off stays within the UTC day - always under UTC ... *)
Theorem C14_at_time_wall_clock : forall d today w off,
  0 <= w < 86400 -> 0 <= w - 60 * off < 86400 ->
  day_of_dt (86400 * d + secs_of_day (dt_of today w - 60 * off) + 60 * off) = d /\
  secs_of_day (86400 * d + secs_of_day (dt_of today w - 60 * off) + 60 * off) = w.
Proof. exact at_time_wall_clock. Qed.

(* ... and NOT otherwise: `12 march 2020 at 01:00` under the default zone GMT+3 is shown on
   13 March (reported finding; the generator keeps '<date> at HH:MM' to the default zone UTC) *)
Theorem C14_at_time_wall_clock_refuted :
  exists d today w off, 0 <= w < 86400 /\
    day_of_dt (86400 * d + secs_of_day (dt_of today w - 60 * off) + 60 * off) = d + 1.
Proof. exact at_time_wall_clock_refuted. Qed.

(* the three rules as configured in config.json (regenerated): the phrasings of the statement *)
Theorem C14_rule_tables :
  option_map (assoc (s "from_unixtime")) (assoc (s "en") d_rule_texts)
  = Some (Some [s "{NUMBER:number} {GROUP:conversion:conversion_group} date";
                s "{NUMBER:number} {GROUP:conversion:conversion_group} {TIMEZONE:timezone}";
                s "{NUMBER:number} {TIMEZONE:timezone}";
                s "{NUMBER:number} date"]) /\
  option_map (assoc (s "to_unixtime")) (assoc (s "en") d_rule_texts)
  = Some (Some [s "{DATETIME_DATE_TIME:data} {GROUP:conversion:conversion_group} {TEXT:type:unix}";
                s "{DATETIME_DATE_TIME:data} {GROUP:conversion:conversion_group} {TEXT:type:unixtime}";
                s "{DATETIME_DATE_TIME:data} {GROUP:conversion:conversion_group} {TEXT:type:unixtimestamp}";
                s "{DATETIME_DATE_TIME:data} {TEXT:type:unix}";
                s "{DATETIME_DATE_TIME:data} {TEXT:type:unixtime}";
                s "{DATETIME_DATE_TIME:data} {TEXT:type:unixtimestamp}"]) /\
  option_map (assoc (s "at_date")) (assoc (s "en") d_rule_texts)
  = Some (Some [s "{DATE:source} at {NUMBER_OR_TIME:time}"]).
Proof. exact rule_tables. Qed.

(* through the whole executable pipeline (lexer, rules, interpreter, formatter; binary64), for
   each N of the family: `x = N to date` is the date-time of N in UTC printed as datetime_print
   says, `x as unix` is N printed with every digit, `N to EST` the same instant in EST,
   `N to date as unix` is N *)
Theorem C14_pipeline_roundtrip :
  forallb (fun n =>
    match run_lines (s "x = " ++ Z_to_str n ++ s " to date" ++ [10%N] ++ s "x as unix" ++ [10%N] ++
               Z_to_str n ++ s " to EST" ++ [10%N] ++ Z_to_str n ++ s " to date as unix") with
    | [a; b; c; d] => is_dt a n UTC && is_raw b n && is_dt c n EST && is_raw d n
    | _ => false
    end)
    [0; 1; -1; 86399; 86400; -86400; -86401; 1609459200; 4102444800; 2147483647; 2147483648; -2147483648;
     -2147483649; 4294967296; -62135596800; 253402300799; -62135596800 + 86399; 253402300799 - 86399;
     1700000000; 1704067200; 1735689599] = true.
Proof. exact e2e_ok. Qed.

(* the same under six configured default zones: instant and timestamp unchanged, the text is
   that of the zone, `N to UTC` overrides it, a date stays its midnight UTC *)
Theorem C14_pipeline_zones :
  forallb (fun z : string * Z =>
    forallb (fun n =>
      let tz := {| tz_name := s (fst z); tz_off := snd z |} in
      match run_cfg (cfg_zone (s (fst z)))
              (s "x = " ++ Z_to_str n ++ s " to date" ++ [10%N] ++ s "x as unix" ++ [10%N] ++ s "12/03/2020 as unix" ++
               [10%N] ++ s "12/03/2020 at 10 as unix" ++ [10%N] ++ Z_to_str n ++ s " to UTC") with
      | [a; b; c; d; e] => is_dt a n tz && is_raw b n && is_raw c 1583971200 && is_raw d 1584007200 && is_dt e n UTC
      | _ => false
      end) [0; -1; 86399; 1609459200; 4102444800; -2147483649; -62135596800; 253402300799])
    [("GMT+3", 180); ("EST", -300); ("GMT-3:30", -210); ("GMT+14", 840); ("GMT-12", -720); ("HKT", 480)]%string = true.
Proof. exact e2e_zones_ok. Qed.

Theorem C14_pipeline_dates :
  match run_lines (s "12/03/2020 as unix" ++ [10%N] ++ s "12 march 2020 at 10 as unix" ++ [10%N] ++ s "1 january 1 as unix" ++
             [10%N] ++ s "31 december 9999 at 23 to unixtime" ++ [10%N] ++ s "12 march 2020 at 24") with
  | [a; b; c; d; e] =>
    is_raw a 1583971200 && is_raw b 1584007200 && is_raw c (-62135596800) && is_raw d (253402300799 - 3599) &&
    match e with None => true | Some _ => false end
  | _ => false
  end = true.
Proof. exact e2e_dates. Qed.

(* non-vacuity: 1609459200 <-> 2021-01-01 00:00:00, beyond 2^31, before the epoch, zones *)
Theorem C14_examples :
  civil_of_ts 1609459200 = ((2021, 1, 1), (0, 0, 0)) /\
  ts_of_civil (2021, 1, 1) (0, 0, 0) = 1609459200 /\
  civil_of_ts 4102444800 = ((2100, 1, 1), (0, 0, 0)) /\
  civil_of_ts (-1) = ((1969, 12, 31), (23, 59, 59)) /\
  civil_of_ts (-86401) = ((1969, 12, 30), (23, 59, 59)) /\
  civil_of_ts (local_of 1609459200 (-300)) = ((2020, 12, 31), (19, 0, 0)) /\
  Z_to_str 4102444800 = s "4102444800" /\ Z_to_str (-62135596800) = s "-62135596800" /\ Z_to_str 0 = s "0" /\
  datetime_print default_config (s "en") 2026 1609459200 UTC = s "1 Jan 2021 00:00:00 UTC" /\
  datetime_print default_config (s "en") 2026 1609459200 GMT3 = s "1 Jan 2021 03:00:00 GMT+3" /\
  datetime_print default_config (s "en") 2026 1609459200 EST = s "31 Dec 2020 19:00:00 EST" /\
  datetime_print default_config (s "en") 2026 (-1) UTC = s "31 Dec 1969 23:59:59 UTC" /\
  datetime_print default_config (s "en") 2026 4102444800 UTC = s "1 Jan 2100 00:00:00 UTC" /\
  item_print default_config (s "en") 2026 (INumber (fofZ 4102444800) Raw) = Ok (s "4102444800") /\
  dt_ok 4102444800 = true /\ dt_ok (-62135596800) = true /\ dt_ok (2 ^ 62) = false.
Proof. exact examples. Qed.

Print Assumptions C14_instant_decompose.
Print Assumptions C14_instant_compose.
Print Assumptions C14_civil_ts_roundtrip.
Print Assumptions C14_ts_civil_roundtrip.
Print Assumptions C14_years_1_9999.
Print Assumptions C14_to_unixtime.
Print Assumptions C14_from_unixtime.
Print Assumptions C14_roundtrip_number.
Print Assumptions C14_roundtrip_datetime.
Print Assumptions C14_at_hour.
Print Assumptions C14_at_time.
Print Assumptions C14_raw_print.
Print Assumptions C14_datetime_print.
Print Assumptions C14_datetime_fields.
Print Assumptions C14_prints_every_digit.
Print Assumptions C14_number_keeps_timestamp_Q.
Print Assumptions C14_number_keeps_timestamp_f64.
Print Assumptions C14_at_time_wall_clock.
Print Assumptions C14_at_time_wall_clock_refuted.
Print Assumptions C14_rule_tables.
Print Assumptions C14_pipeline_roundtrip.
Print Assumptions C14_pipeline_zones.
Print Assumptions C14_pipeline_dates.
Print Assumptions C14_examples.
