(* Property C10 - durations: unit lengths, additivity, greedy printing, `as` flooring.
   STATEMENTS ONLY (proofs: Proofs/C10.v).  Model functions: RuleFns.duration_of_const (the
   arithmetic of duration_parse), RuleFns.combine_durations, RuleFns.duration_as (as_duration),
   Items.calculate on two durations, Format.dur_parts / duration_formatter (DurationItem::print).
   Spec: Spec/Duration.v (unit_len, parts_sum, part_ok, ranks_increasing). *)
From SC.Model Require Import Base Num Types Config Case Chrono Parser RuleFns Items Format.
From SC.Spec Require Import Duration.
From SC.Gen Require Import RustConsts ConfigData.
From SC.Proofs Require Import C10.

(* the constants MINUTE..YEAR scraped from src/formatter/mod.rs are the statement's lengths *)
Theorem C10_units :
  (MINUTE = 60 /\ HOUR = 3600 /\ DAY = 86400 /\ WEEK = 7 * 86400 /\
   MONTH = 30 * 86400 /\ YEAR = 365 * 86400) /\
  (forall k, dur_unit k = unit_len k).
Proof. exact units_ok. Qed.

(* 'N unit' = N * length, for every integer N (negative too) whose result fits chrono's
   Duration; second, minute, hour, day, week, year *)
Theorem C10_parse_units : forall c k n,
  const_kind c = Some k -> k <> DMonth -> in_range (n * unit_len k) ->
  duration_of_const c n = Some (n * unit_len k).
Proof. exact parse_units. Qed.

(* months: twelve months make one year of 365 days, the rest are 30-day months *)
Theorem C10_parse_month : forall n, 0 <= n -> in_range (n * 31 * 86400) ->
  duration_of_const CMonth n = Some ((n / 12) * unit_len DYear + (n mod 12) * unit_len DMonth).
Proof. exact parse_month. Qed.

(* exact characterisation incl. the out-of-range case: never a wrong value, never a panic *)
Theorem C10_parse_exact : forall c n,
  duration_of_const c n =
  match dur_math c n with
  | Some secs => if dur_ok secs then Some secs else None
  | None => None
  end.
Proof. exact parse_exact. Qed.

(* printing: the parts sum to the magnitude, for every integer number of seconds *)
Theorem C10_greedy_sum : forall secs, parts_sum (dur_parts secs) = Z.abs secs.
Proof. exact greedy_sum. Qed.

(* ... each count is positive and below the bound of its unit (month < 13, week < 5, day < 7,
   hour < 24, minute, second < 60), units in the order year .. second, each at most once *)
Theorem C10_greedy_shape : forall secs,
  Forall part_ok (dur_parts secs) /\ ranks_increasing (dur_parts secs) 0.
Proof. exact greedy_shape. Qed.

Theorem C10_prints_nothing_iff : forall secs, dur_parts secs = [] <-> secs = 0.
Proof. exact prints_nothing_iff. Qed.

(* 'D as unit' rounds the magnitude down to whole units (five targets), declines otherwise *)
Theorem C10_as_floor : forall d,
  duration_as CSecond d = Some (Z.abs d) /\
  (forall c k, In (c, k) [(CMinute, DMinute); (CHour, DHour); (CDay, DDay); (CWeek, DWeek)] ->
     duration_as c d = Some (Z.abs d / unit_len k * unit_len k) /\
     Z.abs d / unit_len k * unit_len k <= Z.abs d < Z.abs d / unit_len k * unit_len k + unit_len k) /\
  (forall c, In c [CMonth; CYear; CToday; CTomorrow; CYesterday; CNow] -> duration_as c d = None).
Proof. exact as_floor. Qed.

Section WithNum.
Context {F : Type} {NF : Num F}.

(* + adds and - subtracts two durations (within chrono's range; otherwise the calculation
   fails, it does not panic); * and / are not defined *)
Theorem C10_additive_calc : forall (bexec : config F -> str -> res (option F)) (cfg : config F) (a b : Z),
  calculate bexec cfg (IDuration a) (IDuration b) OAdd
    = Ok (if dur_ok (a + b) then Some (IDuration (a + b)) else None) /\
  calculate bexec cfg (IDuration a) (IDuration b) OSub
    = Ok (if dur_ok (a - b) then Some (IDuration (a - b)) else None) /\
  calculate bexec cfg (IDuration a) (IDuration b) OMul = Ok None /\
  calculate bexec cfg (IDuration a) (IDuration b) ODiv = Ok None.
Proof. exact additive_calc. Qed.

(* durations written next to each other add: the combine rule on 2..9 parts *)
Theorem C10_additive_combine : forall (vs : vars F) tis ds,
  Forall2 (fun ti d => ti_ty ti = Some (TDuration d)) tis ds ->
  (2 <= length tis <= 9)%nat ->
  (forall j, (1 <= j <= length ds)%nat -> in_range (zsum (firstn j ds))) ->
  combine_durations vs (dur_fields tis) = Ok (Some (TDuration (zsum ds))).
Proof. exact additive_combine. Qed.

Theorem C10_additive_combine_exact : forall (vs : vars F) tis ds,
  Forall2 (fun ti d => ti_ty ti = Some (TDuration d)) tis ds ->
  (2 <= length tis)%nat ->
  combine_durations vs (dur_fields tis) = Ok (option_map TDuration (sum_checked ds 0)).
Proof. exact additive_combine_exact. Qed.

End WithNum.

(* singular / plural: tables regenerated from config.json languages.*.format.duration *)
Theorem C10_singular_plural_en : forall fmt k,
  assoc (s "en") d_format = Some fmt ->
  duration_formatter fmt (dur_placeholder k) 1 k = s "1 " ++ en_singular k ++ s " " /\
  (forall c, c <> 1 ->
     duration_formatter fmt (dur_placeholder k) c k = Z_to_str c ++ s " " ++ en_plural k ++ s " ").
Proof. exact singular_plural_en. Qed.

Theorem C10_singular_plural_tr : forall fmt k c,
  assoc (s "tr") d_format = Some fmt ->
  duration_formatter fmt (dur_placeholder k) c k = Z_to_str c ++ s " " ++ tr_word k ++ s " ".
Proof. exact singular_plural_tr. Qed.

(* every unit word of the English table denotes the unit it names *)
Theorem C10_unit_words_en : forall cs,
  assoc (s "en") d_constant_pair = Some cs ->
  map (fun w => assoc (s w) cs)
    ["second"; "seconds"; "minute"; "minutes"; "hour"; "hours"; "day"; "days"; "week"; "weeks";
     "month"; "months"; "year"; "years"]%string
  = map Some [CSecond; CSecond; CMinute; CMinute; CHour; CHour; CDay; CDay; CWeek; CWeek;
              CMonth; CMonth; CYear; CYear].
Proof. exact unit_words_en. Qed.

(* non-vacuity *)
Theorem C10_examples :
  dur_parts (400 * 86400 + 3725)
  = [(DYear, 1); (DMonth, 1); (DDay, 5); (DHour, 1); (DMinute, 2); (DSecond, 5)] /\
  duration_of_const CMonth 14 = Some (unit_len DYear + 2 * unit_len DMonth) /\
  duration_of_const CDay (-400) = Some (-400 * 86400) /\
  duration_of_const CYear 292471209 = None /\
  duration_as CHour (-7325) = Some 7200.
Proof. vm_compute. repeat split; reflexivity. Qed.

Print Assumptions C10_units.
Print Assumptions C10_parse_units.
Print Assumptions C10_parse_month.
Print Assumptions C10_parse_exact.
Print Assumptions C10_greedy_sum.
Print Assumptions C10_greedy_shape.
Print Assumptions C10_prints_nothing_iff.
Print Assumptions C10_as_floor.
Print Assumptions C10_additive_calc.
Print Assumptions C10_additive_combine.
Print Assumptions C10_additive_combine_exact.
Print Assumptions C10_singular_plural_en.
Print Assumptions C10_singular_plural_tr.
Print Assumptions C10_unit_words_en.
Print Assumptions C10_examples.
