(* Property C02 - arithmetic obeys precedence, associativity and parentheses.
   STATEMENTS ONLY: every theorem is closed by [exact] of a lemma of Proofs/C02_*.v and is
   followed by Print Assumptions.  The statements are written out in full here so that a
   weakened lemma in Proofs/ no longer fits.

   Reading guide.  [expr] / [sexpr] (Spec/Expr.v) are expression trees, [denote] / [sdenote]
   their value "by the usual rules" over any number algebra [Num F] (instantiated at binary64
   at the end), [toks_of] the token list of the written expression, [wf] "the tree is what
   precedence and left associativity read back from its own rendering" (every tree has such a
   rendering with the same value: [parenthesise]).  The model functions are
   token_cleaner / missing_token_adder (Post.v), parse (Parser.v), execute_ast (Interp.v). *)
From Coq Require Import Floats.
From SC.Model Require Import Base Num Types Config Case Post Parser Items Interp NumF64.
From SC.Spec Require Import Expr.
From SC.Model Require Import Chrono UiTokens Rx RuleFns Rules Format Lexer Api Run64.
From SC.Proofs Require Import C02_Parser C02_Examples RegexNeeds C02_EndToEnd.

Section WithNum.
Context {F : Type} {NF : Num F}.

(* every well-formed tree, of any size and depth: its explicit rendering is post-processed,
   parsed and evaluated to the value given by the usual rules; the session is unchanged *)
Theorem C02_token_level : forall bexec cfg vs infos (e : expr F),
  wf e = true -> find_index info_is_eq infos = None ->
  let tokens := missing_token_adder (token_cleaner infos (toks_of e)) in
  parse tokens vs = (PAst (ast_of e), vs) /\
  execute_ast bexec cfg vs (ast_of e) = Ok (IOk (AItem (INumber (denote e) Decimal)), vs).
Proof. exact c02_token_level. Qed.

(* every tree has a well-formed rendering with the same value *)
Theorem C02_parenthesise_wf : forall (e : expr F), wf (parenthesise e) = true.
Proof. exact c02_parenthesise_wf. Qed.
Theorem C02_parenthesise_denote : forall (e : expr F), denote (parenthesise e) = denote e.
Proof. exact c02_parenthesise_denote. Qed.

(* operands written side by side are added: any rendering obtained by leaving out '+' tokens
   between the end of an operand and the start of the next one *)
Theorem C02_juxtaposition_level : forall bexec cfg vs (e : expr F) ts',
  wf e = true -> elided ts' (toks_of e) ->
  parse (missing_token_adder ts') vs = (PAst (ast_of e), vs) /\
  execute_ast bexec cfg vs (ast_of e) = Ok (IOk (AItem (INumber (denote e) Decimal)), vs).
Proof. exact c02_juxtaposition_level. Qed.

Theorem C02_juxtaposition : forall bexec cfg vs x xs,
  let tokens := missing_token_adder (nums (x :: xs)) in
  parse tokens vs = (PAst (ast_of (plus_chain (Lit x) xs)), vs) /\
  execute_ast bexec cfg vs (ast_of (plus_chain (Lit x) xs))
  = Ok (IOk (AItem (INumber (fold_left fadd xs x) Decimal)), vs).
Proof. exact c02_juxtaposition. Qed.

(* a sign at the start of the line: 0 is supplied, "- e" is 0 - e *)
Theorem C02_leading_sign_level : forall bexec cfg vs (e : expr F) (minus : bool),
  wf e = true ->
  let tokens := missing_token_adder (TOperator (sign_char minus) :: toks_of e) in
  parse tokens vs = (PAst (ast_of (lead minus e)), vs) /\
  execute_ast bexec cfg vs (ast_of (lead minus e))
  = Ok (IOk (AItem (INumber (denote (lead minus e)) Decimal)), vs).
Proof. exact c02_leading_sign_level. Qed.

(* detached sign prefixes in operand position (after an operator, in front of a literal or a
   parenthesis): a sign prefix negates its operand *)
Theorem C02_sign_level : forall bexec cfg vs infos (e : sexpr F),
  swf e = true -> not_neg e = true -> find_index info_is_eq infos = None ->
  let tokens := missing_token_adder (token_cleaner infos (stoks_of e)) in
  parse tokens vs = (PAst (sast_of e), vs) /\
  execute_ast bexec cfg vs (sast_of e) = Ok (IOk (AItem (INumber (sdenote e) Decimal)), vs).
Proof. exact c02_sign_level. Qed.

(* as the right-hand side of an assignment: same value, and the name is bound to it *)
Theorem C02_assign_level : forall bexec cfg vs infos i n (e : expr F),
  wf e = true -> find_index info_is_eq infos = Some i ->
  assoc_mem (to_lowercase n) vs = false ->
  let name := to_lowercase n in
  let tokens := missing_token_adder (token_cleaner infos (assign_toks n e)) in
  exists vs2,
    parse tokens vs = (PAst (AAssignment name [TText n] (ast_of e)), vs) /\
    execute_ast bexec cfg vs (AAssignment name [TText n] (ast_of e)) =
      Ok (IOk (AItem (INumber (denote e) Decimal)), vs2) /\
    assoc name vs2 =
      Some {| v_tokens := [TText n]; v_data := AItem (INumber (denote e) Decimal) |}.
Proof. exact c02_assign_level. Qed.

(* the parser never runs out of the fuel the model gives it on these inputs: the general
   form with an explicit bound and any non-continuing suffix *)
Theorem C02_parse_level_suffix : forall (e : expr F) (suf : list (token F)) fuel,
  wf e = true -> stop_tok suf = true -> (9 * length (toks_of e) + 8 <= fuel)%nat ->
  parse_level fuel LAddSub (toks_of e ++ suf) = (PAst (ast_of e), suf).
Proof. exact c02_parse_level_suffix. Qed.

End WithNum.

(* ---- binary64 (the arithmetic of the implementation): instances and non-vacuity ---- *)
Local Open Scope float_scope.

Theorem C02_f64_token_level : forall bexec cfg vs infos (e : expr float),
  wf e = true -> find_index info_is_eq infos = None ->
  let tokens := missing_token_adder (token_cleaner infos (toks_of e)) in
  parse tokens vs = (PAst (ast_of e), vs) /\
  execute_ast bexec cfg vs (ast_of e) = Ok (IOk (AItem (INumber (denote e) Decimal)), vs).
Proof. exact (@c02_token_level float NumF64). Qed.

(* a 43-token tree with all four operators, nested parentheses and a division by zero meets
   the hypotheses; its value is 0x1.4f45d1745d174p+5 = 41.909090909090907 *)
Theorem C02_nonvacuous : forall bexec cfg vs infos,
  find_index info_is_eq infos = None ->
  wf e_big = true /\
  parse (missing_token_adder (token_cleaner infos (toks_of e_big))) vs = (PAst (ast_of e_big), vs) /\
  execute_ast bexec cfg vs (ast_of e_big) = Ok (IOk (AItem (INumber v_big Decimal)), vs).
Proof. exact c02_nonvacuous. Qed.

Theorem C02_sign_nonvacuous : forall bexec cfg vs,
  swf s_big = true /\
  missing_token_adder (stoks_of s_big) = stoks_of s_big /\
  parse_level (parse_fuel (stoks_of s_big)) LAddSub (stoks_of s_big) = (PAst (sast_of s_big), []) /\
  execute_ast bexec cfg vs (sast_of s_big) = Ok (IOk (AItem (INumber (-15.5) Decimal)), vs).
Proof. exact c02_sign_nonvacuous. Qed.

(* the inputs that violated the property before the fix: commits (see known_findings.json,
   "fixed") now evaluate as the property says: (((1+2))), x = ((1+2)), 3 * - 5 + 2, 2 * -(3),
   (3) -2, (1)(2), 2 (3), 1 2 (3), - 5 + 2 *)
Theorem C02_repaired_examples :
  reads_as [LP; LP; LP; num 1; PLUS; num 2; RP; RP; RP] (ast_of e_paren3) 3 /\
  reads_as [num 3; MUL; MINUS; num 5; PLUS; num 2] (sast_of s_mul_neg) (-13) /\
  reads_as [num 2; MUL; MINUS; LP; num 3; RP] (sast_of s_neg_paren) (-6) /\
  reads_as [LP; num 3; RP; num (-2)] (ast_of e_par_signed) 1 /\
  reads_as [LP; num 1; RP; LP; num 2; RP] (ast_of e_par_par) 3 /\
  reads_as [num 2; LP; num 3; RP] (ast_of e_num_par) 5 /\
  reads_as [num 1; num 2; LP; num 3; RP] (ast_of e_num_num_par) 6 /\
  reads_as [MINUS; num 5; PLUS; num 2] (ast_of (lead true e_5_plus_2)) (-3).
Proof.
  destruct c02_repaired_examples as (H1 & _ & H3 & H4 & H5 & H6 & H7 & H8 & H9).
  exact (conj H1 (conj H3 (conj H4 (conj H5 (conj H6 (conj H7 (conj H8 H9))))))).
Qed.

(* ---- the lexical step, as far as it is proved (Proofs/RegexNeeds.v) ----
   On EVERY line over the arithmetic alphabet (digits + - * / ( ) blank . ,) the parsers comment,
   field, money, atom, percent, timezone, time and text add no token (a sound syntactic analysis of
   the regenerated regexes: each needs a character outside the alphabet), so only the number,
   whitespace and operator parsers contribute ... *)
Theorem C02_arith_line_regex_tokinizer : forall (F : Type) (NF : Num F) (today : Z) (cfg : config F) (lang line : str) (st : Rules.tstate),
  arith_line line ->
  regex_tokinizer LX today cfg lang line st =
  (do st' <- run_keys LX today cfg lang line [s "number"; s "whitespace"; s "operator"] st; Ok (cleanup st')).
Proof. exact @arith_line_regex_tokinizer. Qed.

(* ... and for all non-empty digit strings d1 d2, any number of blanks around the operator (at
   least one behind a + or -, otherwise the sign joins the literal) the lexer yields exactly
   [number d1; operator; number d2] with the exact positions *)
Theorem C02_shape_token_infos : forall (F : Type) (NF : Num F) (today : Z) (cfg : config F) (lang : str) (d1 d2 : list N)
    (k1 k2 : nat) (op : N) (x1 x2 : F),
  d1 <> [] -> d2 <> [] -> forallb digit d1 = true -> forallb digit d2 = true -> shape_ok op k2 ->
  read_decimal cfg d1 = Some x1 -> read_decimal cfg d2 = Some x2 ->
  token_infos LX today cfg lang (shape_line d1 k1 op k2 d2) =
  Ok [mk_tok 0 (N.of_nat (length d1)) (TNumber x1 Decimal) d1;
      mk_tok (N.of_nat (length d1) + N.of_nat k1) (N.of_nat (length d1) + N.of_nat k1 + 1) (TOperator op) [op];
      mk_tok (N.of_nat (length d1) + N.of_nat k1 + 1 + N.of_nat k2)
             (N.of_nat (length d1) + N.of_nat k1 + 1 + N.of_nat k2 + N.of_nat (length d2)) (TNumber x2 Decimal) d2].
Proof. exact @shape_token_infos. Qed.

(* END TO END, from the characters of the line to the value and its printed form: for all non-empty
   digit strings d1 d2, any number of blanks around the operator and every language tag, the public
   entry point Api.execute on the text `d1 op d2` under the default configuration returns one line
   whose value is the binary64 result of the operator (division by zero giving 0) and whose output
   is that value printed by the configured number format; the tokens are exactly the three expected *)
Theorem C02_text_to_value : forall ck lang d1 d2 k1 k2 o x1 x2,
  d1 <> [] -> d2 <> [] -> forallb digit d1 = true -> forallb digit d2 = true -> shape_ok (bop_char o) k2 ->
  read_decimal default_config d1 = Some x1 -> read_decimal default_config d2 = Some x2 ->
  exists obs,
    execute LX ck default_config lang (shape_line d1 k1 (bop_char o) k2 d2)
    = Ok {| er_status := true; er_lines := [Some obs] |} /\
    lo_result obs = LOk (number_text default_config (arith_of o x1 x2)) (AItem (INumber (arith_of o x1 x2) Decimal)) /\
    lo_tokens obs = [TNumber x1 Decimal; TOperator (bop_char o); TNumber x2 Decimal].
Proof. exact shape_execute. Qed.

(* the value is the reference semantics of Spec/Expr on the tree `d1 op d2` *)
Theorem C02_text_to_value_denote : forall o x y, arith_of o x y = denote (Bin o (Lit x) (Lit y)).
Proof. exact arith_of_denote. Qed.

(* non-vacuity, with the printed text: "12   +  30" is 42 and "7/0" is 0, for any clock *)
Theorem C02_text_to_value_examples : forall ck,
  (exists obs, execute LX ck default_config (s "en") (s "12   +  30") = Ok {| er_status := true; er_lines := [Some obs] |}
               /\ lo_result obs = LOk (s "42") (AItem (INumber 42 Decimal))) /\
  (exists obs, execute LX ck default_config (s "tr") (s "7/0") = Ok {| er_status := true; er_lines := [Some obs] |}
               /\ lo_result obs = LOk (s "0") (AItem (INumber 0 Decimal))).
Proof. exact e2e_instances. Qed.

Print Assumptions C02_text_to_value.
Print Assumptions C02_text_to_value_denote.
Print Assumptions C02_text_to_value_examples.
Print Assumptions C02_arith_line_regex_tokinizer.
Print Assumptions C02_shape_token_infos.
Print Assumptions C02_token_level.
Print Assumptions C02_parenthesise_wf.
Print Assumptions C02_parenthesise_denote.
Print Assumptions C02_juxtaposition_level.
Print Assumptions C02_juxtaposition.
Print Assumptions C02_leading_sign_level.
Print Assumptions C02_sign_level.
Print Assumptions C02_assign_level.
Print Assumptions C02_parse_level_suffix.
Print Assumptions C02_f64_token_level.
Print Assumptions C02_nonvacuous.
Print Assumptions C02_sign_nonvacuous.
Print Assumptions C02_repaired_examples.
