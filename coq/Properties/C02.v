(* Property C02 - statements only (proofs in Proofs/C02_*.v). *)
From SC.Model Require Import Base.
Theorem placeholder : True. Proof. exact I. Qed.
