(* Property C12 - unit conversion matches the unit definitions; linear, invertible, transitive;
   no conversion between kinds; arithmetic between quantities.
   STATEMENTS ONLY (proofs: Proofs/C12.v).

   Model functions: Items.unit_loop / calculate_unit / dyn_convert (DynamicTypeItem::convert),
   Items.calculate on IDynamicType, Api.basic_execute, Run64.default_config (the configuration the
   model's loader makes of the regenerated Gen/ConfigData.d_types_raw / d_type_conv).
   Spec: Spec/Units.v (size of every unit in mm / mg / bit, written from the property text).

   How the statements fit together.  The conversion chain is data: every unit has an upgrade and
   a downgrade code string, every bridge two more; the model substitutes the printed amount into
   the code and evaluates the text through [bexec] (= basic_execute: lexer, parser, interpreter).
     - C12_codes_shaped: every code of the table is "{value}", "{value} * c" or "{value} / c".
     - C12_convert_is_path: for EVERY number algebra, configuration and evaluator [bexec] that
       computes [step sh x] on a code of shape [sh] with x substituted, dyn_convert performs exactly
       the steps of [conv_path] (the model's chain walk with the evaluator left out), in order, for
       all amounts.
     - C12_factor_table (finite-table, all ordered pairs of one kind x every name of the target,
       incl. across the metric/imperial bridge): the path exists, ends in the target unit, and the
       product of its constants is size u / size v of the specification; C12_convert_exact,
       C12_linear, C12_inverse, C12_transitive: for all amounts, in exact arithmetic.
     - C12_kinds / C12_cross_kind_declines: for every evaluator, dyn_convert on the loaded table
       never yields a unit of another kind.
     - C12_calc_*: Items.calculate on quantities, for every number algebra.
     - C12_basic_execute_separators / C12_convert_separators: the conversion is the same under every
       decimal / thousands separator configuration (proved for all inputs).
   NOT proved for all amounts: [evaluates basic_execute default_config gstep], i.e. that the
   faithful evaluator at binary64 (print the amount, substitute, lex, parse, evaluate) computes
   amount * c resp. amount / c.  It is executed bit for bit on samples x every code
   (C12_evaluates_on_samples), on all 365 ordered pairs for one amount (C12_faithful_pairs_sample),
   end to end in C12_examples64, and on every generated case of the
   correspondence check (tools/props/C12.py), where the binary64 result is also compared with the
   exact rational factor of an independent oracle. *)
From Coq Require Import QArith Qcanon Floats.
From SC.Model Require Import Base Num NumF64 NumQ Types Config Lexer Items RuleFns Api Run64.
From SC.Spec Require Import Units.
From SC.Gen Require Import ConfigData.
From SC.Proofs Require Import C12.
Open Scope Z_scope.

(* every code string of the regenerated table and of the loaded configuration has a shape *)
Theorem C12_codes_shaped :
  (forall code, In code raw_codes -> has_shape code = true) /\
  (forall u, In u UNITS -> has_shape (dt_up u) = true /\ has_shape (dt_down u) = true) /\
  (forall tc, In tc CONVS -> has_shape (tc_to_source tc) = true /\ has_shape (tc_to_target tc) = true).
Proof. exact codes_shaped. Qed.

(* the loaded configuration holds the 33 regenerated units (index, codes, names, family) and the
   regenerated bridges *)
Theorem C12_table_loaded :
  length UNITS = 33%nat /\
  map (fun g => (fst g, map (fun e => (fst e, dt_index (snd e), dt_up (snd e), dt_down (snd e), dt_names (snd e), dt_group (snd e))) (snd g))) TYPES
  = map (fun g => (fst g, map (fun it => let '(i, _, _, up, down, names, _, _, _, grp) := it in (i, i, up, down, names, grp)) (snd g)))
        (fold_left (fun acc g => assoc_insert (fst g) (snd g) acc) d_types_raw []) /\
  CONVS = d_type_conv.
Proof. exact table_loaded. Qed.

(* the model's conversion = the steps of the chain walk, in order; every algebra, every
   configuration, every evaluator that computes the steps, all amounts *)
Theorem C12_convert_is_path :
  forall (F : Type) (NF : Num F) (bexec : config F -> str -> res (option F)) (cfg : config F)
         (step : shape -> F -> F),
  (forall x code sh, code_shape code = Some sh ->
     bexec cfg (replace_all (s "{value}") (fdisplay x) code) = Ok (Some (step sh x))) ->
  forall x src name path tgt,
  conv_path (cf_types cfg) (cf_type_conv cfg) src name = Some (path, tgt) ->
  dyn_convert bexec cfg x src name = Ok (Some (fold_left (fun a sh => step sh a) path x, tgt)).
Proof. exact (@convert_is_path). Qed.

(* within a family the walk is the model's calculate_unit *)
Theorem C12_calculate_unit_is_path :
  forall (F : Type) (NF : Num F) (bexec : config F -> str -> res (option F)) (cfg : config F)
         (step : shape -> F -> F),
  (forall x code sh, code_shape code = Some sh ->
     bexec cfg (replace_all (s "{value}") (fdisplay x) code) = Ok (Some (step sh x))) ->
  forall x src tgt group path,
  unit_path src tgt group = Some path ->
  calculate_unit bexec cfg x src tgt group = Ok (Some (fold_left (fun a sh => step sh a) path x)).
Proof. exact (@calculate_unit_path). Qed.

(* in exact arithmetic the steps applied in order are one multiplication: linear in the amount *)
Theorem C12_run_q_linear : forall p x,
  fold_left (fun a sh => qstep sh a) p x = (x * path_factor p)%Qc.
Proof. exact run_q_linear. Qed.

(* every unit of the table is a unit of the statement, under each of its names, with one
   non-zero size *)
Theorem C12_spec_total : forall u, In u UNITS ->
  exists k su, unit_spec u = Some (k, su) /\ su <> 0%Qc /\
               forall n, In n (dt_names u) -> spec_unit n = Some (k, su).
Proof. exact spec_total. Qed.

(* all ordered pairs of one kind (within and across the metric/imperial families), every name of
   the target: the path exists, reaches the target, and its factor is size u / size v *)
Theorem C12_factor_table : forall u v name k su sv,
  In u UNITS -> In v UNITS -> In name (dt_names v) ->
  unit_spec u = Some (k, su) -> unit_spec v = Some (k, sv) ->
  exists path t, conv_path TYPES CONVS u name = Some (path, t) /\ uref t = uref v /\
                 path_factor path = factor su sv.
Proof. exact factor_table. Qed.

(* the table check is sensitive: no offending row now; with the factors config.json had before
   the repair (kilogram -> hectogram "* 1000", byte -> bit "* 1024") exactly the pairs that cross
   the wrong link downwards are reported *)
Theorem C12_old_factors_refuted :
  offending_on TYPES CONVS = [] /\
  offending_on (with_down "metric-weight" 7 "{value} * 1000" TYPES) CONVS
  = flat_map (fun u => map (fun v => (s u, s v)) ["oz"; "lb"; "st"; "mg"; "cg"; "dg"; "g"; "dag"; "hg"]%string)
             ["kg"; "tonne"]%string /\
  offending_on (with_down "memory" 2 "{value} * 1024" TYPES) CONVS
  = map (fun u => (s u, s "bit")) ["byte"; "kb"; "mb"; "gb"; "tb"; "pb"; "eb"; "zb"; "yb"]%string.
Proof. exact old_factors_refuted. Qed.

Theorem C12_convert_exact : forall u v name k su sv p t,
  In u UNITS -> In v UNITS -> In name (dt_names v) ->
  unit_spec u = Some (k, su) -> unit_spec v = Some (k, sv) ->
  conv_path TYPES CONVS u name = Some (p, t) ->
  forall x, run_path qstep p x = (x * factor su sv)%Qc.
Proof. exact convert_exact. Qed.

(* the model on the loaded table, for every evaluator that computes the steps *)
Theorem C12_convert_pair :
  forall (bexec : config float -> str -> res (option float)) (step : shape -> float -> float),
  evaluates bexec default_config step ->
  forall u v name k su sv, In u UNITS -> In v UNITS -> In name (dt_names v) ->
  unit_spec u = Some (k, su) -> unit_spec v = Some (k, sv) ->
  exists path t,
    (forall x, dyn_convert bexec default_config x u name = Ok (Some (run_path step path x, t))) /\
    uref t = uref v /\
    (forall q, run_path qstep path q = (q * factor su sv)%Qc).
Proof. exact convert_pair. Qed.

Theorem C12_linear : forall p x y c,
  run_path qstep p (x + y)%Qc = (run_path qstep p x + run_path qstep p y)%Qc /\
  run_path qstep p (c * x)%Qc = (c * run_path qstep p x)%Qc.
Proof. exact linear. Qed.

(* A to B and back returns the original amount *)
Theorem C12_inverse : forall u v nu nv k su sv p1 t1 p2 t2,
  In u UNITS -> In v UNITS -> In nu (dt_names u) -> In nv (dt_names v) ->
  unit_spec u = Some (k, su) -> unit_spec v = Some (k, sv) ->
  conv_path TYPES CONVS u nv = Some (p1, t1) ->
  conv_path TYPES CONVS v nu = Some (p2, t2) ->
  forall x, run_path qstep p2 (run_path qstep p1 x) = x.
Proof. exact inverse. Qed.

(* A to B to C equals A to C *)
Theorem C12_transitive : forall u v w nv nw k su sv sw p1 t1 p2 t2 p3 t3,
  In u UNITS -> In v UNITS -> In w UNITS -> In nv (dt_names v) -> In nw (dt_names w) ->
  unit_spec u = Some (k, su) -> unit_spec v = Some (k, sv) -> unit_spec w = Some (k, sw) ->
  conv_path TYPES CONVS u nv = Some (p1, t1) ->
  conv_path TYPES CONVS v nw = Some (p2, t2) ->
  conv_path TYPES CONVS u nw = Some (p3, t3) ->
  forall x, run_path qstep p2 (run_path qstep p1 x) = run_path qstep p3 x.
Proof. exact transitive. Qed.

(* kinds: the only bridges are length-length and weight-weight; whatever the evaluator and the
   target name, the unit reached has the kind of the source *)
Theorem C12_bridges :
  map (fun tc => (tc_src_name tc, tc_tgt_name tc)) CONVS
  = [(s "imperial-unit-length", s "metric-length"); (s "imperial-unit-weight", s "metric-weight")].
Proof. exact bridges. Qed.

Theorem C12_kinds : forall (bexec : config float -> str -> res (option float)) x u name y t,
  In u UNITS ->
  dyn_convert bexec default_config x u name = Ok (Some (y, t)) ->
  kind_of_spec (unit_spec t) = kind_of_spec (unit_spec u) /\ kind_of_spec (unit_spec u) <> None.
Proof. exact kinds. Qed.

Theorem C12_cross_kind_declines :
  forall (bexec : config float -> str -> res (option float)) x u name k sz ku su,
  In u UNITS -> spec_unit name = Some (k, sz) -> unit_spec u = Some (ku, su) -> k <> ku ->
  forall y t, dyn_convert bexec default_config x u name <> Ok (Some (y, t)).
Proof. exact cross_kind_declines. Qed.

(* arithmetic, for every number algebra *)
Theorem C12_calc_scale :
  forall (F : Type) (NF : Num F) (bexec : config F -> str -> res (option F)) (cfg : config F) x u y nt op,
  calculate bexec cfg (IDynamicType x u) (INumber y nt) op = Ok (Some (IDynamicType (arith op x y) u)).
Proof. exact (@calc_scale). Qed.

Theorem C12_calc_quantities :
  forall (F : Type) (NF : Num F) (bexec : config F -> str -> res (option F)) (cfg : config F)
         x u y u' du du' name0 rest op,
  unit_of cfg u = Some du -> unit_of cfg u' = Some du' -> dt_names du = name0 :: rest ->
  calculate bexec cfg (IDynamicType x u) (IDynamicType y u') op =
  match dyn_convert bexec cfg y du' name0 with
  | Ok (Some (y', _)) =>
    Ok (Some (match op with
              | ODiv => INumber (do_division x y') Decimal
              | _ => IDynamicType (arith op x y') u
              end))
  | Ok None => Ok None
  | Panic site => Panic site
  end.
Proof. exact (@calc_quantities). Qed.

(* quantities of different kinds do not combine, whatever the evaluator *)
Theorem C12_calc_cross_kind :
  forall (bexec : config float -> str -> res (option float)) x u y u' du du' op ku su ku' su',
  unit_of default_config u = Some du -> unit_of default_config u' = Some du' ->
  In du UNITS -> In du' UNITS ->
  unit_spec du = Some (ku, su) -> unit_spec du' = Some (ku', su') -> ku <> ku' ->
  forall r, calculate bexec default_config (IDynamicType x u) (IDynamicType y u') op <> Ok (Some r).
Proof. exact calc_cross_kind. Qed.

(* the rule `<quantity> to|as|in|into <name>` yields dyn_convert's amount in the unit reached *)
Theorem C12_rule_convert :
  forall (F : Type) (NF : Num F) (bexec : config F -> str -> res (option F)) (cfg : config F)
         vs fs target number u src,
  has "source" fs = true -> has "type" fs = true ->
  get_text vs (s "type") fs = Some target ->
  get_dynamic_type vs (s "source") fs = Some (number, u) ->
  unit_of cfg u = Some src ->
  dynamic_type_convert bexec cfg vs fs =
  match dyn_convert bexec cfg number src target with
  | Ok (Some (x, d)) => Ok (Some (TDynamicType x (uref d)))
  | Ok None => Ok None
  | Panic site => Panic site
  end.
Proof. exact (@rule_convert). Qed.

(* every separator configuration: basic_execute (the evaluator of the codes) and hence the whole
   conversion do not depend on the decimal / thousands separator; every number algebra, every
   configuration, every text *)
Theorem C12_basic_execute_separators :
  forall (F : Type) (NF : Num F) (lx : lexdata) (ck : clock) (cfg : config F) d t data,
  basic_execute lx ck (set_fmt cfg (cf_money cfg) (cf_number cfg) (cf_percent cfg) d t (cf_tz cfg)) data
  = basic_execute lx ck cfg data.
Proof. exact (@basic_execute_separators). Qed.

Theorem C12_convert_separators :
  forall (F : Type) (NF : Num F) (lx : lexdata) (ck : clock) (cfg : config F) d t x src name,
  dyn_convert (basic_execute lx ck) (set_fmt cfg (cf_money cfg) (cf_number cfg) (cf_percent cfg) d t (cf_tz cfg)) x src name
  = dyn_convert (basic_execute lx ck) cfg x src name.
Proof. exact (@convert_separators). Qed.

(* binary64: the faithful evaluator computes the steps on the samples, for every code *)
Theorem C12_evaluates_on_samples :
  forallb (fun x => forallb (sample_ok x) raw_codes) samples = true.
Proof. exact evaluates_on_samples. Qed.

(* ... and the faithful dyn_convert (with the real basic_execute) performs exactly the abstract
   steps at binary64 on every ordered pair of one kind, for the amount 2.5 *)
Theorem C12_faithful_pairs_sample :
  forallb (fun u => forallb (faithful_pair_ok 2.5 u) UNITS) UNITS = true.
Proof. exact faithful_pairs_sample. Qed.

(* non-vacuity, through the whole executable pipeline at binary64 *)
Theorem C12_examples64 :
  is_qty "1 km to m" 1000 "metric-length" 4 "1.000 Meter" = true /\
  is_qty "1 inch to mm" 25.4 "metric-length" 1 "25,40 Millimeter" = true /\
  is_qty "1 kg to hg" 10 "metric-weight" 6 "10 Hectogram" = true /\
  is_qty "1 byte to bit" 8 "memory" 1 "8bit" = true /\
  is_qty "1 mile to yard" 1760 "imperial-unit-length" 3 "1.760 Yard" = true /\
  is_qty "1 stone to oz" 224 "imperial-unit-weight" 1 "224 Ounce" = true /\
  is_qty "2 gb to mb" 2048 "memory" 4 "2.048MB" = true /\
  is_qty "3 kg + 500 g" 3.5 "metric-weight" 7 "3,50 Kilogram" = true /\
  is_qty "1 km / 2" 0.5 "metric-length" 7 "0,50 Kilometer" = true /\
  is_qty "2 m * 3" 6 "metric-length" 4 "6 Meter" = true /\
  is_number "10 m / 2 m" 5 = true /\
  is_number "1 km / 500 m" 2 = true /\
  is_qty "1 m to bit" 1 "metric-length" 4 "1 Meter" = true /\
  is_qty "1 oz to mm" 1 "imperial-unit-weight" 1 "1 Ounce" = true /\
  is_qty "1 kb to inch" 1 "memory" 3 "1KB" = true.
Proof. exact examples64. Qed.

Print Assumptions C12_codes_shaped.
Print Assumptions C12_table_loaded.
Print Assumptions C12_convert_is_path.
Print Assumptions C12_calculate_unit_is_path.
Print Assumptions C12_run_q_linear.
Print Assumptions C12_spec_total.
Print Assumptions C12_factor_table.
Print Assumptions C12_old_factors_refuted.
Print Assumptions C12_convert_exact.
Print Assumptions C12_convert_pair.
Print Assumptions C12_linear.
Print Assumptions C12_inverse.
Print Assumptions C12_transitive.
Print Assumptions C12_bridges.
Print Assumptions C12_kinds.
Print Assumptions C12_cross_kind_declines.
Print Assumptions C12_calc_scale.
Print Assumptions C12_calc_quantities.
Print Assumptions C12_calc_cross_kind.
Print Assumptions C12_rule_convert.
Print Assumptions C12_basic_execute_separators.
Print Assumptions C12_convert_separators.
Print Assumptions C12_evaluates_on_samples.
Print Assumptions C12_faithful_pairs_sample.
Print Assumptions C12_examples64.
