(* Property C12 - statements only (proofs in Proofs/C12.v). Not built yet. *)
From SC.Model Require Import Base.
