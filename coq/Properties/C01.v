(* Property C01 - evaluation is total: no panic, no hang, one result slot per input line.
   STATEMENTS ONLY (proofs: Proofs/C01.v, C01_Parser.v, C01_Rewrite.v, SessionLemmas.v).

   In the model every Rust operation that can unwind is an explicit [Panic site] outcome and
   every loop runs on explicit fuel whose exhaustion is [Panic SITE_OUT_OF_FUEL] (it stands for
   a hang).  What is proved here for ALL inputs: the slot structure of a returning evaluation
   (status true, one slot per line, slot i = line i under the variables of lines < i, errors are
   values that never stop the fold), and that the fuel of the parser and of the rewrite loops
   always suffices.  Freedom from the remaining [Panic] sites is decided per run by the
   correspondence check on a malformed-input stream (tools/props/C01.py): a panic or a watchdog
   timeout of the implementation on any generated input is a VIOLATION with that input. *)
From SC.Model Require Import Base Num Types Config Case Chrono UiTokens Rx Post Parser Items Interp
     RuleFns Rules Format Lexer Api.
From Coq Require Import Floats.
From SC.Model Require Import NumF64 Run64 Corr.
From SC.Proofs Require Import SessionLemmas C01_Parser C01_Rewrite C01_NoPanic RegexNeeds C16 C01.

(* lines are separated by LF or CRLF: one more line than there are breaks *)
Theorem C01_lines : forall x, length (split_lines x []) = S (breaks x).
Proof. exact split_lines_breaks. Qed.

Section WithNum.
Context {F : Type} {NF : Num F}.

(* whenever execute returns: status true and exactly one slot per input line *)
Theorem C01_one_slot_per_line : forall lx ck (cfg : config F) lang text r,
  execute lx ck cfg lang text = Ok r ->
  er_status r = true /\ length (er_lines r) = S (breaks text).
Proof. exact execute_one_slot_per_line. Qed.

(* execute is the in-order fold of the line evaluator over the lines, from the empty
   environment; it stops only on a Panic, never on an error or empty slot *)
Theorem C01_execute_is_fold : forall lx ck (cfg : config F) lang text,
  execute lx ck cfg lang text =
  match eval_lines lx ck cfg lang [] (split_lines text []) with
  | Panic st => Panic st
  | Ok (os, _) => Ok {| er_status := true; er_lines := os |}
  end.
Proof. exact execute_spec. Qed.

Theorem C01_slot_i : forall lx ck (cfg : config F) lang vs l1 l l2 os1 v1 o v2 os2 v3,
  eval_lines lx ck cfg lang vs l1 = Ok (os1, v1) ->
  execute_text lx ck cfg lang v1 l = Ok (o, v2) ->
  eval_lines lx ck cfg lang v2 l2 = Ok (os2, v3) ->
  eval_lines lx ck cfg lang vs (l1 ++ l :: l2) = Ok (os1 ++ o :: os2, v3) /\
  nth_opt (os1 ++ o :: os2) (length l1) = Some o.
Proof. exact eval_lines_slot. Qed.

(* the same for a re-used session: a freshly set text is evaluated line by line *)
Theorem C01_session_slots : forall lx ck (cfg : config F) (se : session (F:=F)) text,
  execute_session lx ck cfg (set_text se text) =
  match eval_lines lx ck cfg (se_language se) (se_vars se) (split_lines text []) with
  | Panic st => Panic st
  | Ok (os, vs') =>
    Ok (with_pos_vars (set_text se text) (length (split_lines text []) - 1) vs',
        {| er_status := true; er_lines := os |})
  end.
Proof. exact execute_session_set_text. Qed.

(* the recursive-descent parser terminates on EVERY token list within the model's fuel *)
Theorem C01_parser_terminates : forall (tokens : list (token F)) (vs : vars F), fst (parse tokens vs) <> PFuel.
Proof. exact parse_terminates. Qed.

Theorem C01_parse_level_terminates : forall l (ts : list (token F)) f,
  (9 * length ts + 8 <= f)%nat ->
  fst (parse_level f l ts) <> PFuel /\ (length (snd (parse_level f l ts)) <= length ts)%nat.
Proof. exact parse_level_terminates. Qed.

(* an unknown language tag is a language without tables, not a failure *)
Theorem C01_unknown_language_rules : forall bexec now_year fuel line (cfg : config F) lang vs st,
  lang_rules cfg lang = None ->
  rule_tokinizer bexec now_year fuel line cfg lang vs st = Ok (Some st).
Proof. exact unknown_language_rules. Qed.

Theorem C01_unknown_language_constants : forall (cfg : config F) lang word,
  lang_constants cfg lang = None -> constant_of cfg lang word = Ok None.
Proof. exact unknown_language_constants. Qed.

(* ---- the rewrite loops (measure: active typed tokens; Proofs/C01_Rewrite.v) ---- *)
(* every firing of a pattern of k >= 2 tokens replaces exactly k active typed tokens by one *)
Theorem C01_fire_mu_exact : forall vs pat (l : list (token_info F)) m tok l',
  find_match vs pat l = Ok m -> fm_total m = fm_rule_idx m ->
  replace_match l m tok = Ok l' -> (mu l' + length pat = mu l + 1)%nat.
Proof. exact fire_mu_exact. Qed.

(* for ANY rule list whose patterns have at least two tokens the rule loop never exhausts a
   fuel above the number of active typed tokens ... *)
Theorem C01_rule_loop_terminates : forall bexec now_year line (cfg : config F) lang vs rules,
  Forall rule_ok rules ->
  forall fuel st, (mu (ts_infos st) < fuel)%nat ->
  rule_loop bexec now_year fuel line cfg lang vs rules st <> Ok None.
Proof. exact rule_loop_terminates. Qed.

(* ... likewise the unit-recognition loop and the variable substitution (no variable's name
   contains a token that a Variable token can match: names are the tokens left of '=') *)
Theorem C01_dyn_loop_terminates : forall line (cfg : config F) vs,
  cfg_units_ok cfg -> forall fuel st, (mu (ts_infos st) < fuel)%nat -> dyn_loop fuel line cfg vs st <> Ok None.
Proof. exact dyn_loop_terminates. Qed.

Theorem C01_variable_substitution_terminates : forall line (vs : vars F) st,
  vars_ok vs -> update_token_variables line vs st <> Ok None.
Proof. exact update_token_variables_terminates. Qed.

End WithNum.

(* side conditions on the configuration regenerated from config.json (finite tables): every rule
   pattern of every language and every unit pattern has at least two tokens *)
Theorem C01_default_rules_ok : cfg_rules_ok default_config.
Proof. exact default_rules_ok. Qed.
Theorem C01_default_units_ok : cfg_units_ok default_config.
Proof. exact default_units_ok. Qed.

(* hence, with the fuel Api.tokinize passes, none of its three loops runs out of fuel, for every
   line, language and clock; and the same in every configuration reachable through the public
   setters by a history that registers no one-token pattern *)
Theorem C01_tokinize_loops_terminate : forall ck lang (vs : vars float) line,
  vars_ok vs ->
  (forall st3, update_token_variables line vs st3 <> Ok None) /\
  (forall st4, dyn_loop (loop_fuel st4) line default_config vs st4 <> Ok None) /\
  (forall st5, rule_tokinizer (basic_execute LX ck) (ck_year ck) (loop_fuel st5) line default_config lang vs st5 <> Ok None).
Proof. exact tokinize_loops_terminate. Qed.

Theorem C01_tokinize_loops_terminate_reachable : forall ck ops lang (vs : vars float) line,
  history_ok ck init_state ops -> vars_ok vs ->
  let cfg := m_cfg (final_state ck init_state ops) in
  (forall st3, update_token_variables line vs st3 <> Ok None) /\
  (forall st4, dyn_loop (loop_fuel st4) line cfg vs st4 <> Ok None) /\
  (forall st5, rule_tokinizer (basic_execute LX ck) (ck_year ck) (loop_fuel st5) line cfg lang vs st5 <> Ok None).
Proof. exact tokinize_loops_terminate_reachable. Qed.

(* the side condition is necessary: a ONE-token custom rule whose result matches its own pattern
   rewrites forever.  Outside the statement's configurations (separator / zone / number-format
   setters), reachable through add_rule; the crate hangs on this history (observed by the harness
   watchdog), the model predicts it. *)
Theorem C01_single_token_rule_loops_refuted :
  run CK0 init_state [OAddRule (s "en") [s "{NUMBER:x}"] (s "e1") REcho 0%float []; OExec (s "en") (s "5")]
  = [MRet (Some true); MPanic SITE_OUT_OF_FUEL].
Proof. exact c01_single_token_rule_hangs_model. Qed.

(* ---- panic freedom after the lexer (Proofs/C01_NoPanic.v) ----
   [safe x]: x returned, or panicked at a site of RESIDUAL = [1701] (the highlight bookkeeping's
   drain, whose exclusion would need the lexer; see C17).  Hypotheses that remain explicit:
   the nested evaluator returns (bexec_total: it runs the lexer), the lexed line contains no
   type-group field listing "FIELD" (st_plain: no configured group does), clock instants in the
   parsed tree and the variables are within a bound B (ITime +- Duration stays in chrono's range),
   no variable name can be matched by a Variable token (vars_np).  Everything else - index ranges
   of matches, field unwraps of every rule function on every pattern of the regenerated rule
   table (en and tr), unit-chain key arithmetic, the formatter - is proved, for the default
   configuration and for every configuration reachable through the setters by a history that
   registers no one-token pattern. *)
Theorem C01_execute_ast_no_panic : forall (F : Type) (NF : Num F) (bexec : config F -> str -> res (option F))
    (cfg : config F) (vs : vars F) (a : ast F) (B : Z),
  bexec_total bexec -> cfg_keys_ok cfg -> (B + 86400 * ast_ops a <= T_MAX)%Z -> ast_in B a -> vars_in B vs ->
  exists r, execute_ast bexec cfg vs a = Ok r.
Proof. exact @execute_ast_no_panic. Qed.

Theorem C01_format_result_no_panic : forall (F : Type) (NF : Num F) (cfg : config F) (lang : str) (now_year : Z) (a : ast F),
  exists r, format_result cfg lang now_year a = Ok r.
Proof. exact @format_result_no_panic. Qed.

Theorem C01_execute_text_no_panic_default : forall (ck : clock) (lang : str) (vs : vars float) (line : str) st3 (B : Z),
  bexec_total (basic_execute LX ck) -> vars_np vs ->
  lexed LX ck default_config lang line = Ok st3 -> st_plain st3 -> vars_in B vs ->
  (forall st tokens a vs1, post_lexer LX ck default_config lang vs line st3 = Ok (st, tokens) ->
     parse tokens vs = (PAst a, vs1) -> (B + 86400 * ast_ops a <= T_MAX)%Z /\ ast_in B a) ->
  safe (execute_text LX ck default_config lang vs line).
Proof. exact execute_text_no_panic_default. Qed.

Theorem C01_execute_text_no_panic_reachable : forall (ck : clock) (ops : list op) (lang : str) (vs : vars float) (line : str) st3 (B : Z),
  history_ok ck init_state ops ->
  let cfg := m_cfg (final_state ck init_state ops) in
  bexec_total (basic_execute LX ck) -> vars_np vs ->
  lexed LX ck cfg lang line = Ok st3 -> st_plain st3 -> vars_in B vs ->
  (forall st tokens a vs1, post_lexer LX ck cfg lang vs line st3 = Ok (st, tokens) ->
     parse tokens vs = (PAst a, vs1) -> (B + 86400 * ast_ops a <= T_MAX)%Z /\ ast_in B a) ->
  safe (execute_text LX ck cfg lang vs line).
Proof. exact execute_text_no_panic_reachable. Qed.

Theorem C01_residual_sites : RESIDUAL = [1701%N].
Proof. reflexivity. Qed.

(* the side conditions are facts of the regenerated configuration and invariants of every setter *)
Theorem C01_default_cfg_np : cfg_np default_config.
Proof. exact default_cfg_np. Qed.
Theorem C01_step_preserves_np : forall ck m o, cfg_np3 (m_cfg m) -> cfg_np3 (m_cfg (fst (step ck m o))).
Proof. exact step_preserves_np. Qed.

(* a line of blanks of ANY length produces no token and evaluates to nothing (unbounded; uses the
   sound regex analysis of Proofs/RegexNeeds.v on the regenerated regexes) *)
Theorem C01_blank_line_evaluates_to_nothing : forall (F : Type) (NF : Num F) (ck : clock) (cfg : config F) (lang : str) (vs : vars F) (line : str),
  blank_line line -> cfg_rules_nonempty cfg -> cfg_units_nonempty cfg -> vars_nonempty vs ->
  execute_text LX ck cfg lang vs line = Ok (None, vs).
Proof. exact @blank_line_evaluates_to_nothing. Qed.

Print Assumptions C01_execute_ast_no_panic.
Print Assumptions C01_format_result_no_panic.
Print Assumptions C01_execute_text_no_panic_default.
Print Assumptions C01_execute_text_no_panic_reachable.
Print Assumptions C01_residual_sites.
Print Assumptions C01_default_cfg_np.
Print Assumptions C01_step_preserves_np.
Print Assumptions C01_blank_line_evaluates_to_nothing.
Print Assumptions C01_fire_mu_exact.
Print Assumptions C01_rule_loop_terminates.
Print Assumptions C01_dyn_loop_terminates.
Print Assumptions C01_variable_substitution_terminates.
Print Assumptions C01_default_rules_ok.
Print Assumptions C01_default_units_ok.
Print Assumptions C01_tokinize_loops_terminate.
Print Assumptions C01_tokinize_loops_terminate_reachable.
Print Assumptions C01_single_token_rule_loops_refuted.
Print Assumptions C01_lines.
Print Assumptions C01_one_slot_per_line.
Print Assumptions C01_execute_is_fold.
Print Assumptions C01_slot_i.
Print Assumptions C01_session_slots.
Print Assumptions C01_parser_terminates.
Print Assumptions C01_parse_level_terminates.
Print Assumptions C01_unknown_language_rules.
Print Assumptions C01_unknown_language_constants.
