(* Property C01 - statements only (proofs in Proofs/C01.v). Not built yet. *)
From SC.Model Require Import Base.
