(* Property C01 - evaluation is total: no panic, no hang, one result slot per input line.
   STATEMENTS ONLY (proofs: Proofs/C01.v, C01_Parser.v, C01_Rewrite.v, SessionLemmas.v).

   In the model every Rust operation that can unwind is an explicit [Panic site] outcome and
   every loop runs on explicit fuel whose exhaustion is [Panic SITE_OUT_OF_FUEL] (it stands for
   a hang).  What is proved here for ALL inputs: the slot structure of a returning evaluation
   (status true, one slot per line, slot i = line i under the variables of lines < i, errors are
   values that never stop the fold), and that the fuel of the parser and of the rewrite loops
   always suffices.  Freedom from the remaining [Panic] sites is decided per run by the
   correspondence check on a malformed-input stream (tools/props/C01.py): a panic or a watchdog
   timeout of the implementation on any generated input is a VIOLATION with that input. *)
From SC.Model Require Import Base Num Types Config Case Chrono UiTokens Rx Post Parser Items Interp
     RuleFns Rules Format Lexer Api.
From SC.Proofs Require Import SessionLemmas C01_Parser C01.

(* lines are separated by LF or CRLF: one more line than there are breaks *)
Theorem C01_lines : forall x, length (split_lines x []) = S (breaks x).
Proof. exact split_lines_breaks. Qed.

Section WithNum.
Context {F : Type} {NF : Num F}.

(* whenever execute returns: status true and exactly one slot per input line *)
Theorem C01_one_slot_per_line : forall lx ck (cfg : config F) lang text r,
  execute lx ck cfg lang text = Ok r ->
  er_status r = true /\ length (er_lines r) = S (breaks text).
Proof. exact execute_one_slot_per_line. Qed.

(* execute is the in-order fold of the line evaluator over the lines, from the empty
   environment; it stops only on a Panic, never on an error or empty slot *)
Theorem C01_execute_is_fold : forall lx ck (cfg : config F) lang text,
  execute lx ck cfg lang text =
  match eval_lines lx ck cfg lang [] (split_lines text []) with
  | Panic st => Panic st
  | Ok (os, _) => Ok {| er_status := true; er_lines := os |}
  end.
Proof. exact execute_spec. Qed.

Theorem C01_slot_i : forall lx ck (cfg : config F) lang vs l1 l l2 os1 v1 o v2 os2 v3,
  eval_lines lx ck cfg lang vs l1 = Ok (os1, v1) ->
  execute_text lx ck cfg lang v1 l = Ok (o, v2) ->
  eval_lines lx ck cfg lang v2 l2 = Ok (os2, v3) ->
  eval_lines lx ck cfg lang vs (l1 ++ l :: l2) = Ok (os1 ++ o :: os2, v3) /\
  nth_opt (os1 ++ o :: os2) (length l1) = Some o.
Proof. exact eval_lines_slot. Qed.

(* the same for a re-used session: a freshly set text is evaluated line by line *)
Theorem C01_session_slots : forall lx ck (cfg : config F) (se : session (F:=F)) text,
  execute_session lx ck cfg (set_text se text) =
  match eval_lines lx ck cfg (se_language se) (se_vars se) (split_lines text []) with
  | Panic st => Panic st
  | Ok (os, vs') =>
    Ok (with_pos_vars (set_text se text) (length (split_lines text []) - 1) vs',
        {| er_status := true; er_lines := os |})
  end.
Proof. exact execute_session_set_text. Qed.

(* the recursive-descent parser terminates on EVERY token list within the model's fuel *)
Theorem C01_parser_terminates : forall (tokens : list (token F)) (vs : vars F), fst (parse tokens vs) <> PFuel.
Proof. exact parse_terminates. Qed.

Theorem C01_parse_level_terminates : forall l (ts : list (token F)) f,
  (9 * length ts + 8 <= f)%nat ->
  fst (parse_level f l ts) <> PFuel /\ (length (snd (parse_level f l ts)) <= length ts)%nat.
Proof. exact parse_level_terminates. Qed.

(* an unknown language tag is a language without tables, not a failure *)
Theorem C01_unknown_language_rules : forall bexec now_year fuel line (cfg : config F) lang vs st,
  lang_rules cfg lang = None ->
  rule_tokinizer bexec now_year fuel line cfg lang vs st = Ok (Some st).
Proof. exact unknown_language_rules. Qed.

Theorem C01_unknown_language_constants : forall (cfg : config F) lang word,
  lang_constants cfg lang = None -> constant_of cfg lang word = Ok None.
Proof. exact unknown_language_constants. Qed.

End WithNum.

Print Assumptions C01_lines.
Print Assumptions C01_one_slot_per_line.
Print Assumptions C01_execute_is_fold.
Print Assumptions C01_slot_i.
Print Assumptions C01_session_slots.
Print Assumptions C01_parser_terminates.
Print Assumptions C01_parse_level_terminates.
Print Assumptions C01_unknown_language_rules.
Print Assumptions C01_unknown_language_constants.
