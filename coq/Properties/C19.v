(* Property C19 - statements only (proofs in Proofs/C19.v). Not built yet. *)
From SC.Model Require Import Base.
