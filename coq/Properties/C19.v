(* Property C19 - every configured language is a relabelling of the same calculator.
   STATEMENTS ONLY (proofs: Proofs/C19.v).

   Model functions: Api.execute / execute_text / tokinize (exec64 = execute at binary64 on the loaded
   configuration), Lexer.month_parser / text_body / get_field_type / alias_tokinizer, Rules.rule_tokinizer,
   RuleFns.call_rule (duration_parse, as_duration -> constant_of), Format.format_result (lang_format, month_info).
   Data regenerated from /repo/src/json/config.json on every run: Gen/ConfigData (d_constant_pair, d_word_group,
   d_months, d_format, d_lang_alias, d_rule_texts loaded into cf_rules default_config) and Gen/Regexes
   (g_lang_alias, g_months).  Languages: en, tr.

   Vocabulary defined in Proofs/C19.v:
     same_tables lx cfg l l'   the six per-language lookups (constant_pair, word_group, rules, format of the
                               configuration; language aliases and month regexes of the lexer data) give the same
                               entry for the tags l and l';   unknown_tag: all six give None
     L_en, L_tr, u "..."       the tags "en" / "tr"; a UTF-8 literal of the source as code points
     consts_of, words_for, group_of, months_of, month_res, aliases_of, rules_of   the regenerated tables of a language
     skeleton / field_skeleton a rule's patterns up to keyword words: fields keep kind and name, a literal word is "#"
                               (field_skeleton: without the positions of the words, with their number)
     rules_on, same_rewrite    the rule loop (the language-keyed stage after the lexer) on given token infos under
                               en and tr
     values, prints            per line of a text: the value or error message / the printed text, through exec64 at
                               the clock CK22 (1 jan 2022)
   What is proved of the full statement and what only the correspondence check covers: C19_full_partial. *)
From Coq Require Import Floats ZArith.
From SC.Model Require Import Base Num NumF64 Types Config Case Rx Parser RuleFns Rules Format Lexer Api Run64.
From SC.Spec Require Import Calendar.
From SC.Gen Require Import ConfigData Regexes.
From SC.Proofs Require Import C19.

(* ---- the language tag is only a key into per-language tables: ALL lines, configurations, number algebras ---- *)
Theorem C19_lang_only_selects_tables :
  forall {F} {NF : Num F} (lx : lexdata) (cfg : config F) (ck : clock) (l l' : str),
  same_tables lx cfg l l' ->
  (forall vs line, execute_text lx ck cfg l vs line = execute_text lx ck cfg l' vs line) /\
  (forall text, execute lx ck cfg l text = execute lx ck cfg l' text) /\
  (forall today line, token_infos lx today cfg l line = token_infos lx today cfg l' line).
Proof.
  intros F NF lx cfg ck l l' H. split; [|split].
  - intros. apply execute_text_lang, H.
  - intros. apply execute_lang, H.
  - intros. apply token_infos_lang, H.
Qed.

(* what same_tables says, and the corollary for tags no table knows *)
Theorem C19_same_tables_unfold : forall {F} {NF : Num F} (lx : lexdata) (cfg : config F) l l',
  same_tables lx cfg l l' <->
  assoc l (cf_constant_pair cfg) = assoc l' (cf_constant_pair cfg) /\
  assoc l (cf_word_group cfg) = assoc l' (cf_word_group cfg) /\
  assoc l (cf_rules cfg) = assoc l' (cf_rules cfg) /\
  assoc l (cf_format cfg) = assoc l' (cf_format cfg) /\
  assoc l (lx_lang_alias lx) = assoc l' (lx_lang_alias lx) /\
  assoc l (lx_months lx) = assoc l' (lx_months lx).
Proof. intros. reflexivity. Qed.

Theorem C19_unknown_tags_alike :
  (forall {F} {NF : Num F} (lx : lexdata) (cfg : config F) ck l l' text,
     unknown_tag lx cfg l -> unknown_tag lx cfg l' -> execute lx ck cfg l text = execute lx ck cfg l' text) /\
  (forall ck l l' text, unknown_tag LX default_config l -> unknown_tag LX default_config l' ->
     exec64 ck default_config l text = exec64 ck default_config l' text) /\
  unknown_tag LX default_config (s "de") /\ unknown_tag LX default_config (s "xx") /\ unknown_tag LX default_config [] /\
  ~ same_tables LX default_config L_en L_tr.
Proof.
  split; [intros; apply unknown_tags_alike; assumption|].
  split; [exact unknown_tags_default|exact unknown_tag_examples].
Qed.

(* ---- the regenerated tables of en and tr are parallel ---- *)
Theorem C19_tables_languages :
  d_languages = [L_en; L_tr] /\
  map fst (cf_constant_pair default_config) = [L_en; L_tr] /\ map fst (cf_word_group default_config) = [L_en; L_tr] /\
  map fst (cf_rules default_config) = [L_en; L_tr] /\ map fst (cf_months default_config) = [L_en; L_tr] /\
  map fst (cf_format default_config) = [L_en; L_tr] /\
  map fst (lx_lang_alias LX) = [L_en; L_tr] /\ map fst (lx_months LX) = [L_en; L_tr] /\
  cf_constant_pair default_config = d_constant_pair /\ cf_word_group default_config = d_word_group /\
  cf_months default_config = d_months /\ cf_format default_config = d_format.
Proof. exact configured_languages. Qed.

(* every constant (second .. year, today, tomorrow, yesterday, now) has a keyword in both languages; a keyword of
   one language has a counterpart for the same constant in the other; the duration keywords are exactly the
   words of the language's duration_group; tr has no conversion words and no number-base words *)
Theorem C19_tables_parallel_constants :
  (forall c : consttype, words_for L_en c <> [] /\ words_for L_tr c <> []) /\
  (forall lang lang' w c, In lang [L_en; L_tr] -> In lang' [L_en; L_tr] ->
     In (w, c) (consts_of lang) -> exists w', assoc w' (consts_of lang') = Some c) /\
  (forall lang, In lang [L_en; L_tr] ->
     (forall w c, In (w, c) (consts_of lang) -> is_unit c = true -> In w (group_of lang "duration_group")) /\
     (forall w, In w (group_of lang "duration_group") ->
        exists c, assoc w (consts_of lang) = Some c /\ is_unit c = true)) /\
  group_of L_tr "conversion_group" = [] /\ group_of L_tr "number_type_group" = [] /\
  group_of L_en "conversion_group" = map s ["in"; "into"; "as"; "to"]%string /\
  group_of L_en "number_type_group" = map s ["hex"; "hexadecimal"; "decimal"; "octal"; "binary"]%string.
Proof.
  split; [exact consts_parallel|]. split; [exact consts_translate|]. split; [exact unit_words_group|exact groups_only_en].
Qed.

(* every month number 1..12 has an entry with a long and a short name in both languages; the lexer's month
   regexes carry the same entries and each matches its own two names *)
Theorem C19_tables_parallel_months : forall lang,
  In lang [L_en; L_tr] ->
  map mi_month (months_of lang) = [1; 2; 3; 4; 5; 6; 7; 8; 9; 10; 11; 12]%Z /\
  map snd (month_res lang) = months_of lang /\
  (forall c mi, In (c, mi) (month_res lang) ->
     re_is_match c (mi_long mi) = true /\ re_is_match c (mi_short mi) = true /\ mi_long mi <> [] /\ mi_short mi <> []).
Proof. exact months_parallel. Qed.

(* every configured spelling (for tr the ASCII spellings written next to the Turkish ones included): the month's
   regex matches each of them, has exactly that many alternatives, the two names kept for printing are among them,
   and it matches no spelling of another month (months_exclusive) *)
Theorem C19_tables_month_spellings : forall lang,
  In lang [L_en; L_tr] ->
  length (month_res lang) = 12%nat /\ length (month_spellings lang) = 12%nat /\
  (forall c mi ws, In ((c, mi), ws) (combine (month_res lang) (month_spellings lang)) ->
     (forall w, In w ws -> re_is_match c w = true) /\ alternatives (cre_rx c) = length ws /\
     In (mi_long mi) ws /\ In (mi_short mi) ws) /\
  months_exclusive lang = true.
Proof. exact months_all_spellings. Qed.

Theorem C19_month_spellings_unfold :
  month_spellings L_tr
  = map (map u) [["ocak"; "oca"]; ["subat"; "şubat"; "sub"; "şub"]; ["mart"; "mar"]; ["nisan"; "nis"];
                 ["mayis"; "mayıs"; "may"]; ["haziran"; "haz"]; ["temmuz"; "tem"];
                 ["agustos"; "ağustos"; "agu"; "ağu"]; ["eylul"; "eylül"; "eyl"]; ["ekim"; "eki"];
                 ["kasim"; "kasım"; "kas"]; ["aralik"; "aralık"; "ara"]]%string /\
  month_spellings L_en
  = map (map s) [["january"; "jan"]; ["february"; "feb"]; ["march"; "mar"]; ["april"; "apr"]; ["may"];
                 ["june"; "jun"]; ["july"; "jul"]; ["august"; "aug"]; ["september"; "sep"]; ["october"; "oct"];
                 ["november"; "nov"]; ["december"; "dec"]]%string /\
  (forall lang, months_exclusive lang =
     forallb (fun ci => forallb (fun wj => forallb (fun w => Bool.eqb (re_is_match (fst (fst ci)) w) (Nat.eqb (snd ci) (snd wj)))
                                                   (fst wj))
                                (combine (month_spellings lang) (seq 0 12)))
             (combine (month_res lang) (seq 0 12))).
Proof. split; [reflexivity|]. split; reflexivity. Qed.

(* rules: tr has fourteen of the twenty rules of en (rules_only_en lists the other six, all of which need a conversion
   word; the word-free time_with_timezone is shared since the /repo data fix); a shared rule has the same
   patterns up to keyword words and the order of its patterns; to_duration places its keyword differently
   (`A to B` / `A B arası`); small_date of tr has three of the five spellings; as_duration cannot fire in tr *)
Theorem C19_tables_parallel_rules :
  shared_rules = ["as_duration"; "combine_durations"; "convert_money"; "division_cleanup"; "duration_parse";
                  "find_numbers_percent"; "find_total_from_percent"; "number_of"; "number_off"; "number_on";
                  "percent_calculator"; "time_with_timezone"; "to_duration"; "small_date"]%string /\
  rules_only_en = ["at_date"; "convert_timezone"; "dynamic_type_convert"; "from_unixtime"; "number_type_convert";
                   "to_unixtime"]%string /\
  rule_names L_tr = map s shared_rules /\
  (forall n, In n (rule_names L_en) <-> In n (map s shared_rules) \/ In n (map s rules_only_en)) /\
  (forall n, In n (map s rules_only_en) -> ~ In n (rule_names L_tr)) /\
  (forall n, In n shared_rules -> n <> "to_duration"%string -> n <> "small_date"%string ->
     same_up_to_order (skel_of L_en n) (skel_of L_tr n) = true) /\
  fsame_up_to_order (fskel_of L_en "to_duration") (fskel_of L_tr "to_duration") = true /\
  incl_pats (skel_of L_tr "small_date") (skel_of L_en "small_date") = true /\
  length (skel_of L_en "small_date") = 5%nat /\ length (skel_of L_tr "small_date") = 3%nat /\
  map rule_name (filter dead_rule (rules_of L_tr)) = [s "as_duration"] /\
  map rule_name (filter dead_rule (rules_of L_en)) = [].
Proof. split; [reflexivity|]. split; [reflexivity|]. exact rules_parallel. Qed.

(* the comparison functions used above mean what their names say *)
Theorem C19_skeleton_examples :
  skel_of L_en "number_on" = [[s "PERCENT:p"; s "#"; s "NUMBER|MONEY|:number"]; [s "NUMBER|MONEY|:number"; s "#"; s "PERCENT:p"]] /\
  skel_of L_tr "duration_parse" = [[s "NUMBER:duration"; s "GROUP:type"]] /\
  skel_of L_en "to_duration" = [[s "TIME:source"; s "#"; s "TIME:target"]; [s "DATE:source"; s "#"; s "DATE:target"]] /\
  skel_of L_tr "to_duration" = [[s "TIME:source"; s "TIME:target"; s "#"]; [s "DATE:source"; s "DATE:target"; s "#"]] /\
  fskel_of L_tr "to_duration" = [([s "TIME:source"; s "TIME:target"], 1%nat); ([s "DATE:source"; s "DATE:target"], 1%nat)] /\
  same_up_to_order [[s "a"]; [s "b"; s "c"]] [[s "b"; s "c"]; [s "a"]] = true /\
  same_up_to_order [[s "a"]; [s "b"; s "c"]] [[s "c"; s "b"]; [s "a"]] = false /\
  same_up_to_order (skel_of L_en "to_duration") (skel_of L_tr "to_duration") = false.
Proof. vm_compute. repeat split. Qed.

(* operator words: every tr word is rewritten to the atom some en word is rewritten to; `divide` alone has no tr
   counterpart; the lexer's alias regexes are the words of the table *)
Theorem C19_tables_parallel_aliases :
  (forall w r, In (w, r) (aliases_of L_tr) -> exists w', In (w', r) (aliases_of L_en)) /\
  map fst (filter (fun kv => negb (existsb (fun kv' => str_eqb (snd kv') (snd kv)) (aliases_of L_tr))) (aliases_of L_en))
    = [s "divide"] /\
  alias_words_ok L_en = true /\ alias_words_ok L_tr = true /\
  map (fun kv => (fst kv, snd kv)) (aliases_of L_en)
    = [(s "add", s "[OPERATOR:+]"); (s "append", s "[OPERATOR:+]"); (s "divide", s "[OPERATOR:/]"); (s "euro", s "eur");
       (s "exclude", s "[OPERATOR:-]"); (s "minus", s "[OPERATOR:-]"); (s "multiply", s "[OPERATOR:*]");
       (s "sum", s "[OPERATOR:+]"); (s "times", s "[OPERATOR:*]")] /\
  aliases_of L_tr
    = [(u "carp", s "[OPERATOR:*]"); (u "carpi", s "[OPERATOR:*]"); (u "cikar", s "[OPERATOR:-]"); (u "cikart", s "[OPERATOR:-]");
       (u "ekle", s "[OPERATOR:+]"); (u "eksi", s "[OPERATOR:-]"); (u "euro", s "eur"); (u "kere", s "[OPERATOR:*]");
       (u "topla", s "[OPERATOR:+]"); (u "toplam", s "[OPERATOR:+]"); (u "çarp", s "[OPERATOR:*]"); (u "çarpı", s "[OPERATOR:*]");
       (u "çıkar", s "[OPERATOR:-]"); (u "çıkart", s "[OPERATOR:-]")].
Proof. exact aliases_parallel. Qed.

(* ---- word-free features ---- *)
(* the patterns made of NUMBER / MONEY / PERCENT / DATE / TIME fields and operators only are the same rules with the
   same patterns in the same order in both languages (structurally equal, spans and texts included) *)
Theorem C19_word_free_rules :
  word_free_patterns L_en = word_free_patterns L_tr /\
  map (fun np => (fst np, map (map tok_code) (snd np))) (word_free_patterns L_en)
  = [(s "percent_calculator", [[s "PERCENT:percent"; s "NUMBER:number"]; [s "NUMBER:number"; s "PERCENT:percent"]]);
     (s "small_date", [[s "NUMBER:day"; s "/"; s "NUMBER:month"; s "/"; s "NUMBER:year"]])].
Proof. exact word_free_rules_equal. Qed.

Section WordFreeShapes.
Local Open Scope string_scope.
(* on the token shapes of arithmetic, money, percentages (and the phrases whose pattern words are English in both
   tables) the rule loops of en and tr produce the same state: for ALL binary64 values, number types, spans and
   texts; operators and currency codes are the listed ones *)
Theorem C19_word_free : forall bexec ny line b1 e1 b2 e2 b3 e3 b4 e4 b5 e5 b6 e6 x1 x2 x3 x4 x5 x6
    (X Y V p : float) nt nt' nt'',
  let N1 := tinfo b1 e1 (TNumber X nt) x1 in let N2 := tinfo b2 e2 (TNumber Y nt') x2 in
  let N3 := tinfo b3 e3 (TNumber Y nt') x3 in let N5 := tinfo b5 e5 (TNumber V nt'') x5 in
  let O2 c := tinfo b2 e2 (TOperator (ch c)) x2 in let O4 c := tinfo b4 e4 (TOperator (ch c)) x4 in
  let M1 c := tinfo b1 e1 (TMoney X (s c)) x1 in let M3 c := tinfo b3 e3 (TMoney Y (s c)) x3 in
  let P1 := tinfo b1 e1 (TPercent p) x1 in let P2 := tinfo b2 e2 (TPercent p) x2 in
  let P3 := tinfo b3 e3 (TPercent p) x3 in let W2 w := tinfo b2 e2 (TText (s w)) (s w) in
  (same_rewrite bexec ny line [N1] /\
   same_rewrite bexec ny line [N1; O2 "+"; N3] /\ same_rewrite bexec ny line [N1; O2 "-"; N3] /\
   same_rewrite bexec ny line [N1; O2 "*"; N3] /\ same_rewrite bexec ny line [N1; O2 "/"; N3] /\
   same_rewrite bexec ny line [N1; N2] /\
   same_rewrite bexec ny line [N1; O2 "+"; N3; O4 "*"; N5] /\
   same_rewrite bexec ny line [N1; O2 "*"; N3; O4 "-"; N5] /\
   same_rewrite bexec ny line [N1; O2 "-"; N3; O4 "/"; N5] /\
   same_rewrite bexec ny line [tinfo b1 e1 (TOperator (ch "(")) x1; N2; tinfo b3 e3 (TOperator (ch "+")) x3;
                               tinfo b4 e4 (TNumber V nt'') x4; tinfo b5 e5 (TOperator (ch ")")) x5]) /\
  (same_rewrite bexec ny line [M1 "USD"] /\ same_rewrite bexec ny line [M1 "TRY"] /\
   same_rewrite bexec ny line [M1 "USD"; O2 "+"; M3 "USD"] /\
   same_rewrite bexec ny line [M1 "USD"; O2 "-"; M3 "EUR"] /\
   same_rewrite bexec ny line [M1 "EUR"; O2 "*"; N3] /\ same_rewrite bexec ny line [M1 "TRY"; O2 "/"; N3] /\
   same_rewrite bexec ny line [M1 "USD"; W2 "try"] /\ same_rewrite bexec ny line [M1 "EUR"; W2 "usd"] /\
   same_rewrite bexec ny line [M1 "TRY"; W2 "eur"]) /\
  (same_rewrite bexec ny line [P1] /\
   same_rewrite bexec ny line [N1; O2 "+"; P3] /\ same_rewrite bexec ny line [N1; O2 "-"; P3] /\
   same_rewrite bexec ny line [M1 "USD"; O2 "+"; P3] /\ same_rewrite bexec ny line [M1 "EUR"; O2 "-"; P3] /\
   same_rewrite bexec ny line [P1; N2] /\ same_rewrite bexec ny line [N1; P2]) /\
  (same_rewrite bexec ny line [P1; W2 "on"; N3] /\ same_rewrite bexec ny line [P1; W2 "of"; N3] /\
   same_rewrite bexec ny line [P1; W2 "off"; N3] /\ same_rewrite bexec ny line [N1; W2 "on"; P3] /\
   same_rewrite bexec ny line [P1; W2 "of"; M3 "USD"] /\ same_rewrite bexec ny line [M1 "TRY"; W2 "off"; P3] /\
   same_rewrite bexec ny line [N1; W2 "is"; tinfo b3 e3 (TText (s "what")) x3; tinfo b4 e4 (TOperator 37) x4;
                               tinfo b5 e5 (TText (s "of")) x5; tinfo b6 e6 (TNumber V nt'') x6] /\
   same_rewrite bexec ny line [N1; W2 "is"; P3; tinfo b4 e4 (TText (s "of")) x4; tinfo b5 e5 (TText (s "what")) x5]).
Proof.
  intros. split; [|split; [|split]].
  - exact (shapes_arithmetic bexec ny line b1 e1 b2 e2 b3 e3 b4 e4 b5 e5 x1 x2 x3 x4 x5 X Y V nt nt' nt'').
  - exact (shapes_money bexec ny line b1 e1 b2 e2 b3 e3 x1 x2 x3 X Y nt').
  - exact (shapes_percent bexec ny line b1 e1 b2 e2 b3 e3 x1 x2 x3 X Y p nt nt').
  - exact (shapes_phrases bexec ny line b1 e1 b2 e2 b3 e3 b4 e4 b5 e5 b6 e6 x1 x3 x4 x5 x6 X Y V p nt nt' nt'').
Qed.

(* d/m/y (concrete numbers, any spans and texts) and already-lexed times and dates (any values) *)
Theorem C19_word_free_dates : forall bexec ny line b1 e1 b2 e2 b3 e3 b4 e4 b5 e5 x1 x2 x3 x4 x5 nt nt' nt'' d d' t t' tz tz',
  let DMY (dd mm yy : Z) := [tinfo b1 e1 (TNumber (fofZ dd) nt) x1; tinfo b2 e2 (TOperator (ch "/")) x2;
                             tinfo b3 e3 (TNumber (fofZ mm) nt') x3; tinfo b4 e4 (TOperator (ch "/")) x4;
                             tinfo b5 e5 (TNumber (fofZ yy) nt'') x5] in
  (same_rewrite bexec ny line (DMY 29 2 2020) /\ same_rewrite bexec ny line (DMY 31 12 1999) /\
   same_rewrite bexec ny line (DMY 1 1 2021) /\ same_rewrite bexec ny line (DMY 31 4 2021) /\
   same_rewrite bexec ny line (DMY 12 13 2021))%Z /\
  (same_rewrite bexec ny line [tinfo b1 e1 (TTime t tz) x1] /\
   same_rewrite bexec ny line [tinfo b1 e1 (TDate d tz) x1] /\
   same_rewrite bexec ny line [tinfo b1 e1 (TDate d tz) x1; tinfo b2 e2 (TOperator (ch "-")) x2; tinfo b3 e3 (TDate d' tz') x3] /\
   same_rewrite bexec ny line [tinfo b1 e1 (TTime t tz) x1; tinfo b2 e2 (TOperator (ch "+")) x2; tinfo b3 e3 (TTime t' tz') x3]).
Proof.
  intros. split.
  - exact (shapes_dmy bexec ny line b1 e1 b2 e2 b3 e3 b4 e4 b5 e5 x1 x2 x3 x4 x5 nt nt' nt'').
  - exact (shapes_time_date bexec ny line b1 e1 b2 e2 b3 e3 x1 x2 x3 d d' t t' tz tz').
Qed.

End WordFreeShapes.

(* a number, a percentage, money, a time, a quantity is printed without reading the language: any configuration,
   any two tags *)
Theorem C19_word_free_prints : forall {F} {NF : Num F} (cfg : config F) (l l' : str) ny (i : item F),
  match i with IDuration _ | IDate _ _ | IDateTime _ _ => False | _ => True end ->
  format_result cfg l ny (AItem i) = format_result cfg l' ny (AItem i).
Proof. exact @print_word_free. Qed.

(* ---- dates and durations are printed with the language's own month names and unit words ---- *)
Theorem C19_prints :
  (forall lang, In lang [L_en; L_tr] ->
     map (fun mi => (mi_long mi, mi_short mi)) (months_of lang) = combine (long_names lang) (short_names lang) /\
     option_map (fun f => (lf_language f, assoc (s "current_year") (lf_date f), assoc (s "full_date") (lf_date f)))
                (assoc lang (cf_format default_config))
     = Some (lang, Some (s "{day} {month_long}"), Some (s "{day} {month_short} {year}")) /\
     cf_tz default_config = UTC0) /\
  (forall lang m, In lang [L_en; L_tr] -> In m (seq 1 12) ->
     let day := days_from_civil 2021 (Z.of_nat m) 15 in
     date_print default_config lang 2021 day UTC0 = s "15 " ++ uppercase_first_letter (nth (m - 1) (long_names lang) []) /\
     date_print default_config lang 2022 day UTC0
     = s "15 " ++ uppercase_first_letter (nth (m - 1) (short_names lang) []) ++ s " 2021") /\
  (forall lang fmt k c, In lang [L_en; L_tr] -> assoc lang (cf_format default_config) = Some fmt ->
     duration_formatter fmt (dur_placeholder k) c k = Z_to_str c ++ s " " ++ unit_word lang k c ++ s " ") /\
  (forall lang k c, In lang [L_en; L_tr] -> In c [1; 2; 3]%Z ->
     duration_print default_config lang (c * dur_unit k) = Z_to_str c ++ s " " ++ unit_word lang k c).
Proof.
  split; [exact month_tables|]. split; [exact month_prints|]. split; [exact unit_words_printed|exact duration_prints].
Qed.

(* the word tables named in C19_prints *)
Theorem C19_prints_words :
  long_names L_en = map s ["january"; "february"; "march"; "april"; "may"; "june"; "july"; "august"; "september";
                           "october"; "november"; "december"]%string /\
  short_names L_en = map s ["jan"; "feb"; "mar"; "apr"; "may"; "jun"; "jul"; "aug"; "sep"; "oct"; "nov"; "dec"]%string /\
  long_names L_tr = map u ["ocak"; "şubat"; "mart"; "nisan"; "mayıs"; "haziran"; "temmuz"; "ağustos"; "eylül"; "ekim";
                           "kasım"; "aralık"]%string /\
  short_names L_tr = map u ["oca"; "şub"; "mar"; "nis"; "may"; "haz"; "tem"; "ağu"; "eyl"; "eki"; "kas"; "ara"]%string /\
  map (fun k => (unit_word L_en k 1, unit_word L_en k 2, unit_word L_tr k 1, unit_word L_tr k 2)) all_kinds
  = [(s "second", s "seconds", u "saniye", u "saniye"); (s "minute", s "minutes", u "dakika", u "dakika");
     (s "hour", s "hours", u "saat", u "saat"); (s "day", s "days", u "gün", u "gün");
     (s "week", s "weeks", u "hafta", u "hafta"); (s "month", s "months", u "ay", u "ay");
     (s "year", s "years", u "yıl", u "yıl")] /\
  u "şubat ARALIK ı İ €" = [351; 117; 98; 97; 116; 32; 65; 82; 65; 76; 73; 75; 32; 305; 32; 304; 32; 8364]%N.
Proof. vm_compute. repeat split. Qed.

(* ---- whole lines through the whole model (lexer, rules, parser, interpreter, printer) ---- *)
(* 26 lines and their word-by-word translations evaluate to the same values (and every en line has a value) *)
Theorem C19_pipeline :
  map (fun p => values L_en (u (fst p))) line_pairs = map (fun p => values L_tr (u (snd p))) line_pairs /\
  forallb (fun p => all_items (values L_en (u (fst p)))) line_pairs = true /\
  length line_pairs = 26%nat /\
  (values L_en (u ("x = 3 days" ++ NL ++ "x + 2 hours")) = values L_tr (u ("x = 3 gün" ++ NL ++ "x + 2 saat")) /\
   all_items (values L_en (u ("x = 3 days" ++ NL ++ "x + 2 hours"))) = true /\
   values L_en (u ("start = 3 march 2021" ++ NL ++ "start add 10 days"))
   = values L_tr (u ("start = 3 mart 2021" ++ NL ++ "start ekle 10 gün")) /\
   all_items (values L_en (u ("start = 3 march 2021" ++ NL ++ "start add 10 days"))) = true).
Proof.
  destruct pairs_equal_values as [A B]. split; [exact A|]. split; [exact B|]. split; [reflexivity|exact pairs_with_variables].
Qed.

Theorem C19_pipeline_prints :
  prints L_en (u "3 february 2021") = Some [Some (u "3 Feb 2021")] /\
  prints L_tr (u "3 şubat 2021") = Some [Some (u "3 Şub 2021")] /\
  prints L_en (u "17 august") = Some [Some (u "17 August")] /\
  prints L_tr (u "17 ağustos") = Some [Some (u "17 Ağustos")] /\
  prints L_en (u "12/05/2021") = Some [Some (u "12 May 2021")] /\
  prints L_tr (u "12/05/2021") = Some [Some (u "12 May 2021")] /\
  prints L_en (u "12/12/2021") = Some [Some (u "12 Dec 2021")] /\
  prints L_tr (u "12/12/2021") = Some [Some (u "12 Ara 2021")] /\
  prints L_en (u "1 year 2 months 3 weeks 4 days 5 hours 6 minutes 7 seconds")
  = Some [Some (u "1 year 2 months 3 weeks 4 days 5 hours 6 minutes 7 seconds")] /\
  prints L_tr (u "1 yıl 2 ay 3 hafta 4 gün 5 saat 6 dakika 7 saniye")
  = Some [Some (u "1 yıl 2 ay 3 hafta 4 gün 5 saat 6 dakika 7 saniye")] /\
  prints L_en (u "1 day 1 hour") = Some [Some (u "1 day 1 hour")] /\
  prints L_tr (u "1 gun 1 saat") = Some [Some (u "1 gün 1 saat")] /\
  prints L_tr (u "1 yil") = Some [Some (u "1 yıl")] /\
  prints L_en (u "1 january 2021 to 1 march 2021") = Some [Some (u "1 month 4 weeks 1 day")] /\
  prints L_tr (u "1 ocak 2021 1 mart 2021 arası") = Some [Some (u "1 ay 4 hafta 1 gün")].
Proof. exact pairs_printed. Qed.

(* word-free lines: the same values AND the same printed text under en and tr *)
Theorem C19_pipeline_word_free :
  map (fun t => (values L_en (u t), prints L_en (u t))) word_free_lines
  = map (fun t => (values L_tr (u t), prints L_tr (u t))) word_free_lines /\
  length word_free_lines = 36%nat /\
  (let t1 := u ("x = 5" ++ NL ++ "x * 2") in
   let t2 := u ("a = $10" ++ NL ++ "b = 3" ++ NL ++ "a * b") in
   let t3 := u ("rate = 8%" ++ NL ++ "250 + rate") in
   (values L_en t1, prints L_en t1) = (values L_tr t1, prints L_tr t1) /\ all_items (values L_en t1) = true /\
   (values L_en t2, prints L_en t2) = (values L_tr t2, prints L_tr t2) /\ all_items (values L_en t2) = true /\
   (values L_en t3, prints L_en t3) = (values L_tr t3, prints L_tr t3) /\ all_items (values L_en t3) = true).
Proof. split; [exact word_free_equal|]. split; [reflexivity|exact word_free_variables]. Qed.

(* ---- the ASCII spellings of the Turkish month names (was known finding C19-K1, repaired by /repo 2b32105) ---- *)
Theorem C19_ascii_spellings_read :
  values L_en (u "3 february 2021") = Some [date64 2021 2 3] /\
  values L_tr (u "3 şubat 2021") = Some [date64 2021 2 3] /\
  values L_tr (u "3 subat 2021") = Some [date64 2021 2 3] /\
  values L_tr (u "3 sub 2021") = Some [date64 2021 2 3] /\
  values L_tr (u "5 aralik 2020") = Some [date64 2020 12 5] /\
  values L_tr (u "3 agu 2021") = Some [date64 2021 8 3] /\
  values L_tr (u "12 agustos 2020 + 2 gun") = Some [date64 2020 8 14] /\
  values L_tr (u "17 mayis") = values L_en (u "17 may") /\
  prints L_tr (u "3 subat 2021") = Some [Some (u "3 Şub 2021")] /\
  prints L_tr (u "5 aralik 2020") = Some [Some (u "5 Ara 2020")].
Proof. exact ascii_spellings_read. Qed.

(* ---- the recorded defect (known_findings.json C19-K2), reproduced by the model ---- *)
(* Rust's to_lowercase is not Turkish: İ -> i + U+0307 (and I -> i): an upper-case Turkish word is recognised only when
   its lower-cased image happens to be a configured spelling (ARALIK -> aralik) *)
Theorem C19_turkish_upper_refuted :
  values L_en (u "3 APRIL 2020") = Some [date64 2020 4 3] /\
  values L_tr (u "3 nisan 2020") = Some [date64 2020 4 3] /\
  values L_tr (u "3 Nisan 2020") = Some [date64 2020 4 3] /\
  values L_tr (u "5 ŞUBAT 2020") = Some [date64 2020 2 5] /\
  values L_tr (u "3 NİSAN 2020") = Some [num64 2023] /\
  values L_tr (u "5 HAZİRAN 2020") = Some [num64 2025] /\
  values L_tr (u "26 EKİM 2020") = Some [num64 2046] /\
  to_lowercase (u "NİSAN") = [110; 105; 775; 115; 97; 110]%N /\ to_lowercase (u "NİSAN") <> u "nisan" /\
  to_lowercase (u "ARALIK") = u "aralik" /\ u "aralik" <> u "aralık" /\
  values L_tr (u "5 ARALIK 2020") = Some [date64 2020 12 5] /\
  values L_tr (u "10 çarpı 3") = Some [num64 30] /\ values L_en (u "10 TIMES 3") = Some [num64 30] /\
  values L_tr (u "10 CARPI 3") = Some [num64 30] /\
  values L_tr (u "10 ÇARPI 3") = Some [num64 13] /\ values L_tr (u "10 EKSİ 3") = Some [num64 13].
Proof. exact turkish_upper_refuted. Qed.

(* ---- the full statement and what is proved of it ---- *)
(* C19_full translation: for every clock and every pair of lines related by [translation] the en evaluation of the
   first and the tr evaluation of the second give the same values line by line.  Proved: the tag only selects
   tables (all lines); value equality on the listed pairs; refuted when the translation may use Turkish upper
   case.  NOT proved: value equality for every word-by-word translation (it needs a
   simulation through lexer and rule engine between the two tables); that part is covered by the correspondence
   check only (tools/props/C19.py: generated pairs, model = crate on every case, oracle en = tr). *)
Theorem C19_full_partial :
  (forall translation, C19_full translation <->
     forall ck en_line tr_line, translation en_line tr_line ->
       option_map (map (option_map (fun o => match lo_result o with LErr m => inl m | LOk _ a => inr a end)))
                  (match exec64 ck default_config L_en en_line with Ok r => Some (er_lines r) | Panic _ => None end)
       = option_map (map (option_map (fun o => match lo_result o with LErr m => inl m | LOk _ a => inr a end)))
                    (match exec64 ck default_config L_tr tr_line with Ok r => Some (er_lines r) | Panic _ => None end)) /\
  (forall ck l l' text, same_tables LX default_config l l' ->
     exec64 ck default_config l text = exec64 ck default_config l' text) /\
  (forall a b, listed_translation a b -> values L_en a = values L_tr b) /\
  ~ C19_full (fun a b => a = u "3 APRIL 2020" /\ b = u "3 NİSAN 2020").
Proof. split; [intro; reflexivity|exact full_partial]. Qed.

Print Assumptions C19_lang_only_selects_tables.
Print Assumptions C19_same_tables_unfold.
Print Assumptions C19_unknown_tags_alike.
Print Assumptions C19_tables_languages.
Print Assumptions C19_tables_parallel_constants.
Print Assumptions C19_tables_parallel_months.
Print Assumptions C19_tables_month_spellings.
Print Assumptions C19_month_spellings_unfold.
Print Assumptions C19_tables_parallel_rules.
Print Assumptions C19_skeleton_examples.
Print Assumptions C19_tables_parallel_aliases.
Print Assumptions C19_word_free_rules.
Print Assumptions C19_word_free.
Print Assumptions C19_word_free_dates.
Print Assumptions C19_word_free_prints.
Print Assumptions C19_prints.
Print Assumptions C19_prints_words.
Print Assumptions C19_pipeline.
Print Assumptions C19_pipeline_prints.
Print Assumptions C19_pipeline_word_free.
Print Assumptions C19_ascii_spellings_read.
Print Assumptions C19_turkish_upper_refuted.
Print Assumptions C19_full_partial.
