(* Property C03 - a text is a straight-line program: later lines see the latest binding.
   STATEMENTS ONLY (proofs: Proofs/C03.v).
   Model functions: Interp.execute_ast (AAssignment stores the value only after the right-hand
   side evaluated; AVariable reads the value at use time), Base.assoc / assoc_insert (the
   session's BTreeMap), Parser.parse / parse_assignment / assign_name_loop (name = lower-cased
   concatenation of the tokens left of '='; a new name is registered at parse time),
   Rules.find_location / pick_variable (closest-then-longest match), Match.info_eq_token,
   Api.execute_text and SessionLemmas.eval_lines (a text = the fold of execute_text over its
   lines, threading the variables).
   Spec: Spec/Env.v (env = association list, most recent binding first; step / run / latest). *)
From SC.Model Require Import Base Num Types Config Case Match Post Parser Items Interp Rules.
From SC.Spec Require Import Expr Env.
From SC.Proofs Require Import C03.

(* ---- the session's map: lookup after insert; no sortedness assumption is needed ---- *)
Theorem C03_assoc_insert_lookup : forall (A : Type) (k k' : str) (v : A) (l : list (str * A)),
  assoc k' (assoc_insert k v l) = if str_eqb k' k then Some v else assoc k' l.
Proof. exact @assoc_insert_lookup. Qed.

Section WithNum.
Context {F : Type} {NF : Num F}.
Variable bexec : config F -> str -> res (option F).

(* ---- a right-hand side (assignment-free tree) reads the variables only through the values
   the names denote at that moment, and never changes the session ---- *)
Theorem C03_rhs_reads_values : forall cfg (a : ast F) vs, pure a = true ->
  execute_ast bexec cfg vs a = do r <- eval_pure bexec cfg (var_value vs) a; Ok (r, vs).
Proof. exact (exec_pure bexec). Qed.

(* ---- `name = e`: the value is stored only after e evaluated; a failing e leaves the session
   exactly as it was ---- *)
Theorem C03_assign_exec : forall cfg vs name (e : ast F), pure e = true ->
  execute_ast bexec cfg vs (AAssignment name e) =
  do r <- eval_pure bexec cfg (var_value vs) e;
  Ok (r, match r with IOk v => store name v vs | IErr _ => vs end).
Proof. exact (exec_assign bexec). Qed.

(* after the line, lookup of the name gives the value; all other names are unchanged *)
Theorem C03_assign_binds : forall cfg vs name vi (e : ast F) v,
  pure e = true -> assoc name vs = Some vi ->
  eval_pure bexec cfg (var_value vs) e = Ok (IOk v) ->
  exists vs', execute_ast bexec cfg vs (AAssignment name e) = Ok (IOk v, vs') /\
    assoc name vs' = Some {| v_tokens := v_tokens vi; v_data := v |} /\
    (forall k, k <> name -> assoc k vs' = assoc k vs).
Proof. exact (assign_binds bexec). Qed.

Theorem C03_failed_assignment_preserves_session : forall cfg vs name (e : ast F) m,
  pure e = true -> eval_pure bexec cfg (var_value vs) e = Ok (IErr m) ->
  execute_ast bexec cfg vs (AAssignment name e) = Ok (IErr m, vs).
Proof. exact (assign_failed bexec). Qed.

(* every line tree (a use, or an assignment of an assignment-free tree): no name other than the
   assigned one changes, the interpreter creates and removes no variable, an error changes
   nothing *)
Theorem C03_line_frame : forall cfg vs (a : ast F) r vs',
  line_ast a = true -> execute_ast bexec cfg vs a = Ok (r, vs') ->
  (forall k, assigned a <> Some k -> assoc k vs' = assoc k vs) /\
  (forall k, assoc_mem k vs' = assoc_mem k vs) /\
  match r with
  | IErr _ => vs' = vs
  | IOk v => match assigned a with
             | Some n => vs' = store n v vs
             | None => vs' = vs
             end
  end.
Proof. exact (exec_line_frame bexec). Qed.

(* ---- a binding holds a value, not a reference: `y = x` stores the current value of x; no
   later line that assigns another name (in particular x) changes what y holds ---- *)
Theorem C03_value_not_reference : forall cfg vs x y vx vy,
  assoc x vs = Some vx -> assoc y vs = Some vy ->
  execute_ast bexec cfg vs (AAssignment y (AVariable x)) =
    Ok (IOk (v_data vx), store y (v_data vx) vs) /\
  assoc y (store y (v_data vx) vs) = Some {| v_tokens := v_tokens vy; v_data := v_data vx |} /\
  forall (a : ast F) r vs2, line_ast a = true -> assigned a <> Some y ->
    execute_ast bexec cfg (store y (v_data vx) vs) a = Ok (r, vs2) ->
    assoc y vs2 = Some {| v_tokens := v_tokens vy; v_data := v_data vx |}.
Proof. exact (copy_is_value bexec). Qed.

(* ---- refinement of the reference semantics: for every program of assignment and use lines
   (registration by the parser, then the interpreter) the results are those of Spec/Env.run,
   line by line, and every name keeps denoting what the reference environment binds it to ---- *)
Theorem C03_refines : forall cfg p vs en outs vs',
  forallb (fun st => stmt_pure (fst st)) p = true -> Rel vs en ->
  mrun bexec cfg vs p = Ok (outs, vs') ->
  snd (run (spec_eval bexec cfg) spec_value en (map fst p)) = map Ok outs /\
  Rel vs' (fst (run (spec_eval bexec cfg) spec_value en (map fst p))).
Proof. exact (refines bexec). Qed.

(* later lines see the latest binding: the value of the last assignment that evaluated *)
Theorem C03_latest_binding : forall cfg p vs en outs vs' n,
  forallb (fun st => stmt_pure (fst st)) p = true -> Rel vs en ->
  mrun bexec cfg vs p = Ok (outs, vs') ->
  var_value vs' n =
  match latest spec_value n (lookup n en) (combine (map fst p) (map Ok outs)) with
  | Some v => v | None => ANone end.
Proof. exact (latest_binding bexec). Qed.

End WithNum.

Print Assumptions C03_assoc_insert_lookup.
Print Assumptions C03_rhs_reads_values.
Print Assumptions C03_assign_exec.
Print Assumptions C03_assign_binds.
Print Assumptions C03_failed_assignment_preserves_session.
Print Assumptions C03_line_frame.
Print Assumptions C03_value_not_reference.
Print Assumptions C03_refines.
Print Assumptions C03_latest_binding.
