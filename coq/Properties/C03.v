(* Property C03 - a text is a straight-line program: later lines see the latest binding.
   STATEMENTS ONLY (proofs: Proofs/C03.v).
   Model functions: Interp.execute_ast (AAssignment name toks e creates / updates the variable
   only after e evaluated: an existing variable, looked up under `name`, keeps its key and
   tokens; a new one is stored under Parser.var_key of the name tokens; for every node the parser
   builds the two keys coincide (C03_parsed_key_is_var_key); AVariable reads the value at use
   time), Base.assoc / assoc_insert (the
   session's BTreeMap), Parser.parse / parse_assignment / assign_name_loop (key = lower-cased name
   tokens joined by one space; the parser never touches the session), Rules.find_location /
   pick_variable (closest-then-longest match), Match.info_eq_token, Api.execute_text and
   SessionLemmas.eval_lines (a text = the fold of execute_text over its lines, threading the
   variables).  Spec: Spec/Env.v (env = association list, most recent binding first; step / run /
   latest).  `pure` (assignment-free tree) is ParserPure.pure. *)
From SC.Model Require Import Base Num Types Config Case Match Post Parser Items Interp Rules.
From SC.Model Require Import Chrono UiTokens Rx RuleFns Format Lexer Api.
From SC.Spec Require Import Expr Env.
From SC.Proofs Require Import ParserPure SessionLemmas C03.

(* ---- the session's map: lookup after insert; no sortedness assumption is needed ---- *)
Theorem C03_assoc_insert_lookup : forall (A : Type) (k k' : str) (v : A) (l : list (str * A)),
  assoc k' (assoc_insert k v l) = if str_eqb k' k then Some v else assoc k' l.
Proof. exact @assoc_insert_lookup. Qed.

Section WithNum.
Context {F : Type} {NF : Num F}.
Variable bexec : config F -> str -> res (option F).

(* ---- a right-hand side (assignment-free tree) reads the variables only through the values
   the names denote at that moment, and never changes the session ---- *)
Theorem C03_rhs_reads_values : forall cfg (a : ast F) vs, pure a = true ->
  execute_ast bexec cfg vs a = do r <- eval_pure bexec cfg (var_value vs) a; Ok (r, vs).
Proof. exact (exec_pure bexec). Qed.

(* ---- `name = e`: the variable is created / updated only after e evaluated; a failing e leaves
   the session exactly as it was ---- *)
Theorem C03_assign_exec : forall cfg vs name toks (e : ast F), pure e = true ->
  execute_ast bexec cfg vs (AAssignment name toks e) =
  do r <- eval_pure bexec cfg (var_value vs) e;
  Ok (r, match r with IOk v => store name toks v vs | IErr _ => vs end).
Proof. exact (exec_assign bexec). Qed.

(* [store] is the model's update, and the key it writes is `name` for an existing variable and
   `var_key vs toks` for a new one *)
Theorem C03_store_is_model : forall name toks (v : ast F) vs,
  store name toks v vs =
  match assoc name vs with
  | Some vi => assoc_insert name {| v_tokens := v_tokens vi; v_data := v |} vs
  | None => assoc_insert (var_key vs toks) {| v_tokens := toks; v_data := v |} vs
  end.
Proof. exact store_model. Qed.

Theorem C03_written_key : forall name (toks : list (token F)) vs,
  (forall vi, assoc name vs = Some vi -> written_key name toks vs = name) /\
  (assoc name vs = None -> written_key name toks vs = var_key vs toks).
Proof. exact written_key_spec. Qed.

(* after the line, lookup of the written key gives the value (a new variable carries the name
   tokens of the line, an existing one keeps its own); all other keys are unchanged *)
Theorem C03_assign_binds : forall cfg vs name toks (e : ast F) v,
  pure e = true -> eval_pure bexec cfg (var_value vs) e = Ok (IOk v) ->
  exists vs', execute_ast bexec cfg vs (AAssignment name toks e) = Ok (IOk v, vs') /\
    assoc (written_key name toks vs) vs' =
      Some {| v_tokens := match assoc name vs with Some vi => v_tokens vi | None => toks end;
              v_data := v |} /\
    (forall k, k <> written_key name toks vs -> assoc k vs' = assoc k vs).
Proof. exact (assign_binds bexec). Qed.

Theorem C03_failed_assignment_preserves_session : forall cfg vs name toks (e : ast F) m,
  pure e = true -> eval_pure bexec cfg (var_value vs) e = Ok (IErr m) ->
  execute_ast bexec cfg vs (AAssignment name toks e) = Ok (IErr m, vs).
Proof. exact (assign_failed bexec). Qed.

(* every line tree (a use, or an assignment of an assignment-free tree): no key other than the
   written one ([assigned vs a]) changes, no variable disappears, an error or a use changes nothing, a successful
   assignment is exactly [store] *)
Theorem C03_line_frame : forall cfg vs (a : ast F) r vs',
  line_ast a = true -> execute_ast bexec cfg vs a = Ok (r, vs') ->
  (forall k, assigned vs a <> Some k -> assoc k vs' = assoc k vs) /\
  (forall k, assoc_mem k vs = true -> assoc_mem k vs' = true) /\
  match r with
  | IErr _ => vs' = vs
  | IOk v => match a with
             | AAssignment n toks _ => vs' = store n toks v vs
             | _ => vs' = vs
             end
  end.
Proof. exact (exec_line_frame bexec). Qed.

(* ---- a binding holds a value, not a reference: `y = x` stores the current value of x (creating
   y if need be); no later line that assigns another name (in particular x) changes what y
   holds ---- *)
Theorem C03_value_not_reference : forall cfg vs x y ty vx,
  assoc x vs = Some vx ->
  let ky := written_key y ty vs in
  execute_ast bexec cfg vs (AAssignment y ty (AVariable x)) =
    Ok (IOk (v_data vx), store y ty (v_data vx) vs) /\
  value_of (store y ty (v_data vx) vs) ky = Some (v_data vx) /\
  forall (a : ast F) r vs2, line_ast a = true -> assigned (store y ty (v_data vx) vs) a <> Some ky ->
    execute_ast bexec cfg (store y ty (v_data vx) vs) a = Ok (r, vs2) ->
    value_of vs2 ky = Some (v_data vx).
Proof. exact (copy_is_value bexec). Qed.

(* ---- refinement of the reference semantics: for every program of assignment and use lines as
   the parser builds them (pline: an assignment node carries the key of its own name tokens,
   C03_parsed_key_is_var_key; prun evaluates one tree after the other) the results are those of
   Spec/Env.run, line by line, and every name keeps denoting what the reference environment binds
   it to ---- *)
Theorem C03_refines : forall cfg (p : list pline) vs en outs vs',
  forallb pl_pure p = true -> Rel vs en -> prun bexec cfg vs p = Ok (outs, vs') ->
  snd (run (spec_eval bexec cfg) spec_value en (pl_spec p)) = map Ok outs /\
  Rel vs' (fst (run (spec_eval bexec cfg) spec_value en (pl_spec p))).
Proof. exact (refines_parsed bexec). Qed.

(* the same for arbitrary hand-built nodes, whose name must then be the key of their tokens *)
Theorem C03_refines_nodes : forall cfg p vs en outs vs',
  forallb (fun st => stmt_pure (fst st)) p = true -> Forall key_ok p -> Rel vs en ->
  mrun bexec cfg vs p = Ok (outs, vs') ->
  snd (run (spec_eval bexec cfg) spec_value en (map fst p)) = map Ok outs /\
  Rel vs' (fst (run (spec_eval bexec cfg) spec_value en (map fst p))).
Proof. exact (refines bexec). Qed.

(* the abstraction is exact: a name is a variable of the session iff the reference environment
   binds it, with the same value (there is no variable without a binding) *)
Theorem C03_refines_exact : forall cfg vs en (l : pline) x,
  pl_pure l = true -> RelDom vs en -> execute_ast bexec cfg vs (pl_ast vs l) = Ok x ->
  RelDom (snd x) (fst (step (spec_eval bexec cfg) spec_value en (fst (pl_stmt l)))).
Proof. exact (refines_exact_parsed bexec). Qed.

(* later lines see the latest binding: the value of the last assignment that evaluated *)
Theorem C03_latest_binding : forall cfg (p : list pline) vs en outs vs' n,
  forallb pl_pure p = true -> Rel vs en -> prun bexec cfg vs p = Ok (outs, vs') ->
  var_value vs' n =
  match latest spec_value n (lookup n en) (combine (pl_spec p) (map Ok outs)) with
  | Some v => v | None => ANone end.
Proof. exact (latest_binding_parsed bexec). Qed.

(* ---- names of several words: `w1 .. wn = e` (e a C02 expression tree) is read as the
   assignment of the key "lower(w1) lower(w2) .. lower(wn)" (one space between the words), the
   node carries the name tokens, and the session is not touched by the parser ---- *)
Theorem C03_multiword_assign_parse : forall vs w ws (e : expr F), wf e = true ->
  parse (massign_toks (w :: ws) e) vs =
  (PAst (AAssignment (name_key (w :: ws)) (name_toks (w :: ws)) (ast_of e)), vs).
Proof. exact multiword_assign_parse. Qed.

(* the bridge between the lookup key and the storage key, UNCONDITIONAL: over the tokens up to
   the first '=' (operators included) assign_name_loop computes exactly var_key; hence for EVERY
   token list an assignment node built by the parser has name = var_key of its name tokens, and
   the interpreter writes the key that was looked up *)
Theorem C03_lookup_key_is_var_key : forall (t0 : token F) ts rhs vs,
  no_eq ts ->
  assign_name_loop (S (length (t0 :: ts ++ TOperator OP_EQ :: rhs))) (t0 :: ts ++ TOperator OP_EQ :: rhs) vs 0
                   (to_lowercase (token_to_string vs t0)) =
  (S (S (length ts)), var_key vs (t0 :: ts)).
Proof. exact lookup_key_is_var_key. Qed.

Theorem C03_parsed_key_is_var_key : forall (tokens : list (token F)) vs name toks e vs',
  parse tokens vs = (PAst (AAssignment name toks e), vs') -> name = var_key vs toks.
Proof. exact parsed_key_is_var_key. Qed.

Theorem C03_parsed_written_key : forall (tokens : list (token F)) vs name toks e vs',
  parse tokens vs = (PAst (AAssignment name toks e), vs') -> forall vs0, written_key name toks vs0 = name.
Proof. exact parsed_written_key. Qed.

Theorem C03_var_key_name_toks : forall (vs : vars F) ws, var_key vs (name_toks ws) = name_key ws.
Proof. exact var_key_name_toks. Qed.

Theorem C03_word_name_written_key : forall (vs : vars F) ws,
  written_key (name_key ws) (name_toks ws) vs = name_key ws.
Proof. exact word_name_written_key. Qed.

Theorem C03_name_key_is_space_joined : forall w ws,
  name_key (w :: ws) = to_lowercase w ++ flat_map (fun x => 32%N :: to_lowercase x) ws.
Proof. reflexivity. Qed.

(* ---- distinct names never share a variable: two names (non-empty word lists, no space inside
   a word) with the same key consist of the same words up to letter case; and conversely the
   key only depends on the lower-cased words ---- *)
Theorem C03_distinct_names_distinct_keys : forall w ws w' ws',
  Forall nosp (w :: ws) -> Forall nosp (w' :: ws') ->
  name_key (w :: ws) = name_key (w' :: ws') ->
  map to_lowercase (w :: ws) = map to_lowercase (w' :: ws').
Proof. exact distinct_names_distinct_keys. Qed.

Theorem C03_name_key_ci : forall ws ws',
  map to_lowercase ws = map to_lowercase ws' -> name_key ws = name_key ws'.
Proof. exact name_key_ci. Qed.

(* ---- names are case-insensitive: a text token matches a name token in any letter case, and
   re-casing the words of a line changes nothing in the choice of the variable ---- *)
Theorem C03_text_tokens_match_ci : forall (ti : token_info F) a b,
  ti_ty ti = Some (TText a) -> to_lowercase a = to_lowercase b -> info_eq_token ti (TText b) = true.
Proof. exact text_tokens_match_ci. Qed.

Theorem C03_definition_case_irrelevant : forall (ti : token_info F) b b',
  to_lowercase b = to_lowercase b' ->
  info_eq_token ti (TText b) = info_eq_token ti (TText b').
Proof. exact definition_case_irrelevant. Qed.

Theorem C03_case_insensitive_use : forall (vs : vars F) (ts ts' : list (token_info F)) best,
  Forall2 recased ts ts' -> pick_variable vs ts best = pick_variable vs ts' best.
Proof. exact case_insensitive_use. Qed.

(* ---- the longest matching name takes precedence: for ALL variable lists, the variable chosen
   by one pass matches, none of the matching variables starts earlier, and none that starts at
   the same token is longer ---- *)
Theorem C03_longest_name : forall (vs : vars F) tail best r,
  pick_variable vs tail best = Ok r ->
  (forall st n sz, best = Some (st, n, sz) ->
     exists st0 n0 sz0, r = Some (st0, n0, sz0) /\ at_least st0 sz0 st sz) /\
  (forall name vi st, In (name, vi) vs -> find_location tail (v_tokens vi) = Ok (Some st) ->
     exists st0 n0 sz0, r = Some (st0, n0, sz0) /\ at_least st0 sz0 st (length (v_tokens vi))) /\
  (r = best \/ exists name vi st, In (name, vi) vs /\ find_location tail (v_tokens vi) = Ok (Some st) /\
                                  r = Some (st, name, length (v_tokens vi))).
Proof. exact pick_variable_best. Qed.

(* ---- every occurrence of a name is seen: find_location returns Some k iff k is the LEAST index
   at which the whole name matches, None iff it matches nowhere ---- *)
Theorem C03_find_location_some_iff : forall (tokens : list (token_info F)) p0 pat k,
  find_location tokens (p0 :: pat) = Ok (Some k) <->
  (occurs_at tokens (p0 :: pat) k /\ forall j, (j < k)%nat -> ~ occurs_at tokens (p0 :: pat) j).
Proof. exact find_location_some_iff. Qed.

Theorem C03_find_location_none_iff : forall (tokens : list (token_info F)) p0 pat,
  find_location tokens (p0 :: pat) = Ok None <-> forall j, ~ occurs_at tokens (p0 :: pat) j.
Proof. exact find_location_none_iff. Qed.

Theorem C03_find_location_complete : forall (pre mid post : list (token_info F)) p0 pat,
  Forall2 (fun t p => info_eq_token t p = true) mid (p0 :: pat) ->
  exists k, (k <= length pre)%nat /\ find_location (pre ++ mid ++ post) (p0 :: pat) = Ok (Some k).
Proof. exact find_location_complete. Qed.

Theorem C03_find_location_finds : forall (pre mid post : list (token_info F)) p0 pat,
  Forall (fun t => info_eq_token t p0 = false) pre ->
  Forall2 (fun t p => info_eq_token t p = true) mid (p0 :: pat) ->
  find_location (pre ++ mid ++ post) (p0 :: pat) = Ok (Some (length pre)).
Proof. exact find_location_finds. Qed.

Theorem C03_find_location_overlap_example :
  find_location [txt "a"; txt "a"; txt "b"] [@TText F (s "a"); TText (s "b")] = Ok (Some 1%nat).
Proof. exact find_location_overlap_example. Qed.

(* ---- what the parser returns for EVERY token list: the session as it was, and a line tree (an
   assignment-free tree, or `AAssignment name toks e` with e assignment-free) ---- *)
Theorem C03_parse_shape : forall (tokens : list (token F)) vs r vs',
  parse tokens vs = (r, vs') ->
  vs' = vs /\ match r with PAst a => line_ast a = true | _ => True end.
Proof. exact parse_shape. Qed.

(* ---- every line of text (Api.execute_text, all inputs): the session afterwards is the session
   before, or the session before with the line's value stored under one name ---- *)
Theorem C03_line_effect : forall lx ck cfg lang (vs : vars F) line o vs',
  execute_text lx ck cfg lang vs line = Ok (o, vs') ->
  vs' = vs \/
  exists obs out v name toks, o = Some obs /\ lo_result obs = LOk out v /\ vs' = store name toks v vs.
Proof. exact line_effect. Qed.

Theorem C03_line_changes_one_name : forall lx ck cfg lang (vs : vars F) line o vs',
  execute_text lx ck cfg lang vs line = Ok (o, vs') ->
  exists name, only_differs_at vs vs' name.
Proof. exact line_changes_one_name. Qed.

(* ---- a line that fails to evaluate leaves the session EXACTLY as it was (all bindings
   unchanged, no variable created) ---- *)
Theorem C03_failed_line_preserves_bindings : forall lx ck cfg lang (vs : vars F) line o vs',
  execute_text lx ck cfg lang vs line = Ok (o, vs') -> line_failed o -> vs' = vs.
Proof. exact failed_line_preserves_bindings. Qed.

(* ... for whole texts (execute / execute_session = eval_lines by SessionLemmas.execute_spec /
   execute_session_spec): any number of failing lines *)
Theorem C03_failed_lines_preserve_bindings : forall lx ck cfg lang lines (vs : vars F) os vs',
  eval_lines lx ck cfg lang vs lines = Ok (os, vs') -> Forall line_failed os -> vs' = vs.
Proof. exact failed_lines_preserve_bindings. Qed.

(* ... and a failing line is without effect on the rest of the text: deleting it changes neither
   the results of the other lines nor the final session *)
Theorem C03_failed_line_removable : forall lx ck cfg lang l1 l l2 (vs : vars F) os vs',
  eval_lines lx ck cfg lang vs (l1 ++ l :: l2) = Ok (os, vs') ->
  (exists o, nth_error os (length l1) = Some o /\ line_failed o) ->
  eval_lines lx ck cfg lang vs (l1 ++ l2) = Ok (firstn (length l1) os ++ skipn (S (length l1)) os, vs').
Proof. exact failed_line_removable. Qed.

End WithNum.

(* ---- non-vacuity through the whole model at binary64 (Corr.run, one multi-line text) ---- *)
Local Open Scope string_scope.

Theorem C03_examples :
  outs ["x = 2"; "y = x"; "x = 7"; "y"] = [ok "2"; ok "2"; ok "7"; ok "2"] /\
  outs ["a b = 3"; "a = 1"; "a b + a"] = [ok "3"; ok "1"; ok "4"] /\
  outs ["x = 3"; "x = x + 1"; "x = x * x"; "x"] = [ok "3"; ok "4"; ok "16"; ok "16"] /\
  outs ["My Var = 4"; "my var * 2"; "-MY VAR"] = [ok "4"; ok "8"; ok "-4"] /\
  outs ["x = 3"; "x = 3 hours * 2 hours"; "x"; "x = 2 *"; "x + 1"]
    = [ok "3"; err "Unknown calculation"; ok "3"; err "No more token"; ok "4"].
Proof. exact examples. Qed.

(* ---- overlapping occurrences (formerly a known finding, fixed in /repo 542d9d0) ---- *)
Theorem C03_overlap_example :
  outs ["a b = 3"; "foo a b"; "a a b"; "a b c = 5"; "a a b a b c"] = [ok "3"; ok "3"; ok "3"; ok "5"; ok "8"].
Proof. exact overlap_example. Qed.

(* ---- formerly known finding C03-ghost-variable: a failing assignment of a new name leaves no
   variable behind ---- *)
Theorem C03_ghost_repaired :
  outs ["a = 2"; "a b = 3 hours * 2 hours"; "a b + 1"] = [ok "2"; err "Unknown calculation"; ok "3"] /\
  outs ["z = 3 hours * 2 hours"; "z + 1"; "z = 4"; "z + 1"]
    = [err "Unknown calculation"; ok "1"; ok "4"; ok "5"].
Proof. exact ghost_repaired. Qed.

(* ---- formerly known finding C03-name-key-collision: `ab` and `a b` are different variables ---- *)
(* ---- a name with an operator word (`sum` = +) in second or later position, or with an
   operator character: the operator token is part of the key; `grand sum` and `grand` are
   independent variables, the longer name wins, re-binding replaces the value ---- *)
Theorem C03_operator_word_name :
  outs ["grand sum = 10"; "grand = 7"; "grand sum"; "grand"; "grand sum = 3"; "grand sum + grand"]
    = [ok "10"; ok "7"; ok "10"; ok "7"; ok "3"; ok "10"] /\
  outs ["grand sum = 10"; "grand sum = 25"; "grand sum + 1"; "Grand Sum * 2"]
    = [ok "10"; ok "25"; ok "26"; ok "50"] /\
  outs ["net-pay = 100"; "net-pay = 150"; "net-pay + 1"] = [ok "100"; ok "150"; ok "151"].
Proof. exact operator_word_name. Qed.

(* ---- formerly a defect (repaired in /repo 60764fa): `grand sum = ..` no longer overwrites a
   bound `grand`, in either order of binding ---- *)
Theorem C03_operator_word_crosswrite_repaired :
  outs ["grand = 7"; "grand sum = 10"; "grand"; "grand sum"] = [ok "7"; ok "10"; ok "7"; ok "10"] /\
  outs ["grand sum = 10"; "grand = 7"; "grand sum = 3"; "grand sum"; "grand"]
    = [ok "10"; ok "7"; ok "3"; ok "3"; ok "7"].
Proof. exact operator_word_crosswrite_repaired. Qed.

Theorem C03_collision_repaired :
  outs ["ab = 1"; "a b = 2"; "ab"; "a b"] = [ok "1"; ok "2"; ok "1"; ok "2"] /\
  outs ["a bc = 1"; "ab c = 2"; "a bc + ab c"] = [ok "1"; ok "2"; ok "3"].
Proof. exact collision_repaired. Qed.

Print Assumptions C03_assoc_insert_lookup.
Print Assumptions C03_rhs_reads_values.
Print Assumptions C03_assign_exec.
Print Assumptions C03_store_is_model.
Print Assumptions C03_written_key.
Print Assumptions C03_assign_binds.
Print Assumptions C03_failed_assignment_preserves_session.
Print Assumptions C03_line_frame.
Print Assumptions C03_value_not_reference.
Print Assumptions C03_refines.
Print Assumptions C03_refines_nodes.
Print Assumptions C03_refines_exact.
Print Assumptions C03_latest_binding.
Print Assumptions C03_multiword_assign_parse.
Print Assumptions C03_lookup_key_is_var_key.
Print Assumptions C03_parsed_key_is_var_key.
Print Assumptions C03_parsed_written_key.
Print Assumptions C03_var_key_name_toks.
Print Assumptions C03_word_name_written_key.
Print Assumptions C03_name_key_is_space_joined.
Print Assumptions C03_distinct_names_distinct_keys.
Print Assumptions C03_name_key_ci.
Print Assumptions C03_text_tokens_match_ci.
Print Assumptions C03_definition_case_irrelevant.
Print Assumptions C03_case_insensitive_use.
Print Assumptions C03_longest_name.
Print Assumptions C03_find_location_some_iff.
Print Assumptions C03_find_location_none_iff.
Print Assumptions C03_find_location_complete.
Print Assumptions C03_find_location_finds.
Print Assumptions C03_find_location_overlap_example.
Print Assumptions C03_parse_shape.
Print Assumptions C03_line_effect.
Print Assumptions C03_line_changes_one_name.
Print Assumptions C03_failed_line_preserves_bindings.
Print Assumptions C03_failed_lines_preserve_bindings.
Print Assumptions C03_failed_line_removable.
Print Assumptions C03_examples.
Print Assumptions C03_overlap_example.
Print Assumptions C03_ghost_repaired.
Print Assumptions C03_operator_word_name.
Print Assumptions C03_operator_word_crosswrite_repaired.
Print Assumptions C03_collision_repaired.
