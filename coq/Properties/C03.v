(* Property C03 - statements only (proofs in Proofs/C03.v). Not built yet. *)
From SC.Model Require Import Base.
