(* Property C05 - percentage phrases compute the textbook formulas for numbers and money.
   STATEMENTS ONLY (proofs: Proofs/C05.v).

   Model functions: RuleFns.number_on / number_of / number_off / find_numbers_percent /
   find_total_from_percent (reached through RuleFns.call_rule from Rules.rule_tokinizer),
   Items.calculate with a percent operand (through Parser.parse and Interp.execute_ast).
   Spec: Spec/Percent.v (pct_plus, pct_minus, pct_of, pct_on, pct_off, what_percent, of_what over
   the exact rationals Qc; gdiv = "a zero divisor yields 0"; amount = plain number | money).

   Vocabulary defined in Proofs/C05.v:
     field_amount vs k fs = Some a   the rule's field map [fs] binds the name [k] to a token denoting
                                     the amount [a]: Number x -> Plain x, Money x c -> Cash x c, or
                                     a variable whose value is one of these;
     field_percent vs k fs = Some p  ... to a Percent p token (or a variable holding one);
     amount_token a                  the result token: Number (decimal) / Money in a's currency;
     ops_on, ops_off, ...            the operation sequence performed, in any number algebra;
     value_of_infos                  rule loop -> token list -> parser -> interpreter, i.e.
                                     everything after the lexer, on the regenerated rule table.
   The spellings 'p%' and '%p', the lexing of literals and of currency names are tied by the
   correspondence check (tools/props/C05.py) and by C05_spellings / C05_line_examples below. *)
From Coq Require Import QArith Qcanon Floats.
From SC.Model Require Import Base Num NumQ NumF64 Types Config Case Match Post Parser Items Interp RuleFns Rules
     Regex Rx Lexer Api Run64.
From SC.Spec Require Import Percent.
From SC.Gen Require Import Regexes.
From SC.Proofs Require Import C05.

Local Open Scope Qc_scope.

(* ---- the textbook formulas, exact rationals: for ALL X, A, B, p ---- *)

(* 'p% on X' = X*(1+p/100); money in -> money out, same currency (amt_with keeps the kind) *)
Theorem C05_on : forall (cfg : config Qc) vs fs (a : amount Qc) (p : Qc),
  field_amount vs "number" fs = Some a -> field_percent vs "p" fs = Some p ->
  number_on cfg vs fs = Ok (Some (amount_token (amt_with a (amt_val a * (1 + p / q100))))).
Proof. exact number_on_q. Qed.

(* 'p% of X' = X*p/100 *)
Theorem C05_of : forall (cfg : config Qc) vs fs (a : amount Qc) (p : Qc),
  field_amount vs "number" fs = Some a -> field_percent vs "p" fs = Some p ->
  number_of cfg vs fs = Ok (Some (amount_token (amt_with a (amt_val a * p / q100)))).
Proof. exact number_of_q. Qed.

(* 'p% off X' = X*(1-p/100) *)
Theorem C05_off : forall (cfg : config Qc) vs fs (a : amount Qc) (p : Qc),
  field_amount vs "number" fs = Some a -> field_percent vs "p" fs = Some p ->
  number_off cfg vs fs = Ok (Some (amount_token (amt_with a (amt_val a * (1 - p / q100))))).
Proof. exact number_off_q. Qed.

(* 'A is what % of B' = the percentage 100*A/B, 0 when B = 0; A and B plain or money *)
Theorem C05_what_percent : forall (vs : vars Qc) fs (a b : amount Qc),
  field_amount vs "part" fs = Some a -> field_amount vs "total" fs = Some b ->
  find_numbers_percent vs fs
  = Ok (Some (TPercent (if Qc_eq_bool (amt_val b) 0 then 0 else q100 * amt_val a / amt_val b))).
Proof. exact find_numbers_percent_q. Qed.

(* 'A is p% of what' = 100*A/p, 0 when p = 0; money A gives money in A's currency *)
Theorem C05_of_what : forall (cfg : config Qc) vs fs (a : amount Qc) (p : Qc),
  field_amount vs "number_part" fs = Some a -> field_percent vs "percent_part" fs = Some p ->
  find_total_from_percent cfg vs fs
  = Ok (Some (amount_token (amt_with a (if Qc_eq_bool p 0 then 0 else q100 * amt_val a / p)))).
Proof. exact find_total_from_percent_q. Qed.

(* 'X + p%' = X*(1+p/100), 'X - p%' = X*(1-p/100): the interpreter step, number and money
   (any currency c) *)
Theorem C05_plus_minus_calc : forall bexec (cfg : config Qc) (X : Qc) nt c (p : Qc),
  calculate bexec cfg (INumber X nt) (IPercent p) OAdd = Ok (Some (INumber (X * (1 + p / q100)) nt)) /\
  calculate bexec cfg (INumber X nt) (IPercent p) OSub = Ok (Some (INumber (X * (1 - p / q100)) nt)) /\
  calculate bexec cfg (IMoney X c) (IPercent p) OAdd = Ok (Some (IMoney (X * (1 + p / q100)) c)) /\
  calculate bexec cfg (IMoney X c) (IPercent p) OSub = Ok (Some (IMoney (X * (1 - p / q100)) c)).
Proof. exact calc_percent_q. Qed.

(* ... and the three-token line through the parser and the interpreter *)
Theorem C05_plus_minus_phrase : forall bexec (cfg : config Qc) vs (X : Qc) nt c (p : Qc),
  phrase_value bexec cfg vs [TNumber X nt; TOperator OP_PLUS; TPercent p]
    = Some (AItem (INumber (X * (1 + p / q100)) nt)) /\
  phrase_value bexec cfg vs [TNumber X nt; TOperator OP_MINUS; TPercent p]
    = Some (AItem (INumber (X * (1 - p / q100)) nt)) /\
  phrase_value bexec cfg vs [TMoney X c; TOperator OP_PLUS; TPercent p]
    = Some (AItem (IMoney (X * (1 + p / q100)) c)) /\
  phrase_value bexec cfg vs [TMoney X c; TOperator OP_MINUS; TPercent p]
    = Some (AItem (IMoney (X * (1 - p / q100)) c)).
Proof. exact plus_minus_phrase_q. Qed.

(* the guarded division of the rationals is what the code's do_division computes there *)
Theorem C05_zero_divisor : forall a b : Qc,
  @do_division Qc NumQ a b = (if Qc_eq_bool b 0 then 0 else a / b) /\
  @do_division Qc NumQ a 0 = 0.
Proof. exact zero_divisor. Qed.

Close Scope Qc_scope.

(* ---- the operation sequences, any number algebra (in particular binary64) ---- *)
Section WithNum.
Context {F : Type} {NF : Num F}.

Theorem C05_rule_ops : forall (cfg : config F) vs fs (a b : amount F) (p : F),
  (field_amount vs "number" fs = Some a -> field_percent vs "p" fs = Some p ->
     let X := amt_val a in
     number_on cfg vs fs = Ok (Some (amount_token (amt_with a (fadd X (do_division (fmul X p) f100))))) /\
     number_of cfg vs fs = Ok (Some (amount_token (amt_with a (do_division (fmul X p) f100)))) /\
     number_off cfg vs fs = Ok (Some (amount_token (amt_with a (fsub X (do_division (fmul X p) f100)))))) /\
  (field_amount vs "part" fs = Some a -> field_amount vs "total" fs = Some b ->
     find_numbers_percent vs fs
     = Ok (Some (TPercent (do_division (fmul (amt_val a) f100) (amt_val b))))) /\
  (field_amount vs "number_part" fs = Some a -> field_percent vs "percent_part" fs = Some p ->
     find_total_from_percent cfg vs fs
     = Ok (Some (amount_token (amt_with a (do_division (fmul (amt_val a) f100) p))))).
Proof. exact rule_ops. Qed.

Theorem C05_plus_minus_ops : forall bexec (cfg : config F) vs (X : F) nt c (p : F),
  phrase_value bexec cfg vs [TNumber X nt; TOperator OP_PLUS; TPercent p]
    = Some (AItem (INumber (fadd X (fmul (do_division X f100) p)) nt)) /\
  phrase_value bexec cfg vs [TNumber X nt; TOperator OP_MINUS; TPercent p]
    = Some (AItem (INumber (fsub X (fmul (do_division X f100) p)) nt)) /\
  phrase_value bexec cfg vs [TMoney X c; TOperator OP_PLUS; TPercent p]
    = Some (AItem (IMoney (fadd X (fmul (do_division X f100) p)) c)) /\
  phrase_value bexec cfg vs [TMoney X c; TOperator OP_MINUS; TPercent p]
    = Some (AItem (IMoney (fsub X (fmul (do_division X f100) p)) c)).
Proof. exact plus_minus_phrase_ops. Qed.

(* the percentage must be the right operand: 'p% + X' is not one of the phrases *)
Theorem C05_percent_left_declined : forall bexec (cfg : config F) (X : F) nt c (p : F) op,
  calculate bexec cfg (IPercent p) (INumber X nt) op = Ok None /\
  calculate bexec cfg (IPercent p) (IMoney X c) op = Ok None.
Proof. exact calc_percent_left_declined. Qed.

(* the rule names dispatch to the functions of the theorems above *)
Theorem C05_dispatch : forall bexec ny (cfg : config F) lang vs fs,
  call_rule bexec ny cfg lang vs (s "number_on") fs = number_on cfg vs fs /\
  call_rule bexec ny cfg lang vs (s "number_of") fs = number_of cfg vs fs /\
  call_rule bexec ny cfg lang vs (s "number_off") fs = number_off cfg vs fs /\
  call_rule bexec ny cfg lang vs (s "find_numbers_percent") fs = find_numbers_percent vs fs /\
  call_rule bexec ny cfg lang vs (s "find_total_from_percent") fs = find_total_from_percent cfg vs fs.
Proof. exact call_rule_dispatch. Qed.

(* the bindings the rule loop produces for literal operands satisfy the hypotheses above *)
Theorem C05_bindings : forall (vs : vars F) k fs ti,
  assoc (s k) fs = Some ti ->
  (forall x nt, ti_ty ti = Some (TNumber x nt) -> field_amount vs k fs = Some (Plain x)) /\
  (forall x c, ti_ty ti = Some (TMoney x c) -> field_amount vs k fs = Some (Cash x c)) /\
  (forall p, ti_ty ti = Some (TPercent p) -> field_percent vs k fs = Some p).
Proof. exact bindings. Qed.

(* the names used above, unfolded *)
Theorem C05_ops_unfold : forall (X p A B : F),
  ops_on X p = fadd X (do_division (fmul X p) f100) /\
  ops_off X p = fsub X (do_division (fmul X p) f100) /\
  ops_of X p = do_division (fmul X p) f100 /\
  ops_plus X p = fadd X (fmul (do_division X f100) p) /\
  ops_minus X p = fsub X (fmul (do_division X f100) p) /\
  ops_what_percent A B = do_division (fmul A f100) B /\
  ops_of_what A p = do_division (fmul A f100) p.
Proof. exact ops_unfold. Qed.

End WithNum.

(* ---- the regenerated rule table (config.json as it is now) ---- *)

(* in every language the five rules exist once, and their patterns are exactly the phrases of
   the statement with the field names the theorems above assume ("on" -> number_on, ...) *)
Theorem C05_rule_table :
  map fst (cf_rules default_config) = [s "en"; s "tr"] /\
  forall lang rules e, In (lang, rules) (cf_rules default_config) -> In e phrase_table ->
    rule_has_shape rules e = true.
Proof. exact phrase_rules_table. Qed.

(* on the token shapes of the phrases the rule loop (all rules, BTreeMap order) fires the intended
   rule and the line evaluates to the operation sequence: for ALL binary64 X, p, A, B, all
   currency codes, spans and texts, in every language; both operand orders *)
Theorem C05_rule_selected_number : forall bexec ny line b1 e1 b2 e2 b3 e3 x1 x3 lang (X p : float) nt,
  In lang (map fst (cf_rules default_config)) ->
  value_of_infos bexec ny line lang [tinfo b1 e1 (TPercent p) x1; word b2 e2 "on"; tinfo b3 e3 (TNumber X nt) x3]
    = Some (num (ops_on X p)) /\
  value_of_infos bexec ny line lang [tinfo b1 e1 (TNumber X nt) x1; word b2 e2 "on"; tinfo b3 e3 (TPercent p) x3]
    = Some (num (ops_on X p)) /\
  value_of_infos bexec ny line lang [tinfo b1 e1 (TPercent p) x1; word b2 e2 "of"; tinfo b3 e3 (TNumber X nt) x3]
    = Some (num (ops_of X p)) /\
  value_of_infos bexec ny line lang [tinfo b1 e1 (TNumber X nt) x1; word b2 e2 "of"; tinfo b3 e3 (TPercent p) x3]
    = Some (num (ops_of X p)) /\
  value_of_infos bexec ny line lang [tinfo b1 e1 (TPercent p) x1; word b2 e2 "off"; tinfo b3 e3 (TNumber X nt) x3]
    = Some (num (ops_off X p)) /\
  value_of_infos bexec ny line lang [tinfo b1 e1 (TNumber X nt) x1; word b2 e2 "off"; tinfo b3 e3 (TPercent p) x3]
    = Some (num (ops_off X p)).
Proof. exact selected_number. Qed.

Theorem C05_rule_selected_money : forall bexec ny line b1 e1 b2 e2 b3 e3 x1 x3 lang (X p : float) (c : str),
  In lang (map fst (cf_rules default_config)) ->
  value_of_infos bexec ny line lang [tinfo b1 e1 (TPercent p) x1; word b2 e2 "on"; tinfo b3 e3 (TMoney X c) x3]
    = Some (AItem (IMoney (ops_on X p) c)) /\
  value_of_infos bexec ny line lang [tinfo b1 e1 (TMoney X c) x1; word b2 e2 "on"; tinfo b3 e3 (TPercent p) x3]
    = Some (AItem (IMoney (ops_on X p) c)) /\
  value_of_infos bexec ny line lang [tinfo b1 e1 (TPercent p) x1; word b2 e2 "of"; tinfo b3 e3 (TMoney X c) x3]
    = Some (AItem (IMoney (ops_of X p) c)) /\
  value_of_infos bexec ny line lang [tinfo b1 e1 (TMoney X c) x1; word b2 e2 "of"; tinfo b3 e3 (TPercent p) x3]
    = Some (AItem (IMoney (ops_of X p) c)) /\
  value_of_infos bexec ny line lang [tinfo b1 e1 (TPercent p) x1; word b2 e2 "off"; tinfo b3 e3 (TMoney X c) x3]
    = Some (AItem (IMoney (ops_off X p) c)) /\
  value_of_infos bexec ny line lang [tinfo b1 e1 (TMoney X c) x1; word b2 e2 "off"; tinfo b3 e3 (TPercent p) x3]
    = Some (AItem (IMoney (ops_off X p) c)).
Proof. exact selected_money. Qed.

Theorem C05_rule_selected_what : forall bexec ny line b1 e1 b2 e2 b3 e3 b4 e4 b5 e5 b6 e6 x1 x2 x3 lang
    (A B p : float) nt nt' (c c' : str),
  In lang (map fst (cf_rules default_config)) ->
  value_of_infos bexec ny line lang
    [tinfo b1 e1 (TNumber A nt) x1; word b2 e2 "is"; word b3 e3 "what"; tinfo b4 e4 (TOperator 37) x2;
     word b5 e5 "of"; tinfo b6 e6 (TNumber B nt') x3]
    = Some (AItem (IPercent (ops_what_percent A B))) /\
  value_of_infos bexec ny line lang
    [tinfo b1 e1 (TMoney A c) x1; word b2 e2 "is"; word b3 e3 "what"; tinfo b4 e4 (TOperator 37) x2;
     word b5 e5 "of"; tinfo b6 e6 (TMoney B c') x3]
    = Some (AItem (IPercent (ops_what_percent A B))) /\
  value_of_infos bexec ny line lang
    [tinfo b1 e1 (TNumber A nt) x1; word b2 e2 "is"; tinfo b3 e3 (TPercent p) x2; word b4 e4 "of"; word b5 e5 "what"]
    = Some (num (ops_of_what A p)) /\
  value_of_infos bexec ny line lang
    [tinfo b1 e1 (TMoney A c) x1; word b2 e2 "is"; tinfo b3 e3 (TPercent p) x2; word b4 e4 "of"; word b5 e5 "what"]
    = Some (AItem (IMoney (ops_of_what A p) c)).
Proof. exact selected_what. Qed.

(* no rule rewrites 'X + p%' / 'X - p%'; the interpreter computes the share of X *)
Theorem C05_rule_selected_plus_minus : forall bexec ny line b1 e1 b2 e2 b3 e3 x1 x2 x3 lang (X p : float) nt (c : str),
  In lang (map fst (cf_rules default_config)) ->
  value_of_infos bexec ny line lang [tinfo b1 e1 (TNumber X nt) x1; tinfo b2 e2 (TOperator OP_PLUS) x2; tinfo b3 e3 (TPercent p) x3]
    = Some (AItem (INumber (ops_plus X p) nt)) /\
  value_of_infos bexec ny line lang [tinfo b1 e1 (TNumber X nt) x1; tinfo b2 e2 (TOperator OP_MINUS) x2; tinfo b3 e3 (TPercent p) x3]
    = Some (AItem (INumber (ops_minus X p) nt)) /\
  value_of_infos bexec ny line lang [tinfo b1 e1 (TMoney X c) x1; tinfo b2 e2 (TOperator OP_PLUS) x2; tinfo b3 e3 (TPercent p) x3]
    = Some (AItem (IMoney (ops_plus X p) c)) /\
  value_of_infos bexec ny line lang [tinfo b1 e1 (TMoney X c) x1; tinfo b2 e2 (TOperator OP_MINUS) x2; tinfo b3 e3 (TPercent p) x3]
    = Some (AItem (IMoney (ops_minus X p) c)).
Proof. exact selected_plus_minus. Qed.

(* ---- the spellings 'p%' and '%p' (the two percent regexes of config.json, regenerated) ---- *)

(* for every non-empty digit string ds: the first regex on "ds%" and the second on "%ds" find
   exactly one match, the whole literal; its NUMBER group is the span of ds (37 = '%';
   capture = [whole; group 1; group 2; group 3]) *)
Section Spell.
Local Open Scope N_scope.

Theorem C05_spellings : forall c1 c2 (ds : str),
  percent_cres = [c1; c2] -> ds <> [] -> forallb digit ds = true ->
  let n := N.of_nat (length ds) in
  (caps_iter c1 (ds ++ [37%N]) = [[Some (0, n + 1); Some (0, n); None; Some (n, n + 1)]] /\
   cap_name c1 [Some (0, n + 1); Some (0, n); None; Some (n, n + 1)] "NUMBER" = Some (0, n) /\
   slice (ds ++ [37%N]) (0, n) = ds) /\
  (caps_iter c2 (37%N :: ds) = [[Some (0, n + 1); Some (0, 1); Some (1, n + 1); None]] /\
   cap_name c2 [Some (0, n + 1); Some (0, 1); Some (1, n + 1); None] "NUMBER" = Some (1, n + 1) /\
   slice (37%N :: ds) (1, n + 1) = ds).
Proof. exact spellings_full. Qed.

(* ... so the lexer's percent parser adds the same token for both: one Active Percent token over
   the whole literal whose value is the decimal reading of ds *)
Theorem C05_spellings_token : forall {F} {NF : Num F} (cfg : config F) c1 c2 (ds : str) (x : F),
  percent_cres = [c1; c2] -> ds <> [] -> forallb digit ds = true ->
  read_decimal cfg ds = Some x ->
  let n := N.of_nat (length ds) in
  let shape (r : res (@tstate F)) :=
      match r with
      | Ok st => map (fun t => (ti_start t, ti_end t, ti_ty t, ti_active t)) (ts_infos st)
      | Panic _ => []
      end in
  shape (over_regexes (percent_body cfg (ds ++ [37%N])) (ds ++ [37%N]) [c1] empty_state)
    = [(0, n + 1, Some (TPercent x), true)] /\
  shape (over_regexes (percent_body cfg (37%N :: ds)) (37%N :: ds) [c2] empty_state)
    = [(0, n + 1, Some (TPercent x), true)].
Proof. exact (@spellings_token). Qed.

(* the hypotheses hold of the current configuration *)
Theorem C05_spellings_nonvacuous :
  (exists c1 c2, percent_cres = [c1; c2]) /\ forallb digit (s "0123456789") = true /\
  (forall c, digit c = true <-> 48 <= c <= 57).
Proof. exact spellings_nonvacuous. Qed.

End Spell.

(* ---- non-vacuity ---- *)
Set Warnings "-inexact-float".
Theorem C05_line_examples :
  line_value64 "en" "6% on 40" = Some (num 42.4) /\
  line_value64 "en" "%6 on 40" = Some (num 42.4) /\
  line_value64 "en" "40 on 6%" = Some (num 42.4) /\
  line_value64 "en" "%6 off 40" = Some (num 37.6) /\
  line_value64 "en" "40 of 6%" = Some (num 2.4) /\
  line_value64 "en" "40 + 10%" = Some (num 44) /\
  line_value64 "en" "40 + %10" = Some (num 44) /\
  line_value64 "en" "-50 - 10%" = Some (num (-45)) /\
  line_value64 "en" "50 + -10%" = Some (num 45) /\
  line_value64 "en" "$40 - 10%" = Some (money64 36 "USD") /\
  line_value64 "en" "0,5% of 1.000,5 eur" = Some (money64 5.0025 "EUR") /\
  line_value64 "en" "20 is what % of 50" = Some (pct64 40) /\
  line_value64 "en" "5 is what % of 0" = Some (pct64 0) /\
  line_value64 "en" "20 try is %10 of what" = Some (money64 200 "TRY") /\
  line_value64 "en" "5 is 0% of what" = Some (num 0) /\
  line_value64 "tr" "6% on 40" = Some (num 42.4).
Proof. exact line_examples. Qed.
Set Warnings "inexact-float".

Theorem C05_rational_examples : forall cfg : config Qc,
  (let fs := [(s "number", qtok (TMoney (qz 40) (s "USD"))); (s "p", qtok (TPercent (qz 6)))] in
   number_on cfg [] fs = Ok (Some (TMoney (qfrac 212 5) (s "USD"))) /\
   number_of cfg [] fs = Ok (Some (TMoney (qfrac 12 5) (s "USD"))) /\
   number_off cfg [] fs = Ok (Some (TMoney (qfrac 188 5) (s "USD")))) /\
  find_numbers_percent []
    [(s "part", qtok (TNumber (qz 20) Decimal)); (s "total", qtok (TNumber (qz 50) Decimal))]
    = Ok (Some (TPercent (qz 40))) /\
  find_numbers_percent []
    [(s "part", qtok (TMoney (qz 5) (s "EUR"))); (s "total", qtok (TMoney (qz 0) (s "EUR")))]
    = Ok (Some (TPercent (qz 0))) /\
  find_total_from_percent cfg []
    [(s "number_part", qtok (TMoney (qz 20) (s "TRY"))); (s "percent_part", qtok (TPercent (qz 10)))]
    = Ok (Some (TMoney (qz 200) (s "TRY"))).
Proof. exact rational_examples. Qed.

Print Assumptions C05_on.
Print Assumptions C05_of.
Print Assumptions C05_off.
Print Assumptions C05_what_percent.
Print Assumptions C05_of_what.
Print Assumptions C05_bindings.
Print Assumptions C05_plus_minus_calc.
Print Assumptions C05_plus_minus_phrase.
Print Assumptions C05_zero_divisor.
Print Assumptions C05_rule_ops.
Print Assumptions C05_plus_minus_ops.
Print Assumptions C05_percent_left_declined.
Print Assumptions C05_dispatch.
Print Assumptions C05_rule_table.
Print Assumptions C05_rule_selected_number.
Print Assumptions C05_rule_selected_money.
Print Assumptions C05_rule_selected_what.
Print Assumptions C05_rule_selected_plus_minus.
Print Assumptions C05_ops_unfold.
Print Assumptions C05_line_examples.
Print Assumptions C05_rational_examples.
Print Assumptions C05_spellings.
Print Assumptions C05_spellings_token.
Print Assumptions C05_spellings_nonvacuous.
