(* Property C05 - statements only (proofs in Proofs/C05.v). Not built yet. *)
From SC.Model Require Import Base.
