(* Property C08 - separators affect only reading and printing of numbers, never the computed value.
   STATEMENTS ONLY (proofs: Proofs/C08.v).

   Model functions: Lexer.read_decimal (the literal reader shared by number_body, money_body, percent_body; the only
   reader of cf_dsep / cf_tsep besides Format.format_number), Base.replace_all, Items.calculate, Interp.execute_ast,
   RuleFns.call_rule, Rules.rule_tokinizer / dyn_loop, Api.basic_execute, Corr.run.
   Definitions from Proofs/C08.v (spec side, written from the property text):
     write dsep tsep grouped ip fp   the literal with integer digits ip (grouped in threes from the right by tsep when
                                     [grouped]) and fraction digits fp after dsep          ("1.234.567,5")
     write_groups dsep tsep gs fp    the same with an arbitrary grouping gs of the integer part
     canonical ip fp                 ip "." fp  (ip alone when fp is empty): the text Rust's f64 parser understands
     normalise dsep tsep x           replace_all dsep "." (replace_all tsep "" x), the body of read_decimal
     seps_ok dsep tsep               one decimal character; no thousands separator or one different character
     digits x / nondigit x           every character is / is not an ASCII digit;  avoids d t x  x contains no separator
     same_but_seps c c'              c' = set_fmt c .. d t ..: the configurations differ at most in the two separators
     dec_val 0 x                     the integer the digit string x denotes

   NOTE (known finding C08-K1, theorem C08_grouping_refuted): C08_read_write / C08_read_write_f64 are about the READER
   function Lexer.read_decimal and hold for every single-character thousands separator.  Which texts reach the reader
   is decided by the lexer's literal regexes (config.json parse.number / money / percent), which admit only [0-9.,]
   inside a literal: a literal grouped by '.' or ',' reaches the reader whole, a literal grouped by any other
   thousands separator (' ', "'") is split by the lexer and does NOT denote the intended number. *)
From Coq Require Import Floats.
From SC.Model Require Import Base Num NumF64 FloatIO Types Config Case Chrono UiTokens Rx Post Parser Items Interp RuleFns
     Rules Format Lexer Api.
From SC.Proofs Require Import C08.

(* ---- reading: what is written in a convention is read as the canonical text ---- *)

(* the string normalisation of the reader, for every grouping and all separator-free pieces (a sign may be part of
   the first group) *)
Theorem C08_normalise_any_grouping : forall dsep tsep gs fp,
  seps_ok dsep tsep -> Forall (avoids dsep tsep) gs -> avoids dsep tsep fp ->
  replace_all dsep [46%N] (replace_all tsep [] (write_groups dsep tsep gs fp)) = canonical (concat_str gs) fp.
Proof. exact normalise_write_groups. Qed.

(* grouping in threes loses no digit *)
Theorem C08_group3_concat : forall ip, concat_str (group3 ip) = ip.
Proof. exact concat_group3. Qed.

Section WithNum.
Context {F : Type} {NF : Num F}.

(* all digit strings, all admissible separators: the configuration disappears *)
Theorem C08_read_write : forall (cfg : config F) grouped ip fp,
  seps_ok (cf_dsep cfg) (cf_tsep cfg) -> nondigit (cf_dsep cfg) -> nondigit (cf_tsep cfg) ->
  digits ip -> digits fp ->
  read_decimal cfg (write (cf_dsep cfg) (cf_tsep cfg) grouped ip fp) = fparse (canonical ip fp).
Proof. exact read_write. Qed.

(* the same literal written in two conventions, read under the respective configuration, is the same number *)
Theorem C08_read_two_conventions : forall (c1 c2 : config F) g1 g2 ip fp,
  seps_ok (cf_dsep c1) (cf_tsep c1) -> nondigit (cf_dsep c1) -> nondigit (cf_tsep c1) ->
  seps_ok (cf_dsep c2) (cf_tsep c2) -> nondigit (cf_dsep c2) -> nondigit (cf_tsep c2) ->
  digits ip -> digits fp ->
  read_decimal c1 (write (cf_dsep c1) (cf_tsep c1) g1 ip fp)
  = read_decimal c2 (write (cf_dsep c2) (cf_tsep c2) g2 ip fp).
Proof. exact read_write_two. Qed.

(* with a sign character in front *)
Theorem C08_read_write_signed : forall (cfg : config F) sg ip fp,
  seps_ok (cf_dsep cfg) (cf_tsep cfg) -> avoids (cf_dsep cfg) (cf_tsep cfg) [sg] ->
  nondigit (cf_dsep cfg) -> nondigit (cf_tsep cfg) -> digits ip -> digits fp ->
  read_decimal cfg (sg :: write (cf_dsep cfg) (cf_tsep cfg) true ip fp) = fparse (sg :: canonical ip fp).
Proof. exact read_write_signed. Qed.

(* ---- evaluation: no stage after the lexer reads the separators ---- *)

(* parametric form: for every [bexec] that is itself insensitive *)
Theorem C08_calculate_parametric : forall (c c' : config F), same_but_seps c c' ->
  forall bexec : config F -> str -> res (option F), (forall code, bexec c' code = bexec c code) ->
  forall l r op, calculate bexec c' l r op = calculate bexec c l r op.
Proof. exact calculate_seps. Qed.

Theorem C08_execute_ast_parametric : forall (c c' : config F), same_but_seps c c' ->
  forall bexec : config F -> str -> res (option F), (forall code, bexec c' code = bexec c code) ->
  forall a vs, execute_ast bexec c' vs a = execute_ast bexec c vs a.
Proof. exact execute_ast_seps. Qed.

Theorem C08_call_rule_parametric : forall (c c' : config F), same_but_seps c c' ->
  forall bexec : config F -> str -> res (option F), (forall code, bexec c' code = bexec c code) ->
  forall yr lang vs fname fs, call_rule bexec yr c' lang vs fname fs = call_rule bexec yr c lang vs fname fs.
Proof. exact call_rule_seps. Qed.

(* the unit recogniser does not take [bexec] *)
Theorem C08_dyn_loop : forall (c c' : config F), same_but_seps c c' ->
  forall fuel line vs st, dyn_loop fuel line c' vs st = dyn_loop fuel line c vs st.
Proof. exact dyn_loop_seps. Qed.

(* the real basic_execute (unit conversion code) reads with '.' and no grouping whatever is configured *)
Theorem C08_basic_execute : forall lx ck (c c' : config F) code,
  same_but_seps c c' -> basic_execute lx ck c' code = basic_execute lx ck c code.
Proof. exact basic_execute_seps. Qed.

(* ... hence the stages as Api.tokinize / Api.execute_text compose them *)
Theorem C08_calculate : forall lx ck (c c' : config F) l r op,
  same_but_seps c c' ->
  calculate (basic_execute lx ck) c' l r op = calculate (basic_execute lx ck) c l r op.
Proof. exact calculate_real. Qed.

Theorem C08_execute_ast : forall lx ck (c c' : config F) vs a,
  same_but_seps c c' ->
  execute_ast (basic_execute lx ck) c' vs a = execute_ast (basic_execute lx ck) c vs a.
Proof. exact execute_ast_real. Qed.

Theorem C08_call_rule : forall lx ck (c c' : config F) lang vs fname fs,
  same_but_seps c c' ->
  call_rule (basic_execute lx ck) (ck_year ck) c' lang vs fname fs
  = call_rule (basic_execute lx ck) (ck_year ck) c lang vs fname fs.
Proof. exact call_rule_real. Qed.

Theorem C08_rule_tokinizer : forall lx ck (c c' : config F) fuel line lang vs st,
  same_but_seps c c' ->
  rule_tokinizer (basic_execute lx ck) (ck_year ck) fuel line c' lang vs st
  = rule_tokinizer (basic_execute lx ck) (ck_year ck) fuel line c lang vs st.
Proof. exact rule_tokinizer_real. Qed.

(* ---- the lexer reads the separators only through read_decimal: on a line whose literal spans are read alike
        (in particular a line without any separator character) the whole of Api.tokinize is the same, and
        Api.execute_text differs at most in the printed text (Format.format_number is the other reader) ---- *)
Theorem C08_lexer_only_read_decimal : forall lx today (c c' : config F) line lang st,
  same_but_seps c c' ->
  (forall sp, read_decimal c' (slice line sp) = read_decimal c (slice line sp)) ->
  regex_tokinizer lx today c' lang line st = regex_tokinizer lx today c lang line st /\
  language_tokinizer lx c' lang line st = language_tokinizer lx c lang line st /\
  alias_tokinizer lx today c' lang st = alias_tokinizer lx today c lang st.
Proof.
  intros lx today c c' line lang st H Hrd. split; [|split].
  - apply (regex_tokinizer_seps lx c c' H line Hrd).
  - apply language_tokinizer_seps.
  - apply (alias_tokinizer_seps lx c c' H).
Qed.

Theorem C08_tokinize : forall lx ck (c c' : config F) lang vs line,
  same_but_seps c c' ->
  (forall sp, read_decimal c' (slice line sp) = read_decimal c (slice line sp)) ->
  tokinize lx ck c' lang vs line = tokinize lx ck c lang vs line.
Proof. exact tokinize_seps. Qed.

(* obs_value = (value or error message, highlighting, tokens, token infos) of a line result, without the printed text *)
Theorem C08_execute_text : forall lx ck (c c' : config F) lang vs line o o' vs1 vs1',
  same_but_seps c c' ->
  (forall sp, read_decimal c' (slice line sp) = read_decimal c (slice line sp)) ->
  execute_text lx ck c lang vs line = Ok (o, vs1) ->
  execute_text lx ck c' lang vs line = Ok (o', vs1') ->
  obs_value o' = obs_value o /\ vs1' = vs1.
Proof. exact execute_text_seps. Qed.

Theorem C08_free_line_read_alike : forall (c c' : config F) line,
  seps_ok (cf_dsep c) (cf_tsep c) -> seps_ok (cf_dsep c') (cf_tsep c') ->
  avoids (cf_dsep c) (cf_tsep c) line -> avoids (cf_dsep c') (cf_tsep c') line ->
  forall sp, read_decimal c' (slice line sp) = read_decimal c (slice line sp).
Proof. exact read_decimal_free_line. Qed.

(* the separator mutators of the API (Corr.step OSetDec / OSetThou) stay inside the relation *)
Theorem C08_mutators_related : forall (c : config F) d t,
  same_but_seps c (set_fmt c (cf_money c) (cf_number c) (cf_percent c) d t (cf_tz c)) /\
  (forall c', same_but_seps c c' -> same_but_seps c' c) /\
  (forall c1 c2, same_but_seps c c1 -> same_but_seps c1 c2 -> same_but_seps c c2).
Proof.
  intros c d t. split; [apply same_but_seps_set|]. split; [apply same_but_seps_sym|apply same_but_seps_trans].
Qed.

(* ---- variables hold values (asts), not text ---- *)
Theorem C08_variable_read : forall bexec (c c' : config F) vs name,
  execute_ast bexec c vs (AVariable name) = Ok (IOk (var_value vs name), vs) /\
  execute_ast bexec c' vs (AVariable name) = execute_ast bexec c vs (AVariable name).
Proof. exact variable_read_any_config. Qed.

Theorem C08_assignment_stores_value : forall lx ck (c c' : config F) vs name toks e v vs1,
  same_but_seps c c' ->
  execute_ast (basic_execute lx ck) c vs e = Ok (IOk v, vs1) ->
  exists vs2 vs2',
    execute_ast (basic_execute lx ck) c vs (AAssignment name toks e) = Ok (IOk v, vs2) /\
    execute_ast (basic_execute lx ck) c' vs (AAssignment name toks e) = Ok (IOk v, vs2') /\
    vs2 = vs2' /\
    option_map (@v_data F) (assoc (match assoc name vs1 with Some _ => name | None => var_key vs1 toks end) vs2) = Some v.
Proof. exact assignment_stores_value. Qed.

(* several lines, each seeing the variables left by the previous ones *)
Theorem C08_lines_with_variables : forall lx ck (c c' : config F) lines vs,
  same_but_seps c c' ->
  execute_lines (basic_execute lx ck) c' vs lines = execute_lines (basic_execute lx ck) c vs lines.
Proof. exact execute_lines_real. Qed.

End WithNum.

(* ---- binary64: the number read is the correctly rounded decimal <ip fp> * 10^-|fp| ---- *)
Theorem C08_read_write_f64 : forall (cfg : config float) grouped ip fp,
  seps_ok (cf_dsep cfg) (cf_tsep cfg) -> nondigit (cf_dsep cfg) -> nondigit (cf_tsep cfg) ->
  digits ip -> ip <> [] -> digits fp ->
  read_decimal cfg (write (cf_dsep cfg) (cf_tsep cfg) grouped ip fp)
  = Some (f64_of_decimal false (dec_val 0 (ip ++ fp)) (- Z.of_nat (length fp))).
Proof. exact read_write_f64. Qed.

(* ---- non-vacuity ---- *)
Theorem C08_write_examples :
  group3 (s "1234567") = [s "1"; s "234"; s "567"] /\ group3 (s "123456") = [s "123"; s "456"] /\
  group3 (s "12") = [s "12"] /\
  write (s ",") (s ".") true (s "1234567") (s "5") = s "1.234.567,5" /\
  write (s ".") (s ",") true (s "1234567") (s "5") = s "1,234,567.5" /\
  write (s ".") [] true (s "1234567") (s "5") = s "1234567.5" /\
  write (s ",") (s "'") true (s "1234567") [] = s "1'234'567" /\
  normalise (s ",") (s ".") (s "1.234.567,5") = s "1234567.5".
Proof. exact group3_example. Qed.

(* through the whole model (Corr.run from the loaded default configuration, OSetDec d, OSetThou t, OExec "en" line):
   type and bits of the value of every line; b64 m k = bits of the binary64 nearest to m * 10^-k *)
Theorem C08_examples_units :
  run_under "," "." "1 inch to mm" = [Some (s "DYNAMIC_TYPE", b64 254 1)] /\
  run_under "." "," "1 inch to mm" = [Some (s "DYNAMIC_TYPE", b64 254 1)] /\
  run_under "," "." "1 m to km" = [Some (s "DYNAMIC_TYPE", b64 1 3)] /\
  run_under "." "," "1 m to km" = [Some (s "DYNAMIC_TYPE", b64 1 3)] /\
  run_under "," "." "1,5 km to m" = [Some (s "DYNAMIC_TYPE", b64 1500 0)] /\
  run_under "." "," "1.5 km to m" = [Some (s "DYNAMIC_TYPE", b64 1500 0)].
Proof. exact examples_units. Qed.

Theorem C08_examples_literals :
  run_under "," "." "1.234,5 * 2" = [Some (s "NUMBER", b64 2469 0)] /\
  run_under "." "," "1,234.5 * 2" = [Some (s "NUMBER", b64 2469 0)] /\
  run_under "." "" "1234.5 * 2" = [Some (s "NUMBER", b64 2469 0)] /\
  run_under "," "'" "1234,5 * 2" = [Some (s "NUMBER", b64 2469 0)] /\
  run_under "," "." "x = 1.234,5
x * 2" = [Some (s "NUMBER", b64 12345 1); Some (s "NUMBER", b64 2469 0)] /\
  run_under "." "," "x = 1,234.5
x * 2" = [Some (s "NUMBER", b64 12345 1); Some (s "NUMBER", b64 2469 0)] /\
  run_under "," "." "12,5%" = [Some (s "PERCENT", b64 125 1)] /\
  run_under "." "," "12.5%" = [Some (s "PERCENT", b64 125 1)] /\
  run_under "," "." "1.234,5 usd" = [Some (s "MONEY", b64 12345 1)] /\
  run_under "." "," "1,234.5 usd" = [Some (s "MONEY", b64 12345 1)] /\
  run_under "," "." "10 usd to try" = run_under "." "," "10 usd to try" /\
  run_under "," "." "10 usd to try" <> [None].
Proof. exact examples_literals. Qed.

(* known finding C08-K1: under (',' ' ') the literal 1234,5 written in the configured convention is "1 234,5"; the
   reader would read it as 1234.5, but the line evaluates to 235.5 (1 and 234,5 juxtaposed); likewise "1'234,5 * 2" = 1 *)
Theorem C08_grouping_refuted :
  write (s ",") (s " ") true (s "1234") (s "5") = s "1 234,5" /\
  option_map f64_to_bits (read_decimal (cfg_with "," " ") (s "1 234,5")) = Some (b64 12345 1) /\
  run_under "," " " "1 234,5" = [Some (s "NUMBER", b64 2355 1)] /\
  run_under "," "." "1.234,5" = [Some (s "NUMBER", b64 12345 1)] /\
  b64 2355 1 <> b64 12345 1 /\
  write (s ",") (s "'") true (s "1234") (s "5") = s "1'234,5" /\
  run_under "," "'" "1'234,5 * 2" = [Some (s "NUMBER", b64 1 0)].
Proof. exact grouping_refuted. Qed.

Print Assumptions C08_grouping_refuted.
Print Assumptions C08_normalise_any_grouping.
Print Assumptions C08_group3_concat.
Print Assumptions C08_read_write.
Print Assumptions C08_read_two_conventions.
Print Assumptions C08_read_write_signed.
Print Assumptions C08_calculate_parametric.
Print Assumptions C08_execute_ast_parametric.
Print Assumptions C08_call_rule_parametric.
Print Assumptions C08_dyn_loop.
Print Assumptions C08_basic_execute.
Print Assumptions C08_calculate.
Print Assumptions C08_execute_ast.
Print Assumptions C08_call_rule.
Print Assumptions C08_rule_tokinizer.
Print Assumptions C08_lexer_only_read_decimal.
Print Assumptions C08_tokinize.
Print Assumptions C08_execute_text.
Print Assumptions C08_free_line_read_alike.
Print Assumptions C08_mutators_related.
Print Assumptions C08_variable_read.
Print Assumptions C08_assignment_stores_value.
Print Assumptions C08_lines_with_variables.
Print Assumptions C08_read_write_f64.
Print Assumptions C08_write_examples.
Print Assumptions C08_examples_units.
Print Assumptions C08_examples_literals.
