(* Property C08 - statements only (proofs in Proofs/C08.v). Not built yet. *)
From SC.Model Require Import Base.
