(* Property C04 - evaluation never changes the calculator; sessions isolate and persist.
   STATEMENTS ONLY (proofs: Proofs/C04.v, Proofs/SessionLemmas.v).  The public API is the state
   machine Corr.step over [mstate = {m_cfg; m_sessions}]; [final ck m ops] is the state after a
   history, [run] the observations.  [eval_lines] (SessionLemmas.v) is the reference: the lines
   evaluated once each, in order, threading the variables. *)
From Coq Require Import Floats.
From SC.Model Require Import Base Num NumF64 Types Config Case Chrono UiTokens Rx Post Parser Items Interp
     RuleFns Rules Format Lexer Api Run64 Corr.
From SC.Proofs Require Import SessionLemmas C04.

(* evaluating text changes neither the configuration nor any session *)
Theorem C04_execute_pure : forall ck m lang text, fst (step ck m (OExec lang text)) = m.
Proof. exact execute_pure. Qed.

(* ... and its result is a function of the configuration, the text, the language and the clock *)
Theorem C04_execute_obs : forall ck m lang text,
  snd (step ck m (OExec lang text)) =
  match execute LX ck (m_cfg m) lang text with Ok r => MRes r | Panic st => MPanic st end.
Proof. exact execute_obs. Qed.

(* all histories of evaluations and session activity, of any length, leave the configuration
   unchanged ... *)
Theorem C04_eval_keeps_config : forall ck ops m,
  forallb eval_op ops = true -> m_cfg (final ck m ops) = m_cfg m.
Proof. exact eval_keeps_config. Qed.

(* ... so running any other evaluations before a text does not change its results *)
Theorem C04_history_independence : forall ck ops m lang text,
  forallb eval_op ops = true ->
  run ck m (ops ++ [OExec lang text]) = run ck m ops ++ run ck m [OExec lang text].
Proof. exact history_independence_run. Qed.

(* separate evaluations share no variables: each starts from the empty environment and is the
   in-order fold over its own lines *)
Theorem C04_execute_fresh_env : forall ck m lang text,
  snd (step ck m (OExec lang text)) =
  match eval_lines LX ck (m_cfg m) lang [] (split_lines text []) with
  | Panic st => MPanic st
  | Ok (os, _) => MRes {| er_status := true; er_lines := os |}
  end.
Proof. exact execute_fresh_env. Qed.

(* operations that do not address session b never change it: all histories *)
Theorem C04_sessions_isolated : forall ck b ops m,
  Forall (fun o => op_session o <> Some b) ops ->
  sess_get b (m_sessions (final ck m ops)) = sess_get b (m_sessions m).
Proof. exact sessions_isolated_history. Qed.

(* a new text on a session, whatever was set or run before (any cursor position): every line
   is evaluated exactly once, in order, against the variables the session holds; status is
   true; the resulting variables are stored back; the calculator is unchanged *)
Theorem C04_set_text_then_execute : forall ck m sid se text,
  sess_get sid (m_sessions m) = Some se ->
  let m1 := fst (step ck m (OSetText sid text)) in
  match eval_lines LX ck (m_cfg m) (se_language se) (se_vars se) (split_lines text []) with
  | Panic st => step ck m1 (OExecSession sid) = (m1, MPanic st)
  | Ok (os, vs') =>
    snd (step ck m1 (OExecSession sid)) = MRes {| er_status := true; er_lines := os |} /\
    length os = length (split_lines text []) /\
    option_map (fun s => se_vars s) (sess_get sid (m_sessions (fst (step ck m1 (OExecSession sid))))) = Some vs' /\
    m_cfg (fst (step ck m1 (OExecSession sid))) = m_cfg m
  end.
Proof. exact set_text_then_execute. Qed.

(* a re-used session keeps its variables across texts of differing line counts *)
Theorem C04_session_persists : forall ck m sid se text1 text2 os1 vs1,
  sess_get sid (m_sessions m) = Some se ->
  eval_lines LX ck (m_cfg m) (se_language se) (se_vars se) (split_lines text1 []) = Ok (os1, vs1) ->
  let m2 := final ck m [OSetText sid text1; OExecSession sid; OSetText sid text2] in
  snd (step ck m2 (OExecSession sid)) =
  match eval_lines LX ck (m_cfg m) (se_language se) vs1 (split_lines text2 []) with
  | Panic st => MPanic st
  | Ok (os2, _) => MRes {| er_status := true; er_lines := os2 |}
  end.
Proof. exact session_persists. Qed.

(* the reference fold really has one slot per line *)
Theorem C04_eval_lines_length : forall cfg lang vs lines os vs',
  eval_lines LX CK0 cfg lang vs lines = Ok (os, vs') -> length os = length lines.
Proof. exact (eval_lines_length LX CK0). Qed.

(* non-vacuity, computed through the whole model at binary64: a three-line text then a
   one-line text on one session (the history that used to end with status=false), and an
   execute in between that sees none of the session's variables *)
Definition c04_ck : clock := {| ck_today := 20000; ck_year := 2024 |}.
Definition c04_hist : list op :=
  [ONewSession 1; OSetLanguage 1 (s "en"); OSetText 1 (s "x = 2" ++ [10%N] ++ s "y = x * 3" ++ [10%N] ++ s "y + 1");
   OExecSession 1; OExec (s "en") (s "y + 1"); OSetText 1 (s "x + y"); OExecSession 1].
Definition outs (o : mobs) : list (option str) :=
  match o with
  | MRes r => map (fun l => match l with
                            | Some lo => match lo_result lo with LOk out _ => Some out | LErr _ => None end
                            | None => None end) (er_lines r)
  | _ => []
  end.
Theorem C04_example :
  map outs (run c04_ck init_state c04_hist) =
  [[]; []; []; [Some (s "2"); Some (s "6"); Some (s "7")]; [Some (s "1")]; []; [Some (s "8")]].
Proof. vm_compute. reflexivity. Qed.

Print Assumptions C04_execute_pure.
Print Assumptions C04_execute_obs.
Print Assumptions C04_eval_keeps_config.
Print Assumptions C04_history_independence.
Print Assumptions C04_execute_fresh_env.
Print Assumptions C04_sessions_isolated.
Print Assumptions C04_set_text_then_execute.
Print Assumptions C04_session_persists.
Print Assumptions C04_eval_lines_length.
Print Assumptions C04_example.
