(* Property C04 - statements only (proofs in Proofs/C04.v). Not built yet. *)
From SC.Model Require Import Base.
