(* Property C15 - printed results can be typed back in: formatter and reader agree.
   STATEMENTS ONLY (proofs: Proofs/C15.v).

   Model functions: Run64.exec64 (the whole pipeline, Api.execute at binary64 with the regenerated data),
   Format.item_print / date_print / duration_formatter / dur_parts, RuleFns.duration_of_const / combine_durations /
   read_currency, Lexer.from_radix, the regenerated tables d_format, d_constant_pair, d_word_group, d_months,
   d_types_raw, d_timezones, d_currency, d_currency_alias.
   Notions of Proofs/C15.v:
     enter ck cfg lang line        the printed text and the value of a one-line evaluation (None: no value)
     Reprintable ck cfg lang line  THE PROPERTY for one line: whatever the line prints is not empty and, entered as a
                                   new line under the same configuration, language and clock, prints the same text
     Reprintable_value ..          ... and the value behind the re-entered text is the same value
     prints / reprints / refutes   the executable tests (sound: C15_tests_sound)
     CK15, DC, cfg_seps d t, cfg_num c n rm rnd   clock 2024-10-04, the default configuration, separators, digit settings

   WHAT IS PROVED AND WHAT IS NOT (C15_full_partial).  The full statement `forall ck cfg lang line, Reprintable ..`
   is FALSE in the faithful model (and in the crate): ten mechanisms, listed as known findings C15-K1 .. C15-K10 and
   pinned here by C15_refuted / C15_refuted_outputs / C15_twelve_months_refuted / C15_currency_partition.
   Proved: (a) finite tables over the regenerated data: every duration word, month word, unit word, zone name and
   currency symbol the printers can emit, re-read (C15_words_*, C15_zone_*, C15_currency_*, C15_units_pipeline);
   (b) unbounded components: based integers (C15_based), durations (C15_duration, C15_duration_recombine,
   C15_twelve_months_iff); (c) the whole pipeline on finite families of every kind x en/tr x the four lexable
   separator conventions x ten digit settings (C15_pipeline).  (d) numbers: the reader on the printer's output, unbounded at the digit-string level (C15_number_shape,
   C15_number_normalises), re-printing under the hypothesis of equal rendering (C15_number_same_rendering), which is
   discharged by computation on a binary64 family (C15_number_idempotent_family).  NOT proved: Reprintable for every value of a kind -
   the lexing of the composed printed string for arbitrary values (interaction of the regexes on arbitrary digits)
   and the idempotence of decimal printing on binary64 are covered by the correspondence check only
   (tools/props/C15.py: every generated value is printed, re-entered and compared on the crate and on this model). *)
From Coq Require Import Floats.
From SC.Model Require Import Base Num NumF64 FloatIO Types Config Case Chrono Parser Items RuleFns Format Lexer Api Run64 Corr.
From SC.Spec Require Import Calendar Duration.
From SC.Gen Require Import RustConsts ConfigData.
From SC.Proofs Require Import C08 C10 C13 C15.
Local Open Scope Z_scope.

(* ---- the executable tests decide the property of a line *)
Theorem C15_tests_sound : forall ck cfg lang line,
  (reprints ck cfg lang line = true -> prints ck cfg lang line = true /\ Reprintable ck cfg lang line) /\
  (reprints_value ck cfg lang line = true -> prints ck cfg lang line = true /\ Reprintable_value ck cfg lang line) /\
  (refutes ck cfg lang line = true -> ~ Reprintable ck cfg lang line) /\
  (Reprintable_value ck cfg lang line -> Reprintable ck cfg lang line).
Proof.
  intros. split; [apply reprints_sound|]. split; [apply reprints_value_sound|]. split; [apply refutes_sound|apply value_implies_text].
Qed.

(* ---- words (finite tables, regenerated from config.json) ---- *)

(* every row of languages.*.format.duration (en: 14 rows, tr: 7) has the shape `{unit} word` or `1 word`, and its word
   is a keyword of the SAME unit in the language's constant table and a member of duration_group, the word group of
   the rule `{NUMBER:duration} {GROUP:type:duration_group}`: the printed part re-lexes to the unit it was printed for *)
Theorem C15_words_durations : forall lang fmt f, In lang [EN; TR] ->
  assoc lang d_format = Some fmt -> In f (lf_duration fmt) ->
  exists cs gs ws,
    assoc lang d_constant_pair = Some cs /\ assoc lang d_word_group = Some gs /\
    assoc (s "duration_group") gs = Some ws /\
    assoc (row_word f) cs = Some (kind_const (df_kind f)) /\ mem_str (row_word f) ws = true /\ row_word f <> [] /\
    (df_format f = dur_placeholder (df_kind f) ++ 32%N :: row_word f \/ df_format f = s "1 " ++ row_word f).
Proof. exact duration_words. Qed.

(* every unit (33 rows): the format is `{value}` + optional blank + word; the word lower-cased is one of the unit's
   names and the type word of one of its parse patterns.  No row is outside: all 33 format words are re-readable *)
Theorem C15_words_units : length all_unit_rows = 33%nat /\
  forall g r, In (g, r) all_unit_rows ->
  exists w, unit_word r = Some w /\ w <> [] /\ mem_str (to_lowercase w) (ur_names r) = true /\
            mem_str (s "{NUMBER:value} {TEXT:type:" ++ to_lowercase w ++ s "}") (ur_parse r) = true.
Proof. exact (conj unit_rows_count unit_words). Qed.

(* every month of en and tr: what date_print writes for the 5th of the month (uppercase-first of the long name in
   the clock's year, of the short name with the year otherwise; `5 Şub 2020`) is read back as that very day and
   printed identically *)
Theorem C15_words_months : forall lang mi, In lang [EN; TR] -> In mi (month_rows lang) ->
  let m := mi_month mi in
  let l1 := s "5 " ++ uppercase_first_letter (mi_long mi) in
  let l2 := s "5 " ++ uppercase_first_letter (mi_short mi) ++ s " 2020" in
  date_print DC lang (ck_year CK15) (days_from_civil (ck_year CK15) m 5) (cf_tz DC) = l1 /\
  date_print DC lang (ck_year CK15) (days_from_civil 2020 m 5) (cf_tz DC) = l2 /\
  (exists tz, enter CK15 DC lang l1 = Some (l1, Some (TDate (days_from_civil (ck_year CK15) m 5) tz))) /\
  (exists tz, enter CK15 DC lang l2 = Some (l2, Some (TDate (days_from_civil 2020 m 5) tz))).
Proof. exact month_words. Qed.

Theorem C15_words_months_size : length (month_rows EN) = 12%nat /\ length (month_rows TR) = 12%nat.
Proof. vm_compute. split; reflexivity. Qed.

(* every zone name of the table (191): `10:30 Z` prints a text that prints itself again with the same value ... *)
Theorem C15_zone_words : forall n o, In (n, o) d_timezones ->
  Reprintable_value CK15 DC EN (s "10:30 " ++ n) /\ prints CK15 DC EN (s "10:30 " ++ n) = true.
Proof. exact zone_words. Qed.

(* ... for 174 of them the value is the time in that zone and the text is `10:30:00 Z` (the others are longer than
   the zone regex's [A-Z]{2,4}, or lexed as a currency code) *)
Theorem C15_zone_times :
  (forall n o, zone_time (n, o) = true ->
     exists t, enter CK15 DC EN (s "10:30 " ++ n)
               = Some (s "10:30:00 " ++ n, Some (TTime t {| tz_name := n; tz_off := o |}))) /\
  length (filter zone_time d_timezones) = 174%nat /\ length d_timezones = 191%nat.
Proof. exact (conj zone_times (proj2 zone_rows_ok)). Qed.

(* the 161 currencies, partitioned: reader_name c = the name the money regexes capture from what money_print writes
   for c (spec side); reads_as = read_currency on it.  The pipeline agrees with the partition on every row:
   re-read as the same amount of the same currency exactly for the 6 rows whose symbol is their own reader name;
   the same TEXT again exactly for the 24 rows that print like one of those (18 print like USD) - known findings
   C15-K3 (125 rows: no reader name) and C15-K4 (another currency's name) *)
Theorem C15_currency_partition : forall kv, In kv d_currency ->
  prints CK15 DC EN (money_line kv) = true /\
  (rereadable kv = true -> Reprintable_value CK15 DC EN (money_line kv)) /\
  (prints_like_rereadable kv = true -> Reprintable CK15 DC EN (money_line kv)) /\
  (prints_like_rereadable kv = false -> ~ Reprintable CK15 DC EN (money_line kv)).
Proof. exact currency_partition. Qed.

Theorem C15_currency_partition_lists :
  map fst (filter rereadable d_currency) = [s "dkk"; s "eur"; s "mvr"; s "tjs"; s "try"; s "usd"] /\
  length d_currency = 161%nat /\
  length (filter prints_like_rereadable d_currency) = 24%nat /\
  length (filter (fun kv => match reads_as (snd kv) with None => true | Some _ => false end) d_currency) = 125%nat.
Proof. exact currency_partition_lists. Qed.

(* every unit x every name a parse pattern carries (61 lines), four separator conventions, en and tr *)
Theorem C15_units_pipeline :
  (forall l, In l (unit_lines (s ",")) ->
     Reprintable_value CK15 DC EN l /\ is_unit (enter CK15 DC EN l) = true) /\
  (forall l, In l (unit_lines (s ".")) ->
     Reprintable_value CK15 (cfg_seps (s ".") (s ",")) EN l /\ Reprintable_value CK15 (cfg_seps (s ".") []) TR l) /\
  (forall l, In l (unit_lines (s ",")) -> Reprintable_value CK15 (cfg_seps (s ",") []) TR l) /\
  length (unit_lines (s ",")) = 61%nat.
Proof. exact unit_lines_reprintable. Qed.

(* ---- based integers: print, read the digits, print again - the same text (composition of C13_print_read and
        C13_print_based; every number algebra, every non-negative value exact after the cast) ---- *)
Theorem C15_based : forall {F : Type} {NF : Num F} cfg lang year (x : F) t, based t -> 0 <= as_i64 x ->
  as_i64 (fofZ (as_i64 x) : F) = as_i64 x ->
  exists ds y,
    item_print cfg lang year (INumber x t) = Ok (prefix_of t ++ ds) /\
    from_radix (base_of t) ds = Some y /\
    item_print cfg lang year (INumber y t) = Ok (prefix_of t ++ ds).
Proof. intros F NF. exact based_roundtrip. Qed.

(* ---- durations, UNBOUNDED: every part the greedy printer writes, re-read by the duration rule (word -> constant of
        the same unit by C15_words_durations), denotes count * unit length, and the parts sum to the magnitude -
        for every duration chrono can hold whose month count is below 12 ---- *)
Theorem C15_duration : forall secs, in_range secs ->
  (forall c, In (DMonth, c) (dur_parts secs) -> c < 12) ->
  Forall (fun p => reread_part p = Some (part_secs p)) (dur_parts secs) /\
  parts_sum (dur_parts secs) = Z.abs secs.
Proof. exact duration_parts_reread. Qed.

(* ... and the combine rule on two or more re-read parts gives back the magnitude (one part: the part itself) *)
Theorem C15_duration_recombine : forall {F : Type} {NF : Num F} (vs : vars F) secs tis, in_range secs ->
  (forall c, In (DMonth, c) (dur_parts secs) -> c < 12) ->
  Forall2 (fun ti p => exists d, reread_part p = Some d /\ ti_ty ti = Some (TDuration d)) tis (dur_parts secs) ->
  (2 <= length tis)%nat ->
  combine_durations vs (dur_fields tis) = Ok (Some (TDuration (Z.abs secs))).
Proof. intros F NF. exact duration_recombine. Qed.

(* known finding C15-K6: the month count CAN be 12, exactly when the remainder after the whole years reaches 360
   days, and 12 months re-read are a 365-day year *)
Theorem C15_twelve_months_iff : forall secs,
  (exists c, In (DMonth, c) (dur_parts secs) /\ 12 <= c) <-> 12 * MONTH <= Z.abs secs mod YEAR.
Proof. exact twelve_months_iff. Qed.

Theorem C15_twelve_months_refuted :
  dur_parts (364 * 86400) = [(DMonth, 12); (DDay, 4)] /\
  reread_part (DMonth, 12) = Some (365 * 86400) /\ part_secs (DMonth, 12) = 360 * 86400 /\
  dur_parts (729 * 86400) = [(DYear, 1); (DMonth, 12); (DDay, 4)].
Proof. exact twelve_months_refuted. Qed.

(* ---- numbers: the reader on the printer's output (Proofs/C15.v section 4; free a x: the character a does not occur
        in x; tsep_of t: no thousands separator or the one character t; printed neg t d ip fp: sign, ip grouped by the
        model's own Format.group_loop, fraction) ---- *)

(* format_number writes exactly that, whenever the rendering of |x| ("{:.N}" or "{}") is ip '.' fp or ip alone:
   every value, digit count, both flags, every one-character decimal separator, any number algebra *)
Theorem C15_number_shape : forall {F : Type} {NF : Num F} (x : F) t d n rm (rnd : bool) ip fp,
  (if rnd then ffixed (fabs x) n else fdisplay (fabs x)) = ip ++ match fp with Some f => 46%N :: f | None => [] end ->
  free 46%N ip ->
  format_number x (tsep_of t) [d] n rm rnd
  = Ok (printed (fltb x f0) t d ip
          (match fp with Some f => if negb (forallb (N.eqb 48) f) || negb rm then Some f else None | None => None end)).
Proof. intros F NF. exact format_number_shape. Qed.

(* UNBOUNDED: for all strings ip, fp free of the separators (all digit strings), every decimal separator d and
   thousands separator (one other character that is not '-' or '.', or none) the printed text is normalised by
   read_decimal to sign ip '.' fp: grouping and convention disappear *)
Theorem C15_number_normalises : forall {F : Type} {NF : Num F} (cfg : config F) neg t d ip fp,
  cf_dsep cfg = [d] -> cf_tsep cfg = tsep_of t ->
  free d ip -> free 45%N [d] ->
  match t with Some c => free c ip /\ c <> d /\ c <> 45%N /\ c <> 46%N /\
                         match fp with Some f => free c f | None => True end
             | None => True end ->
  match fp with Some f => free d f | None => True end ->
  read_decimal cfg (printed neg t d ip fp)
  = fparse ((if neg then [45%N] else []) ++ ip ++ match fp with Some f => 46%N :: f | None => [] end).
Proof. intros F NF. exact printed_normalises. Qed.

(* the last step under its hypothesis: a value with the same sign test and the same rendering prints alike ... *)
Theorem C15_number_same_rendering : forall {F : Type} {NF : Num F} (x y : F) tsep dsep n rm (rnd : bool),
  fltb y f0 = fltb x f0 ->
  (if rnd then ffixed (fabs y) n else fdisplay (fabs y)) = (if rnd then ffixed (fabs x) n else fdisplay (fabs x)) ->
  format_number y tsep dsep n rm rnd = format_number x tsep dsep n rm rnd.
Proof. intros F NF. exact format_number_same_rendering. Qed.

(* ... and the hypothesis at binary64 for the value read back from the printed digits, on a family of 20 values x
   6 digit counts, by computation; it FAILS for -0.004 at 2 digits (known finding C15-K1) *)
Theorem C15_number_idempotent_family : forall x n, In x number_family -> In n number_digits ->
  exists y, fparse (F:=float) ((if fltb x f0 then [45%N] else []) ++ ffixed (fabs x) n) = Some y /\
            ffixed (fabs y) n = ffixed (fabs x) n /\ fltb y f0 = fltb x f0.
Proof. exact number_family_idem. Qed.

Theorem C15_number_negative_zero_refuted :
  idem64 (f64_dec (-4) 3) 2 = false /\ length number_family = 20%nat /\ length number_digits = 6%nat.
Proof. split; [exact (proj2 number_family_idempotent)|split; reflexivity]. Qed.

(* ---- the whole pipeline on families of every kind: 127 English lines, 31 Turkish lines, 18 lines under each of
        the other lexable separator conventions, 10 lines x 10 digit settings ---- *)
Theorem C15_pipeline :
  (forall l, In l en_family -> Reprintable CK15 DC EN l /\ prints CK15 DC EN l = true) /\
  (forall l, In l tr_family -> Reprintable CK15 DC TR l /\ prints CK15 DC TR l = true) /\
  (forall l, In l (sep_family ".") -> Reprintable CK15 (cfg_seps (s ".") (s ",")) EN l /\
                                      Reprintable CK15 (cfg_seps (s ".") []) EN l) /\
  (forall l, In l (sep_family ",") -> Reprintable CK15 (cfg_seps (s ",") []) EN l) /\
  (forall n rm rnd l, In (n, rm, rnd) digit_settings -> In l digit_family ->
     Reprintable CK15 (cfg_num DC n rm rnd) EN l).
Proof. exact families_reprintable. Qed.

Theorem C15_pipeline_sizes :
  length en_family = 127%nat /\ length tr_family = 36%nat /\ length (sep_family ".") = 18%nat /\
  length digit_family = 10%nat /\ length digit_settings = 10%nat.
Proof. exact families_sizes. Qed.

(* ---- the known findings C15-K1 .. C15-K10 (K7 repaired in /repo) in the model: each row's line prints the stated text and that text does
        not print itself again ---- *)
Theorem C15_refuted : forall cfg lang line out, In (cfg, lang, line, out) refuted_rows ->
  (exists v, enter CK15 cfg lang line = Some (out, v)) /\ ~ Reprintable CK15 cfg lang line.
Proof. exact refuted. Qed.

Theorem C15_refuted_outputs :
  length refuted_rows = 15%nat /\
  option_map fst (enter CK15 DC EN (s "-0")) = Some (s "0") /\
  option_map fst (enter CK15 (cfg_seps (s ",") (s " ")) EN (s "1 234,50")) = Some (s "235,50") /\
  option_map fst (enter CK15 DC EN [163;49;48;44;48;48]%N) = Some (s "0") /\
  option_map fst (enter CK15 DC EN (s "10,00 kr")) = Some (s "10,00 kr.") /\
  enter CK15 DC EN [] = None /\
  option_map fst (enter CK15 DC EN (s "12 months 4 days")) = Some (s "1 year 4 days") /\
  enter CK15 DC EN (s "13 Sep 2020 12:26:40 UTC") = None /\
  option_map fst (enter CK15 DC EN (s "1580860800")) = Some (s "1.580.860.800") /\
  option_map fst (enter CK15 DC EN (s "0xCD")) = Some (s "$0,00").
Proof. split; [reflexivity|exact refuted_outputs]. Qed.

(* ---- the full statement is false; what holds end to end is the conjunction above ---- *)
Theorem C15_full_partial :
  ~ (forall ck cfg lang line, Reprintable ck cfg lang line) /\
  (forall l, In l en_family -> Reprintable CK15 DC EN l /\ prints CK15 DC EN l = true) /\
  (forall l, In l tr_family -> Reprintable CK15 DC TR l /\ prints CK15 DC TR l = true).
Proof. exact full_partial. Qed.

Print Assumptions C15_tests_sound.
Print Assumptions C15_words_durations.
Print Assumptions C15_words_units.
Print Assumptions C15_words_months.
Print Assumptions C15_words_months_size.
Print Assumptions C15_zone_words.
Print Assumptions C15_zone_times.
Print Assumptions C15_currency_partition.
Print Assumptions C15_currency_partition_lists.
Print Assumptions C15_units_pipeline.
Print Assumptions C15_based.
Print Assumptions C15_duration.
Print Assumptions C15_duration_recombine.
Print Assumptions C15_twelve_months_iff.
Print Assumptions C15_twelve_months_refuted.
Print Assumptions C15_number_shape.
Print Assumptions C15_number_normalises.
Print Assumptions C15_number_same_rendering.
Print Assumptions C15_number_idempotent_family.
Print Assumptions C15_number_negative_zero_refuted.
Print Assumptions C15_pipeline.
Print Assumptions C15_pipeline_sizes.
Print Assumptions C15_refuted.
Print Assumptions C15_refuted_outputs.
Print Assumptions C15_full_partial.
