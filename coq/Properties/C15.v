(* Property C15 - statements only (proofs in Proofs/C15.v). Not built yet. *)
From SC.Model Require Import Base.
