(* The number algebra the whole model is parametric in.
   Two instances: NumF64 (Coq primitive binary64 floats = Rust f64, used when the model is
   executed against the implementation) and NumQ (exact rationals, used to state that an
   operation sequence is "the textbook formula"). *)
From SC.Model Require Import Base.

Inductive fclass := FNan | FPosInf | FNegInf | FFinite.

Class Num (F : Type) : Type := {
  fadd : F -> F -> F;
  fsub : F -> F -> F;
  fmul : F -> F -> F;
  fdiv : F -> F -> F;                 (* raw IEEE division (x/0 = inf or nan); in Q: x/0 = 0 *)
  fabs : F -> F;
  fofZ : Z -> F;                      (* i64/u32/... as f64 *)
  feqb : F -> F -> bool;              (* == *)
  fltb : F -> F -> bool;              (* <  *)
  fcls : F -> fclass;
  ftruncZ : F -> Z;                   (* truncation toward zero of a finite value *)
  fround : F -> F;                    (* f64::round, ties away from zero *)
  ftrunc : F -> F;
  fdisplay : F -> str;                (* format!("{}", x) *)
  ffixed : F -> N -> str;             (* format!("{:.N}", x) *)
  fparse : str -> option F;           (* str::parse::<f64> *)
  fepsilon : F;                       (* f64::EPSILON *)
  fdec : Z -> Z -> F                  (* decimal literal m * 10^-k written in source, e.g. 25.4 *)
}.

Section Derived.
Context {F : Type} {NF : Num F}.

Definition f0 : F := fofZ 0.
Definition f1 : F := fofZ 1.
Definition fm1 : F := fofZ (-1).
Definition f100 : F := fofZ 100.

Definition fbad (x : F) : bool :=
  match fcls x with FFinite => false | _ => true end.

(* tools.rs do_divition *)
Definition do_division (l r : F) : F :=
  let c := fdiv l r in if fbad c then f0 else c.

Definition fneg (x : F) : F := fmul fm1 x.          (* the code negates as -1.0 * x *)

Definition fleb (a b : F) : bool := fltb a b || feqb a b.
Definition fgtb (a b : F) : bool := fltb b a.

Definition clampZ (lo hi z : Z) : Z := if z <? lo then lo else if hi <? z then hi else z.

(* Rust saturating float-to-int `as` casts *)
Definition f_as (lo hi : Z) (x : F) : Z :=
  match fcls x with
  | FNan => 0
  | FPosInf => hi
  | FNegInf => lo
  | FFinite => clampZ lo hi (ftruncZ x)
  end.
Definition as_i64 := f_as (- 2^63) (2^63 - 1).
Definition as_i32 := f_as (- 2^31) (2^31 - 1).
Definition as_u32 := f_as 0 (2^32 - 1).
Definition as_u64 := f_as 0 (2^64 - 1).
Definition as_u8  := f_as 0 255.

(* (a - b).abs() < EPSILON *)
Definition fsame (a b : F) : bool := fltb (fabs (fsub a b)) fepsilon.

End Derived.
