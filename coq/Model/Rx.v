(* Compiled-regex records and capture helpers on top of Model/Regex.v. *)
From SC.Model Require Import Base Regex UiTokens.
From SC.Gen Require Import UnicodeTables.

Record cre := { cre_rx : rx; cre_n : nat; cre_names : list (str * nat) }.

Definition capture := list (option (N * N)).      (* byte spans; entry 0 = whole match *)

(* the prepared Unicode tables, computed once *)
Definition PT : ptables := Eval vm_compute in prepare utabs.

Definition caps_iter (c : cre) (x : str) : list capture := captures_iter_p PT (cre_rx c) (cre_n c) x.
Definition re_is_match (c : cre) (x : str) : bool := is_match_p PT (cre_rx c) x.

Definition cap_get (cp : capture) (i : nat) : option (N * N) :=
  match nth_opt cp i with Some o => o | None => None end.

Definition cap_name (c : cre) (cp : capture) (name : string) : option (N * N) :=
  match assoc (s name) (cre_names c) with
  | Some i => cap_get cp i
  | None => None
  end.

(* the sub-string with byte span [st, en) *)
Fixpoint drop_bytes (x : str) (n : N) : str :=
  match x with
  | [] => []
  | c :: r => if N.eqb n 0 then x else drop_bytes r (n - utf8_w c)
  end.
Fixpoint take_bytes (x : str) (n : N) : str :=
  match x with
  | [] => []
  | c :: r => if N.eqb n 0 then [] else c :: take_bytes r (n - utf8_w c)
  end.
Definition slice (x : str) (sp : N * N) : str :=
  take_bytes (drop_bytes x (fst sp)) (snd sp - fst sp).
