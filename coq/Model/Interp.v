(* Interpreter (src/compiler/mod.rs:60-142). *)
From SC.Model Require Import Base Num Types Config Case Post Parser Items.

Section WithNum.
Context {F : Type} {NF : Num F}.
Variable bexec : config F -> str -> res (option F).

Inductive ires :=
| IOk (a : ast F)
| IErr (msg : str).

Definition E_UNKNOWN_CALC := s "Unknown calculation".
Definition E_UKNOWN_RESULT := s "Uknown calculation result".
Definition E_SYNTAX := s "Syntax error".

Definition unknown_operator (c : N) : str := s "Unknown operator. (" ++ c :: s ")".

(* calculate_item (mod.rs:84-108) *)
Definition calculate_item (cfg : config F) (op : N) (l r : ast F) : res ires :=
  match l, r with
  | AItem li, AItem ri =>
    let run (o : optype) :=
        do x <- calculate bexec cfg li ri o;
        Ok (match x with Some i => IOk (AItem i) | None => IErr E_UNKNOWN_CALC end) in
    if N.eqb op OP_PLUS then run OAdd
    else if N.eqb op OP_MINUS then run OSub
    else if N.eqb op OP_MUL then run OMul
    else if N.eqb op OP_DIV then run ODiv
    else Ok (IErr (unknown_operator op))
  | _, _ => Ok (IErr E_UNKNOWN_CALC)
  end.

(* execute_ast; returns the session variables too (assignment stores the computed value).
   Structural recursion on the ast. *)
Fixpoint execute_ast (cfg : config F) (vs : vars F) (a : ast F) : res (ires * vars F) :=
  match a with
  | ABinary l op r =>
    do x <- execute_ast cfg vs l;
    match x with
    | (IErr m, vs1) => Ok (IErr m, vs1)
    | (IOk cl, vs1) =>
      do y <- execute_ast cfg vs1 r;
      match y with
      | (IErr m, vs2) => Ok (IErr m, vs2)
      | (IOk cr, vs2) =>
        match cl, cr with
        | AItem _, _ | _, AItem _ => do z <- calculate_item cfg op cl cr; Ok (z, vs2)
        | _, _ => Ok (IErr E_UKNOWN_RESULT, vs2)
        end
      end
    end
  | AAssignment name toks e =>
    do x <- execute_ast cfg vs e;
    match x with
    | (IErr m, vs1) => Ok (IErr m, vs1)
    | (IOk v, vs1) =>
      (* *variable.data.borrow_mut() = computed; session.add_variable(variable): an existing variable (looked up by
         the parser under [name]) keeps its name tokens and its key; a new one is registered now under
         VariableInfo::to_string = [var_key] of its tokens (which replaces a variable already stored under that key) *)
      let vs2 := match assoc name vs1 with
                 | Some vi => assoc_insert name {| v_tokens := v_tokens vi; v_data := v |} vs1
                 | None => assoc_insert (var_key vs1 toks) {| v_tokens := toks; v_data := v |} vs1 end in
      Ok (IOk v, vs2)
    end
  | AVariable name =>
    Ok (IOk (match assoc name vs with Some vi => v_data vi | None => ANone end), vs)
  | AItem _ => Ok (IOk a, vs)
  | AMonth _ => Ok (IOk a, vs)
  | APrefixUnary op e =>
    do x <- execute_ast cfg vs e;
    match x with
    | (IErr m, vs1) => Ok (IErr m, vs1)
    | (IOk v, vs1) =>
      if N.eqb op OP_PLUS then Ok (IOk v, vs1)
      else if N.eqb op OP_MINUS then
        match v with
        | AItem i => Ok (IOk (AItem (unary_minus i)), vs1)
        | _ => Ok (IErr E_SYNTAX, vs1)
        end
      else Ok (IErr E_SYNTAX, vs1)
    end
  | ANone => Ok (IOk ANone, vs)
  | AField _ | ASymbol _ => Ok (IOk ANone, vs)
  end.

End WithNum.
