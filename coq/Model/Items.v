(* DataItem::calculate / unary for the eight item kinds (src/compiler/*.rs) and unit
   conversion (src/compiler/dynamic_type.rs). *)
From SC.Model Require Import Base Num Types Config Chrono.
From SC.Spec Require Import Calendar.
From SC.Gen Require Import RustConsts.

Inductive optype := OAdd | ODiv | OMul | OSub.

Section WithNum.
Context {F : Type} {NF : Num F}.

(* [bexec cfg code] = SmartCalc::basic_execute(code, cfg) : Result<f64, _> as an option;
   it can panic (it runs the lexer) *)
Variable bexec : config F -> str -> res (option F).

Definition arith (op : optype) (l r : F) : F :=
  match op with
  | OAdd => fadd l r
  | ODiv => do_division l r
  | OMul => fmul l r
  | OSub => fsub l r
  end.

Definition rate_of (cfg : config F) (code : str) : option F := assoc code (cf_rates cfg).

(* MoneyItem::convert_currency (money.rs:34-44): [left] converted into currency [self_cur] *)
Definition convert_currency (cfg : config F) (self_cur : str) (left_price : F) (left_cur : str) : F :=
  let as_usd := match rate_of cfg left_cur with
                | Some l_rate => do_division left_price l_rate
                | None => f0 end in
  match rate_of cfg self_cur with
  | Some r_rate => fmul as_usd r_rate
  | None => f0
  end.

(* DurationItem::get_high_duration_number (duration.rs:52-76) *)
Definition high_duration_number (secs : Z) : Z :=
  let d := Z.abs secs in
  if YEAR <=? d then d / YEAR
  else if MONTH <=? d then (d / MONTH) mod 30
  else if DAY <=? d then d / DAY
  else if HOUR <=? d then (d / HOUR) mod 24
  else if MINUTE <=? d then (d / MINUTE) mod 60
  else d.

(* DurationItem::as_time (duration.rs:78-100): seconds from midnight of the NaiveTime built;
   from_hms cannot fail here since the three parts are reduced *)
Definition duration_as_time (secs : Z) : Z :=
  let d := Z.abs secs in
  let '(hours, d) := if HOUR <=? d then ((d / HOUR) mod 24, d mod HOUR) else (0, d) in
  let '(minutes, d) := if MINUTE <=? d then ((d / MINUTE) mod 60, d mod MINUTE) else (0, d) in
  hours * 3600 + minutes * 60 + d.

(* ---- unit conversion ---- *)
Definition SITE_NAMES0 : N := 2101.     (* self.1.names[0] on an empty names list *)
Definition SITE_USIZE_UNDERFLOW : N := 2102. (* search_index - 1 at 0 (dev profile) *)

(* calculate_unit (dynamic_type.rs:33-78) *)
Fixpoint unit_loop (fuel : nat) (cfg : config F) (group : list (N * dyntype F)) (upgrade : bool)
         (target_index : N) (number : F) (next_item : dyntype F) (search_index : Z) : res (option F) :=
  match fuel with
  | O => Ok None       (* excluded: fuel = distance + 1, see calculate_unit *)
  | S f =>
    let code := if upgrade then dt_up next_item else dt_down next_item in
    do r <- bexec cfg (replace_all (s "{value}") (fdisplay number) code);
    match r with
    | None => Ok None
    | Some number' =>
      match nassoc (Z.to_N search_index) group with
      | None => Ok None
      | Some next' =>
        if N.eqb (dt_index next') target_index then Ok (Some number')
        else if negb upgrade && (search_index =? 0) then Panic SITE_USIZE_UNDERFLOW  (* 0usize - 1: keys differ from indices *)
        else unit_loop f cfg group upgrade target_index number' next'
                       (if upgrade then search_index + 1 else search_index - 1)
      end
    end
  end.

Definition calculate_unit (cfg : config F) (number : F) (src tgt : dyntype F) (group : list (N * dyntype F)) : res (option F) :=
  if N.eqb (dt_index src) (dt_index tgt) then Ok (Some number)
  else
    match nassoc (dt_index src) group with
    | None => Ok None
    | Some next_item =>
      let upgrade := negb (N.ltb (dt_index tgt) (dt_index src)) in
      (* source.index - 1 cannot underflow here: source.index > target.index >= 0 *)
      let search := if upgrade then Z.of_N (dt_index src) + 1 else Z.of_N (dt_index src) - 1 in
      let dist := Z.to_nat (Z.abs (Z.of_N (dt_index src) - Z.of_N (dt_index tgt))) in
      unit_loop (S dist) cfg group upgrade (dt_index tgt) number next_item search
    end.

Definition find_by_name (name : str) (l : list (dyntype F)) : option (dyntype F) :=
  List.find (fun d => mem_str name (dt_names d)) l.

Definition uref (d : dyntype F) : unitref := {| u_group := dt_group d; u_index := dt_index d |}.

(* DynamicTypeItem::convert (dynamic_type.rs:80-141) *)
Definition dyn_convert (cfg : config F) (number : F) (src : dyntype F) (target_name : str) : res (option (F * dyntype F)) :=
  match assoc (dt_group src) (cf_types cfg) with
  | None => Ok None
  | Some group =>
    match find_by_name target_name (map snd group) with
    | Some target =>
      if N.eqb (dt_index src) (dt_index target) then Ok (Some (number, src))
      else
        do r <- calculate_unit cfg number src target group;
        Ok (option_map (fun x => (x, target)) r)
    | None =>
      match List.find (fun tc => str_eqb (tc_src_name tc) (dt_group src) || str_eqb (tc_tgt_name tc) (dt_group src)) (cf_type_conv cfg) with
      | None => Ok None
      | Some tc =>
        let is_src := str_eqb (tc_src_name tc) (dt_group src) in
        let '(source_index, target_index) :=
            if is_src then (tc_src_index tc, tc_tgt_index tc) else (tc_tgt_index tc, tc_src_index tc) in
        match nassoc source_index group with
        | None => Ok None
        | Some bridge =>
          do r1 <- calculate_unit cfg number src bridge group;
          match r1 with
          | None => Ok None
          | Some n1 =>
            let code := if is_src then tc_to_source tc else tc_to_target tc in
            do r2 <- bexec cfg (replace_all (s "{value}") (fdisplay n1) code);
            match r2 with
            | None => Ok None
            | Some n2 =>
              (* only the family on the other side of the conversion entry can hold the target *)
              let other := if is_src then tc_tgt_name tc else tc_src_name tc in
              match assoc other (cf_types cfg) with
              | None => Ok None
              | Some g =>
                match find_by_name target_name (map snd g) with
                | Some tgt =>
                  match nassoc target_index g with
                  | None => Ok None
                  | Some src2 =>
                    do r3 <- calculate_unit cfg n2 src2 tgt g;
                    Ok (option_map (fun x => (x, tgt)) r3)
                  end
                | None => Ok None
                end
              end
            end
          end
        end
      end
    end
  end.

(* ---- calculate (on_left is always true: compiler/mod.rs:103-106) ---- *)
Definition percent_of (base p : F) : F := fmul (do_division base f100) p.   (* PercentItem::get_number *)

Definition SITE_YEAR_I32 : N := 2103.

(* DateItem::calculate (date.rs:54-116): from_ymd_opt / checked_add_signed, None when the
   target date does not exist *)
Definition ymd_opt (y m d : Z) : option Z := date_of_ymd_opt y m d.
Definition date_add_opt (n secs : Z) : option Z :=
  let r := n + Z.quot secs 86400 in
  if (MIN_DAY <=? r) && (r <=? MAX_DAY) then Some r else None.

Definition date_calc (days : Z) (dur0 : Z) (op0 : optype) : res (option Z) :=
  (* a negative duration swaps the operation and is applied with its absolute value *)
  let '(dur, op) := if dur0 <? 0
                    then (- dur0, match op0 with OAdd => OSub | OSub => OAdd | o => o end)
                    else (dur0, op0) in
  let years_n := Z.abs dur / YEAR in
  match op with
  | OAdd =>
    Ok (option_bind
          (if years_n =? 0 then Some (days, dur)
           else option_map (fun d' => (d', dur - YEAR * years_n))
                           (ymd_opt (year_of days + years_n) (month_of days) (day_of days)))
          (fun st1 =>
             let '(date, dur) := st1 in
             let months_n := Z.abs dur / MONTH in
             option_bind
               (if months_n =? 0 then Some (date, dur)
                else
                  let total := month_of date - 1 + months_n in        (* month0() + n *)
                  option_map (fun d' => (d', dur - MONTH * months_n))
                             (ymd_opt (year_of date + total / 12) (total mod 12 + 1) (day_of date)))
               (fun st2 => let '(date, dur) := st2 in date_add_opt date dur)))
  | OSub =>
    Ok (option_bind
          (if years_n =? 0 then Some (days, dur)
           else option_map (fun d' => (d', dur - YEAR * years_n))
                           (ymd_opt (year_of days - years_n) (month_of days) (day_of days)))
          (fun st1 =>
             let '(date, dur) := st1 in
             let months_n := Z.abs dur / MONTH in
             option_bind
               (if months_n =? 0 then Some (date, dur)
                else
                  let years := year_of date - Z.quot months_n 12 in
                  let months := month_of date - Z.rem months_n 12 in
                  let months := if months <=? 0 then months + 12 else months in
                  option_map (fun d' => (d', dur - MONTH * months_n))
                             (ymd_opt years months (day_of date)))
               (fun st2 => let '(date, dur) := st2 in date_add_opt date (- dur))))
  | _ => Ok None
  end.

Definition calculate (cfg : config F) (l r : item F) (op : optype) : res (option (item F)) :=
  match l with
  | INumber x nt =>
    match r with
    | INumber y _ => Ok (Some (INumber (arith op x y) nt))
    | IPercent p => Ok (Some (INumber (arith op x (percent_of x p)) nt))
    | _ => Ok None
    end
  | IPercent x =>
    match r with
    | IPercent y =>
      Ok (Some (IPercent (match op with OAdd => fadd x y | ODiv => fdiv x y | OMul => fmul x y | OSub => fsub x y end)))
    | _ => Ok None
    end
  | IMoney x cur =>
    let fin (other : F) (is_money : bool) :=
        match op with
        | ODiv => let d := do_division x other in
                  if is_money then INumber d Decimal else IMoney d cur
        | _ => IMoney (arith op x other) cur
        end in
    match r with
    | INumber y _ => Ok (Some (fin y false))
    | IMoney y cur' => Ok (Some (fin (convert_currency cfg cur y cur') true))
    | IPercent p => Ok (Some (fin (percent_of x p) false))
    | IDuration d => Ok (Some (fin (fofZ (high_duration_number d)) false))
    | _ => Ok None
    end
  | ITime t tz =>
    let go (right_secs : Z) (negative : bool) :=
        if negative then do r <- dt_sub t right_secs; Ok (Some (ITime r tz))
        else match op with
             | OAdd => do r <- dt_add t right_secs; Ok (Some (ITime r tz))
             | OSub => do r <- dt_sub t right_secs; Ok (Some (ITime r tz))
             | _ => Ok None
             end in
    match r with
    | IDuration d => go (duration_as_time d) (d <? 0)
    | ITime t' _ => go (secs_of_day t') false
    | _ => Ok None
    end
  | IDuration d =>
    match r with
    | IDuration d' =>
      match op with
      | OAdd => Ok (if dur_ok (d + d') then Some (IDuration (d + d')) else None)
      | OSub => Ok (if dur_ok (d - d') then Some (IDuration (d - d')) else None)
      | _ => Ok None
      end
    | _ => Ok None
    end
  | IDate days tz =>
    match r with
    | IDuration d => do r <- date_calc days d op; Ok (option_map (fun n => IDate n tz) r)
    | _ => Ok None
    end
  | IDateTime t tz =>
    match r with
    | IDuration d =>
      match op with
      | OAdd => Ok (if dt_ok (t + d) then Some (IDateTime (t + d) tz) else None)
      | OSub => Ok (if dt_ok (t - d) then Some (IDateTime (t - d) tz) else None)
      | _ => Ok None
      end
    | _ => Ok None
    end
  | IDynamicType x u =>
    let fin (other : F) (same : bool) :=
        match op with
        | ODiv => let d := do_division x other in
                  if same then INumber d Decimal else IDynamicType d u
        | _ => IDynamicType (arith op x other) u
        end in
    match r with
    | INumber y _ => Ok (Some (fin y false))
    | IDynamicType y u' =>
      match unit_of cfg u, unit_of cfg u' with
      | Some du, Some du' =>
        match dt_names du with
        | [] => Ok None                         (* names.first()? *)
        | name0 :: _ =>
          do c <- dyn_convert cfg y du' name0;
          match c with
          | Some (y', _) => Ok (Some (fin y' true))
          | None => Ok None
          end
        end
      | _, _ => Ok None       (* unreachable: unit references always resolve *)
      end
    | IPercent p => Ok (Some (fin (fmul (do_division x f100) p) true))
    | _ => Ok None
    end
  end.

(* DataItem::unary(Minus): -1.0 * x for numeric kinds, identity for the others *)
Definition unary_minus (i : item F) : item F :=
  match i with
  | INumber x nt => INumber (fmul fm1 x) nt
  | IPercent x => IPercent (fmul fm1 x)
  | IMoney x c => IMoney (fmul fm1 x) c
  | IDynamicType x u => IDynamicType (fmul fm1 x) u
  | other => other
  end.

Definition underlying_number (i : item F) : F :=
  match i with
  | INumber x _ | IPercent x | IMoney x _ | IDynamicType x _ => x
  | IDuration d => fofZ d
  | ITime _ _ => f0             (* nanosecond() = 0 *)
  | IDate _ _ | IDateTime _ _ => f0
  end.

End WithNum.
