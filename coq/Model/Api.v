(* The pipeline and the public API: Tokinizer::tokinize, SmartCalc::execute_text / execute /
   basic_execute / execute_session, Session, config loading and the mutators
   (src/smartcalc.rs, src/session.rs, src/config.rs, src/tokinizer/mod.rs:117-152). *)
From SC.Model Require Import Base Num Types Config Case Chrono UiTokens Rx Post Parser Items Interp
     RuleFns Rules Format Lexer.
From SC.Gen Require Import RustConsts ConfigData.

Section WithNum.
Context {F : Type} {NF : Num F}.
Variable lx : lexdata.

(* the clock: Utc::today() as a day number and the current year *)
Record clock := { ck_today : Z; ck_year : Z }.
Variable ck : clock.

Definition SITE_OUT_OF_FUEL : N := 9999.     (* the model's own fuel ran out (corresponds to a hang) *)

Definition unfuel {A} (x : res (option A)) : res A :=
  match x with
  | Ok (Some a) => Ok a
  | Ok None => Panic SITE_OUT_OF_FUEL
  | Panic s => Panic s
  end.

(* ---------- basic_execute (smartcalc.rs:335-389) ---------- *)
Definition no_bexec : config F -> str -> res (option F) := fun _ _ => Ok None.

Fixpoint split_lines (x : str) (cur : str) : list str :=
  match x with
  | [] => [rev cur]
  | 13%N :: 10%N :: r => rev cur :: split_lines r []
  | 10%N :: r => rev cur :: split_lines r []
  | c :: r => split_lines r (c :: cur)
  end.

Definition basic_execute (cfg : config F) (data : str) : res (option F) :=
  match split_lines data [] with
  | [line] =>
    match line with
    | [] => Ok None
    | _ =>
      (* the tokenizer reads numbers with '.' and no grouping (smartcalc.rs:360-362) *)
      let cfgn := set_fmt cfg (cf_money cfg) (cf_number cfg) (cf_percent cfg) [46%N] [] (cf_tz cfg) in
      do st1 <- regex_tokinizer lx (ck_today ck) cfgn (s "en") line empty_state;
      do st2 <- alias_tokinizer lx (ck_today ck) cfgn (s "en") st1;
      match ts_infos st2 with
      | [] => Ok None
      | infos =>
        let tokens := token_generator infos in
        match parse tokens [] with
        | (PAst a, vs) =>
          do r <- execute_ast no_bexec cfg vs a;
          match r with
          | (IOk (AItem i), _) => Ok (Some (underlying_number i))
          | _ => Ok None
          end
        | (PErr _, _) => Ok None
        | (PFuel, _) => Panic SITE_OUT_OF_FUEL
        end
      end
    end
  | _ => Ok None
  end.

(* ---------- Tokinizer::tokinize + execute_text ---------- *)
Inductive line_result :=
| LErr (msg : str)
| LOk (output : str) (a : ast F).

Record line_obs := {
  lo_result : line_result;
  lo_ui : list uitoken;
  lo_tokens : list (token F);
  lo_infos : list (token_info F)
}.

Definition loop_fuel (st : @Rules.tstate F) : nat := (2 * length (ts_infos st) + 8)%nat.

Definition tokinize (cfg : config F) (lang : str) (vs : vars F) (line : str)
  : res (@Rules.tstate F * list (token F)) :=
  do st1 <- language_tokinizer lx cfg lang line empty_state;
  do st2 <- regex_tokinizer lx (ck_today ck) cfg lang line st1;
  do st3 <- alias_tokinizer lx (ck_today ck) cfg lang st2;
  do st4 <- unfuel (update_token_variables line vs st3);
  do st5 <- unfuel (dyn_loop (loop_fuel st4) line cfg vs st4);
  do st6 <- unfuel (rule_tokinizer basic_execute (ck_year ck) (loop_fuel st5) line cfg lang vs st5);
  let tokens := token_generator (ts_infos st6) in
  let tokens := token_cleaner (ts_infos st6) tokens in
  let tokens := missing_token_adder tokens in
  Ok (st6, tokens).

Definition execute_text (cfg : config F) (lang : str) (vs : vars F) (line : str)
  : res (option line_obs * vars F) :=
  match line with
  | [] => Ok (None, vs)
  | _ =>
    do tk <- tokinize cfg lang vs line;
    let '(st, tokens) := tk in
    match ts_infos st with
    | [] => Ok (None, vs)
    | infos =>
      match parse tokens vs with
      | (PFuel, _) => Panic SITE_OUT_OF_FUEL
      | (PErr m, vs1) =>
        Ok (Some {| lo_result := LErr m; lo_ui := ts_ui st; lo_tokens := tokens; lo_infos := infos |}, vs1)
      | (PAst a, vs1) =>
        do r <- execute_ast basic_execute cfg vs1 a;
        match r with
        | (IErr m, vs2) =>
          Ok (Some {| lo_result := LErr m; lo_ui := ts_ui st; lo_tokens := tokens; lo_infos := infos |}, vs2)
        | (IOk v, vs2) =>
          do out <- format_result cfg lang (ck_year ck) v;
          Ok (Some {| lo_result := LOk out v; lo_ui := ts_ui st; lo_tokens := tokens; lo_infos := infos |}, vs2)
        end
      end
    end
  end.

(* ---------- Session ---------- *)
Record session := {
  se_parts : list str;
  se_position : nat;
  se_language : str;
  se_vars : vars F
}.

Definition new_session : session :=
  {| se_parts := []; se_position := O; se_language := []; se_vars := [] |}.

(* Session::set_text (session.rs:41-49): the cursor is rewound *)
Definition set_text (se : session) (text : str) : session :=
  {| se_parts := split_lines text []; se_position := O;
     se_language := se_language se; se_vars := se_vars se |}.

Definition set_language (se : session) (lang : str) : session :=
  {| se_parts := se_parts se; se_position := se_position se; se_language := lang; se_vars := se_vars se |}.

Record exec_result := { er_status : bool; er_lines : list (option line_obs) }.

(* execute_session (smartcalc.rs:391-407) *)
Fixpoint session_loop (fuel : nat) (cfg : config F) (se : session) (acc : list (option line_obs))
  : res (session * list (option line_obs)) :=
  match fuel with
  | O => Panic SITE_OUT_OF_FUEL
  | S f =>
    match nth_opt (se_parts se) (se_position se) with
    | None => Panic 2601%N               (* current_line(): index out of bounds; unreachable after has_value *)
    | Some line =>
      do r <- execute_text cfg (se_language se) (se_vars se) line;
      let '(obs, vs') := r in
      let acc' := acc ++ [obs] in
      if Nat.ltb (S (se_position se)) (length (se_parts se)) then
        session_loop f cfg {| se_parts := se_parts se; se_position := S (se_position se);
                              se_language := se_language se; se_vars := vs' |} acc'
      else
        Ok ({| se_parts := se_parts se; se_position := se_position se;
               se_language := se_language se; se_vars := vs' |}, acc')
    end
  end.

Definition execute_session (cfg : config F) (se : session) : res (session * exec_result) :=
  if Nat.ltb (se_position se) (length (se_parts se)) then
    do r <- session_loop (S (length (se_parts se))) cfg se [];
    Ok (fst r, {| er_status := true; er_lines := snd r |})
  else Ok (se, {| er_status := false; er_lines := [] |}).

(* SmartCalc::execute (smartcalc.rs:326-333) *)
Definition execute (cfg : config F) (lang : str) (text : str) : res exec_result :=
  do r <- execute_session cfg (set_language (set_text new_session text) lang);
  Ok (snd r).

(* ---------- loading ---------- *)
Definition tokenise_patterns (cfg : config F) (lang : str) (pats : list str) : res (list (list (token_info F))) :=
  mapM (token_infos lx (ck_today ck) cfg lang) pats.

Definition base_config : config F :=
  {| cf_currency := d_currency;
     cf_currency_alias := d_currency_alias;
     cf_rates := d_rates;
     cf_timezones := d_timezones;
     cf_word_group := d_word_group;
     cf_constant_pair := d_constant_pair;
     cf_rules := [];
     cf_types := [];
     cf_type_conv := [];
     cf_months := d_months;
     cf_format := d_format;
     cf_type_group := d_type_group;
     cf_money := {| nc_digits := 0%N; nc_rm := fst MONEY_CFG; nc_round := snd MONEY_CFG |};
     cf_number := {| nc_digits := fst (fst NUMBER_CFG); nc_rm := snd (fst NUMBER_CFG); nc_round := snd NUMBER_CFG |};
     cf_percent := {| nc_digits := fst (fst PERCENT_CFG); nc_rm := snd (fst PERCENT_CFG); nc_round := snd PERCENT_CFG |};
     cf_dsep := DEFAULT_DSEP;
     cf_tsep := DEFAULT_TSEP;
     cf_tz := {| tz_name := DEFAULT_TZ; tz_off := DEFAULT_TZ_OFFSET |} |}.

(* RULE_FUNCTIONS: only rules whose name is a known function are installed *)
Definition RULE_NAMES : list str :=
  map s ["percent_calculator"; "convert_timezone"; "time_with_timezone"; "to_unixtime"; "from_unixtime";
         "convert_money"; "number_on"; "number_of"; "number_off"; "division_cleanup"; "duration_parse";
         "as_duration"; "to_duration"; "at_date"; "combine_durations"; "find_numbers_percent";
         "find_total_from_percent"; "number_type_convert"; "dynamic_type_convert"]%string.

Fixpoint load_lang_rules (cfg : config F) (lang : str) (rules : list (str * list str)) : res (list (rule F)) :=
  match rules with
  | [] => Ok []
  | (name, pats) :: r =>
    if mem_str name RULE_NAMES then
      do ps <- tokenise_patterns cfg lang pats;
      do rest <- load_lang_rules cfg lang r;
      Ok (RInternal name ps :: rest)
    else load_lang_rules cfg lang r
  end.

Fixpoint load_rules (cfg : config F) (l : list (str * list (str * list str))) : res (list (str * list (rule F))) :=
  match l with
  | [] => Ok []
  | (lang, rules) :: r =>
    do rs <- load_lang_rules cfg lang rules;
    do rest <- load_rules cfg r;
    Ok ((lang, rs) :: rest)
  end.

Definition raw_item := (N * str * list str * str * str * list str * option N * option bool * option bool * str)%type.

Fixpoint ninsert {A} (k : N) (v : A) (l : list (N * A)) : list (N * A) :=
  match l with
  | [] => [(k, v)]
  | (k', v') :: r => if N.eqb k k' then (k, v) :: r else if N.ltb k k' then (k, v) :: l else (k', v') :: ninsert k v r
  end.

Definition load_item (cfg : config F) (it : raw_item) : res (dyntype F) :=
  let '(index, format, parse, up, down, names, digits, rnd, rm, group) := it in
  do ps <- tokenise_patterns cfg (s "en") parse;
  Ok {| dt_group := group; dt_index := index; dt_format := format; dt_parse := ps; dt_up := up; dt_down := down;
        dt_names := names; dt_digits := digits; dt_round := rnd; dt_rm := rm |}.

Fixpoint load_items (cfg : config F) (items : list raw_item) (acc : list (N * dyntype F)) : res (list (N * dyntype F)) :=
  match items with
  | [] => Ok acc
  | it :: r => do d <- load_item cfg it; load_items cfg r (ninsert (dt_index d) d acc)
  end.

Fixpoint load_types (cfg : config F) (l : list (str * list raw_item)) (acc : list (str * list (N * dyntype F)))
  : res (list (str * list (N * dyntype F))) :=
  match l with
  | [] => Ok acc
  | (name, items) :: r => do g <- load_items cfg items []; load_types cfg r (assoc_insert name g acc)
  end.

Definition conv_ok (types : list (str * list (N * dyntype F))) (tc : type_conv) : bool :=
  let has name idx := match assoc name types with
                      | Some g => match nassoc idx g with Some _ => true | None => false end
                      | None => false end in
  has (tc_src_name tc) (tc_src_index tc) && has (tc_tgt_name tc) (tc_tgt_index tc).

(* SmartCalc::set_date_rule (smartcalc.rs:153-184): replaces the small_date rule of a language *)
Definition is_small_date (r : rule F) : bool :=
  match r with RInternal n _ => str_eqb n (s "small_date") | _ => false end.

Fixpoint assoc_update {A} (k : str) (f : A -> A) (l : list (str * A)) : list (str * A) :=
  match l with
  | [] => []
  | (k', v) :: r => if str_eqb k k' then (k', f v) :: r else (k', v) :: assoc_update k f r
  end.

Definition set_date_rule (cfg : config F) (lang : str) (pats : list str) : res (config F) :=
  do ps0 <- tokenise_patterns cfg lang pats;
  let ps := filter (fun p : list (token_info F) => match p with [] => false | _ => true end) ps0 in   (* empty patterns are ignored *)
  Ok (set_rules cfg (assoc_update lang (fun rules => filter (fun r => negb (is_small_date r)) rules
                                                            ++ [RInternal (s "small_date") ps]) (cf_rules cfg))).

(* SmartCalcConfig::load_from_json followed by SmartCalc::default's date rules *)
Definition load_config : res (config F) :=
  let c0 := base_config in
  do rules <- load_rules c0 d_rule_texts;
  let c1 := set_rules c0 rules in
  do types <- load_types c1 d_types_raw [];
  let c2 := set_types c1 types in
  let c3 := {| cf_currency := cf_currency c2; cf_currency_alias := cf_currency_alias c2; cf_rates := cf_rates c2;
               cf_timezones := cf_timezones c2; cf_word_group := cf_word_group c2;
               cf_constant_pair := cf_constant_pair c2; cf_rules := cf_rules c2; cf_types := cf_types c2;
               cf_type_conv := filter (conv_ok types) d_type_conv; cf_months := cf_months c2;
               cf_format := cf_format c2; cf_type_group := cf_type_group c2; cf_money := cf_money c2;
               cf_number := cf_number c2; cf_percent := cf_percent c2; cf_dsep := cf_dsep c2;
               cf_tsep := cf_tsep c2; cf_tz := cf_tz c2 |} in
  (fix go (l : list (str * list str)) (c : config F) : res (config F) :=
     match l with
     | [] => Ok c
     | (lang, pats) :: r => do c' <- set_date_rule c lang pats; go r c'
     end) DATE_RULES c3.

End WithNum.
