(* Post-processing of the token list (src/tokinizer/mod.rs:185-260). *)
From SC.Model Require Import Base Num Types.

Section WithNum.
Context {F : Type} {NF : Num F}.

Definition is_op (c : N) (t : token F) : bool :=
  match t with TOperator c' => N.eqb c c' | _ => false end.
Definition is_any_op (t : token F) : bool :=
  match t with TOperator _ => true | _ => false end.
Definition is_text (t : token F) : bool :=
  match t with TText _ => true | _ => false end.

Definition OP_EQ : N := 61.   (* '=' *)
Definition OP_LP : N := 40.   (* '(' *)
Definition OP_RP : N := 41.   (* ')' *)
Definition OP_PLUS : N := 43.
Definition OP_MINUS : N := 45.
Definition OP_MUL : N := 42.
Definition OP_DIV : N := 47.
Definition OP_MOD : N := 37.

(* token_generator: types of the Active, typed token_infos, in order *)
Definition token_generator (infos : list (token_info F)) : list (token F) :=
  flat_map (fun ti => if ti_active ti then match ti_ty ti with Some t => [t] | None => [] end else []) infos.

(* token_cleaner (mod.rs:199-216): the index of the first '=' is looked up in token_infos
   (all of them, Removed ones included) but applied to tokens *)
Definition info_is_eq (ti : token_info F) : bool :=
  match ti_ty ti with Some (TOperator c) => N.eqb c OP_EQ | _ => false end.

Definition token_cleaner (infos : list (token_info F)) (tokens : list (token F)) : list (token F) :=
  let index := match find_index info_is_eq infos with Some i => S i | None => O end in
  firstn index tokens ++ filter (fun t => negb (is_text t)) (skipn index tokens).

(* missing_token_adder (tokinizer/mod.rs:218-268): the scan starts after the first '='; '+' is
   inserted between two adjacent operands (a value or ')' followed by a value or '('), and 0 in
   front of an operator that starts an expression (scan start or directly after '(') *)
Fixpoint add_missing (ts : list (token F)) (expression_start operator_required : bool) : list (token F) :=
  match ts with
  | [] => []
  | t :: r =>
    if is_op OP_LP t then
      (if operator_required then [TOperator OP_PLUS] else []) ++ t :: add_missing r true false
    else if is_op OP_RP t then t :: add_missing r false true
    else if is_any_op t then
      (if expression_start then [TNumber f0 Decimal] else []) ++ t :: add_missing r false false
    else
      (if operator_required then [TOperator OP_PLUS] else []) ++ t :: add_missing r false true
  end.

Definition missing_token_adder (tokens : list (token F)) : list (token F) :=
  let index := match find_index (is_op OP_EQ) tokens with Some i => S i | None => O end in
  firstn index tokens ++ add_missing (skipn index tokens) true false.

End WithNum.
