(* The model instantiated at binary64 with the regenerated data: what the correspondence
   check executes. *)
From Coq Require Import Floats.
From SC.Model Require Import Base Num NumF64 Types Config UiTokens Rx Lexer Rules Api.
From SC.Gen Require Import Regexes.

Definition LX : lexdata :=
  {| lx_parse := g_parse; lx_alias := g_alias; lx_lang_alias := g_lang_alias; lx_months := g_months |}.

(* loading does not depend on the clock (no rule pattern contains a date word) *)
Definition CK0 : clock := {| ck_today := 0; ck_year := 1970 |}.

Definition default_config_res : res (config float) := Eval vm_compute in load_config LX CK0.

Definition default_config : config float :=
  match default_config_res with Ok c => c | Panic _ => base_config end.

Definition exec64 (ck : clock) (cfg : config float) (lang text : str) := execute LX ck cfg lang text.
