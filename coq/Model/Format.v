(* Formatting (src/formatter/mod.rs) and DataItem::print (src/compiler/*.rs). *)
From SC.Model Require Import Base Num Types Config Case Chrono Parser.
From SC.Spec Require Import Calendar.
From SC.Gen Require Import RustConsts.

Section WithNum.
Context {F : Type} {NF : Num F}.

Definition ffract (x : F) : F := fsub x (ftrunc x).
Definition f10 : F := fofZ 10.
Definition feps4 : F := fdec 1 4.            (* 1e-4 *)

(* fract_information (formatter/mod.rs:25-36): only `> 0` of the result is ever used.
   Both loops are bounded by fuel; exhaustion is reported as None and excluded by
   Proofs (binary64: at most ~330 iterations each). *)
Definition near_int (f : F) : bool := fleb (fabs (fsub (fround f) f)) feps4.

Fixpoint fi_loop1 (fuel : nat) (f : F) : option F :=
  match fuel with
  | O => None
  | S k => if near_int f then fi_loop1 k (fmul f f10) else Some f
  end.
Fixpoint fi_loop2 (fuel : nat) (f : F) : option F :=
  match fuel with
  | O => None
  | S k => if negb (near_int f) then fi_loop2 k (fmul f f10) else Some f
  end.

Definition FI_FUEL : nat := 400.

Definition fract_information (x : F) : option Z :=
  let f := ffract (fabs x) in
  if feqb f f0 then Some 0
  else match fi_loop1 FI_FUEL f with
       | None => None
       | Some f1 => match fi_loop2 FI_FUEL f1 with
                    | None => None
                    | Some f2 => Some (as_u64 (fround f2))
                    end
       end.

Definition SITE_POW_OVERFLOW : N := 2401.     (* 10_u32.pow(decimal_digits) *)
Definition SITE_NTH_UNWRAP : N := 2402.       (* formated_number.chars().nth(index).unwrap() *)
Definition SITE_FI_FUEL : N := 2403.          (* model fuel of fract_information exhausted *)

(* the grouping loop (formatter/mod.rs:57-71) over the first [trunc_size] characters *)
Fixpoint group_loop (digits : str) (index trunc_size dot : nat) (tsep : str) : str :=
  match digits with
  | [] => []
  | c :: r =>
    let dot' := S dot in
    c :: (if negb (Nat.eqb trunc_size (S index)) && Nat.eqb (Nat.modulo dot' 3) 0 then tsep else [])
      ++ group_loop r (S index) trunc_size dot' tsep
  end.

(* 10_f64.powi(n) as compiler-rt's __powidf2 computes it (square and multiply, n >= 0) *)
Fixpoint powi_loop (fuel : nat) (a r : F) (b : N) : F :=
  match fuel with
  | O => r
  | S f =>
    let r' := if N.odd b then fmul r a else r in
    let b' := N.div2 b in
    if N.eqb b' 0 then r' else powi_loop f (fmul a a) r' b'
  end.
Definition powi10 (n : N) : F := powi_loop 10 (fofZ 10) f1 n.

(* format_number (formatter/mod.rs:45-79): the integer part and the zero-fraction test are
   read from the printed digits themselves *)
Definition format_number (number : F) (tsep dsep : str) (digits : N) (rm_zero use_round : bool) : res str :=
  let formated := if use_round then ffixed (fabs number) digits else fdisplay (fabs number) in
  let trunc_size := match find_index (N.eqb 46) formated with Some i => i | None => length formated end in
  let fract_is_zero := forallb (N.eqb 48) (skipn (S trunc_size) formated) in
  let dot0 := (3 - Nat.modulo trunc_size 3)%nat in
  let head := (if fltb number f0 then [45%N] else [])
                ++ group_loop (firstn trunc_size formated) 0 trunc_size dot0 tsep in
  if (negb fract_is_zero || negb rm_zero) && negb (Nat.eqb trunc_size (length formated))
  then Ok (head ++ dsep ++ skipn (S trunc_size) formated)
  else Ok head.

(* ---------- integers in bases ---------- *)
Definition digit_char (upper : bool) (d : Z) : N :=
  if d <? 10 then Z.to_N (48 + d) else Z.to_N ((if upper then 55 else 87) + d).

Fixpoint radix_digits (fuel : nat) (upper : bool) (base n : Z) (acc : str) : str :=
  match fuel with
  | O => acc
  | S f => let acc' := digit_char upper (n mod base) :: acc in
           if n <? base then acc' else radix_digits f upper base (n / base) acc'
  end.

(* {:#b} {:#o} {:#X} of an i64: negative values print their 64-bit two's complement *)
Definition fmt_radix_i64 (prefix : str) (upper : bool) (base : Z) (v : Z) : str :=
  let u := if v <? 0 then v + 2^64 else v in
  prefix ++ radix_digits 70 upper base u [].

Definition pad2 (z : Z) : str := (if z <? 10 then [48%N] else []) ++ Z_to_str z.

Definition hms (secs_in_day : Z) : str :=
  pad2 (secs_in_day / 3600) ++ 58%N :: pad2 ((secs_in_day / 60) mod 60) ++ 58%N :: pad2 (secs_in_day mod 60).

(* ---------- durations ---------- *)
Fixpoint parse_digits (x : str) (acc : Z) : option Z :=
  match x with
  | [] => Some acc
  | c :: r => if (N.leb 48 c && N.leb c 57)%bool then parse_digits r (acc * 10 + Z.of_N c - 48) else None
  end.
(* str::parse::<i64> (range ignored) *)
Definition parse_i64 (x : str) : option Z :=
  match x with
  | [] => None
  | 45%N :: (_ :: _) as r => option_map Z.opp (parse_digits r 0)
  | 43%N :: (_ :: _) as r => parse_digits r 0
  | 45%N :: [] | 43%N :: [] => None
  | _ => parse_digits x 0
  end.

(* DurationItem::duration_formatter (duration.rs:28-50) *)
Definition duration_formatter (fmt : langformat) (placeholder : str) (n : Z) (k : durkind) : str :=
  let emit (f : durformat) := replace_all placeholder (Z_to_str n) (df_format f) ++ [32%N] in
  match List.find (fun f => durkind_eqb (df_kind f) k &&
                            match parse_i64 (trim (df_count f)) with Some c => Z.eqb c n | None => false end)
                  (lf_duration fmt) with
  | Some f => emit f
  | None =>
    match List.find (fun f => durkind_eqb (df_kind f) k &&
                              match parse_i64 (trim (df_count f)) with Some _ => false | None => true end)
                    (lf_duration fmt) with
    | Some f => emit f
    | None => Z_to_str n ++ [32%N]
    end
  end.

Definition lang_format (cfg : config F) (lang : str) : option langformat :=
  match assoc lang (cf_format cfg) with
  | Some f => Some f
  | None => assoc (s "en") (cf_format cfg)
  end.

(* the greedy decomposition of DurationItem::print (duration.rs:153-193): year, month, week,
   day, hour, minute with `>=` tests, then the remaining seconds when positive *)
Definition dur_unit (k : durkind) : Z :=
  match k with
  | DYear => YEAR | DMonth => MONTH | DWeek => WEEK | DDay => DAY
  | DHour => HOUR | DMinute => MINUTE | DSecond => 1
  end.

Definition dur_placeholder (k : durkind) : str :=
  match k with
  | DYear => s "{year}" | DMonth => s "{month}" | DWeek => s "{week}" | DDay => s "{day}"
  | DHour => s "{hour}" | DMinute => s "{minute}" | DSecond => s "{second}"
  end.

Fixpoint dur_parts_from (ks : list durkind) (d : Z) : list (durkind * Z) * Z :=
  match ks with
  | [] => ([], d)
  | k :: r =>
    if dur_unit k <=? d
    then let '(ps, rest) := dur_parts_from r (d mod dur_unit k) in ((k, d / dur_unit k) :: ps, rest)
    else dur_parts_from r d
  end.

Definition dur_parts (secs : Z) : list (durkind * Z) :=
  let '(ps, rest) := dur_parts_from [DYear; DMonth; DWeek; DDay; DHour; DMinute] (Z.abs secs) in
  ps ++ (if 0 <? rest then [(DSecond, rest)] else []).

Definition duration_print (cfg : config F) (lang : str) (secs : Z) : str :=
  match lang_format cfg lang with
  | None => []
  | Some fmt =>
    trim (flat_map (fun p => duration_formatter fmt (dur_placeholder (fst p)) (snd p) (fst p)) (dur_parts secs))
  end.

(* ---------- dates ---------- *)
Definition uppercase_first_letter (x : str) : str :=
  match x with [] => [] | c :: r => upper_char c ++ r end.

Definition SITE_MONTH_U8 : N := 2404.     (* (month - 1) as usize with month = 0: unreachable *)

Definition month_info (cfg : config F) (lang : str) (month : Z) : option monthinfo :=
  match assoc lang (cf_months cfg) with
  | Some l => nth_opt l (Z.to_nat (month - 1))
  | None => None
  end.

Definition rep (k : string) (v : str) (x : str) : str := replace_all (s k) v x.

(* chrono's Display of Date<FixedOffset> / DateTime<FixedOffset>: only reached when the
   language has no month table; modelled as the empty string and excluded by the generators *)
Definition date_print (cfg : config F) (lang : str) (now_year : Z) (days : Z) (tz : tzinfo) : str :=
  match lang_format cfg lang with
  | None => []
  | Some fmt =>
    let '(y, m, d) := civil_from_days days in
    let key := if y =? now_year then s "current_year" else s "full_date" in
    match assoc key (lf_date fmt), month_info cfg (lf_language fmt) m with
    | Some data, Some mi =>
      rep "{timezone}" (tz_name tz)
       (rep "{year}" (Z_to_str y)
        (rep "{month_short}" (uppercase_first_letter (mi_short mi))
         (rep "{month_long}" (uppercase_first_letter (mi_long mi))
          (rep "{month_pad}" (pad2 m)
           (rep "{day_pad}" (pad2 d)
            (rep "{month}" (Z_to_str m)
             (rep "{day}" (Z_to_str d) data)))))))
    | _, _ => s "?chrono-display?"
    end
  end.

Definition datetime_print (cfg : config F) (lang : str) (now_year : Z) (t : Z) (tz : tzinfo) : str :=
  match lang_format cfg lang with
  | None => []
  | Some fmt =>
    let local := t + tz_off tz * 60 in
    let '(y, m, d) := civil_from_days (day_of_dt local) in
    let sod := secs_of_day local in
    let hh := sod / 3600 in let mm := (sod / 60) mod 60 in let ss := sod mod 60 in
    let key := if y =? now_year then s "current_year_with_time" else s "full_date_time" in
    match assoc key (lf_date fmt), month_info cfg (lf_language fmt) m with
    | Some data, Some mi =>
      rep "{timezone}" (tz_name tz)
       (rep "{year}" (Z_to_str y)
        (rep "{month_short}" (uppercase_first_letter (mi_short mi))
         (rep "{month_long}" (uppercase_first_letter (mi_long mi))
          (rep "{month_pad}" (pad2 m)
           (rep "{day_pad}" (pad2 d)
            (rep "{month}" (Z_to_str m)
             (rep "{day}" (Z_to_str d)
              (rep "{hour}" (Z_to_str hh)
               (rep "{minute}" (Z_to_str mm)
                (rep "{second}" (Z_to_str ss)
                 (rep "{hour_pad}" (pad2 hh)
                  (rep "{minute_pad}" (pad2 mm)
                   (rep "{second_pad}" (pad2 ss) data)))))))))))))
    | _, _ => s "?chrono-display?"
    end
  end.

Definition time_print (t : Z) (tz : tzinfo) : str :=
  hms (secs_of_day (t + tz_off tz * 60)) ++ 32%N :: tz_name tz.

(* ---------- DataItem::print ---------- *)
Definition item_print (cfg : config F) (lang : str) (now_year : Z) (i : item F) : res str :=
  match i with
  | INumber x nt =>
    match nt with
    | Decimal => format_number x (cf_tsep cfg) (cf_dsep cfg) (nc_digits (cf_number cfg))
                               (nc_rm (cf_number cfg)) (nc_round (cf_number cfg))
    | Binary => Ok (fmt_radix_i64 (s "0b") false 2 (as_i64 x))
    | Octal => Ok (fmt_radix_i64 (s "0o") false 8 (as_i64 x))
    | Hexadecimal => Ok (fmt_radix_i64 (s "0x") true 16 (as_i64 x))
    | Raw => Ok (Z_to_str (as_i64 x))
    end
  | IPercent x =>
    do r <- format_number x (cf_tsep cfg) (cf_dsep cfg) (nc_digits (cf_percent cfg))
                          (nc_rm (cf_percent cfg)) (nc_round (cf_percent cfg));
    Ok (37%N :: r)
  | IMoney x code =>
    match currency_by_code cfg code with
    | None => Ok []            (* unreachable: money tokens carry configured currencies *)
    | Some c =>
      do p <- format_number x (cf_tsep cfg) (cf_dsep cfg) (c_digits c) (nc_rm (cf_money cfg)) (nc_round (cf_money cfg));
      Ok (match c_left c, c_space c with
          | true, true => c_symbol c ++ 32%N :: p
          | true, false => c_symbol c ++ p
          | false, true => p ++ 32%N :: c_symbol c
          | false, false => p ++ c_symbol c
          end)
    end
  | ITime t tz => Ok (time_print t tz)
  | IDuration d => Ok (duration_print cfg lang d)
  | IDate d tz => Ok (date_print cfg lang now_year d tz)
  | IDateTime t tz => Ok (datetime_print cfg lang now_year t tz)
  | IDynamicType x u =>
    match unit_of cfg u with
    | None => Ok []
    | Some d =>
      let digits := match dt_digits d with Some n => n | None => 2%N end in
      let rm := match dt_rm d with Some b => b | None => true end in
      let rnd := match dt_round d with Some b => b | None => true end in
      do p <- format_number x (cf_tsep cfg) (cf_dsep cfg) digits rm rnd;
      Ok (replace_all (s "{value}") p (dt_format d))
    end
  end.

(* format_result (formatter/mod.rs:98-103) *)
Definition format_result (cfg : config F) (lang : str) (now_year : Z) (a : ast F) : res str :=
  match a with
  | AItem i => item_print cfg lang now_year i
  | _ => Ok []
  end.

End WithNum.
