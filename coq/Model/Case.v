(* str::to_lowercase / to_uppercase / trim, from the tables dumped from the toolchain the
   crate is built with (Gen/UnicodeTables.v).  Limit: the final-sigma rule of
   str::to_lowercase is not modelled (U+03A3 always maps to U+03C3). *)
From SC.Model Require Import Base.
From SC.Gen Require Import UnicodeTables.

Fixpoint nlookup (k : N) (l : list (N * list N)) : option (list N) :=
  match l with
  | [] => None
  | (k', v) :: r => if N.eqb k k' then Some v else if N.ltb k k' then None else nlookup k r
  end.

Definition lower_char (c : N) : list N :=
  if N.ltb c 128 then (if andb (N.leb 65 c) (N.leb c 90) then [c + 32] else [c])%N
  else match nlookup c lower_table with Some v => v | None => [c] end.

Definition upper_char (c : N) : list N :=
  if N.ltb c 128 then (if andb (N.leb 97 c) (N.leb c 122) then [c - 32] else [c])%N
  else match nlookup c upper_table with Some v => v | None => [c] end.

Definition to_lowercase (x : str) : str := flat_map lower_char x.
Definition to_uppercase (x : str) : str := flat_map upper_char x.

Definition is_ws (c : N) : bool := existsb (N.eqb c) ws_table.

Fixpoint trim_start (x : str) : str :=
  match x with
  | c :: r => if is_ws c then trim_start r else x
  | [] => []
  end.
Definition trim_end (x : str) : str := rev (trim_start (rev x)).
Definition trim (x : str) : str := trim_end (trim_start x).

(* case-insensitive comparison as the code writes it: a.to_lowercase() == b.to_lowercase() *)
Definition ci_eqb (a b : str) : bool := str_eqb (to_lowercase a) (to_lowercase b).
