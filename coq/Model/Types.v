(* Data types of the model: one constructor per Rust variant (src/types.rs, src/config.rs,
   src/constants.rs, src/compiler/*.rs). *)
From SC.Model Require Import Base Num.

Inductive numtype := Decimal | Octal | Hexadecimal | Binary | Raw.

Definition numtype_eqb (a b : numtype) : bool :=
  match a, b with
  | Decimal, Decimal | Octal, Octal | Hexadecimal, Hexadecimal | Binary, Binary | Raw, Raw => true
  | _, _ => false
  end.

(* TimeOffset { name, offset (minutes east of UTC) } *)
Record tzinfo := { tz_name : str; tz_off : Z }.
Definition tz_eqb (a b : tzinfo) : bool := str_eqb (tz_name a) (tz_name b) && Z.eqb (tz_off a) (tz_off b).

(* FieldType (types.rs:26-40) *)
Inductive field :=
| FText (name : str) (expected : option str)
| FDateTime (name : str)
| FDate (name : str)
| FTime (name : str)
| FMoney (name : str)
| FPercent (name : str)
| FNumber (name : str)
| FGroup (name : str) (items : list str)
| FTypeGroup (types : list str) (name : str)
| FMonth (name : str)
| FDuration (name : str)
| FTimezone (name : str)
| FDynamicType (name : str) (expected : option str).

Definition field_name (f : field) : str :=
  match f with
  | FText n _ | FDateTime n | FDate n | FTime n | FMoney n | FPercent n | FNumber n
  | FGroup n _ | FTypeGroup _ n | FMonth n | FDuration n | FTimezone n | FDynamicType n _ => n
  end.

(* a unit is identified by (group name, index) into config.types; the Rc<DynamicType> the
   Rust token carries is always the entry stored there (entries are never replaced) *)
Record unitref := { u_group : str; u_index : N }.
Definition unitref_eqb (a b : unitref) : bool :=
  str_eqb (u_group a) (u_group b) && N.eqb (u_index a) (u_index b).

Section WithNum.
Context {F : Type} {NF : Num F}.

(* Naive date-times are seconds since 1970-01-01T00:00:00 (no sub-second part is ever
   produced except by the `now` constant, which the generators avoid); naive dates are
   day numbers since 1970-01-01; chrono::Duration is whole seconds. *)
Inductive token :=
| TNumber (x : F) (t : numtype)
| TText (v : str)
| TTime (secs : Z) (tz : tzinfo)
| TDate (days : Z) (tz : tzinfo)
| TDateTime (secs : Z) (tz : tzinfo)
| TOperator (c : N)
| TField (f : field)
| TPercent (x : F)
| TDynamicType (x : F) (u : unitref)
| TMoney (x : F) (cur : str)              (* currency code as in CurrencyInfo.code *)
| TVariable (name : str)                  (* key into session.variables *)
| TMonth (m : Z)
| TDuration (secs : Z)
| TTimezone (name : str) (off : Z).

(* DataItem implementors *)
Inductive item :=
| INumber (x : F) (t : numtype)
| IPercent (x : F)
| IMoney (x : F) (cur : str)
| ITime (secs : Z) (tz : tzinfo)
| IDuration (secs : Z)
| IDate (days : Z) (tz : tzinfo)
| IDateTime (secs : Z) (tz : tzinfo)
| IDynamicType (x : F) (u : unitref).

(* SmartCalcAstType *)
Inductive ast :=
| ANone
| AField (f : field)
| AItem (i : item)
| AMonth (m : Z)
| ABinary (l : ast) (op : N) (r : ast)
| APrefixUnary (op : N) (a : ast)
| AAssignment (var : str) (toks : list token) (e : ast)   (* variable: Rc<VariableInfo> = key + name tokens *)
| ASymbol (v : str)
| AVariable (name : str).

Record token_info := {
  ti_start : N;
  ti_end : N;
  ti_ty : option token;
  ti_text : str;
  ti_active : bool          (* TokenInfoStatus::Active *)
}.

Definition set_removed (t : token_info) : token_info :=
  {| ti_start := ti_start t; ti_end := ti_end t; ti_ty := ti_ty t; ti_text := ti_text t; ti_active := false |}.
Definition set_type (t : token_info) (ty : option token) : token_info :=
  {| ti_start := ti_start t; ti_end := ti_end t; ti_ty := ty; ti_text := ti_text t; ti_active := ti_active t |}.

(* VariableInfo { tokens, data } *)
Record varinfo := { v_tokens : list token; v_data : ast }.
Definition vars := list (str * varinfo).          (* BTreeMap<String, Rc<VariableInfo>>: sorted by key *)

Definition item_token (i : item) : token :=       (* DataItem::as_token_type *)
  match i with
  | INumber x t => TNumber x t
  | IPercent x => TPercent x
  | IMoney x c => TMoney x c
  | ITime s z => TTime s z
  | IDuration s => TDuration s
  | IDate d z => TDate d z
  | IDateTime s z => TDateTime s z
  | IDynamicType x u => TDynamicType x u
  end.

Definition item_type_name (i : item) : str :=
  match i with
  | INumber _ _ => s "NUMBER"
  | IPercent _ => s "PERCENT"
  | IMoney _ _ => s "MONEY"
  | ITime _ _ => s "TIME"
  | IDuration _ => s "DURATION"
  | IDate _ _ => s "DATE"
  | IDateTime _ _ => s "DATE_TIME"
  | IDynamicType _ _ => s "DYNAMIC_TYPE"
  end.

Definition token_type_name (t : token) : str :=
  match t with
  | TNumber _ _ => s "NUMBER"
  | TText _ => s "TEXT"
  | TTime _ _ => s "TIME"
  | TDate _ _ => s "DATE"
  | TDateTime _ _ => s "DATE_TIME"
  | TOperator _ => s "OPERATOR"
  | TField _ => s "FIELD"
  | TPercent _ => s "PERCENT"
  | TMoney _ _ => s "MONEY"
  | TVariable _ => s "VARIABLE"
  | TMonth _ => s "MONTH"
  | TDuration _ => s "DURATION"
  | TTimezone _ _ => s "TIMEZONE"
  | TDynamicType _ _ => s "DYNAMIC_TYPE"
  end.

(* ---------- configuration ---------- *)
Record currency := {
  c_code : str; c_symbol : str; c_left : bool; c_space : bool; c_digits : N
}.

Record dyntype := {
  dt_group : str; dt_index : N; dt_format : str;
  dt_parse : list (list token_info);
  dt_up : str; dt_down : str; dt_names : list str;
  dt_digits : option N; dt_round : option bool; dt_rm : option bool
}.

Record type_conv := {
  tc_src_name : str; tc_src_index : N; tc_tgt_name : str; tc_tgt_index : N;
  tc_to_source : str; tc_to_target : str
}.

Inductive consttype :=
| CDay | CWeek | CMonth | CYear | CSecond | CMinute | CHour | CToday | CTomorrow | CYesterday | CNow.

Inductive durkind := DSecond | DMinute | DHour | DDay | DWeek | DMonth | DYear.
Definition durkind_eqb (a b : durkind) : bool :=
  match a, b with
  | DSecond, DSecond | DMinute, DMinute | DHour, DHour | DDay, DDay
  | DWeek, DWeek | DMonth, DMonth | DYear, DYear => true
  | _, _ => false
  end.

Record durformat := { df_count : str; df_format : str; df_kind : durkind }.
Record monthinfo := { mi_short : str; mi_long : str; mi_month : Z }.
Record langformat := { lf_duration : list durformat; lf_date : list (str * str); lf_language : str }.

(* API rules come from a closed family implemented identically in the harness (HRule) *)
Inductive rulekind := RDecline | RScale | RSum | RConstMoney | RConstNumber | REcho.
Record apirule := { ar_name : str; ar_kind : rulekind; ar_k : F; ar_cur : str }.

Inductive rule :=
| RInternal (fname : str) (patterns : list (list token_info))
| RApi (patterns : list (list token_info)) (r : apirule).

Record numcfg := { nc_digits : N; nc_rm : bool; nc_round : bool }.

End WithNum.

Arguments token F : clear implicits.
Arguments item F : clear implicits.
Arguments ast F : clear implicits.
Arguments token_info F : clear implicits.
Arguments varinfo F : clear implicits.
Arguments vars F : clear implicits.
Arguments dyntype F : clear implicits.
Arguments apirule F : clear implicits.
Arguments rule F : clear implicits.
