(* UiTokenCollection (src/token/ui_token.rs). *)
From SC.Model Require Import Base.

Inductive uikind :=
| UText | UNumber | USymbol1 | USymbol2 | UDateTime | UOperator | UComment
| UVariableDefination | UVariableUse | UMonth.

Record uitoken := { ui_start : N; ui_end : N; ui_kind : uikind }.

Definition utf8_w (c : N) : N :=
  if N.ltb c 128 then 1 else if N.ltb c 2048 then 2 else if N.ltb c 65536 then 3 else 4.

Fixpoint byte_length (x : str) : N :=
  match x with [] => 0 | c :: r => utf8_w c + byte_length r end.

(* char_sizes[index]: the character index of the character that owns byte [b];
   None when b >= byte length *)
Fixpoint char_of_byte (x : str) (b : N) (idx : N) : option N :=
  match x with
  | [] => None
  | c :: r => if N.ltb b (utf8_w c) then Some idx else char_of_byte r (b - utf8_w c) (idx + 1)
  end.

(* get_position (ui_token.rs:99-113): at the very end of the line the character count *)
Definition get_position (line : str) (b : N) : N :=
  match char_of_byte line b 0 with
  | Some p => p
  | None => if N.eqb (byte_length line) b then N.of_nat (length line) else 0
  end.

(* check_collision (ui_token.rs:115-123): character positions on both sides *)
Definition check_collision (us : list uitoken) (st en : N) : bool :=
  negb (existsb (fun it => N.ltb (ui_start it) en && N.ltb st (ui_end it)) us).

(* add_from_regex_match for Some(match) with byte span [st, en) *)
Definition ui_add (line : str) (us : list uitoken) (st en : N) (k : uikind) : list uitoken :=
  let s0 := get_position line st in
  let e0 := get_position line en in
  if N.ltb s0 e0 && check_collision us s0 e0
  then us ++ [{| ui_start := s0; ui_end := e0; ui_kind := k |}]
  else us.

Definition ui_add_opt (line : str) (us : list uitoken) (m : option (N * N)) (k : uikind) : list uitoken :=
  match m with Some (st, en) => ui_add line us st en k | None => us end.

(* stable sort by start (slice::sort_by is stable) *)
Fixpoint ui_insert_sorted (t : uitoken) (l : list uitoken) : list uitoken :=
  match l with
  | [] => [t]
  | x :: r => if N.ltb (ui_start t) (ui_start x) then t :: l else x :: ui_insert_sorted t r
  end.
Definition ui_sort (l : list uitoken) : list uitoken :=
  fold_left (fun acc t => ui_insert_sorted t acc) l [].

(* `index as i8` *)
Definition as_i8 (n : nat) : Z :=
  let z := Z.of_nat n mod 256 in if z <? 128 then z else z - 256.

(* update_tokens (ui_token.rs:126-152); the drain panics when start > end *)
Definition ui_update (line : str) (us : list uitoken) (pst pen : N) (k : uikind) : res (list uitoken) :=
  let s0 := get_position line pst in
  let e0 := get_position line pen in
  match find_index (fun t => N.eqb (ui_start t) s0) us with
  | None => Ok us
  | Some i =>
    let si := as_i8 i in
    if si >? -1 then
      match find_index (fun t => N.eqb (ui_end t) e0) us with
      | None => Ok us
      | Some j =>
        let a := Z.to_nat si in
        if Nat.ltb (S j) a then Panic 1701%N      (* drain(a..j+1) with a > j+1 *)
        else Ok (firstn a us ++ {| ui_start := s0; ui_end := e0; ui_kind := k |} :: skipn (S j) us)
      end
    else Ok us
  end.
