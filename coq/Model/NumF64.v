(* The binary64 instance: Coq primitive floats (IEEE 754 binary64, round to nearest even,
   the arithmetic of Rust's f64) with the conversions of Model/FloatIO.v. *)
From Coq Require Import Floats.
From SC.Model Require Import Base Num FloatIO.

Definition f64_cls (x : float) : fclass :=
  if PrimFloat.is_nan x then FNan
  else if PrimFloat.eqb x infinity then FPosInf
  else if PrimFloat.eqb x neg_infinity then FNegInf
  else FFinite.

Definition f64_truncZ (x : float) : Z :=
  match f64_to_Z_trunc x with Some z => z | None => 0 end.

Definition f64_epsilon : float := Eval vm_compute in f64_of_bits 0x3CB0000000000000.   (* 2^-52 *)

Definition f64_dec (m k : Z) : float := f64_of_decimal (m <? 0) (Z.abs m) (- k).

#[global] Instance NumF64 : Num float := {
  fadd := PrimFloat.add;
  fsub := PrimFloat.sub;
  fmul := PrimFloat.mul;
  fdiv := PrimFloat.div;
  fabs := PrimFloat.abs;
  fofZ := f64_of_Z;
  feqb := PrimFloat.eqb;
  fltb := PrimFloat.ltb;
  fcls := f64_cls;
  ftruncZ := f64_truncZ;
  fround := f64_round;
  ftrunc := f64_trunc;
  fdisplay := f64_to_display;
  ffixed := f64_to_fixed;
  fparse := f64_parse;
  fepsilon := f64_epsilon;
  fdec := f64_dec
}.
