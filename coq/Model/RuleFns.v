(* The rule functions (src/tokinizer/rule_tokinizer/rules/*.rs) and the field accessors
   (src/tokinizer/tools.rs). *)
From SC.Model Require Import Base Num Types Config Case Chrono Items.
From SC.Spec Require Import Calendar.
From SC.Gen Require Import RustConsts.

Section WithNum.
Context {F : Type} {NF : Num F}.
Variable bexec : config F -> str -> res (option F).

Definition fields := list (str * token_info F).       (* BTreeMap<String, Rc<TokenInfo>> *)

Definition has (k : string) (fs : fields) : bool := assoc_mem (s k) fs.

Definition field_token (vs : vars F) (k : str) (fs : fields) : option (token F) :=
  match assoc k fs with Some ti => ti_ty ti | None => None end.

(* the value of a variable as an item, if it is one *)
Definition var_item (vs : vars F) (name : str) : option (item F) :=
  match assoc name vs with
  | Some vi => match v_data vi with AItem i => Some i | _ => None end
  | None => None
  end.

Definition get_number (vs : vars F) (k : str) (fs : fields) : option F :=
  match field_token vs k fs with
  | Some (TNumber x _) => Some x
  | Some (TVariable v) => match var_item vs v with Some (INumber x _) => Some x | _ => None end
  | _ => None
  end.

Definition get_duration (vs : vars F) (k : str) (fs : fields) : option Z :=
  match field_token vs k fs with
  | Some (TDuration d) => Some d
  | Some (TVariable v) => match var_item vs v with Some (IDuration d) => Some d | _ => None end
  | _ => None
  end.

Definition get_time (vs : vars F) (k : str) (fs : fields) : option (Z * tzinfo) :=
  match field_token vs k fs with
  | Some (TTime t z) => Some (t, z)
  | Some (TVariable v) => match var_item vs v with Some (ITime t z) => Some (t, z) | _ => None end
  | _ => None
  end.

Definition get_date (vs : vars F) (k : str) (fs : fields) : option (Z * tzinfo) :=
  match field_token vs k fs with
  | Some (TDate t z) => Some (t, z)
  | Some (TVariable v) => match var_item vs v with Some (IDate t z) => Some (t, z) | _ => None end
  | _ => None
  end.

Definition get_date_time (vs : vars F) (k : str) (fs : fields) : option (Z * tzinfo) :=
  match field_token vs k fs with
  | Some (TDateTime t z) => Some (t, z)
  | Some (TVariable v) => match var_item vs v with Some (IDateTime t z) => Some (t, z) | _ => None end
  | _ => None
  end.

Definition get_text (vs : vars F) (k : str) (fs : fields) : option str :=
  match field_token vs k fs with Some (TText t) => Some t | _ => None end.

Definition get_dynamic_type (vs : vars F) (k : str) (fs : fields) : option (F * unitref) :=
  match field_token vs k fs with
  | Some (TDynamicType x u) => Some (x, u)
  | Some (TVariable v) => match var_item vs v with Some (IDynamicType x u) => Some (x, u) | _ => None end
  | _ => None
  end.

Definition get_timezone (vs : vars F) (k : str) (fs : fields) : option (str * Z) :=
  match field_token vs k fs with Some (TTimezone n o) => Some (n, o) | _ => None end.

Definition get_month (vs : vars F) (k : str) (fs : fields) : option Z :=
  match field_token vs k fs with
  | Some (TMonth m) => Some m
  | Some (TVariable v) =>
    match assoc v vs with
    | Some vi => match v_data vi with AMonth m => Some m | _ => None end
    | None => None
    end
  | _ => None
  end.

Definition get_money (vs : vars F) (k : str) (fs : fields) : option (F * str) :=
  match field_token vs k fs with
  | Some (TMoney x c) => Some (x, c)
  | Some (TVariable v) => match var_item vs v with Some (IMoney x c) => Some (x, c) | _ => None end
  | _ => None
  end.

Definition get_percent (vs : vars F) (k : str) (fs : fields) : option F :=
  match field_token vs k fs with
  | Some (TPercent x) => Some x
  | Some (TVariable v) => match var_item vs v with Some (IPercent x) => Some x | _ => None end
  | _ => None
  end.

(* read_currency (tokinizer/tools.rs:33-38): alias first, then code; returns the code *)
Definition read_currency (cfg : config F) (name : str) : option str :=
  let k := to_lowercase name in
  let key := match assoc k (cf_currency_alias cfg) with
             | Some key => Some key
             | None => if assoc_mem k (cf_currency cfg) then Some k else None
             end in
  match key with
  | Some key => option_map c_code (assoc key (cf_currency cfg))
  | None => None
  end.

Definition get_currency (cfg : config F) (vs : vars F) (k : str) (fs : fields) : option str :=
  match field_token vs k fs with
  | Some (TText t) => read_currency cfg t
  | Some (TMoney _ c) => Some c
  | Some (TVariable v) => match var_item vs v with Some (IMoney _ c) => Some c | _ => None end
  | _ => None
  end.

Definition get_number_or_price (vs : vars F) (k : str) (fs : fields) : option F :=
  match get_number vs k fs with
  | Some x => Some x
  | None => option_map fst (get_money vs k fs)
  end.

Definition get_number_or_month (vs : vars F) (k : str) (fs : fields) : option Z :=
  match get_number vs k fs with
  | Some x => Some (as_u32 x)
  | None => get_month vs k fs
  end.

(* a rule function returns Ok(token) | Err(_) (collapsed to None) and may panic *)
Definition rret := res (option (token F)).
Definition none : rret := Ok None.
Definition some (t : token F) : rret := Ok (Some t).

(* ---------- percent / number rules ---------- *)
Definition percent_calculator (vs : vars F) (fs : fields) : rret :=
  if has "p" fs && has "number" fs then
    match get_number vs (s "number") fs, get_percent vs (s "p") fs with
    | Some n, Some p => some (TNumber (do_division (fmul p n) f100) Decimal)
    | _, _ => none
    end
  else none.

Definition money_or_number (cfg : config F) (vs : vars F) (k : str) (fs : fields) (x : F) : token F :=
  match get_currency cfg vs k fs with
  | Some c => TMoney x c
  | None => TNumber x Decimal
  end.

Definition number_on (cfg : config F) (vs : vars F) (fs : fields) : rret :=
  if has "number" fs && has "p" fs then
    match get_number_or_price vs (s "number") fs, get_percent vs (s "p") fs with
    | Some n, Some p => some (money_or_number cfg vs (s "number") fs (fadd n (do_division (fmul n p) f100)))
    | _, _ => none
    end
  else none.

Definition number_of (cfg : config F) (vs : vars F) (fs : fields) : rret :=
  if has "number" fs && has "p" fs then
    match get_number_or_price vs (s "number") fs, get_percent vs (s "p") fs with
    | Some n, Some p => some (money_or_number cfg vs (s "number") fs (do_division (fmul n p) f100))
    | _, _ => none
    end
  else none.

Definition number_off (cfg : config F) (vs : vars F) (fs : fields) : rret :=
  if has "number" fs && has "p" fs then
    match get_number_or_price vs (s "number") fs, get_percent vs (s "p") fs with
    | Some n, Some p => some (money_or_number cfg vs (s "number") fs (fsub n (do_division (fmul n p) f100)))
    | _, _ => none
    end
  else none.

Definition find_numbers_percent (vs : vars F) (fs : fields) : rret :=
  if has "part" fs && has "total" fs then
    match get_number_or_price vs (s "total") fs, get_number_or_price vs (s "part") fs with
    | Some total, Some part => some (TPercent (do_division (fmul part f100) total))
    | _, _ => none
    end
  else none.

Definition find_total_from_percent (cfg : config F) (vs : vars F) (fs : fields) : rret :=
  if has "number_part" fs && has "percent_part" fs then
    match get_number_or_price vs (s "number_part") fs, get_percent vs (s "percent_part") fs with
    | Some n, Some p => some (money_or_number cfg vs (s "number_part") fs (do_division (fmul n f100) p))
    | _, _ => none
    end
  else none.

Definition number_type_convert (vs : vars F) (fs : fields) : rret :=
  if has "number" fs && has "type" fs then
    match get_number vs (s "number") fs, get_text vs (s "type") fs with
    | Some n, Some t =>
      let n := fround n in
      if str_eqb t (s "hex") || str_eqb t (s "hexadecimal") then some (TNumber n Hexadecimal)
      else if str_eqb t (s "octal") then some (TNumber n Octal)
      else if str_eqb t (s "binary") then some (TNumber n Binary)
      else if str_eqb t (s "decimal") then some (TNumber n Decimal)
      else none
    | _, _ => none
    end
  else none.

Definition division_cleanup (vs : vars F) (fs : fields) : rret :=
  if has "data" fs && has "text" fs then
    match field_token vs (s "data") fs with
    | Some (TNumber x t) => some (TNumber x t)
    | Some (TPercent x) => some (TPercent x)
    | Some (TMoney x c) => some (TMoney x c)
    | Some (TVariable v) => match var_item vs v with Some i => some (item_token i) | None => none end
    | _ => none
    end
  else none.

(* ---------- money ---------- *)
Definition convert_money (cfg : config F) (vs : vars F) (fs : fields) : rret :=
  if has "money" fs && has "currency" fs then
    match get_money vs (s "money") fs, get_currency cfg vs (s "currency") fs with
    | Some (price, cur), Some to_cur =>
      match rate_of cfg cur with
      | Some l_rate =>
        let as_usd := do_division price l_rate in
        match rate_of cfg to_cur with
        | Some r_rate => some (TMoney (fmul as_usd r_rate) to_cur)
        | None => none
        end
      | None => none
      end
    | _, _ => none
    end
  else none.

(* ---------- durations ---------- *)
Definition SITE_LANG_UNWRAP : N := 2201.   (* config.constant_pair.get(&language).unwrap() *)

Definition constant_of (cfg : config F) (lang : str) (word : str) : res (option consttype) :=
  match lang_constants cfg lang with
  | None => Ok None                       (* unknown language: no duration words *)
  | Some m => Ok (assoc word m)
  end.

(* checked_mul / checked_add and the try_* constructors: None when out of range *)
Definition chk_i64 (z : Z) : option Z := if i64_ok z then Some z else None.
Definition try_dur (secs : Z) : option Z := if dur_ok secs then Some secs else None.
Definition try_days (n : Z) : option Z := try_dur (n * 86400).
Definition opt_dur (o : option Z) : rret :=
  match o with Some d => Ok (Some (TDuration d)) | None => Ok None end.

(* the arithmetic of duration_parse (duration_rules.rs:42-68): N units as seconds, None when
   out of the i64 / chrono::Duration range or when the word is not a duration unit *)
Definition duration_of_const (c : consttype) (n : Z) : option Z :=
  match c with
  | CYear => option_bind (chk_i64 (n * 365)) try_days
  | CMonth =>
    let years := Z.quot n 12 in let month := Z.rem n 12 in
    option_bind (option_bind (chk_i64 (years * 365)) (fun d => chk_i64 (d + 30 * month))) try_days
  | CDay =>
    let years := Z.quot n 365 in
    let month := Z.quot (Z.rem n 365) 30 in
    let day := Z.rem (Z.rem n 365) 30 in
    try_days (365 * years + 30 * month + day)
  | CWeek => try_dur (n * 604800)
  | CHour => try_dur (n * 3600)
  | CMinute => try_dur (n * 60)
  | CSecond => try_dur n
  | _ => None
  end.

Definition duration_parse (cfg : config F) (lang : str) (vs : vars F) (fs : fields) : rret :=
  if has "duration" fs && has "type" fs then
    match get_number vs (s "duration") fs with
    | None => none
    | Some x =>
      match get_text vs (s "type") fs with
      | None => none
      | Some ty =>
        do c <- constant_of cfg lang ty;
        match c with
        | None => none
        | Some c => opt_dur (duration_of_const c (as_i64 x))
        end
      end
    end
  else none.

Definition combine_durations (vs : vars F) (fs : fields) : rret :=
  if has "1" fs && has "2" fs then
    (fix go (l : fields) (sum : Z) : rret :=
       match l with
       | [] => some (TDuration sum)
       | (k, _) :: r =>
         match get_duration vs k fs with
         | None => none
         | Some d => match try_dur (sum + d) with Some sum' => go r sum' | None => none end
         end
       end) fs 0
  else none.

(* as_duration on a duration (duration_rules.rs:107-118): whole units, rounded down; the
   constructors cannot overflow because the count is at most the source magnitude *)
Definition duration_as (c : consttype) (d : Z) : option Z :=
  let secs := Z.abs d in
  match c with
  | CDay => Some (secs / DAY * 86400)
  | CSecond => Some secs
  | CMinute => Some (secs / MINUTE * 60)
  | CHour => Some (secs / HOUR * 3600)
  | CWeek => Some (secs / WEEK * 604800)
  | _ => None
  end.

Definition as_duration (cfg : config F) (lang : str) (vs : vars F) (fs : fields) : rret :=
  if has "source" fs && has "type" fs then
    match get_text vs (s "type") fs with
    | None => none
    | Some ty =>
      do c <- constant_of cfg lang ty;
      match c with
      | None => none
      | Some c =>
        match field_token vs (s "source") fs with
        | Some (TDuration d) => opt_dur (duration_as c d)
        | Some (TTime t _) =>
          let secs := secs_of_day t in
          match c with
          | CMonth => do r <- dur_days (secs / MONTH); some (TDuration r)
          | CYear => do r <- dur_days (secs / YEAR); some (TDuration r)
          | CDay => do r <- dur_days (secs / DAY); some (TDuration r)
          | CSecond => do r <- dur_seconds secs; some (TDuration r)
          | CMinute => do r <- dur_minutes (secs / MINUTE); some (TDuration r)
          | CHour => do r <- dur_hours (secs / HOUR); some (TDuration r)
          | CWeek => do r <- dur_weeks (secs / WEEK); some (TDuration r)
          | _ => none
          end
        | _ =>
          (* source is something else (e.g. a variable): falls through to the "duration" field *)
          match get_number vs (s "duration") fs with
          | None => none
          | Some x =>
            let n := as_i64 x in
            match c with
            | CDay => do r <- dur_days n; some (TDuration r)
            | CMonth => do m <- i64_chk (n * 30); do r <- dur_days m; some (TDuration r)
            | CYear => do m <- i64_chk (n * 365); do r <- dur_days m; some (TDuration r)
            | CSecond => do r <- dur_seconds n; some (TDuration r)
            | CMinute => do r <- dur_minutes n; some (TDuration r)
            | CHour => do r <- dur_hours n; some (TDuration r)
            | _ => none
            end
          end
        end
      end
    end
  else none.

Definition to_duration (vs : vars F) (fs : fields) : rret :=
  if has "source" fs && has "target" fs then
    match get_time vs (s "source") fs, get_time vs (s "target") fs with
    | Some (src, _), Some (tgt, _) => some (TDuration (Z.abs (tgt - src)))
    | _, _ =>
      match get_date vs (s "source") fs, get_date vs (s "target") fs with
      | Some (src, _), Some (tgt, _) => some (TDuration (Z.abs (tgt - src) * 86400))
      | _, _ => none
      end
    end
  else none.

(* ---------- dates and times ---------- *)
Variable now_year : Z.        (* Utc::now().date().year() *)
Variable today : Z.           (* Utc::today() as a day number *)

Definition small_date (cfg : config F) (vs : vars F) (fs : fields) : rret :=
  if has "day" fs && has "month" fs then
    match get_number vs (s "day") fs with
    | None => none
    | Some day =>
      match get_number_or_month vs (s "month") fs with
      | None => none
      | Some month =>
        let year := match get_number vs (s "year") fs with
                    | Some y => as_i32 y
                    | None => now_year end in
        match date_of_ymd_opt year month (as_u32 day) with
        | Some d => some (TDate d (get_time_offset cfg))
        | None => none
        end
      end
    end
  else none.

(* get_number_or_time (tools.rs:193-203): NaiveTime::from_hms_opt(number as u32, 0, 0) *)
Definition get_number_or_time (vs : vars F) (k : str) (fs : fields) : res (option Z) :=
  match get_number vs k fs with
  | Some x => let h := as_u32 x in Ok (if h <? 24 then Some (h * 3600) else None)
  | None => Ok (option_map (fun p => secs_of_day (fst p)) (get_time vs k fs))
  end.

Definition at_date (vs : vars F) (fs : fields) : rret :=
  if has "source" fs && has "time" fs then
    match get_date vs (s "source") fs with
    | None => none
    | Some (date, tz) =>
      do t <- get_number_or_time vs (s "time") fs;
      match t with
      | None => none
      | Some secs => some (TDateTime (dt_of date secs) tz)
      end
    end
  else none.

Definition SITE_RULE_UNWRAP : N := 2202.    (* get_time(..).unwrap() / get_timezone(..).unwrap() / get_number(..).unwrap() *)

(* time_with_timezone (date_time_rules.rs:26-47); chrono::Local is the identity (TZ=UTC) *)
Definition time_with_timezone (vs : vars F) (fs : fields) : rret :=
  if has "time" fs && has "timezone" fs then
    match get_time vs (s "time") fs, get_timezone vs (s "timezone") fs with
    | Some (time, cur), Some (tzname, tzoff) =>
      (* wall time in the current offset, re-interpreted as wall time in the target offset *)
      let local := time + tz_off cur * 60 in
      some (TTime (local - tzoff * 60) {| tz_name := to_uppercase tzname; tz_off := tzoff |})
    | _, _ => Panic SITE_RULE_UNWRAP
    end
  else none.

Definition to_unixtime (vs : vars F) (fs : fields) : rret :=
  if has "data" fs then
    let ts := match get_time vs (s "data") fs with
              | Some (t, _) => t
              | None => match get_date vs (s "data") fs with
                        | Some (d, _) => dt_of d 0
                        | None => match get_date_time vs (s "data") fs with
                                  | Some (t, _) => t
                                  | None => 0 end end end in
    some (TNumber (fofZ ts) Raw)
  else none.

Definition from_unixtime (cfg : config F) (vs : vars F) (fs : fields) : rret :=
  if has "number" fs then
    match get_number vs (s "number") fs with
    | None => Panic SITE_RULE_UNWRAP
    | Some x =>
      let t := as_i64 x in
      if negb (dt_ok t) then none else          (* from_timestamp_opt *)
      match get_timezone vs (s "timezone") fs with
      | Some (n, o) => some (TDateTime t {| tz_name := to_uppercase n; tz_off := o |})
      | None => some (TDateTime t (get_time_offset cfg))
      end
    end
  else none.

Definition convert_timezone (vs : vars F) (fs : fields) : rret :=
  if has "time" fs && has "timezone" fs then
    match get_timezone vs (s "timezone") fs with
    | None => Panic SITE_RULE_UNWRAP
    | Some (n, o) =>
      let off := {| tz_name := to_uppercase n; tz_off := o |} in
      match get_time vs (s "time") fs with
      | Some (t, _) => some (TTime t off)
      | None => match get_date vs (s "time") fs with
                | Some (d, _) => some (TDate d off)
                | None => match get_date_time vs (s "time") fs with
                          | Some (t, _) => some (TDateTime t off)
                          | None => none end end
      end
    end
  else none.

(* ---------- units ---------- *)
Definition dynamic_type_convert (cfg : config F) (vs : vars F) (fs : fields) : rret :=
  if has "source" fs && has "type" fs then
    match get_text vs (s "type") fs, get_dynamic_type vs (s "source") fs with
    | Some target, Some (number, u) =>
      match unit_of cfg u with
      | None => none
      | Some src =>
        do r <- dyn_convert bexec cfg number src target;
        match r with
        | Some (x, d) => some (TDynamicType x (uref d))
        | None => none
        end
      end
    | _, _ => none
    end
  else none.

(* RULE_FUNCTIONS + small_date: dispatch by name (rule_tokinizer/mod.rs:45-70, smartcalc.rs:155) *)
Definition name_is (fname : str) (k : string) : bool := str_eqb fname (s k).

Definition call_rule (cfg : config F) (lang : str) (vs : vars F) (fname : str) (fs : fields) : rret :=
  if name_is fname "percent_calculator" then percent_calculator vs fs
  else if name_is fname "convert_timezone" then convert_timezone vs fs
  else if name_is fname "time_with_timezone" then time_with_timezone vs fs
  else if name_is fname "to_unixtime" then to_unixtime vs fs
  else if name_is fname "from_unixtime" then from_unixtime cfg vs fs
  else if name_is fname "convert_money" then convert_money cfg vs fs
  else if name_is fname "number_on" then number_on cfg vs fs
  else if name_is fname "number_of" then number_of cfg vs fs
  else if name_is fname "number_off" then number_off cfg vs fs
  else if name_is fname "division_cleanup" then division_cleanup vs fs
  else if name_is fname "duration_parse" then duration_parse cfg lang vs fs
  else if name_is fname "as_duration" then as_duration cfg lang vs fs
  else if name_is fname "to_duration" then to_duration vs fs
  else if name_is fname "at_date" then at_date vs fs
  else if name_is fname "combine_durations" then combine_durations vs fs
  else if name_is fname "find_numbers_percent" then find_numbers_percent vs fs
  else if name_is fname "find_total_from_percent" then find_total_from_percent cfg vs fs
  else if name_is fname "number_type_convert" then number_type_convert vs fs
  else if name_is fname "dynamic_type_convert" then dynamic_type_convert cfg vs fs
  else if name_is fname "small_date" then small_date cfg vs fs
  else none.

End WithNum.
Arguments fields F : clear implicits.
Arguments rret F : clear implicits.
