(* The parts of chrono 0.4.45 the crate uses, with their panics as values.
   Naive dates are day numbers since 1970-01-01, naive date-times are seconds since the epoch,
   durations are whole seconds. *)
From SC.Model Require Import Base.
From SC.Spec Require Import Calendar.

(* panic sites (Rust file:line are listed in Model/Sites.v) *)
Definition SITE_FROM_YMD : N := 2001.
Definition SITE_DATE_ADD : N := 2002.
Definition SITE_DT_ADD : N := 2003.
Definition SITE_FROM_TIMESTAMP : N := 2004.
Definition SITE_FROM_HMS : N := 2005.
Definition SITE_DURATION_RANGE : N := 2006.
Definition SITE_I64_OVERFLOW : N := 2007.
Definition SITE_SECS_FROM_MIDNIGHT : N := 2008.
Definition SITE_AND_HMS : N := 2009.

Definition MIN_YEAR : Z := -262143.
Definition MAX_YEAR : Z := 262142.

Definition date_of_ymd_opt (y m d : Z) : option Z :=
  if (MIN_YEAR <=? y) && (y <=? MAX_YEAR) && valid_date y m d then Some (days_from_civil y m d) else None.

Definition date_of_ymd (y m d : Z) : res Z :=
  match date_of_ymd_opt y m d with Some n => Ok n | None => Panic SITE_FROM_YMD end.

Definition MIN_DAY : Z := days_from_civil MIN_YEAR 1 1.
Definition MAX_DAY : Z := days_from_civil MAX_YEAR 12 31.

Definition year_of (n : Z) : Z := let '(y, _, _) := civil_from_days n in y.
Definition month_of (n : Z) : Z := let '(_, m, _) := civil_from_days n in m.
Definition day_of (n : Z) : Z := let '(_, _, d) := civil_from_days n in d.

(* chrono::Duration (TimeDelta): |secs| <= i64::MAX / 1000 *)
Definition DUR_MAX : Z := (2^63 - 1) / 1000.
Definition dur_ok (secs : Z) : bool := (- DUR_MAX <=? secs) && (secs <=? DUR_MAX).
Definition dur_check (site : N) (secs : Z) : res Z := if dur_ok secs then Ok secs else Panic site.

Definition i64_ok (z : Z) : bool := (- 2^63 <=? z) && (z <? 2^63).
(* checked arithmetic of the dev profile *)
Definition i64_chk (z : Z) : res Z := if i64_ok z then Ok z else Panic SITE_I64_OVERFLOW.

(* Duration::days(n) etc.: `try_*().expect(..)` *)
Definition dur_days (n : Z) : res Z := dur_check SITE_DURATION_RANGE (n * 86400).
Definition dur_weeks (n : Z) : res Z := dur_check SITE_DURATION_RANGE (n * 604800).
Definition dur_hours (n : Z) : res Z := dur_check SITE_DURATION_RANGE (n * 3600).
Definition dur_minutes (n : Z) : res Z := dur_check SITE_DURATION_RANGE (n * 60).
Definition dur_seconds (n : Z) : res Z := dur_check SITE_DURATION_RANGE n.

(* NaiveDate + Duration: whole days, truncated toward zero *)
Definition date_add (n : Z) (secs : Z) : res Z :=
  let r := n + Z.quot secs 86400 in
  if (MIN_DAY <=? r) && (r <=? MAX_DAY) then Ok r else Panic SITE_DATE_ADD.
Definition date_sub (n : Z) (secs : Z) : res Z := date_add n (- secs).

Definition dt_ok (secs : Z) : bool := (MIN_DAY * 86400 <=? secs) && (secs <? (MAX_DAY + 1) * 86400).
Definition dt_add (t : Z) (secs : Z) : res Z :=
  if dt_ok (t + secs) then Ok (t + secs) else Panic SITE_DT_ADD.
Definition dt_sub (t : Z) (secs : Z) : res Z := dt_add t (- secs).

(* NaiveDateTime::from_timestamp(secs, 0) *)
Definition dt_from_timestamp (secs : Z) : res Z :=
  if dt_ok secs then Ok secs else Panic SITE_FROM_TIMESTAMP.

(* NaiveTime::from_hms(h, m, s) as seconds from midnight (arguments are u32) *)
Definition time_from_hms (h m sec : Z) : res Z :=
  if (0 <=? h) && (h <? 24) && (0 <=? m) && (m <? 60) && (0 <=? sec) && (sec <? 60)
  then Ok (h * 3600 + m * 60 + sec) else Panic SITE_FROM_HMS.

Definition secs_of_day (t : Z) : Z := t mod 86400.      (* num_seconds_from_midnight *)
Definition day_of_dt (t : Z) : Z := t / 86400.          (* .date() *)
Definition dt_of (day secs_in_day : Z) : Z := day * 86400 + secs_in_day.
