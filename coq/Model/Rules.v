(* Variable substitution (src/variable/mod.rs), unit recognition
   (src/tokinizer/dynamic_type_tokinizer/mod.rs) and the rule loop
   (src/tokinizer/rule_tokinizer/mod.rs). *)
From SC.Model Require Import Base Num Types Config Case Match UiTokens Post Items RuleFns.

Section WithNum.
Context {F : Type} {NF : Num F}.
Variable bexec : config F -> str -> res (option F).
Variable now_year : Z.

Record tstate := { ts_infos : list (token_info F); ts_ui : list uitoken }.

(* ---------- find_location (types.rs:321-348) ---------- *)
(* The scan keeps start, target = start + rule_idx and rule_idx; a token that does not match
   restarts it one token after the start of the failed partial match (start + 1), so the loop is
   the plain search for the first index at which the whole pattern matches.
   [pat = []]: rule_tokens[0] panics as soon as one token is read; with no tokens at all the
   result is Some 0. *)
Definition SITE_EMPTY_PATTERN : N := 2301.

Fixpoint prefix_match (tokens : list (token_info F)) (pat : list (token F)) : bool :=
  match pat, tokens with
  | [], _ => true
  | p :: pr, t :: tr => info_eq_token t p && prefix_match tr pr
  | _ :: _, [] => false
  end.

Fixpoint find_location_from (tokens : list (token_info F)) (pat : list (token F)) (start : nat) : option nat :=
  match tokens with
  | [] => None
  | _ :: rest => if prefix_match tokens pat then Some start else find_location_from rest pat (S start)
  end.

Definition find_location (tokens : list (token_info F)) (pat : list (token F)) : res (option nat) :=
  match pat with
  | [] => match tokens with [] => Ok (Some O) | _ :: _ => Panic SITE_EMPTY_PATTERN end
  | _ :: _ => Ok (find_location_from tokens pat 0)
  end.

(* ---------- update_token_variables (variable/mod.rs:43-98) ---------- *)
Definition info_is_eq_op (ti : token_info F) : bool :=
  match ti_ty ti with Some (TOperator c) => N.eqb c OP_EQ | _ => false end.

Definition SITE_VAR_SLICE : N := 2302.

(* one pass over session.variables (sorted by name): closest match, then longest *)
Fixpoint pick_variable (vs : vars F) (tail : list (token_info F))
         (best : option (nat * str * nat)) : res (option (nat * str * nat)) :=
  match vs with
  | [] => Ok best
  | (name, vi) :: rest =>
    do loc <- find_location tail (v_tokens vi);
    let best' :=
        match loc with
        | None => best
        | Some start =>
          match best with
          | None => Some (start, name, length (v_tokens vi))
          | Some (cstart, _, csize) =>
            if (Nat.eqb start cstart && Nat.ltb csize (length (v_tokens vi))) || Nat.ltb start cstart
            then Some (start, name, length (v_tokens vi)) else best
          end
        end in
    pick_variable rest tail best'
  end.

Fixpoint subst_loop (fuel : nat) (line : str) (vs : vars F) (start_index : nat) (st : tstate) : res (option tstate) :=
  match fuel with
  | O => Ok None                                   (* out of fuel: excluded by Proofs *)
  | S f =>
    do best <- pick_variable vs (skipn start_index (ts_infos st)) None;
    match best with
    | None => Ok (Some st)
    | Some (closest, name, size) =>
      let rs := (start_index + closest)%nat in
      let re := (rs + size)%nat in
      let infos := ts_infos st in
      match nth_opt infos rs, nth_opt infos (Nat.pred re) with
      | Some first, Some last =>
        if Nat.ltb (length infos) re then Panic SITE_VAR_SLICE else
        let tstart := ti_start first in
        let tend := ti_end last in
        do ui' <- ui_update line (ts_ui st) tstart tend UVariableUse;
        let text := concat_str (map (@ti_text F) (firstn size (skipn rs infos))) in
        let newtok := {| ti_start := tstart; ti_end := tend; ti_ty := Some (TVariable name);
                         ti_text := text; ti_active := true |} in
        subst_loop f line vs start_index
                   {| ts_infos := firstn rs infos ++ newtok :: skipn re infos; ts_ui := ui' |}
      | _, _ => Panic SITE_VAR_SLICE                (* size = 0 or range out of bounds *)
      end
    end
  end.

Definition update_token_variables (line : str) (vs : vars F) (st : tstate) : res (option tstate) :=
  let ui0 := ui_sort (ts_ui st) in
  (* first '=' at index >= 1 *)
  let eq_pos := match ts_infos st with
                | [] => None
                | _ :: rest => option_map S (find_index info_is_eq_op rest)
                end in
  do pre <- match eq_pos with
            | None => Ok (O, ui0)
            | Some i =>
              match nth_opt (ts_infos st) (Nat.pred i) with
              | Some prev => do ui1 <- ui_update line ui0 0 (ti_end prev) UVariableDefination; Ok (S i, ui1)
              | None => Ok (S i, ui0)
              end
            end;
  let '(start_index, ui1) := pre in
  subst_loop (S (length (ts_infos st))) line vs start_index {| ts_infos := ts_infos st; ts_ui := ui1 |}.

(* ---------- find_match (rule_tokinizer/mod.rs:72-127) ---------- *)
Record fm := { fm_total : nat; fm_rule_idx : nat; fm_start : nat; fm_target : nat; fm_fields : fields F }.

Definition var_value (vs : vars F) (name : str) : ast F :=
  match assoc name vs with Some vi => v_data vi | None => ANone end.

Fixpoint find_match_loop (vs : vars F) (pat : list (token_info F)) (tokens : list (token_info F))
         (rule_idx start target : nat) (fs : fields F) : res (nat * nat * nat * fields F) :=
  match tokens with
  | [] => Ok (rule_idx, start, target, fs)
  | t :: rest =>
    let target := S target in
    if negb (ti_active t) then find_match_loop vs pat rest rule_idx start target fs
    else
      match ti_ty t with
      | None =>
        (* untyped tokens are skipped but the exit test still runs *)
        if Nat.eqb (length pat) rule_idx then Ok (rule_idx, start, target, fs)
        else find_match_loop vs pat rest rule_idx start target fs
      | Some ty =>
        match nth_opt pat rule_idx with
        | None => Panic SITE_EMPTY_PATTERN
        | Some p =>
          let same := match ty with
                      | TVariable v => variable_compare vs p (var_value vs v)
                      | _ => info_eq t p
                      end in
          let '(rule_idx', start', fs') :=
              if same then
                (S rule_idx, start,
                 match get_field_name p with Some n => assoc_insert n t fs | None => fs end)
              else (O, target, fs) in
          if Nat.eqb (length pat) rule_idx' then Ok (rule_idx', start', target, fs')
          else find_match_loop vs pat rest rule_idx' start' target fs'
        end
      end
  end.

Definition find_match (vs : vars F) (pat : list (token_info F)) (tokens : list (token_info F)) : res fm :=
  do r <- find_match_loop vs pat tokens 0 0 0 [];
  let '(ri, st, tg, fs) := r in
  Ok {| fm_total := length pat; fm_rule_idx := ri; fm_start := st; fm_target := tg; fm_fields := fs |}.

Definition SITE_MATCH_INDEX : N := 2303.   (* token_infos[start] / [target - 1] out of range *)

Fixpoint mark_removed (infos : list (token_info F)) (from to idx : nat) : list (token_info F) :=
  match infos with
  | [] => []
  | t :: r => (if Nat.leb from idx && Nat.ltb idx to then set_removed t else t) :: mark_removed r from to (S idx)
  end.

(* the replacement performed when a rule fires *)
Definition replace_match (infos : list (token_info F)) (m : fm) (tok : token F) : res (list (token_info F)) :=
  match nth_opt infos (fm_start m), nth_opt infos (Nat.pred (fm_target m)) with
  | Some first, Some last =>
    if Nat.eqb (fm_target m) 0 then Panic SITE_MATCH_INDEX else
    let newtok := {| ti_start := ti_start first; ti_end := ti_end last; ti_ty := Some tok;
                     ti_text := []; ti_active := true |} in
    Ok (insert_at (fm_start m) newtok (mark_removed infos (fm_start m) (fm_target m) 0))
  | _, _ => Panic SITE_MATCH_INDEX
  end.

Definition ui_type_field (line : str) (ui : list uitoken) (fs : fields F) : res (list uitoken) :=
  match assoc (s "type") fs with
  | Some data => ui_update line ui (ti_start data) (ti_end data) USymbol2
  | None => Ok ui
  end.

(* ---------- dynamic_type_tokinizer ---------- *)
Definition SITE_VALUE_UNWRAP : N := 2304.   (* get_number("value", &fields F).unwrap() *)

(* try the parse patterns of one unit; Some st' when one matched *)
Fixpoint dyn_try_patterns (line : str) (vs : vars F) (d : dyntype F) (pats : list (list (token_info F)))
         (st : tstate) : res (option tstate) :=
  match pats with
  | [] => Ok None
  | pat :: rest =>
    do m <- find_match vs pat (ts_infos st);
    if Nat.eqb (fm_total m) (fm_rule_idx m) then
      (* a pattern that does not bind a number to "value" is skipped before anything is changed *)
      match get_number vs (s "value") (fm_fields m) with
      | None => dyn_try_patterns line vs d rest st
      | Some value =>
        match nth_opt (ts_infos st) (fm_start m), nth_opt (ts_infos st) (Nat.pred (fm_target m)) with
        | Some _, Some _ =>
          if Nat.eqb (fm_target m) 0 then Panic SITE_MATCH_INDEX else
          do ui' <- ui_type_field line (ts_ui st) (fm_fields m);
          do infos' <- replace_match (ts_infos st) m (TDynamicType value (uref d));
          Ok (Some {| ts_infos := infos'; ts_ui := ui' |})
        | _, _ => Panic SITE_MATCH_INDEX
        end
      end
    else dyn_try_patterns line vs d rest st
  end.

(* one sweep over all units of all groups; the flag says whether anything matched *)
Fixpoint dyn_sweep_units (line : str) (vs : vars F) (units : list (dyntype F)) (st : tstate) (fired : bool)
  : res (tstate * bool) :=
  match units with
  | [] => Ok (st, fired)
  | d :: rest =>
    do r <- dyn_try_patterns line vs d (dt_parse d) st;
    match r with
    | Some st' => dyn_sweep_units line vs rest st' true
    | None => dyn_sweep_units line vs rest st fired
    end
  end.

Definition all_units (cfg : config F) : list (dyntype F) :=
  flat_map (fun g => map snd (snd g)) (cf_types cfg).

Fixpoint dyn_loop (fuel : nat) (line : str) (cfg : config F) (vs : vars F) (st : tstate) : res (option tstate) :=
  match fuel with
  | O => Ok None
  | S f =>
    do r <- dyn_sweep_units line vs (all_units cfg) st false;
    let '(st', fired) := r in
    if fired then dyn_loop f line cfg vs st' else Ok (Some st')
  end.

(* ---------- rule_tokinizer ---------- *)
(* RuleTrait::call of the harness' closed rule family on the simplified field map *)
Definition field_tok (fs : fields F) (k : string) : option (token F) :=
  match assoc (s k) fs with Some ti => ti_ty ti | None => None end.

Definition api_call (cfg : config F) (r : apirule F) (fs : fields F) : option (token F) :=
  match ar_kind r with
  | RDecline => None
  | RScale => match field_tok fs "x" with Some (TNumber x _) => Some (TNumber (fmul x (ar_k r)) Decimal) | _ => None end
  | RSum => match field_tok fs "a", field_tok fs "b" with
            | Some (TNumber a _), Some (TNumber b _) => Some (TNumber (fadd a b) Decimal)
            | _, _ => None end
  | RConstMoney => option_map (fun c => TMoney (ar_k r) (c_code c)) (assoc (ar_cur r) (cf_currency cfg))
  | RConstNumber => Some (TNumber (ar_k r) Decimal)
  | REcho => field_tok fs "x"
  end.

Definition api_ui_kind (t : option (token F)) : uikind :=
  match t with
  | Some (TNumber _ _) | Some (TMoney _ _) | Some (TPercent _) => UNumber
  | Some (TDate _ _) | Some (TTime _ _) | Some (TDateTime _ _) => UDateTime
  | Some (TMonth _) => UMonth
  | _ => USymbol2
  end.

Fixpoint api_ui_fields (line : str) (ui : list uitoken) (fs : fields F) : res (list uitoken) :=
  match fs with
  | [] => Ok ui
  | (_, t) :: rest =>
    do ui' <- ui_update line ui (ti_start t) (ti_end t) (api_ui_kind (ti_ty t));
    api_ui_fields line ui' rest
  end.

Fixpoint rule_try_patterns (line : str) (cfg : config F) (lang : str) (vs : vars F) (r : rule F)
         (pats : list (list (token_info F))) (st : tstate) : res (option tstate) :=
  match pats with
  | [] => Ok None
  | pat :: rest =>
    do m <- find_match vs pat (ts_infos st);
    if Nat.eqb (fm_total m) (fm_rule_idx m) then
      match r with
      | RInternal fname _ =>
        do out <- call_rule bexec now_year cfg lang vs fname (fm_fields m);
        match out with
        | Some tok =>
          match nth_opt (ts_infos st) (fm_start m), nth_opt (ts_infos st) (Nat.pred (fm_target m)) with
          | Some _, Some _ =>
            do ui' <- ui_type_field line (ts_ui st) (fm_fields m);
            do infos' <- replace_match (ts_infos st) m tok;
            Ok (Some {| ts_infos := infos'; ts_ui := ui' |})
          | _, _ => Panic SITE_MATCH_INDEX
          end
        | None => rule_try_patterns line cfg lang vs r rest st
        end
      | RApi _ ar =>
        (* fields F.iter().map(.. value.token_type.borrow().as_ref().unwrap() ..): field tokens are typed *)
        match api_call cfg ar (fm_fields m) with
        | Some tok =>
          match nth_opt (ts_infos st) (fm_start m), nth_opt (ts_infos st) (Nat.pred (fm_target m)) with
          | Some _, Some _ =>
            do ui' <- api_ui_fields line (ts_ui st) (fm_fields m);
            do infos' <- replace_match (ts_infos st) m tok;
            Ok (Some {| ts_infos := infos'; ts_ui := ui' |})
          | _, _ => Panic SITE_MATCH_INDEX
          end
        | None => rule_try_patterns line cfg lang vs r rest st
        end
      end
    else rule_try_patterns line cfg lang vs r rest st
  end.

Definition rule_patterns (r : rule F) : list (list (token_info F)) :=
  match r with RInternal _ p => p | RApi p _ => p end.

Fixpoint rule_sweep (line : str) (cfg : config F) (lang : str) (vs : vars F) (rules : list (rule F))
         (st : tstate) (fired : bool) : res (tstate * bool) :=
  match rules with
  | [] => Ok (st, fired)
  | r :: rest =>
    do x <- rule_try_patterns line cfg lang vs r (rule_patterns r) st;
    match x with
    | Some st' => rule_sweep line cfg lang vs rest st' true
    | None => rule_sweep line cfg lang vs rest st fired
    end
  end.

Fixpoint rule_loop (fuel : nat) (line : str) (cfg : config F) (lang : str) (vs : vars F)
         (rules : list (rule F)) (st : tstate) : res (option tstate) :=
  match fuel with
  | O => Ok None
  | S f =>
    do r <- rule_sweep line cfg lang vs rules st false;
    let '(st', fired) := r in
    if fired then rule_loop f line cfg lang vs rules st' else Ok (Some st')
  end.

Definition rule_tokinizer (fuel : nat) (line : str) (cfg : config F) (lang : str) (vs : vars F) (st : tstate)
  : res (option tstate) :=
  match lang_rules cfg lang with
  | Some rules => rule_loop fuel line cfg lang vs rules st
  | None => Ok (Some st)
  end.

End WithNum.
