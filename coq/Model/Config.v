(* SmartCalcConfig (src/config.rs:74-98) without the compiled regexes, which never change
   after load and live in Model/Lexer.v's [lexdata]. *)
From SC.Model Require Import Base Num Types.

Section WithNum.
Context {F : Type} {NF : Num F}.

Record config := {
  cf_currency : list (str * currency);             (* key: lower-cased JSON key *)
  cf_currency_alias : list (str * str);            (* alias -> key of cf_currency *)
  cf_rates : list (str * F);                       (* key: CurrencyInfo.code *)
  cf_timezones : list (str * Z);
  cf_word_group : list (str * list (str * list str));       (* language -> group -> words *)
  cf_constant_pair : list (str * list (str * consttype));   (* language -> word -> constant *)
  cf_rules : list (str * list (rule F));                    (* language -> rules in order *)
  cf_types : list (str * list (N * dyntype F));             (* group -> index -> unit, both sorted *)
  cf_type_conv : list type_conv;
  cf_months : list (str * list monthinfo);                  (* language -> 12 entries *)
  cf_format : list (str * langformat);
  cf_type_group : list (str * list str);
  cf_money : numcfg;                                        (* digits unused for money *)
  cf_number : numcfg;
  cf_percent : numcfg;
  cf_dsep : str;
  cf_tsep : str;
  cf_tz : tzinfo
}.

Definition set_rules (c : config) (r : list (str * list (rule F))) : config :=
  {| cf_currency := cf_currency c; cf_currency_alias := cf_currency_alias c; cf_rates := cf_rates c;
     cf_timezones := cf_timezones c; cf_word_group := cf_word_group c; cf_constant_pair := cf_constant_pair c;
     cf_rules := r; cf_types := cf_types c; cf_type_conv := cf_type_conv c; cf_months := cf_months c;
     cf_format := cf_format c; cf_type_group := cf_type_group c; cf_money := cf_money c;
     cf_number := cf_number c; cf_percent := cf_percent c; cf_dsep := cf_dsep c; cf_tsep := cf_tsep c;
     cf_tz := cf_tz c |}.

Definition set_rates (c : config) (r : list (str * F)) : config :=
  {| cf_currency := cf_currency c; cf_currency_alias := cf_currency_alias c; cf_rates := r;
     cf_timezones := cf_timezones c; cf_word_group := cf_word_group c; cf_constant_pair := cf_constant_pair c;
     cf_rules := cf_rules c; cf_types := cf_types c; cf_type_conv := cf_type_conv c; cf_months := cf_months c;
     cf_format := cf_format c; cf_type_group := cf_type_group c; cf_money := cf_money c;
     cf_number := cf_number c; cf_percent := cf_percent c; cf_dsep := cf_dsep c; cf_tsep := cf_tsep c;
     cf_tz := cf_tz c |}.

Definition set_types (c : config) (t : list (str * list (N * dyntype F))) : config :=
  {| cf_currency := cf_currency c; cf_currency_alias := cf_currency_alias c; cf_rates := cf_rates c;
     cf_timezones := cf_timezones c; cf_word_group := cf_word_group c; cf_constant_pair := cf_constant_pair c;
     cf_rules := cf_rules c; cf_types := t; cf_type_conv := cf_type_conv c; cf_months := cf_months c;
     cf_format := cf_format c; cf_type_group := cf_type_group c; cf_money := cf_money c;
     cf_number := cf_number c; cf_percent := cf_percent c; cf_dsep := cf_dsep c; cf_tsep := cf_tsep c;
     cf_tz := cf_tz c |}.

Definition set_fmt (c : config) (money number percent : numcfg) (dsep tsep : str) (tz : tzinfo) : config :=
  {| cf_currency := cf_currency c; cf_currency_alias := cf_currency_alias c; cf_rates := cf_rates c;
     cf_timezones := cf_timezones c; cf_word_group := cf_word_group c; cf_constant_pair := cf_constant_pair c;
     cf_rules := cf_rules c; cf_types := cf_types c; cf_type_conv := cf_type_conv c; cf_months := cf_months c;
     cf_format := cf_format c; cf_type_group := cf_type_group c; cf_money := money;
     cf_number := number; cf_percent := percent; cf_dsep := dsep; cf_tsep := tsep;
     cf_tz := tz |}.

Definition get_time_offset (c : config) : tzinfo := cf_tz c.

(* per-language lookups; a missing language is None (Rust: `.get(lang)`; several call sites
   then `.unwrap()` and panic, modelled at those sites) *)
Definition lang_constants (c : config) (lang : str) := assoc lang (cf_constant_pair c).
Definition lang_groups (c : config) (lang : str) := assoc lang (cf_word_group c).
Definition lang_rules (c : config) (lang : str) := assoc lang (cf_rules c).

Definition currency_by_code (c : config) (code : str) : option currency :=
  match List.find (fun kv => str_eqb (c_code (snd kv)) code) (cf_currency c) with
  | Some kv => Some (snd kv)
  | None => None
  end.

Fixpoint nassoc {A} (k : N) (l : list (N * A)) : option A :=
  match l with
  | [] => None
  | (k', v) :: r => if N.eqb k k' then Some v else nassoc k r
  end.

Definition unit_of (c : config) (u : unitref) : option (dyntype F) :=
  match assoc (u_group u) (cf_types c) with
  | Some g => nassoc (u_index u) g
  | None => None
  end.

End WithNum.
Arguments config F : clear implicits.
