(* SC.Model.Regex — executable model of the part of the Rust `regex` crate
   (1.13.1 / regex-automata 0.4.18) that smartcalc relies on.

   Text is a list of Unicode scalar values (N).  All reported positions are
   BYTE offsets of the UTF-8 encoding, as Rust reports them.

   Semantics: leftmost-first (Perl-like) matching.  The matcher is a
   continuation-passing backtracking matcher defined by structural recursion
   on the regex; alternatives are explored in priority order and the first
   success is returned, which is what the regex crate guarantees for the
   overall span and for all capture groups.

   Repetition mirrors the Thompson compiler of regex-automata
   (nfa/thompson/compiler.rs):
     x{m,n}  = x^m (x (x ...)?)?            -- no loop, no progress check
     x{m,}   = x^(m-1) x+        (m >= 1)
     x{0,}   = (x+)?
   and in the loop x+ an epsilon cycle is cut exactly where the NFA simulation
   cuts it for the "end of iteration" state: a non-first iteration that
   consumed nothing is discarded, and after an empty first iteration the loop
   is not re-entered.  For loop bodies that cannot match the empty string
   (all regexes used by smartcalc) this is exact.  For unbounded repetition of
   a body that CAN match empty (e.g. `(a?|b)*`) the overall match span is
   still the regex crate's, but capture groups inside the body may in rare
   cases differ (the NFA simulation also cuts cycles at inner states); the
   translator tools/rxparse.py rejects such patterns unless asked not to.

   Other deviations, all rejected by the translator: a capture group under a
   `{0}` repetition (the crate removes the group from its group table), flags,
   look-around, class set operations.  A [start_byte] that falls inside a code
   point is treated as the next code point boundary (nothing can match in
   between in UTF-8 mode).

   Iteration (captures_iter) mirrors util/iter.rs Searcher::try_advance:
   search from the end of the previous match; if the match found is empty and
   ends where the previous match ended, search again one position later (the
   crate adds one BYTE; in UTF-8 mode nothing can match inside a code point and
   look-behind sees the whole haystack, so this is the next code point
   boundary; at the end of the text the start becomes len+1 and the search
   reports nothing). *)

(* List and NArith are re-exported so that `Require Import SC.Model.Regex. Import ListNotations.`
   is enough to parse the terms produced by tools/rxparse.py *)
From Coq Require Export List NArith.
From Coq Require Import ZArith Bool Arith.
Import ListNotations.

Local Open Scope N_scope.

(* ------------------------------------------------------------------ *)
(* Syntax                                                              *)
(* ------------------------------------------------------------------ *)

Inductive cls :=
| CRange (lo hi : N)
| CLetter
| CCurrency
| CWord
| CDigit
| CSpace.

Inductive rx :=
| REps
| RSet (neg : bool) (items : list cls)
| RCat (a b : rx)
| RAlt (a b : rx)
| RRep (r : rx) (min : nat) (max : option nat) (greedy : bool)
| RGroup (idx : nat) (r : rx)
| RWordB | RNotWordB
| RStart | REnd.

Record utables := {
  ut_letter   : list (N * N);
  ut_currency : list (N * N);
  ut_word     : list (N * N);
  ut_digit    : list (N * N);
  ut_space    : list (N * N)
}.

(* ------------------------------------------------------------------ *)
(* UTF-8 widths                                                        *)
(* ------------------------------------------------------------------ *)

Definition utf8_width (c : N) : N :=
  if c <? 128 then 1
  else if c <? 2048 then 2
  else if c <? 65536 then 3
  else 4.

Fixpoint byte_len_from (acc : N) (s : list N) : N :=
  match s with
  | [] => acc
  | c :: t => byte_len_from (acc + utf8_width c) t
  end.

Definition byte_len (s : list N) : N := byte_len_from 0 s.

(* ------------------------------------------------------------------ *)
(* Range tables: sorted inclusive ranges, two-level index              *)
(* ------------------------------------------------------------------ *)

(* linear scan with early exit; requires ascending, disjoint ranges *)
Fixpoint in_ranges (c : N) (l : list (N * N)) : bool :=
  match l with
  | [] => false
  | (lo, hi) :: t =>
      if c <? lo then false
      else if c <=? hi then true
      else in_ranges c t
  end.

(* an index is a list of blocks, each with the largest code point it covers *)
Definition rindex := list (N * list (N * N)).

Fixpoint in_index (c : N) (ix : rindex) : bool :=
  match ix with
  | [] => false
  | (mx, blk) :: t => if c <=? mx then in_ranges c blk else in_index c t
  end.

Fixpoint take_block (n : nat) (l acc : list (N * N)) (mx : N)
  : list (N * N) * N * list (N * N) :=
  match n, l with
  | O, _ => (rev' acc, mx, l)
  | _, [] => (rev' acc, mx, [])
  | S n', (lo, hi) :: t => take_block n' t ((lo, hi) :: acc) hi
  end.

Fixpoint build_index (fuel : nat) (l : list (N * N)) : rindex :=
  match fuel with
  | O => []
  | S f =>
      match l with
      | [] => []
      | _ :: _ =>
          match take_block 24 l [] 0 with
          | (blk, mx, rest) => (mx, blk) :: build_index f rest
          end
      end
  end.

Definition mk_index (l : list (N * N)) : rindex := build_index (length l) l.

(* prepared tables *)
Record ptables := {
  pt_letter   : rindex;
  pt_currency : rindex;
  pt_word     : rindex;
  pt_digit    : rindex;
  pt_space    : rindex
}.

Definition prepare (ut : utables) : ptables :=
  {| pt_letter   := mk_index (ut_letter ut);
     pt_currency := mk_index (ut_currency ut);
     pt_word     := mk_index (ut_word ut);
     pt_digit    := mk_index (ut_digit ut);
     pt_space    := mk_index (ut_space ut) |}.

Definition cls_mem (pt : ptables) (c : N) (i : cls) : bool :=
  match i with
  | CRange lo hi => if c <? lo then false else c <=? hi
  | CLetter   => in_index c (pt_letter pt)
  | CCurrency => in_index c (pt_currency pt)
  | CWord     => in_index c (pt_word pt)
  | CDigit    => in_index c (pt_digit pt)
  | CSpace    => in_index c (pt_space pt)
  end.

Fixpoint items_mem (pt : ptables) (c : N) (l : list cls) : bool :=
  match l with
  | [] => false
  | i :: t => if cls_mem pt c i then true else items_mem pt c t
  end.

Definition set_mem (pt : ptables) (neg : bool) (items : list cls) (c : N) : bool :=
  if neg then negb (items_mem pt c items) else items_mem pt c items.

Definition is_word (pt : ptables) (c : N) : bool := in_index c (pt_word pt).

Definition is_word_opt (pt : ptables) (o : option N) : bool :=
  match o with
  | None => false
  | Some c => is_word pt c
  end.

(* ------------------------------------------------------------------ *)
(* Matcher                                                             *)
(* ------------------------------------------------------------------ *)

(* ms_rest : text not yet consumed;  ms_pos : its byte offset;
   ms_prev : the code point just before ms_pos (anywhere in the haystack);
   ms_rem  : length ms_rest (fuel for loops);
   ms_caps : capture log, most recent first. *)
Record mstate := MS {
  ms_rest : list N;
  ms_pos  : N;
  ms_prev : option N;
  ms_rem  : nat;
  ms_caps : list (nat * (N * N))
}.

Definition kont := mstate -> option mstate.
Definition matcher := mstate -> kont -> option mstate.

Definition m_eps : matcher := fun st k => k st.
Definition m_fail : matcher := fun _ _ => None.

Definition m_set (f : N -> bool) : matcher :=
  fun st k =>
    match ms_rest st with
    | [] => None
    | c :: t =>
        if f c
        then k (MS t (ms_pos st + utf8_width c) (Some c) (Nat.pred (ms_rem st)) (ms_caps st))
        else None
    end.

Definition m_cat (ma mb : matcher) : matcher :=
  fun st k => ma st (fun st' => mb st' k).

Definition m_alt (ma mb : matcher) : matcher :=
  fun st k =>
    match ma st k with
    | Some r => Some r
    | None => mb st k
    end.

Definition m_group (idx : nat) (mr : matcher) : matcher :=
  fun st k =>
    let p0 := ms_pos st in
    mr st (fun st' =>
      k (MS (ms_rest st') (ms_pos st') (ms_prev st') (ms_rem st')
            ((idx, (p0, ms_pos st')) :: ms_caps st'))).

Definition at_word_boundary (pt : ptables) (st : mstate) : bool :=
  xorb (is_word_opt pt (ms_prev st)) (is_word_opt pt (hd_error (ms_rest st))).

Definition m_assert (f : mstate -> bool) : matcher :=
  fun st k => if f st then k st else None.

(* x^n *)
Fixpoint m_exactly (mr : matcher) (n : nat) : matcher :=
  match n with
  | O => m_eps
  | S n' => let tl := m_exactly mr n' in fun st k => mr st (fun st' => tl st' k)
  end.

(* (x (x (x)?)?)?  with d copies *)
Fixpoint m_upto (mr : matcher) (greedy : bool) (d : nat) : matcher :=
  match d with
  | O => m_eps
  | S d' =>
      let more := m_upto mr greedy d' in
      if greedy
      then fun st k =>
             match mr st (fun st' => more st' k) with
             | Some r => Some r
             | None => k st
             end
      else fun st k =>
             match k st with
             | Some r => Some r
             | None => mr st (fun st' => more st' k)
             end
  end.

(* x+ ; [first] = this is the first iteration of the loop *)
Fixpoint m_plus (mr : matcher) (greedy : bool) (fuel : nat) (first : bool)
         (st : mstate) (k : kont) {struct fuel} : option mstate :=
  match fuel with
  | O => None
  | S f =>
      mr st (fun st' =>
        if ms_pos st' =? ms_pos st then
          (if first then k st' else None)
        else if greedy then
          match m_plus mr greedy f false st' k with
          | Some r => Some r
          | None => k st'
          end
        else
          match k st' with
          | Some r => Some r
          | None => m_plus mr greedy f false st' k
          end)
  end.

Definition plus_fuel (st : mstate) : nat := S (S (ms_rem st)).

Definition m_rep (mr : matcher) (mn : nat) (mx : option nat) (greedy : bool) : matcher :=
  match mx with
  | Some mxn =>
      let pre := m_exactly mr mn in
      let opt := m_upto mr greedy (mxn - mn) in
      fun st k => pre st (fun st' => opt st' k)
  | None =>
      match mn with
      | O =>
          if greedy
          then fun st k =>
                 match m_plus mr greedy (plus_fuel st) true st k with
                 | Some r => Some r
                 | None => k st
                 end
          else fun st k =>
                 match k st with
                 | Some r => Some r
                 | None => m_plus mr greedy (plus_fuel st) true st k
                 end
      | S mn' =>
          let pre := m_exactly mr mn' in
          fun st k => pre st (fun st' => m_plus mr greedy (plus_fuel st') true st' k)
      end
  end.

(* Staged: [compile pt r] does all the work that depends only on the regex
   once; the resulting closure is then applied at every start position. *)
Fixpoint compile (pt : ptables) (r : rx) : matcher :=
  match r with
  | REps => m_eps
  | RSet neg items => m_set (set_mem pt neg items)
  | RCat a b => let ma := compile pt a in let mb := compile pt b in m_cat ma mb
  | RAlt a b => let ma := compile pt a in let mb := compile pt b in m_alt ma mb
  | RRep r' mn mx g => let mr := compile pt r' in m_rep mr mn mx g
  | RGroup idx r' => let mr := compile pt r' in m_group idx mr
  | RWordB => m_assert (at_word_boundary pt)
  | RNotWordB => m_assert (fun st => negb (at_word_boundary pt st))
  | RStart => m_assert (fun st => ms_pos st =? 0)
  | REnd => m_assert (fun st => match ms_rest st with [] => true | _ :: _ => false end)
  end.

(* ------------------------------------------------------------------ *)
(* Search                                                              *)
(* ------------------------------------------------------------------ *)

Definition k_done : kont := fun st => Some st.

(* leftmost match starting at or after the position described by
   (rest,pos,prev,rem); returns the start offset and the final state *)
Fixpoint search (mr : matcher) (rest : list N) (pos : N) (prev : option N) (rem : nat)
  : option (N * mstate) :=
  match mr (MS rest pos prev rem []) k_done with
  | Some st => Some (pos, st)
  | None =>
      match rest with
      | [] => None
      | c :: t => search mr t (pos + utf8_width c) (Some c) (Nat.pred rem)
      end
  end.

(* advance to the first code point boundary at or after byte offset [target] *)
Fixpoint skip_to (s : list N) (pos : N) (prev : option N) (target : N)
  : option (list N * N * option N) :=
  if target <=? pos then Some (s, pos, prev)
  else match s with
       | [] => None
       | c :: t => skip_to t (pos + utf8_width c) (Some c) target
       end.

Fixpoint lookup_cap (i : nat) (l : list (nat * (N * N))) : option (N * N) :=
  match l with
  | [] => None
  | (j, sp) :: t => if Nat.eqb i j then Some sp else lookup_cap i t
  end.

Definition render_caps (ngroups : nat) (mstart : N) (st : mstate) : list (option (N * N)) :=
  Some (mstart, ms_pos st)
  :: map (fun i => lookup_cap i (ms_caps st)) (seq 1 ngroups).

(* --- versions over prepared tables (build [prepare ut] once, reuse) --- *)

Definition captures_at_p (pt : ptables) (r : rx) (ngroups : nat) (s : list N) (start_byte : N)
  : option (list (option (N * N))) :=
  match skip_to s 0 None start_byte with
  | None => None
  | Some (rest, pos, prev) =>
      match search (compile pt r) rest pos prev (length rest) with
      | None => None
      | Some (ms, st) => Some (render_caps ngroups ms st)
      end
  end.

Fixpoint iter_loop (fuel : nat) (mr : matcher) (ngroups : nat)
         (rest : list N) (pos : N) (prev : option N) (rem : nat) (last : option N)
  : list (list (option (N * N))) :=
  match fuel with
  | O => []
  | S f =>
      match search mr rest pos prev rem with
      | None => []
      | Some (ms, st) =>
          let me := ms_pos st in
          let overlap :=
            if ms =? me
            then match last with Some l => l =? me | None => false end
            else false in
          if overlap then
            (* handle_overlapping_empty_match: start one position later *)
            match rest with
            | [] => []
            | c :: t =>
                match search mr t (pos + utf8_width c) (Some c) (Nat.pred rem) with
                | None => []
                | Some (ms', st') =>
                    render_caps ngroups ms' st'
                    :: iter_loop f mr ngroups (ms_rest st') (ms_pos st') (ms_prev st')
                                 (ms_rem st') (Some (ms_pos st'))
                end
            end
          else
            render_caps ngroups ms st
            :: iter_loop f mr ngroups (ms_rest st) (ms_pos st) (ms_prev st)
                         (ms_rem st) (Some me)
      end
  end.

Definition captures_iter_p (pt : ptables) (r : rx) (ngroups : nat) (s : list N)
  : list (list (option (N * N))) :=
  let n := length s in
  iter_loop (S (S (n + n))) (compile pt r) ngroups s 0 None n None.

Definition is_match_p (pt : ptables) (r : rx) (s : list N) : bool :=
  match search (compile pt r) s 0 None (length s) with
  | Some _ => true
  | None => false
  end.

(* --- the required interface --- *)

Definition captures_at (ut : utables) (r : rx) (ngroups : nat) (s : list N) (start_byte : N)
  : option (list (option (N * N))) :=
  captures_at_p (prepare ut) r ngroups s start_byte.

Definition captures_iter (ut : utables) (r : rx) (ngroups : nat) (s : list N)
  : list (list (option (N * N))) :=
  captures_iter_p (prepare ut) r ngroups s.

Definition is_match (ut : utables) (r : rx) (s : list N) : bool :=
  is_match_p (prepare ut) r s.

(* ------------------------------------------------------------------ *)
(* Compact rendering for the correspondence check (tools/regex_check.py) *)
(* ------------------------------------------------------------------ *)

(* one match:  -2, then (start,end) or (-1,-1) for every group 0..ngroups *)
Definition z_of_span (o : option (N * N)) : list Z :=
  match o with
  | Some (a, b) => [Z.of_N a; Z.of_N b]
  | None => [(-1)%Z; (-1)%Z]
  end.

Definition z_of_match (m : list (option (N * N))) : list Z :=
  (-2)%Z :: flat_map z_of_span m.

Definition z_of_matches (l : list (list (option (N * N)))) : list Z :=
  flat_map z_of_match l.

(* a batch of cases for one regex:  -3, id, is_match (0/1), matches...  for every case *)
Definition run_cases (ut : utables) (r : rx) (ngroups : nat) (cases : list (N * list N)) : list Z :=
  flat_map (fun c => (-3)%Z :: Z.of_N (fst c)
                     :: (if is_match ut r (snd c) then 1%Z else 0%Z)
                     :: z_of_matches (captures_iter ut r ngroups (snd c)))
           cases.

(* captures_at cases (id, start_byte, text):  -3, id, then nothing or one match *)
Definition run_at_cases (ut : utables) (r : rx) (ngroups : nat) (cases : list (N * N * list N)) : list Z :=
  flat_map (fun c =>
              match c with
              | (id, start, s) =>
                  (-3)%Z :: Z.of_N id
                  :: match captures_at ut r ngroups s start with
                     | Some m => z_of_match m
                     | None => []
                     end
              end)
           cases.
