(* Correspondence layer: the operations of the harness protocol as a state machine over the
   model, the canonical form of implementation observations, and their comparison.  All of it
   is evaluated by vm_compute on generated case files (coq/Cases/*.v). *)
From Coq Require Import Floats.
From SC.Model Require Import Base Num NumF64 FloatIO Types Config Case Chrono UiTokens Regex Rx
     RuleFns Rules Lexer Format Api Run64.
From SC.Gen Require Import Regexes.

Notation F := float.

(* ---------- operations ---------- *)
Inductive op :=
| OExec (lang text : str)
| OExecFresh (lang text : str)
| ONewSession (sid : N)
| OSetText (sid : N) (text : str)
| OSetLanguage (sid : N) (lang : str)
| OExecSession (sid : N)
| OSetDec (v : str)
| OSetThou (v : str)
| OSetTz (v : str)
| OGetTz
| OSetNumCfg (d : N) (rm rnd : bool)
| OSetPctCfg (d : N) (rm rnd : bool)
| OSetMoneyCfg (rm rnd : bool)
| OUpdateCurrency (cur : str) (rate : F)
| OAddRule (lang : str) (patterns : list str) (name : str) (kind : rulekind) (k : F) (cur : str)
| ODeleteRule (lang name : str)
| OAddType (name : str)
| OAddTypeItem (name : str) (index : N) (format : str) (parse : list str) (up down : str)
               (names : list str) (digits : option N) (rnd rm : option bool)
| OSetDateRule (lang : str) (patterns : list str).

Record mstate := { m_cfg : config F; m_sessions : list (N * session (F:=F)) }.

Definition init_state : mstate := {| m_cfg := default_config; m_sessions := [] |}.

(* model observations *)
Inductive mobs :=
| MPanic (site : N)
| MRes (r : exec_result (F:=F))
| MRet (b : option bool)
| MTz (ok : bool) (name : str) (off : Z).

Fixpoint sess_get (sid : N) (l : list (N * session (F:=F))) : option (session (F:=F)) :=
  match l with [] => None | (k, v) :: r => if N.eqb k sid then Some v else sess_get sid r end.
Fixpoint sess_put (sid : N) (v : session (F:=F)) (l : list (N * session (F:=F))) :=
  match l with
  | [] => [(sid, v)]
  | (k, v') :: r => if N.eqb k sid then (k, v) :: r else (k, v') :: sess_put sid v r
  end.

Definition with_cfg (m : mstate) (c : config F) : mstate := {| m_cfg := c; m_sessions := m_sessions m |}.

Definition timezone_cre : option cre :=
  match assoc (s "timezone") g_parse with Some (c :: _) => Some c | _ => None end.

(* SmartCalc::set_timezone (smartcalc.rs:186-213) *)
Definition set_timezone (cfg : config F) (tz : str) : option (str * Z) :=
  match timezone_cre with
  | None => None
  | Some c =>
    match captures_at_p PT (cre_rx c) (cre_n c) tz 0 with
    | None => None
    | Some cp =>
      match cap_name c cp "timezone" with
      | Some _ => match parse_timezone cfg c tz cp with
                  | Some (n, o) => Some (to_uppercase n, o)
                  | None => None end
      | None => None
      end
    end
  end.

Definition nc (d : N) (rm rnd : bool) : numcfg := {| nc_digits := d; nc_rm := rm; nc_round := rnd |}.

Section Step.
Variable ck : clock.

Definition step (m : mstate) (o : op) : mstate * mobs :=
  let cfg := m_cfg m in
  match o with
  | OExec lang text =>
    (m, match execute LX ck cfg lang text with Ok r => MRes r | Panic st => MPanic st end)
  | OExecFresh lang text =>
    (m, match execute LX ck default_config lang text with Ok r => MRes r | Panic st => MPanic st end)
  | ONewSession sid => ({| m_cfg := cfg; m_sessions := sess_put sid new_session (m_sessions m) |}, MRet None)
  | OSetText sid text =>
    (match sess_get sid (m_sessions m) with
     | Some se => {| m_cfg := cfg; m_sessions := sess_put sid (set_text se text) (m_sessions m) |}
     | None => m end, MRet None)
  | OSetLanguage sid lang =>
    (match sess_get sid (m_sessions m) with
     | Some se => {| m_cfg := cfg; m_sessions := sess_put sid (set_language se lang) (m_sessions m) |}
     | None => m end, MRet None)
  | OExecSession sid =>
    match sess_get sid (m_sessions m) with
    | None => (m, MRet None)
    | Some se =>
      match execute_session LX ck cfg se with
      | Ok (se', r) => ({| m_cfg := cfg; m_sessions := sess_put sid se' (m_sessions m) |}, MRes r)
      | Panic st => (m, MPanic st)
      end
    end
  | OSetDec v => (with_cfg m (set_fmt cfg (cf_money cfg) (cf_number cfg) (cf_percent cfg) v (cf_tsep cfg) (cf_tz cfg)), MRet None)
  | OSetThou v => (with_cfg m (set_fmt cfg (cf_money cfg) (cf_number cfg) (cf_percent cfg) (cf_dsep cfg) v (cf_tz cfg)), MRet None)
  | OSetTz v =>
    match set_timezone cfg v with
    | Some (n, o) =>
      (with_cfg m (set_fmt cfg (cf_money cfg) (cf_number cfg) (cf_percent cfg) (cf_dsep cfg) (cf_tsep cfg)
                           {| tz_name := n; tz_off := o |}), MTz true n o)
    | None => (m, MTz false [] 0)
    end
  | OGetTz => (m, MTz true (tz_name (cf_tz cfg)) (tz_off (cf_tz cfg)))
  | OSetNumCfg d rm rnd =>
    (with_cfg m (set_fmt cfg (cf_money cfg) (nc d rm rnd) (cf_percent cfg) (cf_dsep cfg) (cf_tsep cfg) (cf_tz cfg)), MRet None)
  | OSetPctCfg d rm rnd =>
    (with_cfg m (set_fmt cfg (cf_money cfg) (cf_number cfg) (nc d rm rnd) (cf_dsep cfg) (cf_tsep cfg) (cf_tz cfg)), MRet None)
  | OSetMoneyCfg rm rnd =>
    (with_cfg m (set_fmt cfg (nc 0 rm rnd) (cf_number cfg) (cf_percent cfg) (cf_dsep cfg) (cf_tsep cfg) (cf_tz cfg)), MRet None)
  | OUpdateCurrency cur rate =>
    match read_currency cfg cur with
    | Some code => (with_cfg m (set_rates cfg (assoc_insert code rate (cf_rates cfg))), MRet (Some true))
    | None => (m, MRet (Some false))
    end
  | OAddRule lang patterns name kind k cur =>
    match tokenise_patterns LX ck cfg lang patterns with
    | Panic st => (m, MPanic st)
    | Ok ps0 =>
      let ps := filter (fun p => match p with [] => false | _ => true end) ps0 in   (* empty patterns are ignored *)
      match assoc lang (cf_rules cfg) with
      | None => (m, MRet (Some false))
      | Some _ =>
        let r := RApi ps {| ar_name := name; ar_kind := kind; ar_k := k; ar_cur := cur |} in
        (with_cfg m (set_rules cfg (assoc_update lang (fun rs => rs ++ [r]) (cf_rules cfg))), MRet (Some true))
      end
    end
  | ODeleteRule lang name =>
    match assoc lang (cf_rules cfg) with
    | None => (m, MRet (Some false))
    | Some rs =>
      match find_index (fun r => match r with RApi _ ar => str_eqb name (ar_name ar) | _ => false end) rs with
      | Some i => (with_cfg m (set_rules cfg (assoc_update lang (fun rs => remove_at i rs) (cf_rules cfg))), MRet (Some true))
      | None => (m, MRet (Some false))
      end
    end
  | OAddType name =>
    match assoc name (cf_types cfg) with
    | Some _ => (m, MRet (Some false))
    | None => (with_cfg m (set_types cfg (assoc_insert name [] (cf_types cfg))), MRet (Some true))
    end
  | OAddTypeItem name index format parse up down names digits rnd rm =>
    match assoc name (cf_types cfg) with
    | None => (m, MRet (Some false))
    | Some g =>
      match nassoc index g with
      | Some _ => (m, MRet (Some false))
      | None =>
        match tokenise_patterns LX ck cfg (s "en") parse with
        | Panic st => (m, MPanic st)
        | Ok ps0 =>
          let ps := filter (fun p => match p with [] => false | _ => true end) ps0 in
          let d := {| dt_group := name; dt_index := index; dt_format := format; dt_parse := ps; dt_up := up;
                      dt_down := down; dt_names := names; dt_digits := digits; dt_round := rnd; dt_rm := rm |} in
          (with_cfg m (set_types cfg (assoc_insert name (ninsert index d g) (cf_types cfg))), MRet (Some true))
        end
      end
    end
  | OSetDateRule lang patterns =>
    (* SmartCalc::set_date_rule: replaces the small_date rule of a known language (appended last) *)
    match set_date_rule LX ck cfg lang patterns with
    | Ok cfg' => (with_cfg m cfg', MRet None)
    | Panic st => (m, MPanic st)
    end
  end.

Fixpoint run (m : mstate) (ops : list op) : list mobs :=
  match ops with
  | [] => []
  | o :: r => let '(m', ob) := step m o in ob :: run m' r
  end.

End Step.

(* ---------- implementation observations (written by tools/cases.py) ---------- *)
Inductive iline :=
| ILNone
| ILErr (msg : str)
| ILOk (out : str) (v : option (token F)).      (* the result ast as a token when it is an Item *)

Record iobsline := { il_res : iline; il_ui : option (list (N * N * uikind)); il_toks : option (list (token F)) }.

Inductive iobs :=
| IPanic
| IHang
| IRes (status : bool) (lines : list iobsline)
| IRet (b : option bool)
| ITz (ok : bool) (name : str) (off : Z).

(* ---------- exact comparison ---------- *)
Definition bits_eqb (a b : F) : bool := Z.eqb (f64_to_bits a) (f64_to_bits b).

Definition opt_str_eqb (a b : option str) : bool :=
  match a, b with Some x, Some y => str_eqb x y | None, None => true | _, _ => false end.

Definition field_exact (a b : field) : bool :=
  match a, b with
  | FText n e, FText n' e' => str_eqb n n' && opt_str_eqb e e'
  | FDateTime n, FDateTime n' | FDate n, FDate n' | FTime n, FTime n' | FMoney n, FMoney n'
  | FPercent n, FPercent n' | FNumber n, FNumber n' | FMonth n, FMonth n' | FDuration n, FDuration n'
  | FTimezone n, FTimezone n' => str_eqb n n'
  | FGroup n l, FGroup n' l' => str_eqb n n' && Match.list_str_eqb l l'
  | FTypeGroup l n, FTypeGroup l' n' => str_eqb n n' && Match.list_str_eqb l l'
  | FDynamicType n e, FDynamicType n' e' => str_eqb n n' && opt_str_eqb e e'
  | _, _ => false
  end.

Definition token_exact (a b : token F) : bool :=
  match a, b with
  | TNumber x t, TNumber y t' => bits_eqb x y && numtype_eqb t t'
  | TText x, TText y => str_eqb x y
  | TTime x z, TTime y z' => Z.eqb x y && tz_eqb z z'
  | TDate x z, TDate y z' => Z.eqb x y && tz_eqb z z'
  | TDateTime x z, TDateTime y z' => Z.eqb x y && tz_eqb z z'
  | TOperator x, TOperator y => N.eqb x y
  | TField f, TField g => field_exact f g
  | TPercent x, TPercent y => bits_eqb x y
  | TDynamicType x u, TDynamicType y u' => bits_eqb x y && unitref_eqb u u'
  | TMoney x c, TMoney y c' => bits_eqb x y && str_eqb c c'
  | TVariable x, TVariable y => str_eqb x y
  | TMonth x, TMonth y => Z.eqb x y
  | TDuration x, TDuration y => Z.eqb x y
  | TTimezone n o, TTimezone n' o' => str_eqb n n' && Z.eqb o o'
  | _, _ => false
  end.

Fixpoint list_eqb {A B} (f : A -> B -> bool) (a : list A) (b : list B) : bool :=
  match a, b with
  | [], [] => true
  | x :: a', y :: b' => f x y && list_eqb f a' b'
  | _, _ => false
  end.

Definition uikind_eqb (a b : uikind) : bool :=
  match a, b with
  | UText, UText | UNumber, UNumber | USymbol1, USymbol1 | USymbol2, USymbol2 | UDateTime, UDateTime
  | UOperator, UOperator | UComment, UComment | UVariableDefination, UVariableDefination
  | UVariableUse, UVariableUse | UMonth, UMonth => true
  | _, _ => false
  end.

Definition ui_eqb (m : uitoken) (i : N * N * uikind) : bool :=
  let '(st, en, k) := i in N.eqb (ui_start m) st && N.eqb (ui_end m) en && uikind_eqb (ui_kind m) k.

Definition ast_as_token (a : ast F) : option (token F) :=
  match a with AItem i => Some (item_token i) | _ => None end.

Definition opt_token_exact (a b : option (token F)) : bool :=
  match a, b with Some x, Some y => token_exact x y | None, None => true | _, _ => false end.

(* what is compared per line: result kind, message / output text, value, UI tokens, and the
   final token list when the harness reported it *)
Definition line_eqb (m : option (line_obs (F:=F))) (i : iobsline) : bool :=
  match m, il_res i with
  | None, ILNone => true
  | Some o, ILErr msg =>
    match lo_result o with LErr m' => str_eqb m' msg | _ => false end
    && match il_ui i with Some us => list_eqb ui_eqb (lo_ui o) us | None => true end
    && match il_toks i with Some ts => list_eqb token_exact (lo_tokens o) ts | None => true end
  | Some o, ILOk out v =>
    match lo_result o with
    | LOk out' a => str_eqb out' out && opt_token_exact (ast_as_token a) v
    | _ => false end
    && match il_ui i with Some us => list_eqb ui_eqb (lo_ui o) us | None => true end
    && match il_toks i with Some ts => list_eqb token_exact (lo_tokens o) ts | None => true end
  | _, _ => false
  end.

Definition obs_eqb (m : mobs) (i : iobs) : bool :=
  match m, i with
  | MPanic _, IPanic => true
  | MPanic st, IHang => N.eqb st SITE_OUT_OF_FUEL
  | MRes r, IRes status lines => Bool.eqb (er_status r) status && list_eqb line_eqb (er_lines r) lines
  | MRet a, IRet b => match a, b with
                      | Some x, Some y => Bool.eqb x y
                      | None, None => true
                      | _, _ => false end
  | MTz ok n o, ITz ok' n' o' => Bool.eqb ok ok' && (negb ok || (str_eqb n n' && Z.eqb o o'))
  | _, _ => false
  end.

(* one case = a history; result: indices (0-based) of the operations whose observations differ *)
Definition case_mismatches (ck : clock) (ops : list op) (impl : list iobs) : list N :=
  let ms := run ck init_state ops in
  (fix go (ms : list mobs) (is : list iobs) (k : N) : list N :=
     match ms, is with
     | [], [] => []
     | m :: ms', i :: is' => (if obs_eqb m i then [] else [k]) ++ go ms' is' (k + 1)%N
     | _, _ => [k]
     end) ms impl 0%N.

(* compact rendering of the model's observation for diagnostics (printed only on mismatch) *)
Definition show_line (l : option (line_obs (F:=F))) : list Z :=
  match l with
  | None => [-1]
  | Some o => match lo_result o with
              | LErr m => -2 :: map Z.of_N m
              | LOk out _ => -3 :: map Z.of_N out
              end
  end.
Definition show_obs (m : mobs) : list (list Z) :=
  match m with
  | MPanic st => [[-9; Z.of_N st]]
  | MRes r => [if er_status r then 1 else 0] :: map show_line (er_lines r)
  | MRet b => [[-8; match b with Some true => 1 | Some false => 0 | None => -1 end]]
  | MTz ok n o => [[-7; if ok then 1 else 0; o] ++ map Z.of_N n]
  end.
