(* Token / field comparison (src/types.rs:188-206, 262-279, 314-403). *)
From SC.Model Require Import Base Num Types Case.

Section WithNum.
Context {F : Type} {NF : Num F}.

Definition opt_expected (e : option str) (actual : str) : bool :=
  match e with None => true | Some v => ci_eqb v actual end.

(* TokenType::field_compare (types.rs:262-279) *)
Definition token_field_compare (t : token F) (f : field) : bool :=
  match f, t with
  | FDynamicType _ e, TDynamicType _ u => opt_expected e (u_group u)
  | FPercent _, TPercent _ => true
  | FTimezone _, TTimezone _ _ => true
  | FNumber _, TNumber _ _ => true
  | FText _ e, TText v => opt_expected e v
  | FTime _, TTime _ _ => true
  | FDateTime _, TDateTime _ _ => true
  | FDate _, TDate _ _ => true
  | FMoney _, TMoney _ _ => true
  | FMonth _, TMonth _ => true
  | FDuration _, TDuration _ => true
  | FGroup _ items, TText v => existsb (fun it => ci_eqb it v) items
  | FTypeGroup types _, _ => mem_str (token_type_name t) types
  | _, _ => false
  end.

(* impl PartialEq for FieldType (types.rs:60-79) *)
Definition list_str_eqb (a b : list str) : bool :=
  (fix go a b := match a, b with
                 | [], [] => true
                 | x :: a', y :: b' => str_eqb x y && go a' b'
                 | _, _ => false end) a b.

Definition field_eqb (l r : field) : bool :=
  match l, r with
  | FTimezone a, FTimezone b | FPercent a, FPercent b | FNumber a, FNumber b
  | FDate a, FDate b | FDateTime a, FDateTime b | FTime a, FTime b | FMoney a, FMoney b
  | FMonth a, FMonth b | FDuration a, FDuration b => str_eqb a b
  | FText a _, FText b _ => ci_eqb a b
  | FGroup _ a, FGroup _ b => list_str_eqb a b
  | FDynamicType a _, FDynamicType b _ => str_eqb a b
  | FTypeGroup a1 a2, FTypeGroup b1 b2 => list_str_eqb a1 b1 && str_eqb a2 b2
  | _, _ => false
  end.

(* the common body of the two PartialEq impls for TokenInfo (types.rs:347-403) *)
Definition token_match (l r : token F) : bool :=
  match l, r with
  | TText a, TText b => ci_eqb a b
  | TNumber a _, TNumber b _ => feqb a b
  | TPercent a, TPercent b => feqb a b
  | TOperator a, TOperator b => N.eqb a b
  | TDate a za, TDate b zb => Z.eqb a b && tz_eqb za zb
  | TDuration a, TDuration b => Z.eqb a b
  | TMoney a ca, TMoney b cb => feqb a b && str_eqb ca cb
  | TTimezone a oa, TTimezone b ob => str_eqb a b && Z.eqb oa ob
  | TVariable a, TVariable b => str_eqb a b
  | TField f, _ => token_field_compare r f
  | _, TField f => token_field_compare l f
  | _, _ => false
  end.

(* impl PartialEq<TokenType> for TokenInfo (types.rs:347-373): additionally Month = Month *)
Definition info_eq_token (ti : token_info F) (r : token F) : bool :=
  match ti_ty ti with
  | None => false
  | Some l =>
    match l, r with
    | TMonth a, TMonth b => Z.eqb a b
    | _, _ => token_match l r
    end
  end.

(* impl PartialEq for TokenInfo (types.rs:375-403): no Month case, Removed never equal *)
Definition info_eq (a b : token_info F) : bool :=
  match ti_ty a, ti_ty b with
  | Some l, Some r =>
    if negb (ti_active a) || negb (ti_active b) then false else token_match l r
  | _, _ => false
  end.

(* SmartCalcAstType::type_name (types.rs:437-456); a Variable reports its value's name *)
Fixpoint ast_type_name (fuel : nat) (vs : vars F) (a : ast F) : str :=
  match a with
  | ANone => s "NONE"
  | AItem i => item_type_name i
  | AField f =>
    match f with
    | FText _ _ => s "TEXT" | FDate _ => s "DATE" | FDateTime _ => s "DATE_TIME" | FTime _ => s "TIME"
    | FMoney _ => s "MONEY" | FPercent _ => s "PERCENT" | FNumber _ => s "NUMBER" | FGroup _ _ => s "GROUP"
    | FTypeGroup _ _ => s "TYPE_GROUP" | FMonth _ => s "MONTH" | FDuration _ => s "DURATION"
    | FTimezone _ => s "TIMEZONE" | FDynamicType _ _ => s "DYNAMIC_TYPE"
    end
  | AMonth _ => s "MONTH"
  | ABinary _ _ _ => s "BINARY"
  | APrefixUnary _ a' => match fuel with O => s "NONE" | S f => ast_type_name f vs a' end
  | AAssignment _ _ _ => s "ASSIGNMENT"
  | ASymbol _ => s "SYMBOL"
  | AVariable n =>
    match fuel with
    | O => s "NONE"
    | S f => match assoc n vs with Some v => ast_type_name f vs (v_data v) | None => s "NONE" end
    end
  end.

(* SmartCalcAstType::field_compare (types.rs:458-479) *)
Definition ast_field_compare (vs : vars F) (a : ast F) (f : field) : bool :=
  match f, a with
  | FDynamicType _ e, AItem (IDynamicType _ u) => opt_expected e (u_group u)
  | FPercent _, AItem (IPercent _) => true
  | FNumber _, AItem (INumber _ _) => true
  | FText _ e, ASymbol v => opt_expected e v
  | FTime _, AItem (ITime _ _) => true
  | FMoney _, AItem (IMoney _ _) => true
  | FMonth _, AMonth _ => true
  | FDuration _, AItem (IDuration _) => true
  | FTimezone _, AItem _ => false               (* no item is named TIMEZONE *)
  | FDateTime _, AItem (IDateTime _ _) => true
  | FDate _, AItem (IDate _ _) => true
  | FTypeGroup types _, _ => mem_str (ast_type_name 8 vs a) types
  | _, _ => false
  end.

(* DataItem::is_same for an f64 argument: only NumberItem and PercentItem downcast to f64 *)
Definition item_is_same_f64 (i : item F) (x : F) : bool :=
  match i with
  | INumber y _ => fsame x y
  | IPercent y => fsame x y
  | _ => false
  end.

(* TokenType::variable_compare (types.rs:288-305): left is a rule token, right the variable's value *)
Definition variable_compare (vs : vars F) (lft : token_info F) (rgt : ast F) : bool :=
  match ti_ty lft with
  | None => false
  | Some t =>
    match t, rgt with
    | TText l, ASymbol r => ci_eqb l r
    | TTimezone _ _, AItem _ => false                 (* no item downcasts to (String, i32) *)
    | TNumber l _, AItem i => item_is_same_f64 i l
    | TPercent l, AItem i => item_is_same_f64 i l
    | TDuration l, AItem (IDuration r) => Z.eqb l r
    | TDuration _, AItem _ => false
    | TTime _ _, AItem _ => false                     (* (NaiveDateTime, TimeOffset): no item downcasts to the pair *)
    | TMoney l c, AItem (IMoney r c') => fsame l r && str_eqb c c'
    | TMoney _ _, AItem _ => false
    | TDate _ _, AItem _ => false
    | TField f, _ => ast_field_compare vs rgt f
    | _, _ => false
    end
  end.

(* TokenType::get_field_name *)
Definition get_field_name (ti : token_info F) : option str :=
  match ti_ty ti with
  | Some (TField f) => Some (field_name f)
  | _ => None
  end.

End WithNum.
