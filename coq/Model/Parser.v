(* The recursive-descent parser (src/syntax/*.rs), index-based exactly as in the code.
   Every function returns the parse result together with the new value of parser.index. *)
From SC.Model Require Import Base Num Types Case Post.

Section WithNum.
Context {F : Type} {NF : Num F}.

Inductive pres :=
| PAst (a : ast F)
| PErr (msg : str)
| PFuel.                       (* the model's fuel ran out: excluded by Proofs/ParserTermination.v *)

Definition E_NO_MORE := s "No more token".
Definition E_INVALID := s "Invalid expression".
Definition E_PAREN := s "Parentheses not closed".
Definition E_UNARY := s "Unary works with number".

Inductive level := LAddSub | LModulo | LMulDiv.

Definition level_ops (l : level) : list N :=
  match l with
  | LAddSub => [OP_PLUS; OP_MINUS]
  | LModulo => [OP_MOD]
  | LMulDiv => [OP_MUL; OP_DIV]
  end.

Section Tokens.
Variable tokens : list (token F).

Definition peek (idx : nat) : option (token F) := nth_opt tokens idx.

(* match_operator: the first operator of the list that the current token equals *)
Definition match_operator (ops : list N) (idx : nat) : option N :=
  match peek idx with
  | Some (TOperator c) => List.find (N.eqb c) ops
  | _ => None
  end.

(* PrimativeParser::parse_basic_primatives (primative.rs:20-58) *)
Definition parse_basic (idx : nat) : pres * nat :=
  match peek idx with
  | None => (PErr E_NO_MORE, idx)
  | Some t =>
    match t with
    | TTimezone _ _ | TText _ => (PAst ANone, S idx)
    | TDynamicType x u => (PAst (AItem (IDynamicType x u)), S idx)
    | TMoney x c => (PAst (AItem (IMoney x c)), S idx)
    | TNumber x nt => (PAst (AItem (INumber x nt)), S idx)
    | TField f => (PAst (AField f), S idx)
    | TPercent x => (PAst (AItem (IPercent x)), S idx)
    | TTime x z => (PAst (AItem (ITime x z)), S idx)
    | TDate x z => (PAst (AItem (IDate x z)), S idx)
    | TDateTime x z => (PAst (AItem (IDateTime x z)), S idx)
    | TDuration x => (PAst (AItem (IDuration x)), S idx)
    | TVariable v => (PAst (AVariable v), S idx)
    | TOperator _ | TMonth _ => (PErr E_NO_MORE, S idx)
    end
  end.

(* UnaryParser::parse_prefix_unary (unary.rs:25-57).  Note: on success the operand token is
   NOT consumed (the index stays on it). *)
Definition parse_prefix_unary (idx : nat) : pres * nat :=
  match match_operator [OP_MINUS; OP_PLUS] idx with
  | Some op =>
    let idx1 := S idx in
    match peek idx1 with
    | Some t =>
      let opt := if N.eqb op OP_PLUS then f1 else fm1 in
      match t with
      | TNumber x nt => (PAst (AItem (INumber (fmul x opt) nt)), idx1)
      | TVariable v => (PAst (APrefixUnary op (AVariable v)), idx1)
      | TPercent x => (PAst (APrefixUnary op (AItem (IPercent x))), idx1)
      | TMoney x c => (PAst (APrefixUnary op (APrefixUnary op (AItem (IMoney x c)))), idx1)
      | _ => (PErr E_UNARY, idx)
      end
    | None => (PAst ANone, idx1)
    end
  | None => (PAst ANone, idx)
  end.

Fixpoint parse_level (fuel : nat) (l : level) (idx : nat) {struct fuel} : pres * nat :=
  match fuel with
  | O => (PFuel, idx)
  | S f =>
    match parse_sub f l idx with
    | (PAst ANone, i) => (PAst ANone, i)
    | (PAst lft, i) => binary_loop f l lft i
    | r => r
    end
  end
(* T::parse for the level below *)
with parse_sub (fuel : nat) (l : level) (idx : nat) {struct fuel} : pres * nat :=
  match fuel with
  | O => (PFuel, idx)
  | S f =>
    match l with
    | LAddSub => parse_level f LModulo idx
    | LModulo => parse_level f LMulDiv idx
    | LMulDiv => parse_unary f idx
    end
  end
(* the outer loop of parse_binary (binary.rs:42-67) *)
with binary_loop (fuel : nat) (l : level) (lft : ast F) (idx : nat) {struct fuel} : pres * nat :=
  match fuel with
  | O => (PFuel, idx)
  | S f =>
    match match_operator (level_ops l) idx with
    | Some op =>
      match right_loop f l (S idx) with
      | (PAst r, i) => binary_loop f l (ABinary lft op r) i
      | e => e
      end
    | None => (PAst lft, idx)
    end
  end
(* the inner loop: retry while the operand parser yields None *)
with right_loop (fuel : nat) (l : level) (idx : nat) {struct fuel} : pres * nat :=
  match fuel with
  | O => (PFuel, idx)
  | S f =>
    match parse_sub f l idx with
    | (PAst ANone, i) => right_loop f l i
    | r => r
    end
  end
(* UnaryParser::parse = map_parser [parse_prefix_unary; PrimativeParser::parse]
   PrimativeParser::parse = map_parser [parse_parenthesis; parse_basic_primatives] *)
with parse_unary (fuel : nat) (idx : nat) {struct fuel} : pres * nat :=
  match fuel with
  | O => (PFuel, idx)
  | S f =>
    match parse_prefix_unary idx with
    | (PAst ANone, i) =>
      (* parse_parenthesis (primative.rs:60-78) *)
      match match_operator [OP_LP] i with
      | Some _ =>
        match parse_level f LAddSub (S i) with
        | (PFuel, j) => (PFuel, j)
        | (PAst ANone, _) => (PErr E_INVALID, i)
        | (PErr m, _) => (PErr m, i)
        | (PAst a, j) =>
          match match_operator [OP_RP] j with
          | Some _ => (PAst a, S j)
          | None => (PErr E_PAREN, i)
          end
        end
      | None => parse_basic i
      end
    | r => r
    end
  end.

End Tokens.

(* TokenType::to_string (types.rs:208-239), as far as variable names need it *)
Definition Z_to_str (z : Z) : str :=
  let fix digits (fuel : nat) (n : Z) (acc : str) : str :=
    match fuel with
    | O => acc
    | S f => let acc' := (Z.to_N (48 + n mod 10)) :: acc in
             if n <? 10 then acc' else digits f (n / 10) acc'
    end in
  if z <? 0 then 45%N :: digits (S (Z.to_nat (Z.log2 (- z)))) (- z) []
  else digits (S (Z.to_nat (Z.log2 z))) z [].

Definition token_to_string (vs : vars F) (t : token F) : str :=
  match t with
  | TNumber x _ => fdisplay x
  | TText v => v
  | TOperator c => [c]
  | TField _ => s "field"
  | TPercent x => 37%N :: fdisplay x
  | TMoney x c => fdisplay x ++ 32%N :: c
  | TVariable v => v                       (* VariableInfo::to_string = its key *)
  | TMonth m => Z_to_str m
  | TTimezone n o => n ++ 32%N :: Z_to_str o
  | TDuration _ | TTime _ _ | TDate _ _ | TDateTime _ _ | TDynamicType _ _ => s "?unmodelled?"
  end.

(* AssignmentParser::parse (assignment.rs:24-83) *)
Fixpoint assign_name_loop (fuel : nat) (tokens : list (token F)) (vs : vars F) (idx : nat) (name : str) : nat * str :=
  (* `while let Some(token) = parser.consume_token()` starting with index = idx *)
  match fuel with
  | O => (idx, name)
  | S f =>
    let idx1 := S idx in
    match nth_opt tokens idx1 with
    | None => (idx1, name)
    | Some (TOperator c) => if N.eqb c OP_EQ then (S idx1, name) else assign_name_loop f tokens vs idx1 name
    | Some t => assign_name_loop f tokens vs idx1 (name ++ to_lowercase (token_to_string vs t))
    end
  end.

Definition parse_fuel (tokens : list (token F)) : nat := (12 * length tokens + 24)%nat.

(* returns the result, the session variables after the parse (a new variable is registered
   at parse time with value None) and the parser index (it is NOT restored when the
   right-hand side parses to None) *)
Definition parse_assignment (tokens : list (token F)) (vs : vars F) : pres * vars F * nat :=
  match find_index (is_op OP_EQ) tokens with
  | Some _ =>
    match nth_opt tokens 0 with
    | None => (PAst ANone, vs, O)        (* unreachable: '=' exists so tokens is non-empty *)
    | Some t0 =>
      let name0 := to_lowercase (token_to_string vs t0) in
      let '(idx, name) := assign_name_loop (S (length tokens)) tokens vs 0 name0 in
      let end_ := Nat.pred idx in
      match parse_level tokens (parse_fuel tokens) LAddSub idx with
      | (PAst ANone, i) => (PAst ANone, vs, i)
      | (PAst e, i) =>
        let vs' := if assoc_mem name vs then vs
                   else assoc_insert name {| v_tokens := firstn end_ tokens; v_data := ANone |} vs in
        (PAst (AAssignment name e), vs', i)
      | (r, i) => (r, vs, i)
      end
    end
  | None => (PAst ANone, vs, O)
  end.

(* SyntaxParser::parse = map_parser [AssignmentParser::parse; AddSubtractParser::parse] *)
Definition parse (tokens : list (token F)) (vs : vars F) : pres * vars F :=
  match parse_assignment tokens vs with
  | (PAst ANone, vs', i) => (fst (parse_level tokens (parse_fuel tokens) LAddSub i), vs')
  | (r, vs', _) => (r, vs')
  end.

End WithNum.
