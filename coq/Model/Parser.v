(* The recursive-descent parser (src/syntax/*.rs), index-based exactly as in the code.
   Every function returns the parse result together with the remaining tokens (= parser.index). *)
From SC.Model Require Import Base Num Types Case Post.

Section WithNum.
Context {F : Type} {NF : Num F}.

Inductive pres :=
| PAst (a : ast F)
| PErr (msg : str)
| PFuel.                       (* the model's fuel ran out: excluded by Proofs/ParserTermination.v *)

Definition E_NO_MORE := s "No more token".
Definition E_INVALID := s "Invalid expression".
Definition E_PAREN := s "Parentheses not closed".
Definition E_UNARY := s "Unary works with number".

Inductive level := LAddSub | LModulo | LMulDiv.

Definition level_ops (l : level) : list N :=
  match l with
  | LAddSub => [OP_PLUS; OP_MINUS]
  | LModulo => [OP_MOD]
  | LMulDiv => [OP_MUL; OP_DIV]
  end.

(* The parser position is the remaining token list (the suffix tokens[index..]); "the index
   is restored" means the original suffix is returned. *)
Definition toks := list (token F).

(* match_operator: the first operator of the list that the current token equals *)
Definition match_operator (ops : list N) (ts : toks) : option N :=
  match ts with
  | TOperator c :: _ => List.find (N.eqb c) ops
  | _ => None
  end.

(* PrimativeParser::parse_basic_primatives (primative.rs:20-58) *)
Definition parse_basic (ts : toks) : pres * toks :=
  match ts with
  | [] => (PErr E_NO_MORE, ts)
  | t :: r =>
    match t with
    | TTimezone _ _ | TText _ => (PAst ANone, r)
    | TDynamicType x u => (PAst (AItem (IDynamicType x u)), r)
    | TMoney x c => (PAst (AItem (IMoney x c)), r)
    | TNumber x nt => (PAst (AItem (INumber x nt)), r)
    | TField f => (PAst (AField f), r)
    | TPercent x => (PAst (AItem (IPercent x)), r)
    | TTime x z => (PAst (AItem (ITime x z)), r)
    | TDate x z => (PAst (AItem (IDate x z)), r)
    | TDateTime x z => (PAst (AItem (IDateTime x z)), r)
    | TDuration x => (PAst (AItem (IDuration x)), r)
    | TVariable v => (PAst (AVariable v), r)
    | TOperator _ | TMonth _ => (PErr E_NO_MORE, r)
    end
  end.

Fixpoint parse_level (fuel : nat) (l : level) (ts : toks) {struct fuel} : pres * toks :=
  match fuel with
  | O => (PFuel, ts)
  | S f =>
    match parse_sub f l ts with
    | (PAst ANone, r) => (PAst ANone, r)
    | (PAst lft, r) => binary_loop f l lft r
    | r => r
    end
  end
(* T::parse for the level below *)
with parse_sub (fuel : nat) (l : level) (ts : toks) {struct fuel} : pres * toks :=
  match fuel with
  | O => (PFuel, ts)
  | S f =>
    match l with
    | LAddSub => parse_level f LModulo ts
    | LModulo => parse_level f LMulDiv ts
    | LMulDiv => parse_unary f ts
    end
  end
(* the outer loop of parse_binary (binary.rs:42-67) *)
with binary_loop (fuel : nat) (l : level) (lft : ast F) (ts : toks) {struct fuel} : pres * toks :=
  match fuel with
  | O => (PFuel, ts)
  | S f =>
    match match_operator (level_ops l) ts with
    | Some op =>
      match right_loop f l (tl ts) with
      | (PAst r, rest) => binary_loop f l (ABinary lft op r) rest
      | e => e
      end
    | None => (PAst lft, ts)
    end
  end
(* the inner loop: retry while the operand parser yields None *)
with right_loop (fuel : nat) (l : level) (ts : toks) {struct fuel} : pres * toks :=
  match fuel with
  | O => (PFuel, ts)
  | S f =>
    match parse_sub f l ts with
    | (PAst ANone, r) => right_loop f l r
    | r => r
    end
  end
(* UnaryParser::parse = map_parser [parse_prefix_unary; PrimativeParser::parse]
   PrimativeParser::parse = map_parser [parse_parenthesis; parse_basic_primatives]
   parse_prefix_unary (unary.rs:25-66): the operand token is consumed; a sign may precede a
   parenthesised expression *)
with parse_unary (fuel : nat) (ts : toks) {struct fuel} : pres * toks :=
  match fuel with
  | O => (PFuel, ts)
  | S f =>
    match match_operator [OP_MINUS; OP_PLUS] ts with
    | Some op =>
      match tl ts with
      | t :: r' =>
        let opt := if N.eqb op OP_PLUS then f1 else fm1 in
        match t with
        | TNumber x nt => (PAst (AItem (INumber (fmul x opt) nt)), r')
        | TVariable v => (PAst (APrefixUnary op (AVariable v)), r')
        | TPercent x => (PAst (APrefixUnary op (AItem (IPercent x))), r')
        | TMoney x c => (PAst (APrefixUnary op (APrefixUnary op (AItem (IMoney x c)))), r')
        | TOperator c =>
          if N.eqb c OP_LP then
            match parse_paren f (tl ts) with
            | (PAst a, rest) => (PAst (APrefixUnary op a), rest)
            | e => e
            end
          else (PErr E_UNARY, ts)
        | _ => (PErr E_UNARY, ts)
        end
      | [] =>
        (* Ok(None) with the operator consumed; the primary parser then fails at the end *)
        parse_basic []
      end
    | None =>
      match match_operator [OP_LP] ts with
      | Some _ => parse_paren f ts
      | None => parse_basic ts
      end
    end
  end
(* parse_parenthesis (primative.rs:60-78) on a list that starts with '(' *)
with parse_paren (fuel : nat) (ts : toks) {struct fuel} : pres * toks :=
  match fuel with
  | O => (PFuel, ts)
  | S f =>
    match parse_level f LAddSub (tl ts) with
    | (PFuel, r) => (PFuel, r)
    | (PAst ANone, _) => (PErr E_INVALID, ts)
    | (PErr m, _) => (PErr m, ts)
    | (PAst a, r) =>
      match match_operator [OP_RP] r with
      | Some _ => (PAst a, tl r)
      | None => (PErr E_PAREN, ts)
      end
    end
  end.

(* TokenType::to_string (types.rs:208-239), as far as variable names need it *)
Definition Z_to_str (z : Z) : str :=
  let fix digits (fuel : nat) (n : Z) (acc : str) : str :=
    match fuel with
    | O => acc
    | S f => let acc' := (Z.to_N (48 + n mod 10)) :: acc in
             if n <? 10 then acc' else digits f (n / 10) acc'
    end in
  if z <? 0 then 45%N :: digits (S (Z.to_nat (Z.log2 (- z)))) (- z) []
  else digits (S (Z.to_nat (Z.log2 z))) z [].

Definition token_to_string (vs : vars F) (t : token F) : str :=
  match t with
  | TNumber x _ => fdisplay x
  | TText v => v
  | TOperator c => [c]
  | TField _ => s "field"
  | TPercent x => 37%N :: fdisplay x
  | TMoney x c => fdisplay x ++ 32%N :: c
  | TVariable v => v                       (* VariableInfo::to_string = its key *)
  | TMonth m => Z_to_str m
  | TTimezone n o => n ++ 32%N :: Z_to_str o
  | TDuration _ | TTime _ _ | TDate _ _ | TDateTime _ _ | TDynamicType _ _ => s "?unmodelled?"
  end.

(* VariableInfo::to_string (variable/mod.rs:29-33): the key under which Session::add_variable stores a variable -
   ALL its name tokens, operators included, lower-cased and joined by one space.  (The assignment parser looks an
   existing variable up under [name] below, which leaves operator tokens out: the two agree exactly when the name
   holds no operator token.) *)
Definition var_key (vs : vars F) (toks : list (token F)) : str :=
  match toks with
  | [] => []
  | t :: r => fold_left (fun acc t' => acc ++ 32%N :: to_lowercase (token_to_string vs t')) r
                        (to_lowercase (token_to_string vs t))
  end.

(* AssignmentParser::parse (assignment.rs:24-83) *)
Fixpoint assign_name_loop (fuel : nat) (tokens : list (token F)) (vs : vars F) (idx : nat) (name : str) : nat * str :=
  (* `while let Some(token) = parser.consume_token()` starting with index = idx *)
  match fuel with
  | O => (idx, name)
  | S f =>
    let idx1 := S idx in
    match nth_opt tokens idx1 with
    | None => (idx1, name)
    | Some (TOperator c) =>
      if N.eqb c OP_EQ then (S idx1, name)
      else assign_name_loop f tokens vs idx1 (name ++ 32%N :: to_lowercase (token_to_string vs (TOperator c)))
    | Some t => assign_name_loop f tokens vs idx1 (name ++ 32%N :: to_lowercase (token_to_string vs t))
    end
  end.

Definition parse_fuel (tokens : list (token F)) : nat := (12 * length tokens + 24)%nat.

(* returns the result, the session variables after the parse (unchanged: registration moved to
   the interpreter) and the parser position (it is NOT restored when the
   right-hand side parses to None) *)
Definition parse_assignment (tokens : list (token F)) (vs : vars F) : pres * vars F * toks :=
  match find_index (is_op OP_EQ) tokens with
  | Some _ =>
    match nth_opt tokens 0 with
    | None => (PAst ANone, vs, tokens)   (* unreachable: '=' exists so tokens is non-empty *)
    | Some t0 =>
      let name0 := to_lowercase (token_to_string vs t0) in
      let '(idx, name) := assign_name_loop (S (length tokens)) tokens vs 0 name0 in
      let end_ := Nat.pred idx in
      match parse_level (parse_fuel tokens) LAddSub (skipn idx tokens) with
      | (PAst ANone, i) => (PAst ANone, vs, i)
      | (PAst e, i) =>
        (* the variable is only registered by executer_assignment, once its value is computed *)
        (PAst (AAssignment name (firstn end_ tokens) e), vs, i)
      | (r, i) => (r, vs, i)
      end
    end
  | None => (PAst ANone, vs, tokens)
  end.

(* SyntaxParser::parse = map_parser [AssignmentParser::parse; AddSubtractParser::parse] *)
Definition parse (tokens : list (token F)) (vs : vars F) : pres * vars F :=
  match parse_assignment tokens vs with
  | (PAst ANone, vs', rest) => (fst (parse_level (parse_fuel tokens) LAddSub rest), vs')
  | (r, vs', _) => (r, vs')
  end.

End WithNum.
