(* Base definitions shared by the whole model: strings as code-point lists,
   outcomes with explicit panics, small list utilities. *)
From Coq Require Export List ZArith NArith Bool String Ascii Lia.
Export ListNotations.
Open Scope Z_scope.
(* String is exported only for literals; keep the list functions it shadows *)
Notation length := List.length (only parsing).

(* ---------- strings ---------- *)
Definition str := list N.            (* Unicode scalar values *)

Fixpoint str_eqb (a b : str) : bool :=
  match a, b with
  | [], [] => true
  | x :: a', y :: b' => N.eqb x y && str_eqb a' b'
  | _, _ => false
  end.

Lemma str_eqb_eq a b : str_eqb a b = true <-> a = b.
Proof.
  revert b; induction a as [|x a IH]; intros [|y b]; simpl; split; intro H;
    try reflexivity; try discriminate.
  - apply andb_true_iff in H as [H1 H2]. apply N.eqb_eq in H1. apply IH in H2. congruence.
  - inversion H; subst. rewrite N.eqb_refl. simpl. apply IH. reflexivity.
Qed.

Lemma str_eqb_refl a : str_eqb a a = true.
Proof. apply str_eqb_eq. reflexivity. Qed.

(* lexicographic order on code points = Rust's byte order on UTF-8 strings *)
Fixpoint str_ltb (a b : str) : bool :=
  match a, b with
  | [], [] => false
  | [], _ :: _ => true
  | _ :: _, [] => false
  | x :: a', y :: b' => if N.ltb x y then true else if N.ltb y x then false else str_ltb a' b'
  end.

(* ASCII literals: [s "abc"] (non-ASCII text is produced by the translator as numbers) *)
Fixpoint s (x : string) : str :=
  match x with
  | EmptyString => []
  | String c r => N_of_ascii c :: s r
  end.

Definition ch (x : string) : N :=
  match x with String c _ => N_of_ascii c | EmptyString => 0%N end.

Fixpoint starts_with (p x : str) : bool :=
  match p, x with
  | [], _ => true
  | a :: p', b :: x' => N.eqb a b && starts_with p' x'
  | _ :: _, [] => false
  end.

(* str::replace(from, to): non-overlapping, left to right; [from] non-empty
   (an empty pattern is handled by the caller, see [replace_all]). *)
Fixpoint replace_ne (fuel : nat) (from to x : str) : str :=
  match fuel with
  | O => x
  | S f =>
    match x with
    | [] => []
    | c :: r =>
      if starts_with from x then to ++ replace_ne f from to (skipn (length from) x)
      else c :: replace_ne f from to r
    end
  end.

(* Rust: "abc".replace("", "-") = "-a-b-c-" *)
Fixpoint intersperse_all (to x : str) : str :=
  match x with
  | [] => to
  | c :: r => to ++ c :: intersperse_all to r
  end.

Definition replace_all (from to x : str) : str :=
  match from with
  | [] => intersperse_all to x
  | _ => replace_ne (S (length x)) from to x
  end.

Fixpoint concat_str (l : list str) : str :=
  match l with [] => [] | x :: r => x ++ concat_str r end.

Fixpoint mem_str (x : str) (l : list str) : bool :=
  match l with [] => false | y :: r => str_eqb x y || mem_str x r end.

(* ---------- outcomes ---------- *)
(* A panic is a value: [Panic site] where [site] identifies the Rust source location
   (see Model/Sites.v).  [Ok] carries the normal result. *)
Inductive res (A : Type) : Type :=
| Ok (a : A)
| Panic (site : N).
Arguments Ok {A} a.
Arguments Panic {A} site.

Definition bind {A B} (x : res A) (f : A -> res B) : res B :=
  match x with Ok a => f a | Panic s => Panic s end.
Notation "'do' x <- e ; k" := (bind e (fun x => k)) (at level 200, x pattern, e at level 100, k at level 200).

Definition is_ok {A} (x : res A) : bool := match x with Ok _ => true | Panic _ => false end.

Fixpoint mapM {A B} (f : A -> res B) (l : list A) : res (list B) :=
  match l with
  | [] => Ok []
  | x :: r => do y <- f x; do ys <- mapM f r; Ok (y :: ys)
  end.

(* ---------- association lists (models of BTreeMap<String, _>) ---------- *)
Fixpoint assoc {A} (k : str) (l : list (str * A)) : option A :=
  match l with
  | [] => None
  | (k', v) :: r => if str_eqb k k' then Some v else assoc k r
  end.

(* insert keeping keys sorted (BTreeMap iteration order); replaces an existing key *)
Fixpoint assoc_insert {A} (k : str) (v : A) (l : list (str * A)) : list (str * A) :=
  match l with
  | [] => [(k, v)]
  | (k', v') :: r =>
    if str_eqb k k' then (k, v) :: r
    else if str_ltb k k' then (k, v) :: l
    else (k', v') :: assoc_insert k v r
  end.

Definition assoc_mem {A} (k : str) (l : list (str * A)) : bool :=
  match assoc k l with Some _ => true | None => false end.

Fixpoint nth_opt {A} (l : list A) (n : nat) : option A :=
  match l, n with
  | [], _ => None
  | x :: _, O => Some x
  | _ :: r, S n' => nth_opt r n'
  end.

Fixpoint insert_at {A} (n : nat) (x : A) (l : list A) : list A :=
  match n, l with
  | O, _ => x :: l
  | S n', [] => [x]            (* Vec::insert panics for n > len; callers check *)
  | S n', y :: r => y :: insert_at n' x r
  end.

Fixpoint remove_at {A} (n : nat) (l : list A) : list A :=
  match n, l with
  | _, [] => []
  | O, _ :: r => r
  | S n', y :: r => y :: remove_at n' r
  end.

Fixpoint find_index {A} (p : A -> bool) (l : list A) : option nat :=
  match l with
  | [] => None
  | x :: r => if p x then Some O else option_map S (find_index p r)
  end.

Definition option_bind {A B} (x : option A) (f : A -> option B) : option B :=
  match x with Some a => f a | None => None end.
