(* The lexer: month parser, the eleven regex parsers, alias rewriting
   (src/tokinizer/regex_tokinizer/*.rs, src/tokinizer/alias_tokinizer/mod.rs,
    src/tokinizer/mod.rs:154-184,262-265). *)
From SC.Model Require Import Base Num Types Config Case Chrono UiTokens Rx RuleFns Rules Format.
From SC.Gen Require Import RustConsts.

Section WithNum.
Context {F : Type} {NF : Num F}.

Record lexdata := {
  lx_parse : list (str * list cre);                  (* token_parse_regex *)
  lx_alias : list (cre * str);                       (* alias_regex *)
  lx_lang_alias : list (str * list (cre * str));     (* language_alias_regex *)
  lx_months : list (str * list (cre * monthinfo))    (* month_regex *)
}.

Variable lx : lexdata.
Variable today : Z.            (* Utc::today() as a day number *)

Definition tstate := @tstate F.

(* add_token_location (tokinizer/mod.rs:163-183) *)
Definition collides (infos : list (token_info F)) (st en : N) : bool :=
  existsb (fun it => N.ltb (ti_start it) en && N.ltb st (ti_end it)) infos.

Definition add_token (st : tstate) (b e : N) (ty : option (token F)) (text : str) : tstate * bool :=
  if collides (ts_infos st) b e then (st, false)
  else ({| ts_infos := ts_infos st ++ [{| ti_start := b; ti_end := e; ti_ty := ty; ti_text := text; ti_active := true |}];
           ts_ui := ts_ui st |}, true).

Definition with_ui (st : tstate) (ui : list uitoken) : tstate := {| ts_infos := ts_infos st; ts_ui := ui |}.

(* cleanup_token_infos: keep typed tokens, stable sort by start *)
Fixpoint info_insert_sorted (t : token_info F) (l : list (token_info F)) : list (token_info F) :=
  match l with
  | [] => [t]
  | x :: r => if N.ltb (ti_start t) (ti_start x) then t :: l else x :: info_insert_sorted t r
  end.
Definition cleanup (st : tstate) : tstate :=
  let typed := filter (fun t => match ti_ty t with Some _ => true | None => false end) (ts_infos st) in
  {| ts_infos := fold_left (fun acc t => info_insert_sorted t acc) typed []; ts_ui := ts_ui st |}.

(* iterate a parser body over all captures of all regexes of a group *)
Definition parser_body := cre -> capture -> tstate -> res tstate.

Fixpoint over_captures (body : parser_body) (c : cre) (cps : list capture) (st : tstate) : res tstate :=
  match cps with
  | [] => Ok st
  | cp :: r => do st' <- body c cp st; over_captures body c r st'
  end.

Fixpoint over_regexes (body : parser_body) (data : str) (res_ : list cre) (st : tstate) : res tstate :=
  match res_ with
  | [] => Ok st
  | c :: r => do st' <- over_captures body c (caps_iter c data) st; over_regexes body data r st'
  end.

(* literal readers: s.replace(thousand, "").replace(decimal, ".").parse::<f64>() *)
Definition read_decimal (cfg : config F) (x : str) : option F :=
  fparse (replace_all (cf_dsep cfg) [46%N] (replace_all (cf_tsep cfg) [] x)).

Definition notation_mult (table : list (N * Z)) (x : str) : F :=
  match x with
  | [c] => match List.find (fun p => N.eqb (fst p) c) table with
           | Some (_, v) => fofZ v
           | None => f1 end
  | _ => f1
  end.

Definition SITE_UNWRAP_CAPTURE : N := 2501.    (* capture.name(..).unwrap() on an unset group *)
Definition SITE_RADIX : N := 2502.             (* i64::from_str_radix(..).unwrap() *)
Definition SITE_PERCENT_PARSE : N := 2503.     (* percent.rs:17 parse::<f64>().unwrap() *)
Definition SITE_ATOM_PARSE : N := 2504.        (* atom.rs parse().unwrap() *)
Definition SITE_ATOM_INDEX : N := 2505.        (* atom.rs splited_data[1] *)
Definition SITE_LANG_TEXT : N := 2506.         (* text.rs:23 constant_pair.get(language).unwrap() *)
Definition SITE_LANG_ALIAS : N := 2507.        (* alias_tokinizer language_alias_regex.get(language).unwrap() *)
Definition SITE_LANG_FIELD : N := 2508.        (* field.rs word_group.get(language).unwrap() *)
Definition SITE_TIME_PARSE : N := 2509.        (* time.rs parse::<i32>().unwrap() *)

Definition need (o : option (N * N)) : res (N * N) :=
  match o with Some sp => Ok sp | None => Panic SITE_UNWRAP_CAPTURE end.

(* ---------- month (language_tokinizer) ---------- *)
Fixpoint before_hash (x : str) : str :=
  match x with
  | [] => []
  | c :: r => if N.eqb c 35 then [] else c :: before_hash r
  end.

Definition month_parser (cfg : config F) (lang : str) (line : str) (st : tstate) : res tstate :=
  let data := before_hash (to_lowercase line) in
  match assoc lang (lx_months lx) with
  | None => Ok st
  | Some months =>
    (fix go (ms : list (cre * monthinfo)) (st : tstate) : res tstate :=
       match ms with
       | [] => Ok st
       | (c, mi) :: r =>
         let body : parser_body := fun c cp st =>
           match cap_get cp 0 with
           | None => Ok st
           | Some (b, e) =>
             let '(st1, ok) := add_token st b e (Some (TMonth (mi_month mi))) (slice data (b, e)) in
             Ok (if ok then with_ui st1 (ui_add line (ts_ui st1) b e UMonth) else st1)
           end in
         do st' <- over_captures body c (caps_iter c data) st; go r st'
       end) months st
  end.

(* ---------- comment ---------- *)
Definition comment_body (line : str) : parser_body := fun c cp st =>
  match cap_get cp 0 with
  | None => Ok st
  | Some (b, e) =>
    let '(st1, ok) := add_token st b e None (slice line (b, e)) in
    Ok (if ok then with_ui st1 (ui_add line (ts_ui st1) b e UComment) else st1)
  end.

(* ---------- field ---------- *)
Definition str_is (x : str) (k : string) : bool := str_eqb x (s k).

Definition get_field_type (cfg : config F) (lang : str) (ty name : str) (extra : option str) : res (option field) :=
  if str_is ty "DATE_TIME" then Ok (Some (FDateTime name))
  else if str_is ty "DATE" then Ok (Some (FDate name))
  else if str_is ty "TIME" then Ok (Some (FTime name))
  else if str_is ty "NUMBER" then Ok (Some (FNumber name))
  else if str_is ty "MONEY" then Ok (Some (FMoney name))
  else if str_is ty "PERCENT" then Ok (Some (FPercent name))
  else if str_is ty "MONTH" then Ok (Some (FMonth name))
  else if str_is ty "TIMEZONE" then Ok (Some (FTimezone name))
  else if str_is ty "DURATION" then Ok (Some (FDuration name))
  else if str_is ty "DYNAMIC_TYPE" then Ok (Some (FDynamicType name extra))
  else if str_is ty "TEXT" then Ok (Some (FText name extra))
  else if str_is ty "GROUP" then
    let group := match extra with Some g => g | None => [] end in
    match lang_groups cfg lang with
    | None => Ok None
    | Some gs => Ok (option_map (fun items => FGroup name items) (assoc group gs))
    end
  else Ok (option_map (fun types => FTypeGroup types name) (assoc ty (cf_type_group cfg))).

Definition field_body (cfg : config F) (lang : str) (line : str) : parser_body := fun c cp st =>
  do fsp <- need (cap_name c cp "FIELD");
  do nsp <- need (cap_name c cp "NAME");
  let extra := option_map (slice line) (cap_name c cp "EXTRA") in
  do ft <- get_field_type cfg lang (slice line fsp) (slice line nsp) extra;
  match ft, cap_get cp 0 with
  | Some f, Some (b, e) => Ok (fst (add_token st b e (Some (TField f)) (slice line (b, e))))
  | _, _ => Ok st
  end.

(* ---------- money ---------- *)
Definition money_body (cfg : config F) (line : str) : parser_body := fun c cp st =>
  do psp <- need (cap_name c cp "PRICE");
  match read_decimal cfg (slice line psp) with
  | None => Ok st
  | Some price0 =>
    let notation := cap_name c cp "NOTATION" in
    let price := match notation with
                 | Some nsp => fmul price0 (notation_mult NOTATION_MONEY (slice line nsp))
                 | None => price0 end in
    match cap_name c cp "CURRENCY" with
    | None => Ok st
    | Some csp =>
      match read_currency cfg (slice line csp) with
      | None => Ok st
      | Some code =>
        let e := match notation with Some nsp => snd nsp | None => snd csp end in
        match cap_get cp 0 with
        | None => Ok st
        | Some (b, _) =>
          let '(st1, ok) := add_token st b e (Some (TMoney price code)) (slice line psp) in
          if ok then
            let ui := ui_add line (ts_ui st1) (fst psp) (snd psp) UNumber in
            let ui := ui_add line ui (fst csp) (snd csp) USymbol1 in
            let ui := ui_add_opt line ui notation USymbol2 in
            Ok (with_ui st1 ui)
          else Ok st1
        end
      end
    end
  end.

(* ---------- atom ---------- *)
Fixpoint split_on (c : N) (x : str) (cur : str) : list str :=
  match x with
  | [] => [rev cur]
  | a :: r => if N.eqb a c then rev cur :: split_on c r [] else split_on c r (a :: cur)
  end.

(* str::parse::<u32> *)
Definition parse_u32 (x : str) : option Z :=
  let chk (o : option Z) := match o with Some v => if v <? 2^32 then Some v else None | None => None end in
  match x with
  | [] => None
  | 43%N :: [] => None
  | 43%N :: r => chk (parse_digits r 0)
  | _ => chk (parse_digits x 0)
  end.

Definition SITE_ATOM_SECONDS : N := 2510.      (* from_num_seconds_from_midnight(>= 86400) *)

(* get_atom (atom.rs:23-73): the tokens of all atoms in [data] *)
Definition atom_of (cfg : config F) (c : cre) (data : str) (cp : capture)
  : res (option (N * N * token F * str)) :=
  do asp <- need (cap_name c cp "ATOM");
  do dsp <- need (cap_name c cp "DATA");
  let aty := slice data asp in
  let d := slice data dsp in
  do tok <-
     (if str_is aty "TIME" then
        match parse_u32 d with
        | None => Ok None
        | Some secs => if secs <? 86400 then Ok (Some (TTime (dt_of today secs) (get_time_offset cfg)))
                       else Ok None
        end
      else if str_is aty "MONEY" then
        match split_on 59%N d [] with
        | amount :: code :: _ =>
          match assoc code (cf_currency cfg) with
          | Some cur => match fparse amount with
                        | Some x => Ok (Some (TMoney x (c_code cur)))
                        | None => Ok None end
          | None => Ok None
          end
        | _ => Ok None
        end
      else if str_is aty "NUMBER" then
        match fparse d with Some x => Ok (Some (TNumber x Decimal)) | None => Ok None end
      else if str_is aty "PERCENT" then
        match fparse d with Some x => Ok (Some (TPercent x)) | None => Ok None end
      else if str_is aty "OPERATOR" then
        match d with ch0 :: _ => Ok (Some (TOperator ch0)) | [] => Panic SITE_ATOM_PARSE end
      else Ok None);
  match tok, cap_get cp 0 with
  | Some t, Some (b, e) => Ok (Some (b, e, t, slice data (b, e)))
  | _, _ => Ok None
  end.

Definition atom_regexes : list cre :=
  match assoc (s "atom") (lx_parse lx) with Some l => l | None => [] end.

Definition get_atom (cfg : config F) (data : str) (regexes : list cre) : res (list (N * N * token F * str)) :=
  (fix go (rs : list cre) : res (list (N * N * token F * str)) :=
     match rs with
     | [] => Ok []
     | c :: r =>
       do here <- (fix caps (cps : list capture) : res (list (N * N * token F * str)) :=
                     match cps with
                     | [] => Ok []
                     | cp :: rest =>
                       do a <- atom_of cfg c data cp;
                       do more <- caps rest;
                       Ok (match a with Some x => x :: more | None => more end)
                     end) (caps_iter c data);
       do others <- go r;
       Ok (here ++ others)
     end) regexes.

Definition atom_parser (cfg : config F) (line : str) (regexes : list cre) (st : tstate) : res tstate :=
  do atoms <- get_atom cfg line regexes;
  Ok (fold_left (fun st a => let '(b, e, t, text) := a in fst (add_token st b e (Some t) text)) atoms st).

(* ---------- percent ---------- *)
Definition percent_body (cfg : config F) (line : str) : parser_body := fun c cp st =>
  do nsp <- need (cap_name c cp "NUMBER");
  match read_decimal cfg (slice line nsp) with
  | None => Ok st
  | Some x =>
    match cap_get cp 0 with
    | None => Ok st
    | Some (b, e) =>
      let '(st1, ok) := add_token st b e (Some (TPercent x)) (slice line (b, e)) in
      if ok then
        let ui := ui_add line (ts_ui st1) (fst nsp) (snd nsp) UNumber in
        Ok (with_ui st1 (ui_add_opt line ui (cap_name c cp "PERCENT") USymbol2))
      else Ok st1
    end
  end.

(* ---------- timezone (tools.rs parse_timezone; timezone.rs) ---------- *)
Definition parse_timezone (cfg : config F) (c : cre) (data : str) (cp : capture) : option (str * Z) :=
  match cap_name c cp "timezone_1" with
  | Some sp =>
    let tz := to_uppercase (slice data sp) in
    option_map (fun off => (tz, off)) (assoc tz (cf_timezones cfg))
  | None =>
    match cap_name c cp "timezone_2" with
    | Some sp2 =>
      match cap_name c cp "timezone_hour" with
      | None => None
      | Some hsp =>
        match parse_i64 (slice data hsp) with
        | None => None
        | Some hour =>
          let minute := match cap_name c cp "timezone_minute" with
                        | Some msp => parse_i64 (slice data msp)
                        | None => Some 0 end in
          match minute with
          | None => None
          | Some minute =>
            let sign := match cap_name c cp "timezone_type" with
                        | Some tsp => if str_eqb (slice data tsp) [45%N] then -1 else 1
                        | None => 1 end in
            Some (slice data sp2, (hour * 60 + minute) * sign)
          end
        end
      end
    | None => None
    end
  end.

Definition timezone_body (cfg : config F) (line data : str) : parser_body := fun c cp st =>
  match parse_timezone cfg c data cp, cap_get cp 0 with
  | Some (tz, off), Some (b, e) =>
    let '(st1, ok) := add_token st b e (Some (TTimezone tz off)) (slice data (b, e)) in
    Ok (if ok then with_ui st1 (ui_add_opt line (ts_ui st1) (cap_name c cp "timezone") USymbol1) else st1)
  | _, _ => Ok st
  end.

(* ---------- time ---------- *)
Definition SITE_FIXED_OFFSET : N := 2511.      (* FixedOffset::east out of range *)

Definition time_body (cfg : config F) (line : str) : parser_body := fun c cp st =>
  do hsp <- need (cap_name c cp "hour");
  match parse_i64 (slice line hsp) with
  | None => Panic SITE_TIME_PARSE
  | Some hour0 =>
    let mo := cap_name c cp "minute" in
    let so := cap_name c cp "second" in
    let me := cap_name c cp "meridiem" in
    match (match mo with Some sp => parse_i64 (slice line sp) | None => Some 0 end),
          (match so with Some sp => parse_i64 (slice line sp) | None => Some 0 end) with
    | Some minute, Some second =>
      let end0 := match mo with Some sp => snd sp | None => 0%N end in
      let end1 := match so with Some sp => snd sp | None => end0 end in
      let hour := match me with
                  | Some sp => if str_eqb (to_lowercase (slice line sp)) (s "pm") && (hour0 <? 12) && (0 <=? hour0)
                               then hour0 + 12 else hour0
                  | None => hour0 end in
      let end2 := match me with Some sp => snd sp | None => end1 end in
      let tz := get_time_offset cfg in
      if 86400 <=? Z.abs (tz_off tz * 60) then Panic SITE_FIXED_OFFSET else
      if negb ((hour <? 24) && (minute <? 60) && (second <? 60)) then Panic SITE_AND_HMS else
      let utc := dt_of today (hour * 3600 + minute * 60 + second) - tz_off tz * 60 in
      match cap_get cp 0 with
      | None => Ok st
      | Some (b, e) =>
        let '(st1, ok) := add_token st b end2 (Some (TTime utc tz)) (slice line (b, e)) in
        Ok (if ok then with_ui st1 (ui_add line (ts_ui st1) b e UDateTime) else st1)
      end
    | _, _ => Panic SITE_TIME_PARSE
    end
  end.

(* ---------- number ---------- *)
Fixpoint radix_value (base : Z) (x : str) (acc : Z) : option Z :=
  match x with
  | [] => Some acc
  | c :: r =>
    let d := if (N.leb 48 c && N.leb c 57)%bool then Some (Z.of_N c - 48)
             else if (N.leb 97 c && N.leb c 122)%bool then Some (Z.of_N c - 87)
             else if (N.leb 65 c && N.leb c 90)%bool then Some (Z.of_N c - 55)
             else None in
    match d with
    | Some v => if v <? base then radix_value base r (acc * base + v) else None
    | None => None
    end
  end.

(* i64::from_str_radix(..) as f64; None (literal skipped) when it does not fit an i64 *)
Definition from_radix (base : Z) (x : str) : option F :=
  match radix_value base x 0 with
  | Some v => if v <? 2^63 then Some (fofZ v) else None
  | None => None
  end.

Definition number_body (cfg : config F) (line : str) : parser_body := fun c cp st =>
  let finish (st : tstate) (parse_end : N) (x : F) (nt : numtype) (nm : option (N * N)) (notm : option (N * N)) : res tstate :=
      match cap_get cp 0 with
      | None => Ok st
      | Some (b, e) =>
        let '(st1, ok) := add_token st b parse_end (Some (TNumber x nt)) (slice line (b, e)) in
        Ok (if ok then with_ui st1 (ui_add_opt line (ui_add_opt line (ts_ui st1) nm UNumber) notm USymbol2) else st1)
      end in
  match cap_name c cp "BINARY" with
  | Some sp => match from_radix 2 (slice line sp) with
               | Some x => finish st (snd sp) x Binary (cap_name c cp "BINARY_FULL") None
               | None => Ok st end
  | None =>
    match cap_name c cp "HEX" with
    | Some sp => match from_radix 16 (slice line sp) with
                 | Some x => finish st (snd sp) x Hexadecimal (cap_name c cp "HEX_FULL") None
                 | None => Ok st end
    | None =>
      match cap_name c cp "OCTAL" with
      | Some sp => match from_radix 8 (slice line sp) with
                   | Some x => finish st (snd sp) x Octal (cap_name c cp "OCTAL_FULL") None
                   | None => Ok st end
      | None =>
        match cap_name c cp "DECIMAL" with
        | Some sp =>
          match read_decimal cfg (slice line sp) with
          | None => Ok st
          | Some num =>
            match cap_name c cp "NOTATION" with
            | Some nsp =>
              let mult := notation_mult NOTATION_NUMBER (slice line nsp) in
              finish st (if feqb mult f1 then snd sp else snd nsp) (fmul num mult) Decimal (Some sp) (Some nsp)
            | None => finish st (snd sp) num Decimal (Some sp) None
            end
          end
        | None => finish st 0%N f0 Decimal None None
        end
      end
    end
  end.

(* ---------- text ---------- *)
Definition text_body (cfg : config F) (lang : str) (line : str) : parser_body := fun c cp st =>
  do tsp <- need (cap_name c cp "TEXT");
  let text := slice line tsp in
  if match trim text with [] => true | _ => false end then Ok st else
  match cap_get cp 0 with
  | None => Ok st
  | Some (b, e) =>
    let consts := match lang_constants cfg lang with Some m => m | None => [] end in
    let tz := get_time_offset cfg in
    let ctok := match assoc text consts with
                | Some CToday => Some (TDate today tz)
                | Some CTomorrow => Some (TDate (today + 1) tz)
                | Some CYesterday => Some (TDate (today - 1) tz)
                | Some CNow => Some (TTime (dt_of today 0) tz)      (* the clock is not modelled: generators avoid `now` *)
                | _ => None end in
    let st1 := match ctok with
               | Some t => let '(st1, ok) := add_token st b e (Some t) (slice line (b, e)) in
                           if ok then with_ui st1 (ui_add line (ts_ui st1) b e UDateTime) else st1
               | None => st end in
    let '(st2, ok) := add_token st1 b e (Some (TText text)) (slice line (b, e)) in
    Ok (if ok then with_ui st2 (ui_add line (ts_ui st2) b e
                                       (match read_currency cfg text with Some _ => USymbol1 | None => UText end))
        else st2)
  end.

(* ---------- whitespace / operator ---------- *)
Definition whitespace_body (line : str) : parser_body := fun c cp st =>
  match cap_get cp 0 with
  | Some (b, e) => Ok (fst (add_token st b e None (slice line (b, e))))
  | None => Ok st
  end.

Definition operator_body (line : str) : parser_body := fun c cp st =>
  match cap_get cp 0 with
  | Some (b, e) =>
    match slice line (b, e) with
    | [] => Panic SITE_UNWRAP_CAPTURE
    | c0 :: _ =>
      let '(st1, ok) := add_token st b e (Some (TOperator c0)) (slice line (b, e)) in
      Ok (if ok then with_ui st1 (ui_add line (ts_ui st1) b e UOperator) else st1)
    end
  | None => Ok st
  end.

(* ---------- regex_tokinizer ---------- *)
Definition run_parser (cfg : config F) (lang : str) (line : str) (key : str) (regexes : list cre) (st : tstate) : res tstate :=
  if str_is key "comment" then over_regexes (comment_body line) line regexes st
  else if str_is key "field" then over_regexes (field_body cfg lang line) line regexes st
  else if str_is key "money" then over_regexes (money_body cfg line) line regexes st
  else if str_is key "atom" then atom_parser cfg line regexes st
  else if str_is key "percent" then over_regexes (percent_body cfg line) line regexes st
  else if str_is key "timezone" then
    let data := to_uppercase line in over_regexes (timezone_body cfg line data) data regexes st
  else if str_is key "time" then over_regexes (time_body cfg line) line regexes st
  else if str_is key "number" then over_regexes (number_body cfg line) line regexes st
  else if str_is key "text" then over_regexes (text_body cfg lang line) line regexes st
  else if str_is key "whitespace" then over_regexes (whitespace_body line) line regexes st
  else if str_is key "operator" then over_regexes (operator_body line) line regexes st
  else Ok st.

Definition regex_tokinizer (cfg : config F) (lang : str) (line : str) (st : tstate) : res tstate :=
  do st' <- (fix go (keys : list str) (st : tstate) : res tstate :=
               match keys with
               | [] => Ok st
               | k :: r =>
                 match assoc k (lx_parse lx) with
                 | Some regexes => do st' <- run_parser cfg lang line k regexes st; go r st'
                 | None => go r st
                 end
               end) PARSER_ORDER st;
  Ok (cleanup st').

Definition language_tokinizer (cfg : config F) (lang : str) (line : str) (st : tstate) : res tstate :=
  do st' <- month_parser cfg lang line st; Ok (cleanup st').

(* ---------- alias_tokinizer ---------- *)
(* one pass of the alias list over one token: first alias whose regex matches and whose
   replacement has 0 or 1 atoms wins *)
Fixpoint alias_apply (cfg : config F) (aliases : list (cre * str)) (t : token_info F) : res (token_info F) :=
  match aliases with
  | [] => Ok t
  | (c, data) :: r =>
    if re_is_match c (to_lowercase (ti_text t)) then
      do atoms <- get_atom cfg data atom_regexes;
      match atoms with
      | [(_, _, ty, _)] => Ok (set_type t (Some ty))
      | [] => Ok (set_type t (Some (TText data)))
      | _ => alias_apply cfg r t
      end
    else alias_apply cfg r t
  end.

Definition alias_tokinizer (cfg : config F) (lang : str) (st : tstate) : res tstate :=
  do infos1 <- mapM (alias_apply cfg (lx_alias lx)) (ts_infos st);
  match assoc lang (lx_lang_alias lx) with
  | None => Ok {| ts_infos := infos1; ts_ui := ts_ui st |}        (* unknown language: no language aliases *)
  | Some aliases =>
    do infos2 <- mapM (alias_apply cfg aliases) infos1;
    Ok {| ts_infos := infos2; ts_ui := ts_ui st |}
  end.

(* Tokinizer::token_infos (tokinizer/mod.rs:92-114): what rule patterns are tokenised with *)
Definition empty_state : tstate := {| ts_infos := []; ts_ui := [] |}.

Definition token_infos (cfg : config F) (lang : str) (line : str) : res (list (token_info F)) :=
  do st1 <- language_tokinizer cfg lang line empty_state;
  do st2 <- regex_tokinizer cfg lang line st1;
  do st3 <- alias_tokinizer cfg lang st2;
  Ok (ts_infos st3).

End WithNum.
Arguments lexdata : clear implicits.
