(** * SC.Model.FloatIO — bit-exact model of Rust's f64 <-> text / integer conversions

    Everything here is executable Gallina on top of Coq's primitive binary64
    floats ([PrimFloat.float]) and exact integer arithmetic over [Z].
    No axioms, no Flocq.  Strings are [list N] of Unicode code points.

    Layout
      §1  small helpers (powers, fast division, characters)
      §2  decimal <-> Z helpers               [Z_to_dec], [dec_to_Z]
      §3  bits / decode / encode              [f64_of_bits], [f64_to_bits], [f64_decode]
      §4  correctly rounded rational -> f64   [f64_of_ratio], [f64_of_Z]
      §5  round / trunc / fract / casts       [f64_round] ... [f64_as_u64]
      §6  shortest round-trip Display         [f64_to_display]      (Rust "{}")
      §7  fixed precision                     [f64_to_fixed]        (Rust "{:.N}")
      §8  parsing                             [f64_parse]           (Rust str::parse::<f64>)

    All decimal work is done exactly:  a finite float is decoded to (s, m, e)
    with value (-1)^s * m * 2^e and from then on only integers are used. *)

From Coq Require Import ZArith NArith List Bool Uint63 Floats.
Import ListNotations.
Local Open Scope Z_scope.

(* ------------------------------------------------------------------ *)
(** ** §1  Helpers *)

(** [pow2 k] = 2^k for k >= 0 (O(k), shares structure). *)
Definition pow2 (k : Z) : Z := Z.shiftl 1 k.

(** Powers of five: a table of 5^(16 i), i = 0..24, so that 5^k for k < 400
    costs one lookup and one small multiplication instead of k
    multiplications.  Larger exponents fall back to [Z.pow]. *)
Definition pow5_table : list Z :=
  Eval vm_compute in
    map (fun i => 5 ^ (16 * Z.of_nat i)) (seq 0 25).

Definition pow5 (k : Z) : Z :=
  if k <=? 0 then 1
  else if k <? 400 then
    match nth_error pow5_table (Z.to_nat (k / 16)) with
    | Some t => t * 5 ^ (k mod 16)
    | None => 5 ^ k
    end
  else 5 ^ k.

(** [pow10 k] = 10^k for k >= 0 (1 for k <= 0). *)
Definition pow10 (k : Z) : Z :=
  if k <=? 0 then 1 else Z.shiftl (pow5 k) k.

(** Euclidean division specialised for SMALL QUOTIENTS of big operands.
    [Z.div] walks over every bit of the dividend; here only the
    [log2 a - log2 b + 1] possible quotient bits are tried, each with one
    comparison and at most one subtraction.  Requires [0 <= a], [0 < b]. *)
Fixpoint fdiv_loop (fuel : nat) (i : Z) (b r q : Z) : Z * Z :=
  match fuel with
  | O => (q, r)
  | S f =>
      let bi := Z.shiftl b i in
      if bi <=? r
      then fdiv_loop f (i - 1) b (r - bi) (Z.succ_double q)
      else fdiv_loop f (i - 1) b r (Z.double q)
  end.

Definition fdiv (a b : Z) : Z * Z :=
  if a <? b then (0, a)
  else
    let s := Z.log2 a - Z.log2 b in
    fdiv_loop (Z.to_nat (s + 1)) s b a 0.

(** [n] copies of [c] in front of [tl] ([n <= 0] gives [tl]). *)
Definition rep_app (c : N) (n : Z) (tl : list N) : list N :=
  match n with
  | Zpos p => Pos.iter (cons c) tl p
  | _ => tl
  end.

(** Character codes. *)
Definition ch_0 : N := 48.
Definition ch_dot : N := 46.
Definition ch_minus : N := 45.
Definition ch_plus : N := 43.

Definition is_digit (c : N) : bool := (48 <=? c)%N && (c <=? 57)%N.
Definition digit_val (c : N) : Z := Z.of_N c - 48.
Definition digit_chr (d : Z) : N := Z.to_N (d + 48).

(** ASCII lower-casing of a single code point (only A-Z are touched). *)
Definition ascii_lower (c : N) : N :=
  if (65 <=? c)%N && (c <=? 90)%N then (c + 32)%N else c.

Fixpoint fio_str_eqb (a b : list N) : bool :=
  match a, b with
  | [], [] => true
  | x :: a', y :: b' => (x =? y)%N && fio_str_eqb a' b'
  | _, _ => false
  end.

(* "inf", "infinity", "nan", "NaN" as code point lists *)
Definition s_inf : list N := [105; 110; 102]%N.
Definition s_infinity : list N := [105; 110; 102; 105; 110; 105; 116; 121]%N.
Definition s_nan : list N := [110; 97; 110]%N.
Definition s_NaN : list N := [78; 97; 78]%N.

(* ------------------------------------------------------------------ *)
(** ** §2  Decimal <-> Z *)

(** Decimal digits of a non-negative integer, most significant first,
    prepended to [acc]; the empty list for 0.  [fuel] bounds the number of
    digits (log2 z / 3 + 2 is always enough).  This is the plain, proof-friendly
    conversion; it is used for everything below 10^18. *)
Fixpoint dec_digits_loop (fuel : nat) (z : Z) (acc : list N) : list N :=
  match fuel with
  | O => acc
  | S f =>
      if z <=? 0 then acc
      else
        let (q, r) := Z.div_eucl z 10 in
        dec_digits_loop f q (digit_chr r :: acc)
  end.

Definition nat_dec_small (z : Z) : list N :=
  dec_digits_loop (Z.to_nat (Z.log2 z / 3 + 2)) z [].

(** Fast path for huge integers (e.g. the ~300 digits of [{:.2}] applied to
    1e300): repeated [Z] division by 10 is quadratic with a large constant, so
    the number is converted to base 10^18 limbs held in primitive 63-bit
    integers by "double and add" over the bits of the positive (most
    significant first), then every limb is expanded to 18 digits.
    2 * (10^18 - 1) + 1 < 2^63, so no limb operation overflows. *)
Definition limb_base : int := 1000000000000000000%uint63.

(** [2 * l + c] on little-endian limbs, [c] in {0, 1}. *)
Fixpoint limbs_dbl (l : list int) (c : int) : list int :=
  match l with
  | [] => if (c =? 0)%uint63 then [] else [c]
  | x :: tl =>
      let y := (x + x + c)%uint63 in
      if (y <? limb_base)%uint63 then y :: limbs_dbl tl 0%uint63
      else (y - limb_base)%uint63 :: limbs_dbl tl 1%uint63
  end.

Fixpoint pos_limbs (p : positive) : list int :=
  match p with
  | xH => [1%uint63]
  | xO q => limbs_dbl (pos_limbs q) 0%uint63
  | xI q => limbs_dbl (pos_limbs q) 1%uint63
  end.

(** Digits of one limb in front of [acc]: all 18 of them when [pad],
    otherwise without leading zeros. *)
Fixpoint limb_digits (fuel : nat) (x : int) (pad : bool) (acc : list N) : list N :=
  match fuel with
  | O => acc
  | S f =>
      if negb pad && (x =? 0)%uint63 then acc
      else
        limb_digits f (x / 10)%uint63 pad
          (Z.to_N (Uint63.to_Z (x mod 10)%uint63 + 48) :: acc)
  end.

(** Little-endian limbs -> digits; only the top limb is printed unpadded. *)
Fixpoint limbs_digits (l : list int) (acc : list N) : list N :=
  match l with
  | [] => acc
  | [x] => limb_digits 18 x false acc
  | x :: tl => limbs_digits tl (limb_digits 18 x true acc)
  end.

(** Decimal digits of z >= 0 ("0" for zero). *)
Definition nat_dec (z : Z) : list N :=
  match z with
  | Zpos p =>
      if z <? 1000000000000000000 then nat_dec_small z
      else limbs_digits (pos_limbs p) []
  | _ => [ch_0]
  end.

(** Rust [i64::to_string] (for any [Z]). *)
Definition Z_to_dec (z : Z) : list N :=
  if z <? 0 then ch_minus :: nat_dec (- z) else nat_dec z.

(** Longest prefix of ASCII digits: (accumulated value, number of digits, rest).
    [acc * 10] is written [8 acc + 2 acc]: shifts are free and one addition is
    much cheaper than a generic multiplication on long digit strings. *)
Fixpoint take_digits (s : list N) (acc cnt : Z) : Z * Z * list N :=
  match s with
  | c :: tl =>
      if is_digit c
      then take_digits tl (Z.shiftl acc 3 + Z.shiftl acc 1 + digit_val c) (cnt + 1)
      else (acc, cnt, s)
  | [] => (acc, cnt, s)
  end.

(** Rust [str::parse::<i64>] without the range check:
    optional '+' / '-', then at least one ASCII digit, nothing else. *)
Definition dec_to_Z (s : list N) : option Z :=
  let '(neg, body) :=
    match s with
    | c :: tl =>
        if (c =? ch_minus)%N then (true, tl)
        else if (c =? ch_plus)%N then (false, tl)
        else (false, s)
    | [] => (false, s)
    end in
  match take_digits body 0 0 with
  | (v, cnt, []) =>
      if cnt =? 0 then None else Some (if neg then - v else v)
  | _ => None
  end.

(* ------------------------------------------------------------------ *)
(** ** §3  Bits, decoding and encoding *)

(** Build the float (-1)^s * m * 2^e.  EXACT (no rounding) provided
    [0 <= m <= 2^53] and the value is representable, which every caller
    guarantees; [m = 0] gives a signed zero, values >= 2^1024 infinity. *)
Definition f64_make (s : bool) (m e : Z) : float :=
  match m with
  | Zpos p =>
      if (971 <? e) || ((e =? 971) && (pow2 53 <=? m))
      then (if s then neg_infinity else infinity)
      else SF2Prim (S754_finite s p e)
  | _ => if s then neg_zero else zero
  end.

(** Finite float -> (sign, mantissa, exponent) with x = (-1)^s * m * 2^e.
    The mantissa is the canonical one: 2^52 <= m < 2^53 for normal numbers,
    0 < m < 2^52 and e = -1074 for subnormals; zero gives (s, 0, 0). *)
Definition f64_decode (x : float) : option (bool * Z * Z) :=
  match Prim2SF x with
  | S754_zero s => Some (s, 0, 0)
  | S754_finite s m e => Some (s, Zpos m, e)
  | S754_infinity _ | S754_nan => None
  end.

Definition bits_sign : Z := pow2 63.
Definition bits_exp_inf : Z := 0x7ff0000000000000.
Definition bits_nan : Z := 0x7ff8000000000000.

(** IEEE-754 binary64 bit pattern -> float (all NaN patterns give [nan]). *)
Definition f64_of_bits (b : Z) : float :=
  let s := Z.testbit b 63 in
  let ex := Z.land (Z.shiftr b 52) 2047 in
  let fr := Z.land b (pow2 52 - 1) in
  if ex =? 2047 then
    (if fr =? 0 then (if s then neg_infinity else infinity) else nan)
  else if ex =? 0 then f64_make s fr (-1074)
  else f64_make s (fr + pow2 52) (ex - 1075).

(** float -> bit pattern; NaN gives the canonical quiet NaN 0x7ff8000000000000. *)
Definition f64_to_bits (x : float) : Z :=
  match Prim2SF x with
  | S754_nan => bits_nan
  | S754_zero s => if s then bits_sign else 0
  | S754_infinity s => if s then bits_sign + bits_exp_inf else bits_exp_inf
  | S754_finite s m e =>
      let m := Zpos m in
      let mag :=
        if m <? pow2 52 then m                     (* subnormal, e = -1074 *)
        else Z.shiftl (e + 1075) 52 + (m - pow2 52) in
      if s then bits_sign + mag else mag
  end.

(* ------------------------------------------------------------------ *)
(** ** §4  Correctly rounded rational -> binary64 *)

(** [f64_of_ratio s n d]: the binary64 nearest to (-1)^s * n / d, ties to even,
    overflow to infinity, gradual underflow.  Requires [0 < n], [0 < d]
    (anything else yields a signed zero).

    With e0 = log2 n - log2 d we have 2^(e0-1) < n/d < 2^(e0+1).  Choosing the
    unit 2^sh, sh = max (e0 - 53) (-1074), the integer quotient
    q = floor (n / d / 2^sh) is below 2^54; one more halving brings it below
    2^53 when needed.  The remainder decides the rounding exactly. *)
Definition f64_of_ratio (s : bool) (n d : Z) : float :=
  if (n <=? 0) || (d <=? 0) then f64_make s 0 0 else
  let e0 := Z.log2 n - Z.log2 d in
  if 1026 <? e0 then f64_make s 1 2000          (* >= 2^1025: infinity *)
  else if e0 <? -1080 then f64_make s 0 0       (* < 2^-1079: rounds to 0 *)
  else
    let sh := Z.max (e0 - 53) (-1074) in
    let n' := if 0 <=? sh then n else Z.shiftl n (- sh) in
    let d' := if 0 <=? sh then Z.shiftl d sh else d in
    let (q, r) := fdiv n' d' in
    (* renormalise so that q < 2^53 *)
    let '(q, r, d', sh) :=
      if pow2 53 <=? q
      then (Z.div2 q, (if Z.odd q then r + d' else r), Z.double d', sh + 1)
      else (q, r, d', sh) in
    let q :=
      match Z.double r ?= d' with
      | Gt => q + 1
      | Eq => if Z.odd q then q + 1 else q
      | Lt => q
      end in
    f64_make s q sh.

(** Rust [i64 as f64] / [u64 as f64] / [u128 as f64], for any integer. *)
Definition f64_of_Z (z : Z) : float :=
  match z with
  | Z0 => zero
  | Zpos _ => f64_of_ratio false z 1
  | Zneg _ => f64_of_ratio true (- z) 1
  end.

(* ------------------------------------------------------------------ *)
(** ** §5  round, trunc, fract and the saturating `as` casts *)

(** Rust [f64::trunc]: toward zero, keeps the sign of zero, nan/inf unchanged. *)
Definition f64_trunc (x : float) : float :=
  match f64_decode x with
  | None => x
  | Some (s, m, e) =>
      if 0 <=? e then x else f64_make s (Z.shiftr m (- e)) 0
  end.

(** Rust [f64::round]: nearest integer, ties AWAY from zero. *)
Definition f64_round (x : float) : float :=
  match f64_decode x with
  | None => x
  | Some (s, m, e) =>
      if 0 <=? e then x
      else
        let k := - e in
        let q := Z.shiftr m k in
        (* the bit of weight 1/2 decides *)
        let q := if Z.testbit m (k - 1) then q + 1 else q in
        f64_make s q 0
  end.

(** Rust [f64::fract] = [x - x.trunc()]. *)
Definition f64_fract (x : float) : float := PrimFloat.sub x (f64_trunc x).

(** Integer part (toward zero) of a finite float. *)
Definition f64_to_Z_trunc (x : float) : option Z :=
  match f64_decode x with
  | None => None
  | Some (s, m, e) =>
      let a := if 0 <=? e then Z.shiftl m e else Z.shiftr m (- e) in
      Some (if s then - a else a)
  end.

(** Rust's saturating float -> int cast into [lo, hi]; NaN gives 0. *)
Definition f64_as_int (lo hi : Z) (x : float) : Z :=
  match Prim2SF x with
  | S754_nan => 0
  | S754_infinity s => if s then lo else hi
  | _ =>
      match f64_to_Z_trunc x with
      | Some z => Z.max lo (Z.min hi z)
      | None => 0
      end
  end.

Definition f64_as_i64 : float -> Z := f64_as_int (- pow2 63) (pow2 63 - 1).
Definition f64_as_i32 : float -> Z := f64_as_int (- pow2 31) (pow2 31 - 1).
Definition f64_as_u32 : float -> Z := f64_as_int 0 (pow2 32 - 1).
Definition f64_as_u64 : float -> Z := f64_as_int 0 (pow2 64 - 1).

(* ------------------------------------------------------------------ *)
(** ** §6  Shortest round-trip digits (Rust "{}")

    This is the exact "Dragon4" free-format algorithm of Steele & White, as
    implemented in Rust's core::num::flt2dec::strategy::dragon::format_shortest
    (Grisu, which Rust tries first, returns the same digits whenever it
    succeeds).

    For v = m * 2^e > 0 let low = (pred v + v) / 2 and high = (v + succ v) / 2.
    Every decimal in (low, high) — [low, high] when m is even — reads back
    as v.  We produce the shortest digit string d1..dn and exponent k with
    0.d1..dn * 10^k in that interval, closest to v, exact ties rounding up.

    All quantities share the denominator Sc (the "scale"):
       v = R / Sc      v - low = Mm / Sc      high - v = Mp / Sc. *)

Record dragon_state := {
  dg_R : Z; dg_S : Z; dg_Mp : Z; dg_Mm : Z; dg_k : Z }.

(** floor (L * log10 2), accurate for |L| < 10^5. *)
Definition log10_pow2 (L : Z) : Z := (L * 78913) / 262144.

(** "a beyond b": strict or not according to [incl]. *)
Definition lt_or_le (incl : bool) (a b : Z) : bool :=
  if incl then a <=? b else a <? b.

(** Initial state: scale so that the first digit is floor (10 R / Sc),
    i.e. find k with  high / 10 (<|<=) 10^(k-1) ... high (<|<=) 10^k. *)
Definition dragon_init (m e : Z) : dragon_state :=
  let incl := Z.even m in
  let boundary := (m =? pow2 52) && (-1074 <? e) in
  (* v = R/Sc with room for the half-gaps *)
  let '(R, Sc, Mp, Mm) :=
    if 0 <=? e then
      if boundary
      then (Z.shiftl m (e + 2), 4, pow2 (e + 1), pow2 e)
      else (Z.shiftl m (e + 1), 2, pow2 e, pow2 e)
    else
      if boundary
      then (Z.shiftl m 2, pow2 (2 - e), 2, 1)
      else (Z.shiftl m 1, pow2 (1 - e), 1, 1) in
  (* estimate k = ceil (log10 v), then fix up *)
  let k0 := log10_pow2 (Z.log2 m + e) + 1 in
  let '(R, Sc, Mp, Mm) :=
    if 0 <=? k0 then (R, Sc * pow10 k0, Mp, Mm)
    else let p := pow10 (- k0) in (R * p, Sc, Mp * p, Mm * p) in
  (* too small: high >= 10^k (incl) / high > 10^k (excl)  ->  k + 1 *)
  let fix_up st :=
    if lt_or_le incl (dg_S st) (dg_R st + dg_Mp st)
    then {| dg_R := dg_R st; dg_S := dg_S st * 10; dg_Mp := dg_Mp st;
            dg_Mm := dg_Mm st; dg_k := dg_k st + 1 |}
    else st in
  (* too big: 10 * high (<|<=) 10^k, i.e. k - 1 already suffices *)
  let fix_down st :=
    if negb (lt_or_le incl (dg_S st) ((dg_R st + dg_Mp st) * 10))
    then {| dg_R := dg_R st * 10; dg_S := dg_S st; dg_Mp := dg_Mp st * 10;
            dg_Mm := dg_Mm st * 10; dg_k := dg_k st - 1 |}
    else st in
  let st := {| dg_R := R; dg_S := Sc; dg_Mp := Mp; dg_Mm := Mm; dg_k := k0 |} in
  fix_down (fix_down (fix_up (fix_up st))).

(** Add one unit in the last place to a reversed digit list;
    returns the new list and whether a carry fell off the top. *)
Fixpoint rev_digits_succ (ds : list Z) : list Z * bool :=
  match ds with
  | [] => ([], true)
  | d :: tl =>
      if d <? 9 then (d + 1 :: tl, false)
      else let (tl', c) := rev_digits_succ tl in (0 :: tl', c)
  end.

(** Digit generation.  [acc] holds the digits so far, least significant
    first.  Invariant: 0 <= R < Sc, digits so far + R/Sc * unit = v.
    Returns the final reversed digits and whether k must be incremented. *)
Fixpoint dragon_loop (fuel : nat) (incl : bool) (R Sc Mp Mm : Z) (acc : list Z)
  : list Z * bool :=
  match fuel with
  | O => (acc, false)
  | S f =>
      let R10 := R * 10 in
      let Mp := Mp * 10 in
      let Mm := Mm * 10 in
      let (d, R) := fdiv R10 Sc in
      let acc := d :: acc in
      let down := lt_or_le incl R Mm in
      let up := lt_or_le incl Sc (R + Mp) in
      if down || up then
        if up && (negb down || (Sc <=? Z.double R))
        then
          let (acc', carry) := rev_digits_succ acc in
          if carry then (acc' ++ [1], true) else (acc', false)
        else (acc, false)
      else dragon_loop f incl R Sc Mp Mm acc
  end.

(** Shortest digits of m * 2^e (m > 0): (digits most significant first, k)
    meaning 0.d1 d2 ... dn * 10^k. *)
Definition shortest_digits (m e : Z) : list Z * Z :=
  let st := dragon_init m e in
  let '(racc, carry) :=
    dragon_loop 20 (Z.even m) (dg_R st) (dg_S st) (dg_Mp st) (dg_Mm st) [] in
  (* A carry out of the top digit (9..9 -> 10..0) cannot actually happen,
     because k is chosen with high <= 10^k; it is handled as Rust does. *)
  let k := if carry then dg_k st + 1 else dg_k st in
  (rev racc, k).

(** Positional rendering of 0.d1..dn * 10^k, never with an exponent
    (Rust flt2dec::digits_to_dec_str with frac_digits = 0). *)
Definition digits_to_dec_str (ds : list Z) (k : Z) : list N :=
  let cs := map digit_chr ds in
  let n := Z.of_nat (length cs) in
  if k <=? 0 then ch_0 :: ch_dot :: rep_app ch_0 (- k) cs
  else if k <? n then
    firstn (Z.to_nat k) cs ++ ch_dot :: skipn (Z.to_nat k) cs
  else cs ++ rep_app ch_0 (k - n) [].

Definition with_sign (s : bool) (body : list N) : list N :=
  if s then ch_minus :: body else body.

(** Rust [format!("{}", x)] for f64. *)
Definition f64_to_display (x : float) : list N :=
  match Prim2SF x with
  | S754_nan => s_NaN
  | S754_infinity s => with_sign s s_inf
  | S754_zero s => with_sign s [ch_0]
  | S754_finite s m e =>
      let (ds, k) := shortest_digits (Zpos m) e in
      with_sign s (digits_to_dec_str ds k)
  end.

(* ------------------------------------------------------------------ *)
(** ** §7  Fixed precision (Rust "{:.N}")

    The exact value m * 2^e is scaled by 10^prec and rounded to an integer,
    ties to even ON THE EXACT VALUE; that integer is printed with the decimal
    point [prec] places from the right.  The sign is printed whenever the
    sign bit is set, even if every printed digit is zero ("-0.00"). *)

(** round-half-even of m * 2^e * 10^prec, for m >= 0. *)
Definition scaled_round (m e : Z) (prec : Z) : Z :=
  if 0 <=? e then Z.shiftl m e * pow10 prec
  else
    let k := - e in
    let n := m * pow10 prec in
    let q := Z.shiftr n k in
    let r := Z.land n (pow2 k - 1) in
    match Z.double r ?= pow2 k with
    | Gt => q + 1
    | Eq => if Z.odd q then q + 1 else q
    | Lt => q
    end.

(** Print the non-negative integer [q] as q / 10^prec with exactly [prec]
    fractional digits. *)
Definition fixed_str (q prec : Z) : list N :=
  let ds := if q <=? 0 then [] else nat_dec q in
  let n := Z.of_nat (length ds) in
  (* pad to at least prec + 1 digits *)
  let ds := rep_app ch_0 (prec + 1 - n) ds in
  if prec <=? 0 then ds
  else
    let n := Z.of_nat (length ds) in
    let ip := Z.to_nat (n - prec) in
    firstn ip ds ++ ch_dot :: skipn ip ds.

(** Rust [format!("{:.prec$}", x)] for f64. *)
Definition f64_to_fixed (x : float) (prec : N) : list N :=
  let p := Z.of_N prec in
  match Prim2SF x with
  | S754_nan => s_NaN
  | S754_infinity s => with_sign s s_inf
  | S754_zero s => with_sign s (fixed_str 0 p)
  | S754_finite s m e => with_sign s (fixed_str (scaled_round (Zpos m) e p) p)
  end.

(* ------------------------------------------------------------------ *)
(** ** §8  Parsing (Rust core::num::dec2flt)

    Grammar (after an optional '+' or '-'):
        digits* [ '.' digits* ] [ (e|E) [+|-] digits+ ]      with >= 1 mantissa digit
      | "inf" | "infinity" | "nan"                           case-insensitively
    Nothing else is accepted: no whitespace, '_', hex, or non-ASCII digits.
    The value is the correctly rounded (nearest, ties to even) binary64. *)

(** Exponent digits, with Rust's saturation: accumulation stops once the
    value has reached 0x10000 (the digits are still consumed). *)
Fixpoint take_exp_digits (s : list N) (acc cnt : Z) : Z * Z * list N :=
  match s with
  | c :: tl =>
      if is_digit c then
        take_exp_digits tl
          (if acc <? 65536 then acc * 10 + digit_val c else acc) (cnt + 1)
      else (acc, cnt, s)
  | [] => (acc, cnt, s)
  end.

(** Mantissa and exponent: [Some (D, E)] meaning D * 10^E, or [None] if the
    string (sign already removed) is not a decimal number. *)
Definition parse_decimal (s : list N) : option (Z * Z) :=
  let '(ip, ni, r1) := take_digits s 0 0 in
  let '(mant, nf, r2) :=
    match r1 with
    | c :: tl => if (c =? ch_dot)%N then take_digits tl ip 0 else (ip, 0, r1)
    | [] => (ip, 0, r1)
    end in
  if ni + nf =? 0 then None
  else
    match r2 with
    | [] => Some (mant, - nf)
    | c :: r3 =>
        if (c =? 101)%N || (c =? 69)%N then            (* 'e' | 'E' *)
          let '(eneg, r4) :=
            match r3 with
            | c2 :: tl =>
                if (c2 =? ch_minus)%N then (true, tl)
                else if (c2 =? ch_plus)%N then (false, tl)
                else (false, r3)
            | [] => (false, r3)
            end in
          match take_exp_digits r4 0 0 with
          | (ex, cnt, []) =>
              if cnt =? 0 then None
              else Some (mant, (if eneg then - ex else ex) - nf)
          | _ => None
          end
        else None
    end.

(** (-1)^s * D * 10^E correctly rounded.  Exponents that are hopelessly large
    or small are answered without building 10^|E|. *)
Definition f64_of_decimal (s : bool) (D E : Z) : float :=
  if D <=? 0 then f64_make s 0 0
  else
    let L := Z.log2 D in
    (* lo <= log10 D < hi *)
    let lo := (L * 30102) / 100000 in
    let hi := ((L + 1) * 30103) / 100000 + 1 in
    if 310 <=? lo + E then f64_make s 1 2000           (* >= 10^310: infinity *)
    else if hi + E <=? -326 then f64_make s 0 0        (* < 10^-326: zero *)
    else if 0 <=? E then f64_of_ratio s (D * pow10 E) 1
    else f64_of_ratio s D (pow10 (- E)).

(** Rust [str::parse::<f64>()]. *)
Definition f64_parse (s : list N) : option float :=
  let '(neg, body) :=
    match s with
    | c :: tl =>
        if (c =? ch_minus)%N then (true, tl)
        else if (c =? ch_plus)%N then (false, tl)
        else (false, s)
    | [] => (false, s)
    end in
  match body with
  | [] => None
  | _ =>
      match parse_decimal body with
      | Some (D, E) => Some (f64_of_decimal neg D E)
      | None =>
          let lower := map ascii_lower body in
          if fio_str_eqb lower s_nan then Some nan
          else if fio_str_eqb lower s_inf || fio_str_eqb lower s_infinity
          then Some (if neg then neg_infinity else infinity)
          else None
      end
  end.

(* ------------------------------------------------------------------ *)
(** ** Sanity examples (checked by computation at compile time)

    The systematic validation against the Rust implementation is done by
    /verif/tools/floatio_check.py; these are only quick regression anchors. *)

Example ex_display_int   : f64_to_display (f64_of_Z 7) = [55]%N.                      (* "7" *)
Proof. vm_compute. reflexivity. Qed.
Example ex_display_tenth : f64_to_display (f64_of_ratio false 1 10) = [48; 46; 49]%N. (* "0.1" *)
Proof. vm_compute. reflexivity. Qed.
Example ex_display_negz  : f64_to_display neg_zero = [45; 48]%N.                      (* "-0" *)
Proof. vm_compute. reflexivity. Qed.
Example ex_display_1e21  :
  f64_to_display (f64_of_Z (10 ^ 21)) = 49%N :: repeat 48%N 21.                       (* no exponent *)
Proof. vm_compute. reflexivity. Qed.
Example ex_display_1em7  :
  f64_to_display (f64_of_ratio false 1 (10 ^ 7))
  = [48; 46; 48; 48; 48; 48; 48; 48; 49]%N.                                           (* "0.0000001" *)
Proof. vm_compute. reflexivity. Qed.
Example ex_fixed_half    : f64_to_fixed (f64_of_ratio false 1 2) 0 = [48]%N.          (* 0.5 -> "0" *)
Proof. vm_compute. reflexivity. Qed.
Example ex_fixed_1_5     : f64_to_fixed (f64_of_ratio false 3 2) 0 = [50]%N.          (* 1.5 -> "2" *)
Proof. vm_compute. reflexivity. Qed.
Example ex_fixed_2_5     : f64_to_fixed (f64_of_ratio false 5 2) 0 = [50]%N.          (* 2.5 -> "2" *)
Proof. vm_compute. reflexivity. Qed.
Example ex_fixed_eighth  : f64_to_fixed (f64_of_ratio false 1 8) 2 = [48; 46; 49; 50]%N. (* "0.12" *)
Proof. vm_compute. reflexivity. Qed.
Example ex_fixed_0995    :                                                            (* 0.995 -> "0.99" *)
  f64_to_fixed (f64_of_ratio false 995 1000) 2 = [48; 46; 57; 57]%N.
Proof. vm_compute. reflexivity. Qed.
Example ex_fixed_neg_small :                                                          (* -0.001 -> "-0.00" *)
  f64_to_fixed (f64_of_ratio true 1 1000) 2 = [45; 48; 46; 48; 48]%N.
Proof. vm_compute. reflexivity. Qed.
Example ex_round_ties_away : f64_to_bits (f64_round (f64_of_ratio true 5 2)) = f64_to_bits (f64_of_Z (-3)).
Proof. vm_compute. reflexivity. Qed.
Example ex_parse_midpoint :                                                           (* 2^53 + 1 ties to even *)
  option_map f64_to_bits (f64_parse (Z_to_dec 9007199254740993))
  = Some (f64_to_bits (f64_of_Z 9007199254740992)).
Proof. vm_compute. reflexivity. Qed.
Example ex_parse_bad : f64_parse [46]%N = None /\ f64_parse [] = None /\ f64_parse [49; 95; 48]%N = None.
Proof. vm_compute. repeat split. Qed.
Example ex_parse_huge_exp :                                                           (* "1e999999999" -> inf *)
  option_map f64_to_bits (f64_parse ([49; 101] ++ repeat 57 9)%N) = Some bits_exp_inf.
Proof. vm_compute. reflexivity. Qed.
Example ex_as_i32_sat : f64_as_i32 (f64_of_Z 2147483648) = 2147483647 /\ f64_as_u32 (f64_of_Z (-5)) = 0.
Proof. vm_compute. split; reflexivity. Qed.
