(* The exact-rational instance (canonical rationals Qc, Leibniz equality, `field` works):
   used to state that an operation sequence is the textbook formula.  Division by zero is 0
   (Coq's convention), which is exactly what the guarded division of the code returns. *)
From Coq Require Import QArith Qcanon Qround Qabs.
From SC.Model Require Import Base Num.

Definition Qc_of_Z (z : Z) : Qc := Q2Qc (inject_Z z).
Definition Qc_truncZ (x : Qc) : Z := let (n, d) := this x in Z.quot n (Zpos d).
Definition Qcabs (x : Qc) : Qc := Q2Qc (Qabs x).
Definition Qc_round (x : Qc) : Qc :=           (* ties away from zero *)
  let a := Qcabs x in
  let r := Qc_of_Z (Qfloor (a + Q2Qc (1 # 2))%Qc) in
  if Qle_bool 0 x then r else (- r)%Qc.
Definition Qc_ltb (a b : Qc) : bool := negb (Qle_bool b a).
Definition Qc_dec (m k : Z) : Qc := (Qc_of_Z m / Qc_of_Z (10 ^ k))%Qc.

#[global] Instance NumQ : Num Qc := {
  fadd := Qcplus;
  fsub := Qcminus;
  fmul := Qcmult;
  fdiv := Qcdiv;
  fabs := Qcabs;
  fofZ := Qc_of_Z;
  feqb := Qc_eq_bool;
  fltb := Qc_ltb;
  fcls := fun _ => FFinite;
  ftruncZ := Qc_truncZ;
  fround := Qc_round;
  ftrunc := fun x => Qc_of_Z (Qc_truncZ x);
  fdisplay := fun _ => [];          (* rationals have no Display; not used by the Q theorems *)
  ffixed := fun _ _ => [];
  fparse := fun _ => None;
  fepsilon := Q2Qc (1 # 4503599627370496);
  fdec := Qc_dec
}.
