(* SC.Spec.Calendar — the proleptic Gregorian calendar over Z.

   Day number 0 = 1970-01-01 (Unix epoch), exactly as chrono's NaiveDate
   counts days (chrono's `num_days_from_ce` = day number + 719163).

   `days_from_civil` / `civil_from_days` are Howard Hinnant's algorithms with
   floor division (Z.div / Z.modulo), so they are total on all of Z: negative
   years and negative day numbers included.  All theorems below are stated and
   proved for ALL integers, without any range restriction.

   Proof method.  Both functions are periodic: shifting the year by 400*k
   shifts the day number by 146097*k and conversely.  The periodicity lemmas
   are proved symbolically; they reduce every statement to one 400-year
   window (years 0..399, day numbers 0..146096), where the statement is a
   closed boolean that is decided by `vm_compute` over a `Z`-indexed range
   combinator (`forall_range`, binary recursion on `positive`, no `nat`).

   Stdlib only, no axioms. *)

From Coq Require Import ZArith Lia Bool List.
Local Open Scope Z_scope.

(* ------------------------------------------------------------------ *)
(** * A bounded universal quantifier over an integer interval          *)
(* ------------------------------------------------------------------ *)

(** [forall_range f lo len] checks [f] on [lo, lo + len). *)
Fixpoint forall_range (f : Z -> bool) (lo : Z) (len : positive) : bool :=
  match len with
  | xH => f lo
  | xO p => forall_range f lo p && forall_range f (lo + Zpos p) p
  | xI p => f lo && (forall_range f (lo + 1) p && forall_range f (lo + 1 + Zpos p) p)
  end.

Lemma forall_range_spec :
  forall f len lo, forall_range f lo len = true ->
  forall i, lo <= i < lo + Zpos len -> f i = true.
Proof.
  intros f len; induction len as [p IH | p IH | ]; intros lo H i Hi; simpl in H.
  - apply andb_true_iff in H as [H0 H]. apply andb_true_iff in H as [H1 H2].
    rewrite Pos2Z.inj_xI in Hi.
    destruct (Z.eq_dec i lo) as [-> | Hne]; [exact H0 | ].
    destruct (Z_lt_le_dec i (lo + 1 + Zpos p)) as [Hlt | Hge].
    + apply (IH _ H1); lia.
    + apply (IH _ H2); lia.
  - apply andb_true_iff in H as [H1 H2].
    rewrite Pos2Z.inj_xO in Hi.
    destruct (Z_lt_le_dec i (lo + Zpos p)) as [Hlt | Hge].
    + apply (IH _ H1); lia.
    + apply (IH _ H2); lia.
  - assert (i = lo) by lia. subst i. exact H.
Qed.

Lemma forall_range_ext :
  forall f g, (forall i, f i = g i) ->
  forall len lo, forall_range f lo len = forall_range g lo len.
Proof.
  intros f g E len; induction len as [p IH | p IH | ]; intros lo; simpl;
    rewrite ?IH, ?E; reflexivity.
Qed.

(* ------------------------------------------------------------------ *)
(** * Definitions                                                      *)
(* ------------------------------------------------------------------ *)

Definition is_leap (y : Z) : bool :=
  (y mod 4 =? 0) && (negb (y mod 100 =? 0) || (y mod 400 =? 0)).

Definition days_in_month (y m : Z) : Z :=
  match m with
  | 1 => 31
  | 2 => if is_leap y then 29 else 28
  | 3 => 31
  | 4 => 30
  | 5 => 31
  | 6 => 30
  | 7 => 31
  | 8 => 31
  | 9 => 30
  | 10 => 31
  | 11 => 30
  | 12 => 31
  | _ => 0
  end.

Definition days_in_year (y : Z) : Z := if is_leap y then 366 else 365.

Definition valid_date (y m d : Z) : bool :=
  (1 <=? m) && (m <=? 12) && (1 <=? d) && (d <=? days_in_month y m).

(** Howard Hinnant, "chrono-Compatible Low-Level Date Algorithms",
    [days_from_civil]; [/] is floor division. *)
Definition days_from_civil (y m d : Z) : Z :=
  let ys := if m <=? 2 then y - 1 else y in
  let era := ys / 400 in
  let yoe := ys - era * 400 in                                   (* [0, 399] *)
  let mp := (m + 9) mod 12 in                                    (* Mar = 0 .. Feb = 11 *)
  let doy := (153 * mp + 2) / 5 + d - 1 in                       (* [0, 365] *)
  let doe := yoe * 365 + yoe / 4 - yoe / 100 + doy in            (* [0, 146096] *)
  era * 146097 + doe - 719468.

(** Hinnant's [civil_from_days]. *)
Definition civil_from_days (n : Z) : Z * Z * Z :=
  let z := n + 719468 in
  let era := z / 146097 in
  let doe := z - era * 146097 in                                 (* [0, 146096] *)
  let yoe := (doe - doe / 1460 + doe / 36524 - doe / 146096) / 365 in  (* [0, 399] *)
  let doy := doe - (365 * yoe + yoe / 4 - yoe / 100) in          (* [0, 365] *)
  let mp := (5 * doy + 2) / 153 in                               (* [0, 11] *)
  let d := doy - (153 * mp + 2) / 5 + 1 in                       (* [1, 31] *)
  let m := if mp <? 10 then mp + 3 else mp - 9 in                (* [1, 12] *)
  let y := yoe + era * 400 in
  (if m <=? 2 then y + 1 else y, m, d).

(** Calendar (lexicographic) order on (year, month, day). *)
Definition date_lt (a b : Z * Z * Z) : Prop :=
  let '(y1, m1, d1) := a in
  let '(y2, m2, d2) := b in
  y1 < y2 \/ (y1 = y2 /\ (m1 < m2 \/ (m1 = m2 /\ d1 < d2))).

Definition date_ltb (a b : Z * Z * Z) : bool :=
  let '(y1, m1, d1) := a in
  let '(y2, m2, d2) := b in
  (y1 <? y2) || ((y1 =? y2) && ((m1 <? m2) || ((m1 =? m2) && (d1 <? d2)))).

Definition date_eqb (a b : Z * Z * Z) : bool :=
  let '(y1, m1, d1) := a in
  let '(y2, m2, d2) := b in
  (y1 =? y2) && (m1 =? m2) && (d1 =? d2).

Lemma date_ltb_spec : forall a b, date_ltb a b = true <-> date_lt a b.
Proof.
  intros [[y1 m1] d1] [[y2 m2] d2]; unfold date_ltb, date_lt.
  rewrite !orb_true_iff, !andb_true_iff, !orb_true_iff, !andb_true_iff,
          !Z.ltb_lt, !Z.eqb_eq.
  tauto.
Qed.

Lemma date_eqb_spec : forall a b, date_eqb a b = true <-> a = b.
Proof.
  intros [[y1 m1] d1] [[y2 m2] d2]; unfold date_eqb.
  rewrite !andb_true_iff, !Z.eqb_eq.
  split.
  - intros [[-> ->] ->]; reflexivity.
  - intros H; inversion H; auto.
Qed.

(* ------------------------------------------------------------------ *)
(** * Sanity examples                                                  *)
(* ------------------------------------------------------------------ *)

Example epoch : days_from_civil 1970 1 1 = 0.
Proof. vm_compute; reflexivity. Qed.
Example y2k : days_from_civil 2000 3 1 = 11017.
Proof. vm_compute; reflexivity. Qed.
Example y2k_leap_day : days_from_civil 2000 2 29 = 11016.
Proof. vm_compute; reflexivity. Qed.
Example before_epoch : days_from_civil 1969 12 31 = -1.
Proof. vm_compute; reflexivity. Qed.
Example leap_2024 : days_from_civil 2024 2 29 = 19782.
Proof. vm_compute; reflexivity. Qed.
Example ce_day_one : days_from_civil 1 1 1 = -719162.   (* chrono: num_days_from_ce = 1 *)
Proof. vm_compute; reflexivity. Qed.
Example year_zero_mar1 : days_from_civil 0 3 1 = -719468.
Proof. vm_compute; reflexivity. Qed.
Example year_zero_jan1 : days_from_civil 0 1 1 = -719528.  (* year 0 is a leap year *)
Proof. vm_compute; reflexivity. Qed.
Example year_minus1_end : days_from_civil (-1) 12 31 = -719529.
Proof. vm_compute; reflexivity. Qed.
Example neg_leap_day : days_from_civil (-400) 2 29 = -865566.
Proof. vm_compute; reflexivity. Qed.
Example neg_leap_day_valid : valid_date (-400) 2 29 = true.
Proof. vm_cast_no_check (eq_refl true). Qed.
Example neg_century_not_leap : valid_date (-100) 2 29 = false.
Proof. vm_compute; reflexivity. Qed.
Example y1900_not_leap : is_leap 1900 = false.
Proof. vm_compute; reflexivity. Qed.
Example y2000_leap : is_leap 2000 = true.
Proof. vm_cast_no_check (eq_refl true). Qed.
Example y2100_feb29_invalid : valid_date 2100 2 29 = false.
Proof. vm_compute; reflexivity. Qed.
Example civil_epoch : civil_from_days 0 = (1970, 1, 1).
Proof. vm_compute; reflexivity. Qed.
Example civil_minus_one : civil_from_days (-1) = (1969, 12, 31).
Proof. vm_compute; reflexivity. Qed.
Example civil_y2k_leap : civil_from_days 11016 = (2000, 2, 29).
Proof. vm_compute; reflexivity. Qed.
Example civil_neg_leap : civil_from_days (-865566) = (-400, 2, 29).
Proof. vm_compute; reflexivity. Qed.
Example civil_year_zero : civil_from_days (-719528) = (0, 1, 1).
Proof. vm_compute; reflexivity. Qed.
Example civil_year_minus1 : civil_from_days (-719529) = (-1, 12, 31).
Proof. vm_compute; reflexivity. Qed.
Example civil_9999 : civil_from_days 2932896 = (9999, 12, 31).
Proof. vm_compute; reflexivity. Qed.

(* ------------------------------------------------------------------ *)
(** * Periodicity: 400 years = 146097 days                             *)
(* ------------------------------------------------------------------ *)

Lemma is_leap_period : forall y k, is_leap (y + 400 * k) = is_leap y.
Proof.
  intros y k; unfold is_leap.
  replace (y + 400 * k) with (y + (100 * k) * 4) at 1 by ring.
  replace (y + 400 * k) with (y + (4 * k) * 100) at 1 by ring.
  replace (y + 400 * k) with (y + k * 400) by ring.
  rewrite !Z_mod_plus_full. reflexivity.
Qed.

Lemma days_in_month_period :
  forall y k m, days_in_month (y + 400 * k) m = days_in_month y m.
Proof.
  intros y k m; unfold days_in_month. rewrite is_leap_period. reflexivity.
Qed.

Lemma days_in_year_period : forall y k, days_in_year (y + 400 * k) = days_in_year y.
Proof. intros; unfold days_in_year; rewrite is_leap_period; reflexivity. Qed.

Lemma valid_date_period :
  forall y k m d, valid_date (y + 400 * k) m d = valid_date y m d.
Proof.
  intros; unfold valid_date. rewrite days_in_month_period. reflexivity.
Qed.

Lemma days_from_civil_period :
  forall y k m d,
    days_from_civil (y + 400 * k) m d = days_from_civil y m d + 146097 * k.
Proof.
  intros y k m d; unfold days_from_civil; cbv zeta.
  assert (E : (if m <=? 2 then y + 400 * k - 1 else y + 400 * k)
              = (if m <=? 2 then y - 1 else y) + k * 400)
    by (destruct (m <=? 2); ring).
  rewrite E; clear E.
  set (ys := if m <=? 2 then y - 1 else y).
  rewrite Z.div_add by lia.
  set (e := ys / 400).
  replace (ys + k * 400 - (e + k) * 400) with (ys - e * 400) by ring.
  ring.
Qed.

Lemma civil_from_days_period :
  forall n k,
    civil_from_days (n + 146097 * k)
    = let '(y, m, d) := civil_from_days n in (y + 400 * k, m, d).
Proof.
  intros n k; unfold civil_from_days; cbv zeta.
  replace (n + 146097 * k + 719468) with (n + 719468 + k * 146097) by ring.
  set (z := n + 719468).
  rewrite Z.div_add by lia.
  set (e := z / 146097).
  replace (z + k * 146097 - (e + k) * 146097) with (z - e * 146097) by ring.
  set (doe := z - e * 146097).
  set (yoe := (doe - doe / 1460 + doe / 36524 - doe / 146096) / 365).
  set (doy := doe - (365 * yoe + yoe / 4 - yoe / 100)).
  set (mp := (5 * doy + 2) / 153).
  set (m := if mp <? 10 then mp + 3 else mp - 9).
  destruct (m <=? 2); f_equal; f_equal; ring.
Qed.

(** Every integer is [r + p * q] with [0 <= r < p]. *)
Lemma Z_split_mod : forall p x, 0 < p -> x = x mod p + p * (x / p) /\ 0 <= x mod p < p.
Proof.
  intros p x Hp; split.
  - rewrite Z.add_comm. apply Z.div_mod. lia.
  - apply Z.mod_pos_bound; exact Hp.
Qed.

(** Lifting a decidable, 400-year-periodic property of years from one window. *)
Lemma year_window_lift :
  forall P : Z -> bool,
    (forall y k, P (y + 400 * k) = P y) ->
    forall_range P 0 400 = true ->
    forall y, P y = true.
Proof.
  intros P Hper Hchk y.
  destruct (Z_split_mod 400 y ltac:(lia)) as [E R].
  rewrite E, Hper.
  apply (forall_range_spec _ _ _ Hchk). lia.
Qed.

(** Same for a 146097-day-periodic property of day numbers. *)
Lemma day_window_lift :
  forall P : Z -> bool,
    (forall n k, P (n + 146097 * k) = P n) ->
    forall_range P 0 146097 = true ->
    forall n, P n = true.
Proof.
  intros P Hper Hchk n.
  destruct (Z_split_mod 146097 n ltac:(lia)) as [E R].
  rewrite E, Hper.
  apply (forall_range_spec _ _ _ Hchk). lia.
Qed.

(* ------------------------------------------------------------------ *)
(** * The one-window checks (closed booleans, decided by computation)  *)
(* ------------------------------------------------------------------ *)

Lemma implb_true_elim : forall a b : bool, implb a b = true -> a = true -> b = true.
Proof. intros [|] [|]; simpl; auto. Qed.

Definition chk_date (y m d : Z) : bool :=
  implb (valid_date y m d)
        (date_eqb (civil_from_days (days_from_civil y m d)) (y, m, d)).

Lemma chk_date_sound :
  forall y m d, chk_date y m d = true -> valid_date y m d = true ->
    civil_from_days (days_from_civil y m d) = (y, m, d).
Proof.
  intros y m d H V. apply date_eqb_spec.
  exact (implb_true_elim _ _ H V).
Qed.

Definition chk_days_civil (n : Z) : bool :=
  let '(y, m, d) := civil_from_days n in
  valid_date y m d && (days_from_civil y m d =? n).

Definition chk_succ (n : Z) : bool :=
  date_ltb (civil_from_days n) (civil_from_days (n + 1)).

(** [vm_cast_no_check] only postpones the evaluation: the kernel runs the VM
    and checks the cast at [Qed] (so each check is computed once, not twice).
    About 15-20 s each.

    Note for users of this file: never let [simpl]/[cbn]/conversion unfold
    [civil_from_days] or [days_from_civil] on symbolic arguments (the terms
    explode); rewrite with the lemmas below instead. *)
Lemma chk_civil_days_window :
  forall_range (fun y =>
    forall_range (fun m =>
      forall_range (fun d => chk_date y m d) 1 31) 1 12) 0 400 = true.
Proof. vm_cast_no_check (eq_refl true). Qed.

Lemma chk_days_civil_window : forall_range chk_days_civil 0 146097 = true.
Proof. vm_cast_no_check (eq_refl true). Qed.

Lemma chk_succ_window : forall_range chk_succ 0 146097 = true.
Proof. vm_cast_no_check (eq_refl true). Qed.

(* ------------------------------------------------------------------ *)
(** * Bounds implied by validity                                       *)
(* ------------------------------------------------------------------ *)

Lemma days_in_month_bound : forall y m, 0 <= days_in_month y m <= 31.
Proof.
  intros y m; unfold days_in_month.
  destruct m as [ | p | p]; try lia.
  do 4 (try destruct p as [p | p | ]); try lia; destruct (is_leap y); lia.
Qed.

Lemma valid_date_bounds :
  forall y m d, valid_date y m d = true ->
    1 <= m <= 12 /\ 1 <= d <= days_in_month y m /\ d <= 31.
Proof.
  intros y m d H; unfold valid_date in H.
  rewrite !andb_true_iff, !Z.leb_le in H.
  pose proof (days_in_month_bound y m). lia.
Qed.

(* ------------------------------------------------------------------ *)
(** * Main theorems                                                    *)
(* ------------------------------------------------------------------ *)

Lemma civil_from_days_from_civil_window :
  forall y m d, 0 <= y < 400 -> valid_date y m d = true ->
    civil_from_days (days_from_civil y m d) = (y, m, d).
Proof.
  intros y m d Hy Hv.
  destruct (valid_date_bounds _ _ _ Hv) as (Hm & Hd & Hd31).
  apply chk_date_sound; [ | exact Hv ].
  assert (Hy' : 0 <= y < 0 + Z.pos 400) by lia.
  assert (Hm' : 1 <= m < 1 + Z.pos 12) by lia.
  assert (Hd' : 1 <= d < 1 + Z.pos 31) by lia.
  pose proof (forall_range_spec _ _ _ chk_civil_days_window y Hy') as C.
  cbv beta in C.
  pose proof (forall_range_spec _ _ _ C m Hm') as C1. cbv beta in C1.
  exact (forall_range_spec _ _ _ C1 d Hd').
Qed.

Theorem civil_from_days_from_civil :
  forall y m d, valid_date y m d = true ->
    civil_from_days (days_from_civil y m d) = (y, m, d).
Proof.
  intros y m d Hv.
  destruct (Z_split_mod 400 y ltac:(lia)) as [E R].
  revert Hv. rewrite E. generalize (y mod 400) (y / 400) R. clear y E R.
  intros y0 k R Hv.
  rewrite valid_date_period in Hv.
  rewrite days_from_civil_period, civil_from_days_period.
  rewrite (civil_from_days_from_civil_window _ _ _ R Hv). reflexivity.
Qed.

Theorem days_from_civil_from_days :
  forall n, let '(y, m, d) := civil_from_days n in
            valid_date y m d = true /\ days_from_civil y m d = n.
Proof.
  intros n.
  assert (H : chk_days_civil n = true).
  { apply day_window_lift; [ | exact chk_days_civil_window ].
    clear n; intros n k; unfold chk_days_civil.
    rewrite civil_from_days_period.
    destruct (civil_from_days n) as [[y m] d].
    rewrite valid_date_period, days_from_civil_period.
    f_equal.
    destruct (Z.eqb_spec (days_from_civil y m d) n);
      destruct (Z.eqb_spec (days_from_civil y m d + 146097 * k) (n + 146097 * k));
      try reflexivity; lia. }
  unfold chk_days_civil in H.
  destruct (civil_from_days n) as [[y m] d].
  apply andb_true_iff in H as [H1 H2]. apply Z.eqb_eq in H2. auto.
Qed.

Corollary civil_from_days_valid :
  forall n y m d, civil_from_days n = (y, m, d) -> valid_date y m d = true.
Proof.
  intros n y m d E. pose proof (days_from_civil_from_days n) as H.
  rewrite E in H. tauto.
Qed.

Corollary days_from_civil_of_civil_from_days :
  forall n y m d, civil_from_days n = (y, m, d) -> days_from_civil y m d = n.
Proof.
  intros n y m d E. pose proof (days_from_civil_from_days n) as H.
  rewrite E in H. tauto.
Qed.

Corollary civil_from_days_inj :
  forall n1 n2, civil_from_days n1 = civil_from_days n2 -> n1 = n2.
Proof.
  intros n1 n2 E.
  destruct (civil_from_days n2) as [[y m] d] eqn:E2.
  rewrite <- (days_from_civil_of_civil_from_days _ _ _ _ E).
  rewrite <- (days_from_civil_of_civil_from_days _ _ _ _ E2).
  reflexivity.
Qed.

Corollary days_from_civil_inj :
  forall y1 m1 d1 y2 m2 d2,
    valid_date y1 m1 d1 = true -> valid_date y2 m2 d2 = true ->
    days_from_civil y1 m1 d1 = days_from_civil y2 m2 d2 ->
    (y1, m1, d1) = (y2, m2, d2).
Proof.
  intros y1 m1 d1 y2 m2 d2 V1 V2 E.
  rewrite <- (civil_from_days_from_civil _ _ _ V1).
  rewrite <- (civil_from_days_from_civil _ _ _ V2).
  rewrite E. reflexivity.
Qed.

(** ** Calendar order = day-number order *)

Lemma date_lt_shift :
  forall y1 m1 d1 y2 m2 d2 s,
    date_lt (y1, m1, d1) (y2, m2, d2) ->
    date_lt (y1 + s, m1, d1) (y2 + s, m2, d2).
Proof. unfold date_lt; intros; lia. Qed.

Lemma date_lt_trans : forall a b c, date_lt a b -> date_lt b c -> date_lt a c.
Proof.
  intros [[y1 m1] d1] [[y2 m2] d2] [[y3 m3] d3]; unfold date_lt; lia.
Qed.

Lemma date_lt_irrefl : forall a, ~ date_lt a a.
Proof. intros [[y m] d]; unfold date_lt; lia. Qed.

Lemma civil_from_days_succ_lt :
  forall n, date_lt (civil_from_days n) (civil_from_days (n + 1)).
Proof.
  intros n.
  destruct (Z_split_mod 146097 n ltac:(lia)) as [E R].
  set (n0 := n mod 146097) in *. set (k := n / 146097) in *.
  pose proof (forall_range_spec _ _ _ chk_succ_window n0 ltac:(lia)) as C.
  unfold chk_succ in C. apply date_ltb_spec in C.
  rewrite E.
  replace (n0 + 146097 * k + 1) with (n0 + 1 + 146097 * k) by ring.
  rewrite !civil_from_days_period.
  destruct (civil_from_days n0) as [[y1 m1] d1].
  destruct (civil_from_days (n0 + 1)) as [[y2 m2] d2].
  apply date_lt_shift; exact C.
Qed.

Lemma civil_from_days_lt :
  forall n1 n2, n1 < n2 -> date_lt (civil_from_days n1) (civil_from_days n2).
Proof.
  intros n1 n2 H.
  replace n2 with (n1 + 1 + (n2 - n1 - 1)) by ring.
  assert (Hk : 0 <= n2 - n1 - 1) by lia.
  generalize (n2 - n1 - 1) Hk. clear n2 H Hk.
  apply natlike_ind.
  - rewrite Z.add_0_r. apply civil_from_days_succ_lt.
  - intros k Hk IH.
    eapply date_lt_trans; [exact IH | ].
    replace (n1 + 1 + Z.succ k) with (n1 + 1 + k + 1) by lia.
    apply civil_from_days_succ_lt.
Qed.

Theorem days_from_civil_lt :
  forall y1 m1 d1 y2 m2 d2,
    valid_date y1 m1 d1 = true -> valid_date y2 m2 d2 = true ->
    (days_from_civil y1 m1 d1 < days_from_civil y2 m2 d2
     <-> (y1 < y2 \/ (y1 = y2 /\ (m1 < m2 \/ (m1 = m2 /\ d1 < d2))))).
Proof.
  intros y1 m1 d1 y2 m2 d2 V1 V2.
  change (days_from_civil y1 m1 d1 < days_from_civil y2 m2 d2
          <-> date_lt (y1, m1, d1) (y2, m2, d2)).
  pose proof (civil_from_days_from_civil _ _ _ V1) as R1.
  pose proof (civil_from_days_from_civil _ _ _ V2) as R2.
  split.
  - intros H. rewrite <- R1, <- R2. apply civil_from_days_lt; exact H.
  - intros H.
    destruct (Z_lt_le_dec (days_from_civil y1 m1 d1) (days_from_civil y2 m2 d2))
      as [Hlt | Hge]; [exact Hlt | exfalso].
    destruct (Z.eq_dec (days_from_civil y2 m2 d2) (days_from_civil y1 m1 d1))
      as [Heq | Hne].
    + rewrite <- R1, <- R2, Heq in H. exact (date_lt_irrefl _ H).
    + assert (Hlt : days_from_civil y2 m2 d2 < days_from_civil y1 m1 d1) by lia.
      apply civil_from_days_lt in Hlt. rewrite R1, R2 in Hlt.
      exact (date_lt_irrefl _ (date_lt_trans _ _ _ H Hlt)).
Qed.

Corollary days_from_civil_le :
  forall y1 m1 d1 y2 m2 d2,
    valid_date y1 m1 d1 = true -> valid_date y2 m2 d2 = true ->
    (days_from_civil y1 m1 d1 <= days_from_civil y2 m2 d2
     <-> (date_lt (y1, m1, d1) (y2, m2, d2) \/ (y1, m1, d1) = (y2, m2, d2))).
Proof.
  intros y1 m1 d1 y2 m2 d2 V1 V2.
  pose proof (days_from_civil_lt _ _ _ _ _ _ V1 V2) as L.
  fold (date_lt (y1, m1, d1) (y2, m2, d2)) in L.
  split.
  - intros H.
    destruct (Z.eq_dec (days_from_civil y1 m1 d1) (days_from_civil y2 m2 d2)) as [E | NE].
    + right. apply days_from_civil_inj; assumption.
    + left. apply L. lia.
  - intros [H | H].
    + apply L in H. lia.
    + inversion H; subst. lia.
Qed.

(** ** Successor structure: next day, month end, year end *)

Theorem days_from_civil_next_day :
  forall y m d, valid_date y m d = true -> valid_date y m (d + 1) = true ->
    days_from_civil y m (d + 1) = days_from_civil y m d + 1.
Proof.
  intros y m d _ _. unfold days_from_civil; cbv zeta. ring.
Qed.

(** The day argument enters linearly, valid or not. *)
Lemma days_from_civil_day_linear :
  forall y m d k, days_from_civil y m (d + k) = days_from_civil y m d + k.
Proof. intros; unfold days_from_civil; cbv zeta; ring. Qed.

Definition chk_month_end (y : Z) : bool :=
  forall_range (fun m =>
    days_from_civil y (m + 1) 1 =? days_from_civil y m (days_in_month y m) + 1) 1 11.

Lemma chk_month_end_window : forall_range chk_month_end 0 400 = true.
Proof. vm_cast_no_check (eq_refl true). Qed.

Lemma eqb_shift : forall a b s, (a + s =? b + s) = (a =? b).
Proof.
  intros a b s.
  destruct (Z.eqb_spec (a + s) (b + s)); destruct (Z.eqb_spec a b); try reflexivity; lia.
Qed.

Theorem days_from_civil_month_end :
  forall y m, 1 <= m < 12 ->
    days_from_civil y (m + 1) 1 = days_from_civil y m (days_in_month y m) + 1.
Proof.
  intros y m Hm.
  assert (H : chk_month_end y = true).
  { apply year_window_lift; [ | exact chk_month_end_window ].
    clear; intros y k; unfold chk_month_end.
    assert (E : forall m,
      (days_from_civil (y + 400 * k) (m + 1) 1
         =? days_from_civil (y + 400 * k) m (days_in_month (y + 400 * k) m) + 1)
      = (days_from_civil y (m + 1) 1 =? days_from_civil y m (days_in_month y m) + 1)).
    { intros m. rewrite days_in_month_period, !days_from_civil_period.
      replace (days_from_civil y m (days_in_month y m) + 146097 * k + 1)
        with (days_from_civil y m (days_in_month y m) + 1 + 146097 * k) by ring.
      apply eqb_shift. }
    apply forall_range_ext; exact E. }
  unfold chk_month_end in H.
  pose proof (forall_range_spec _ _ _ H m ltac:(lia)) as C; cbv beta in C.
  apply Z.eqb_eq in C. exact C.
Qed.

Theorem days_from_civil_year_end :
  forall y, days_from_civil (y + 1) 1 1 = days_from_civil y 12 31 + 1.
Proof.
  intros y. unfold days_from_civil; cbv zeta.
  change (1 <=? 2) with true. change (12 <=? 2) with false. cbv iota.
  replace (y + 1 - 1) with y by ring.
  change ((1 + 9) mod 12) with 10. change ((12 + 9) mod 12) with 9.
  change ((153 * 10 + 2) / 5) with 306. change ((153 * 9 + 2) / 5) with 275.
  ring.
Qed.

(** ** Useful corollaries *)

Corollary days_from_civil_400 :
  forall y m d, days_from_civil (y + 400) m d = days_from_civil y m d + 146097.
Proof.
  intros y m d. replace (y + 400) with (y + 400 * 1) by ring.
  rewrite days_from_civil_period. ring.
Qed.

Definition chk_year_len (y : Z) : bool :=
  days_from_civil (y + 1) 1 1 =? days_from_civil y 1 1 + days_in_year y.

Lemma chk_year_len_window : forall_range chk_year_len 0 400 = true.
Proof. vm_cast_no_check (eq_refl true). Qed.

Theorem days_from_civil_year_length :
  forall y, days_from_civil (y + 1) 1 1 = days_from_civil y 1 1 + days_in_year y.
Proof.
  intros y. apply Z.eqb_eq. change (chk_year_len y = true).
  apply year_window_lift; [ | exact chk_year_len_window ].
  clear; intros y k; unfold chk_year_len.
  replace (y + 400 * k + 1) with (y + 1 + 400 * k) by ring.
  rewrite days_in_year_period, !days_from_civil_period.
  replace (days_from_civil y 1 1 + 146097 * k + days_in_year y)
    with (days_from_civil y 1 1 + days_in_year y + 146097 * k) by ring.
  apply eqb_shift.
Qed.

Lemma days_in_year_cases : forall y, days_in_year y = 365 \/ days_in_year y = 366.
Proof. intros y; unfold days_in_year; destruct (is_leap y); auto. Qed.

(** The first of a month is always valid; so is the last. *)
Lemma valid_date_first : forall y m, 1 <= m <= 12 -> valid_date y m 1 = true.
Proof.
  intros y m Hm; unfold valid_date.
  assert (28 <= days_in_month y m).
  { unfold days_in_month.
    assert (C : m = 1 \/ m = 2 \/ m = 3 \/ m = 4 \/ m = 5 \/ m = 6 \/ m = 7 \/ m = 8
                \/ m = 9 \/ m = 10 \/ m = 11 \/ m = 12) by lia.
    repeat (destruct C as [-> | C]); try subst m; try lia; destruct (is_leap y); lia. }
  rewrite !andb_true_iff, !Z.leb_le. lia.
Qed.

Lemma valid_date_last :
  forall y m, 1 <= m <= 12 -> valid_date y m (days_in_month y m) = true.
Proof.
  intros y m Hm.
  pose proof (valid_date_first y m Hm) as H. unfold valid_date in *.
  rewrite !andb_true_iff, !Z.leb_le in *. lia.
Qed.

(** Calendar successor of a valid date, as a function; it is the date of the
    next day number. *)
Definition next_date (y m d : Z) : Z * Z * Z :=
  if d <? days_in_month y m then (y, m, d + 1)
  else if m <? 12 then (y, m + 1, 1)
  else (y + 1, 1, 1).

Theorem civil_from_days_succ :
  forall n, civil_from_days (n + 1)
            = let '(y, m, d) := civil_from_days n in next_date y m d.
Proof.
  intros n.
  pose proof (days_from_civil_from_days n) as H.
  destruct (civil_from_days n) as [[y m] d]. destruct H as [V E].
  destruct (valid_date_bounds _ _ _ V) as (Hm & Hd & _).
  unfold next_date.
  destruct (Z.ltb_spec d (days_in_month y m)) as [Hlt | Hge].
  - assert (V' : valid_date y m (d + 1) = true).
    { unfold valid_date in *. rewrite !andb_true_iff, !Z.leb_le in *. lia. }
    rewrite <- (civil_from_days_from_civil _ _ _ V').
    rewrite days_from_civil_day_linear, E. reflexivity.
  - assert (d = days_in_month y m) by lia. subst d.
    destruct (Z.ltb_spec m 12) as [Hm12 | Hm12].
    + rewrite <- (civil_from_days_from_civil y (m + 1) 1)
        by (apply valid_date_first; lia).
      rewrite days_from_civil_month_end by lia. rewrite E. reflexivity.
    + assert (m = 12) by lia. subst m.
      change (days_in_month y 12) with 31 in E.
      rewrite <- (civil_from_days_from_civil (y + 1) 1 1)
        by (apply valid_date_first; lia).
      rewrite days_from_civil_year_end, E. reflexivity.
Qed.

(* ------------------------------------------------------------------ *)
(** * Date arithmetic used by the specification                        *)
(* ------------------------------------------------------------------ *)

(** On day numbers. *)
Definition add_days (n : Z) (k : Z) : Z := n + k.

Definition diff_days (n1 n2 : Z) : Z := n2 - n1.

(** On civil dates, through day numbers. *)
Definition add_days_civil (y m d k : Z) : Z * Z * Z :=
  civil_from_days (add_days (days_from_civil y m d) k).

Lemma add_days_0 : forall n, add_days n 0 = n.
Proof. intros; unfold add_days; ring. Qed.

Lemma add_days_add : forall n j k, add_days (add_days n j) k = add_days n (j + k).
Proof. intros; unfold add_days; ring. Qed.

Lemma add_days_inv : forall n k, add_days (add_days n k) (- k) = n.
Proof. intros; unfold add_days; ring. Qed.

Lemma add_days_diff : forall n1 n2, add_days n1 (diff_days n1 n2) = n2.
Proof. intros; unfold add_days, diff_days; ring. Qed.

Lemma diff_days_antisym : forall n1 n2, diff_days n2 n1 = - diff_days n1 n2.
Proof. intros; unfold diff_days; ring. Qed.

Lemma diff_days_abs_sym : forall n1 n2, Z.abs (diff_days n1 n2) = Z.abs (diff_days n2 n1).
Proof. intros; unfold diff_days; lia. Qed.

Lemma add_days_civil_valid :
  forall y m d k y' m' d', add_days_civil y m d k = (y', m', d') -> valid_date y' m' d' = true.
Proof. intros y m d k y' m' d'; unfold add_days_civil; apply civil_from_days_valid. Qed.

Lemma add_days_civil_0 :
  forall y m d, valid_date y m d = true -> add_days_civil y m d 0 = (y, m, d).
Proof.
  intros; unfold add_days_civil. rewrite add_days_0.
  apply civil_from_days_from_civil; assumption.
Qed.

Lemma add_days_civil_add :
  forall y m d j k y1 m1 d1,
    add_days_civil y m d j = (y1, m1, d1) ->
    add_days_civil y1 m1 d1 k = add_days_civil y m d (j + k).
Proof.
  intros y m d j k y1 m1 d1 H; unfold add_days_civil in *.
  rewrite (days_from_civil_of_civil_from_days _ _ _ _ H), add_days_add. reflexivity.
Qed.

Lemma add_days_civil_1 :
  forall y m d, valid_date y m d = true -> add_days_civil y m d 1 = next_date y m d.
Proof.
  intros y m d V; unfold add_days_civil, add_days.
  rewrite civil_from_days_succ, (civil_from_days_from_civil _ _ _ V). reflexivity.
Qed.

(** Keep the day of month, move the calendar month by [k] (any integer).
    Defined only when the target date exists. *)
Definition add_months (y m d k : Z) : option (Z * Z * Z) :=
  let total := y * 12 + (m - 1) + k in
  let y' := total / 12 in
  let m' := total mod 12 + 1 in
  if valid_date y' m' d then Some (y', m', d) else None.

Definition add_years (y m d k : Z) : option (Z * Z * Z) :=
  if valid_date (y + k) m d then Some (y + k, m, d) else None.

Lemma month_index_div_mod :
  forall y m, 1 <= m <= 12 ->
    (y * 12 + (m - 1)) / 12 = y /\ (y * 12 + (m - 1)) mod 12 = m - 1.
Proof.
  intros y m Hm.
  pose proof (Z.div_mod (y * 12 + (m - 1)) 12 ltac:(lia)) as E.
  pose proof (Z.mod_pos_bound (y * 12 + (m - 1)) 12 ltac:(lia)) as B.
  lia.
Qed.

Lemma add_months_12 :
  forall y m d k, 1 <= m <= 12 -> add_months y m d (12 * k) = add_years y m d k.
Proof.
  intros y m d k Hm; unfold add_months, add_years; cbv zeta.
  replace (y * 12 + (m - 1) + 12 * k) with ((y + k) * 12 + (m - 1)) by ring.
  destruct (month_index_div_mod (y + k) m Hm) as [-> ->].
  replace (m - 1 + 1) with m by ring. reflexivity.
Qed.

Lemma add_months_0 :
  forall y m d, valid_date y m d = true -> add_months y m d 0 = Some (y, m, d).
Proof.
  intros y m d V.
  destruct (valid_date_bounds _ _ _ V) as (Hm & _).
  replace 0 with (12 * 0) by ring. rewrite add_months_12 by exact Hm.
  unfold add_years. rewrite Z.add_0_r, V. reflexivity.
Qed.

Lemma add_years_0 :
  forall y m d, valid_date y m d = true -> add_years y m d 0 = Some (y, m, d).
Proof. intros y m d V; unfold add_years; rewrite Z.add_0_r, V; reflexivity. Qed.

Lemma add_months_valid :
  forall y m d k y' m' d',
    add_months y m d k = Some (y', m', d') -> valid_date y' m' d' = true /\ d' = d.
Proof.
  intros y m d k y' m' d'; unfold add_months; cbv zeta.
  destruct (valid_date _ _ d) eqn:V; intros H; inversion H; subst; auto.
Qed.

Lemma add_years_valid :
  forall y m d k y' m' d',
    add_years y m d k = Some (y', m', d') ->
    valid_date y' m' d' = true /\ y' = y + k /\ m' = m /\ d' = d.
Proof.
  intros y m d k y' m' d'; unfold add_years.
  destruct (valid_date _ _ d) eqn:V; intros H; inversion H; subst; auto.
Qed.

(** The month index of the result: [y' * 12 + (m' - 1) = y * 12 + (m - 1) + k]. *)
Lemma add_months_index :
  forall y m d k y' m' d',
    add_months y m d k = Some (y', m', d') ->
    y' * 12 + (m' - 1) = y * 12 + (m - 1) + k.
Proof.
  intros y m d k y' m' d'; unfold add_months; cbv zeta.
  destruct (valid_date _ _ d); intros H; inversion H; subst.
  pose proof (Z.div_mod (y * 12 + (m - 1) + k) 12 ltac:(lia)). lia.
Qed.

(** Composition: if the intermediate date exists, moving by [k1] then by [k2]
    is moving by [k1 + k2] (both sides may still be [None] when the final
    target does not exist).  No hypothesis on the start date is needed. *)
Lemma add_months_add :
  forall y m d k1 k2 y1 m1 d1,
    add_months y m d k1 = Some (y1, m1, d1) ->
    add_months y1 m1 d1 k2 = add_months y m d (k1 + k2).
Proof.
  intros y m d k1 k2 y1 m1 d1 H.
  pose proof (add_months_index _ _ _ _ _ _ _ H) as I.
  destruct (add_months_valid _ _ _ _ _ _ _ H) as [_ ->].
  unfold add_months; cbv zeta.
  replace (y1 * 12 + (m1 - 1) + k2) with (y * 12 + (m - 1) + (k1 + k2)) by lia.
  reflexivity.
Qed.

(** Moving back by the same amount returns to a valid start date. *)
Lemma add_months_inv :
  forall y m d k y1 m1 d1,
    valid_date y m d = true ->
    add_months y m d k = Some (y1, m1, d1) ->
    add_months y1 m1 d1 (- k) = Some (y, m, d).
Proof.
  intros y m d k y1 m1 d1 V H.
  rewrite (add_months_add _ _ _ _ (- k) _ _ _ H).
  replace (k + - k) with 0 by ring. apply add_months_0; exact V.
Qed.

Lemma add_years_add :
  forall y m d k1 k2 y1 m1 d1,
    add_years y m d k1 = Some (y1, m1, d1) ->
    add_years y1 m1 d1 k2 = add_years y m d (k1 + k2).
Proof.
  intros y m d k1 k2 y1 m1 d1 H.
  destruct (add_years_valid _ _ _ _ _ _ _ H) as (_ & -> & -> & ->).
  unfold add_years. rewrite Z.add_assoc. reflexivity.
Qed.

(** Day 1..28 always survives a month move. *)
Lemma add_months_total :
  forall y m d k, 1 <= d <= 28 -> exists y' m', add_months y m d k = Some (y', m', d).
Proof.
  intros y m d k Hd; unfold add_months; cbv zeta.
  set (t := y * 12 + (m - 1) + k).
  pose proof (Z.mod_pos_bound t 12 ltac:(lia)) as B.
  assert (V : valid_date (t / 12) (t mod 12 + 1) d = true).
  { pose proof (valid_date_last (t / 12) (t mod 12 + 1) ltac:(lia)) as L.
    pose proof (valid_date_first (t / 12) (t mod 12 + 1) ltac:(lia)) as F.
    assert (28 <= days_in_month (t / 12) (t mod 12 + 1)).
    { generalize (t / 12) (t mod 12 + 1) (ltac:(lia) : 1 <= t mod 12 + 1 <= 12).
      intros yy mm Hmm. unfold days_in_month.
      assert (C : mm = 1 \/ mm = 2 \/ mm = 3 \/ mm = 4 \/ mm = 5 \/ mm = 6 \/ mm = 7
                  \/ mm = 8 \/ mm = 9 \/ mm = 10 \/ mm = 11 \/ mm = 12) by lia.
      repeat (destruct C as [-> | C]); try subst mm; try lia; destruct (is_leap yy); lia. }
    unfold valid_date in *. rewrite !andb_true_iff, !Z.leb_le in *. lia. }
  rewrite V. eauto.
Qed.

(** Month moves are strictly monotone in day number when they are defined. *)
Lemma add_months_lt :
  forall y m d k y' m' d',
    valid_date y m d = true -> 0 < k ->
    add_months y m d k = Some (y', m', d') ->
    days_from_civil y m d < days_from_civil y' m' d'.
Proof.
  intros y m d k y' m' d' V Hk H.
  pose proof (add_months_index _ _ _ _ _ _ _ H) as I.
  destruct (add_months_valid _ _ _ _ _ _ _ H) as [V' ->].
  apply (days_from_civil_lt _ _ _ _ _ _ V V').
  destruct (valid_date_bounds _ _ _ V) as (Hm & _).
  destruct (valid_date_bounds _ _ _ V') as (Hm' & _).
  lia.
Qed.

(* ------------------------------------------------------------------ *)
(** * Axiom audit                                                      *)
(* ------------------------------------------------------------------ *)

Print Assumptions civil_from_days_from_civil.
Print Assumptions days_from_civil_from_days.
Print Assumptions days_from_civil_lt.
Print Assumptions days_from_civil_le.
Print Assumptions days_from_civil_inj.
Print Assumptions days_from_civil_next_day.
Print Assumptions days_from_civil_month_end.
Print Assumptions days_from_civil_year_end.
Print Assumptions days_from_civil_year_length.
Print Assumptions days_from_civil_400.
Print Assumptions days_from_civil_period.
Print Assumptions civil_from_days_period.
Print Assumptions civil_from_days_succ.
Print Assumptions add_days_civil_add.
Print Assumptions add_days_civil_1.
Print Assumptions add_months_12.
Print Assumptions add_months_add.
Print Assumptions add_months_inv.
Print Assumptions add_months_total.
Print Assumptions add_months_lt.
Print Assumptions add_years_add.
