(* Specification of units (property C12), written by hand from the property text:
   the size of every unit in a base unit of its kind, as an exact rational.

     length  (base: millimetre)  decimal metric prefixes; 1 inch = 25.4 mm, 12 in = 1 ft,
                                 3 ft = 1 yd, 1760 yd = 1 mile (furlong = 220 yd = 1/8 mile)
     weight  (base: milligram)   decimal metric prefixes, tonne = 1000 kg;
                                 1 oz = 28.3495231 g, 16 oz = 1 lb, 14 lb = 1 stone
     memory  (base: bit)         8 bit = 1 byte, 1024-based multiples

   Nothing here is derived from config.json. *)
From Coq Require Import QArith Qcanon.
From SC.Model Require Import Base.

Inductive kind := KLength | KWeight | KMemory.

Definition kind_eqb (a b : kind) : bool :=
  match a, b with
  | KLength, KLength | KWeight, KWeight | KMemory, KMemory => true
  | _, _ => false
  end.

Definition qz (z : Z) : Qc := Q2Qc (inject_Z z).
Definition qd (n : Z) (d : positive) : Qc := Q2Qc (n # d).

(* ---- length, in millimetres ---- *)
Definition MM : Qc := qz 1.
Definition CM : Qc := qz 10.
Definition DM : Qc := qz 100.
Definition M_ : Qc := qz 1000.
Definition DAM : Qc := qz 10000.
Definition HM : Qc := qz 100000.
Definition KM : Qc := qz 1000000.
Definition INCH : Qc := qd 254 10.                 (* 25.4 mm *)
Definition FOOT : Qc := (qz 12 * INCH)%Qc.
Definition YARD : Qc := (qz 3 * FOOT)%Qc.
Definition FURLONG : Qc := (qz 220 * YARD)%Qc.
Definition MILE : Qc := (qz 1760 * YARD)%Qc.

(* ---- weight, in milligrams ---- *)
Definition MG : Qc := qz 1.
Definition CG : Qc := qz 10.
Definition DG : Qc := qz 100.
Definition G_ : Qc := qz 1000.
Definition DAG : Qc := qz 10000.
Definition HG : Qc := qz 100000.
Definition KG : Qc := qz 1000000.
Definition TONNE : Qc := qz 1000000000.
Definition OUNCE : Qc := (qd 283495231 10000000 * G_)%Qc.   (* 28.3495231 g *)
Definition POUND : Qc := (qz 16 * OUNCE)%Qc.
Definition STONE : Qc := (qz 14 * POUND)%Qc.

(* ---- memory, in bits ---- *)
Definition BIT : Qc := qz 1.
Definition BYTE : Qc := qz 8.
Definition bytes_pow (k : Z) : Qc := (qz (1024 ^ k) * BYTE)%Qc.

(* every spelling the statement's units go by (lower case) *)
Definition unit_table : list (string * (kind * Qc)) := [
  ("mm", (KLength, MM)); ("millimeter", (KLength, MM));
  ("cm", (KLength, CM)); ("centimeter", (KLength, CM));
  ("dm", (KLength, DM)); ("decimeter", (KLength, DM));
  ("m", (KLength, M_)); ("meter", (KLength, M_));
  ("dam", (KLength, DAM)); ("decameter", (KLength, DAM));
  ("hm", (KLength, HM)); ("hectometer", (KLength, HM));
  ("km", (KLength, KM)); ("kilometer", (KLength, KM));
  ("in", (KLength, INCH)); ("inch", (KLength, INCH));
  ("ft", (KLength, FOOT)); ("feet", (KLength, FOOT)); ("foot", (KLength, FOOT));
  ("yard", (KLength, YARD));
  ("furlong", (KLength, FURLONG));
  ("mile", (KLength, MILE));
  ("mg", (KWeight, MG)); ("milligram", (KWeight, MG));
  ("cg", (KWeight, CG)); ("centigram", (KWeight, CG));
  ("dg", (KWeight, DG)); ("decigram", (KWeight, DG));
  ("g", (KWeight, G_)); ("gram", (KWeight, G_));
  ("dag", (KWeight, DAG)); ("decagram", (KWeight, DAG));
  ("hg", (KWeight, HG)); ("hectogram", (KWeight, HG));
  ("kg", (KWeight, KG)); ("kilogram", (KWeight, KG));
  ("tonne", (KWeight, TONNE)); ("megagram", (KWeight, TONNE));
  ("oz", (KWeight, OUNCE)); ("ounce", (KWeight, OUNCE));
  ("lb", (KWeight, POUND)); ("pound", (KWeight, POUND));
  ("st", (KWeight, STONE)); ("stone", (KWeight, STONE));
  ("bit", (KMemory, BIT));
  ("byte", (KMemory, BYTE));
  ("kb", (KMemory, bytes_pow 1)); ("kilobyte", (KMemory, bytes_pow 1));
  ("mb", (KMemory, bytes_pow 2)); ("mega", (KMemory, bytes_pow 2)); ("megabyte", (KMemory, bytes_pow 2));
  ("gb", (KMemory, bytes_pow 3)); ("giga", (KMemory, bytes_pow 3)); ("gigabyte", (KMemory, bytes_pow 3));
  ("tb", (KMemory, bytes_pow 4)); ("tera", (KMemory, bytes_pow 4)); ("terabyte", (KMemory, bytes_pow 4));
  ("pb", (KMemory, bytes_pow 5)); ("peta", (KMemory, bytes_pow 5)); ("petabyte", (KMemory, bytes_pow 5));
  ("eb", (KMemory, bytes_pow 6)); ("exa", (KMemory, bytes_pow 6)); ("exabyte", (KMemory, bytes_pow 6));
  ("zb", (KMemory, bytes_pow 7)); ("zetta", (KMemory, bytes_pow 7)); ("zettabyte", (KMemory, bytes_pow 7));
  ("yb", (KMemory, bytes_pow 8)); ("yotta", (KMemory, bytes_pow 8)); ("yottabyte", (KMemory, bytes_pow 8))
]%string.

Definition spec_unit (name : str) : option (kind * Qc) :=
  assoc name (map (fun e => (s (fst e), snd e)) unit_table).

(* the conversion factor of the statement: an amount x of unit u is x * factor su sv of unit v *)
Definition factor (size_u size_v : Qc) : Qc := (size_u / size_v)%Qc.
