(* Reference notions for property C17, written from the property text:
   "offsets are character (not byte) positions with 0 <= start < end <= length of the line,
    tokens are ordered by start and never overlap".
   Positions are naturals (N), so 0 <= start is built in. *)
From SC.Model Require Import Base UiTokens.
From Coq Require Import Sorting.Sorted.

Local Open Scope N_scope.

(* one span, against a line of [n] characters *)
Definition span_ok (n : N) (t : uitoken) : Prop := ui_start t < ui_end t /\ ui_end t <= n.

(* two spans share no character *)
Definition disjoint (a b : uitoken) : Prop := ui_end a <= ui_start b \/ ui_end b <= ui_start a.

(* the invariant of the collection while it is being filled (any order) *)
Definition Inv (n : N) (us : list uitoken) : Prop :=
  Forall (span_ok n) us /\ ForallOrdPairs disjoint us.

Definition le_start (a b : uitoken) : Prop := ui_start a <= ui_start b.
Definition sorted_by_start (us : list uitoken) : Prop := StronglySorted le_start us.

(* every pair of neighbours is related *)
Fixpoint consecutive (R : uitoken -> uitoken -> Prop) (us : list uitoken) : Prop :=
  match us with
  | a :: ((b :: _) as r) => R a b /\ consecutive R r
  | _ => True
  end.

Definition no_overlap (a b : uitoken) : Prop := ui_end a <= ui_start b.

(* the statement's well-formedness of the tokens handed out for [line] *)
Definition WF (line : str) (us : list uitoken) : Prop :=
  Forall (span_ok (N.of_nat (length line))) us /\
  consecutive le_start us /\
  consecutive no_overlap us.

(* byte offset of character index [i] in the UTF-8 encoding of the line *)
Definition byte_off (line : str) (i : nat) : N := byte_length (firstn i line).

(* the characters covered by a span *)
Definition span_text (line : str) (t : uitoken) : str :=
  firstn (N.to_nat (ui_end t) - N.to_nat (ui_start t)) (skipn (N.to_nat (ui_start t)) line).

(* executable form of WF, for concrete lists *)
Fixpoint wf_from (n : N) (lo : N) (us : list uitoken) : bool :=
  match us with
  | [] => true
  | t :: r => N.leb lo (ui_start t) && N.ltb (ui_start t) (ui_end t) && N.leb (ui_end t) n && wf_from n (ui_end t) r
  end.
Definition wf_b (line : str) (us : list uitoken) : bool := wf_from (N.of_nat (length line)) 0 us.
