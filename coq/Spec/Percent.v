(* Specification of the percentage phrases (property C05), written from the property text:
   the seven textbook formulas over the exact rationals, with "a zero divisor yields 0",
   and "money in, money out in the same currency". *)
From Coq Require Import QArith Qcanon.
From SC.Model Require Import Base Num NumQ.

Local Open Scope Qc_scope.

Definition q100 : Qc := Qc_of_Z 100.

(* the guarded division of the statement: a zero divisor yields 0 *)
Definition gdiv (a b : Qc) : Qc := if Qc_eq_bool b 0 then 0 else a / b.

Definition pct_plus (X p : Qc) : Qc := X * (1 + p / q100).        (* 'X + p%' *)
Definition pct_minus (X p : Qc) : Qc := X * (1 - p / q100).       (* 'X - p%' *)
Definition pct_of (X p : Qc) : Qc := X * p / q100.                (* 'p% of X' *)
Definition pct_on (X p : Qc) : Qc := X * (1 + p / q100).          (* 'p% on X' *)
Definition pct_off (X p : Qc) : Qc := X * (1 - p / q100).         (* 'p% off X' *)
Definition what_percent (A B : Qc) : Qc := gdiv (q100 * A) B.     (* 'A is what % of B' (a percentage) *)
Definition of_what (A p : Qc) : Qc := gdiv (q100 * A) p.          (* 'A is p% of what' *)

(* an amount is a plain number or money in some currency (the currency code) *)
Inductive amount (F : Type) :=
| Plain (x : F)
| Cash (x : F) (cur : str).
Arguments Plain {F} x.
Arguments Cash {F} x cur.

Definition amt_val {F} (a : amount F) : F := match a with Plain x => x | Cash x _ => x end.

(* the same kind of amount (and the same currency) with another value *)
Definition amt_with {F} (a : amount F) (v : F) : amount F :=
  match a with Plain _ => Plain v | Cash _ c => Cash v c end.
