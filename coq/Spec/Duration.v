(* Specification of durations (property C10): unit lengths, greedy decomposition. *)
From SC.Model Require Import Base Types.

(* the unit lengths of the statement, in seconds *)
Definition SEC_MINUTE : Z := 60.
Definition SEC_HOUR : Z := 3600.
Definition SEC_DAY : Z := 86400.
Definition SEC_WEEK : Z := 7 * 86400.
Definition SEC_MONTH : Z := 30 * 86400.
Definition SEC_YEAR : Z := 365 * 86400.

Definition unit_len (k : durkind) : Z :=
  match k with
  | DSecond => 1 | DMinute => SEC_MINUTE | DHour => SEC_HOUR | DDay => SEC_DAY
  | DWeek => SEC_WEEK | DMonth => SEC_MONTH | DYear => SEC_YEAR
  end.

(* position in the printing order year > month > ... > second *)
Definition unit_rank (k : durkind) : nat :=
  match k with
  | DYear => 0 | DMonth => 1 | DWeek => 2 | DDay => 3 | DHour => 4 | DMinute => 5 | DSecond => 6
  end.

(* the largest count a component may show: a larger one would have been absorbed by the next
   bigger unit *)
Definition unit_bound (k : durkind) : option Z :=
  match k with
  | DYear => None
  | DMonth => Some 13      (* 365 = 12 * 30 + 5 *)
  | DWeek => Some 5        (* 30 = 4 * 7 + 2 *)
  | DDay => Some 7
  | DHour => Some 24
  | DMinute => Some 60
  | DSecond => Some 60
  end.

Fixpoint parts_sum (ps : list (durkind * Z)) : Z :=
  match ps with
  | [] => 0
  | (k, c) :: r => c * unit_len k + parts_sum r
  end.

Fixpoint ranks_increasing (ps : list (durkind * Z)) (lo : nat) : Prop :=
  match ps with
  | [] => True
  | (k, _) :: r => (lo <= unit_rank k)%nat /\ ranks_increasing r (S (unit_rank k))
  end.

Definition part_ok (p : durkind * Z) : Prop :=
  0 < snd p /\ match unit_bound (fst p) with Some b => snd p < b | None => True end.
