(* Reference semantics of fixed-precision printing (property C07), written from the statement:
   "the value correctly rounded to the configured number of decimal digits".
   A finite binary64 is (-1)^s * m * 2^e exactly; printed with n digits it shows the integer
   nearest to m * 2^e * 10^n, ties to even (what Rust's "{:.N}" does), with the decimal point n
   places from the right.  Pure integer arithmetic, no floats, no dependence on the model. *)
From Coq Require Import ZArith Lia.
Open Scope Z_scope.

(* the integer nearest to num/den (den > 0), ties to the even one *)
Definition round_half_even (num den : Z) : Z :=
  let q := num / den in
  let r := num mod den in
  match 2 * r ?= den with
  | Lt => q
  | Gt => q + 1
  | Eq => if Z.even q then q else q + 1
  end.

(* it is a nearest integer, and at a tie the even one *)
Lemma round_half_even_nearest : forall num den, 0 < den ->
  let q := round_half_even num den in
  2 * Z.abs (num - q * den) <= den /\
  (2 * Z.abs (num - q * den) = den -> Z.even q = true).
Proof.
  intros num den Hd. unfold round_half_even. cbv zeta.
  pose proof (Z.div_mod num den ltac:(lia)) as E.
  pose proof (Z.mod_pos_bound num den Hd) as B.
  set (q := num / den) in *. set (r := num mod den) in *.
  destruct (Z.compare_spec (2 * r) den) as [C|C|C].
  - destruct (Z.even q) eqn:Ev.
    + split; [nia|intros _; exact Ev].
    + split; [nia|]. intros _. rewrite Z.even_add, Ev. reflexivity.
  - split; [nia|]. intro H. exfalso. nia.
  - split; [nia|]. intro H. exfalso. nia.
Qed.

(* m * 2^e * 10^n rounded to an integer (m >= 0, n >= 0, any e) *)
Definition fixed_scaled (m e n : Z) : Z :=
  if 0 <=? e then m * 2 ^ e * 10 ^ n
  else round_half_even (m * 10 ^ n) (2 ^ (- e)).

(* for e >= 0 nothing is rounded; for e < 0 the quotient by 2^-e is *)
Lemma fixed_scaled_nearest : forall m e n, e < 0 ->
  let q := fixed_scaled m e n in
  2 * Z.abs (m * 10 ^ n - q * 2 ^ (- e)) <= 2 ^ (- e).
Proof.
  intros m e n He. unfold fixed_scaled. destruct (Z.leb_spec 0 e); [lia|].
  apply round_half_even_nearest. apply Z.pow_pos_nonneg; lia.
Qed.
