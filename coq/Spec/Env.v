(* Specification of property C03: a text is a straight-line program over an environment.
   Written from the property statement, independent of the model: an environment is an
   association list name -> value, the most recent binding first; `name = e` binds the name
   to the VALUE of e (only when e evaluates), a use reads the most recent binding, nothing
   else changes the environment. *)
From SC.Model Require Import Base.

Section Env.
Variable V : Type.

Definition env := list (str * V).            (* most recent binding first *)

Fixpoint lookup (k : str) (e : env) : option V :=
  match e with
  | [] => None
  | (k', v) :: r => if str_eqb k k' then Some v else lookup k r
  end.

Lemma lookup_bind_same k v e : lookup k ((k, v) :: e) = Some v.
Proof. cbn [lookup]. rewrite str_eqb_refl. reflexivity. Qed.

Lemma lookup_bind_other k k' v e : k <> k' -> lookup k ((k', v) :: e) = lookup k e.
Proof.
  intro H. cbn [lookup]. destruct (str_eqb k k') eqn:E; [|reflexivity].
  apply str_eqb_eq in E. contradiction.
Qed.

(* ---- straight-line programs over an abstract expression language ----
   E: expressions, R: results of evaluating one; [eval rho e] may read names through rho only;
   [value r = Some v]: the evaluation succeeded with value v, [None]: the line failed. *)
Variables E R : Type.
Variable eval : (str -> option V) -> E -> R.
Variable value : R -> option V.

Inductive stmt :=
| Assign (n : str) (e : E)
| Use (e : E).

Definition step (en : env) (st : stmt) : env * R :=
  match st with
  | Assign n e =>
    let r := eval (fun k => lookup k en) e in
    (match value r with Some v => (n, v) :: en | None => en end, r)
  | Use e => (en, eval (fun k => lookup k en) e)
  end.

Fixpoint run (en : env) (p : list stmt) : env * list R :=
  match p with
  | [] => (en, [])
  | st :: rest =>
    let '(en1, r) := step en st in
    let '(en2, rs) := run en1 rest in
    (en2, r :: rs)
  end.

(* the value a name has after a trace of executed statements: that of the last assignment to
   it that evaluated; [cur] if there is none *)
Fixpoint latest (n : str) (cur : option V) (trace : list (stmt * R)) : option V :=
  match trace with
  | [] => cur
  | (Assign m _, r) :: t =>
    latest n (if str_eqb n m then match value r with Some v => Some v | None => cur end else cur) t
  | (Use _, _) :: t => latest n cur t
  end.

Lemma run_length : forall p en, length (snd (run en p)) = length p.
Proof.
  induction p as [|st rest IH]; intro en; cbn [run]; [reflexivity|].
  destruct (step en st) as [en1 r]. specialize (IH en1).
  destruct (run en1 rest) as [en2 rs]. cbn [snd length] in *. congruence.
Qed.

(* later lines see the latest binding *)
Theorem run_latest : forall p en n,
  lookup n (fst (run en p)) = latest n (lookup n en) (combine p (snd (run en p))).
Proof.
  induction p as [|st rest IH]; intros en n; cbn [run]; [reflexivity|].
  destruct (step en st) as [en1 r] eqn:Es. specialize (IH en1 n).
  destruct (run en1 rest) as [en2 rs]. cbn [fst snd combine latest] in *. rewrite IH.
  destruct st as [m e|e]; cbn [step] in Es; injection Es as <- <-.
  - destruct (value (eval (fun k => lookup k en) e)) as [v|].
    + cbn [lookup]. destruct (str_eqb n m); reflexivity.
    + destruct (str_eqb n m); reflexivity.
  - reflexivity.
Qed.

(* a failing line leaves the environment as it is *)
Theorem step_failed_unchanged en st :
  value (snd (step en st)) = None -> fst (step en st) = en.
Proof. destruct st as [m e|e]; cbn [step fst snd]; intro H; [rewrite H|]; reflexivity. Qed.

(* a line changes at most the name it assigns *)
Theorem step_frame en st k :
  match st with Assign n _ => k <> n | Use _ => True end ->
  lookup k (fst (step en st)) = lookup k en.
Proof.
  destruct st as [m e|e]; cbn [step fst]; intro H; [|reflexivity].
  destruct (value _); [apply lookup_bind_other, H|reflexivity].
Qed.

End Env.

Arguments lookup {V} k e.
Arguments Assign {E} n e.
Arguments Use {E} e.
Arguments step {V E R} eval value en st.
Arguments run {V E R} eval value en p.
Arguments latest {V E R} value n cur trace.
