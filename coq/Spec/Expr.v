(* Specification of arithmetic (property C02): expression trees, their value under the usual
   rules, and the token lists the lexer produces for their renderings. *)
From SC.Model Require Import Base Num Types Post.

Section WithNum.
Context {F : Type} {NF : Num F}.

Inductive bop := BAdd | BSub | BMul | BDiv.

Definition bop_char (o : bop) : N :=
  match o with BAdd => OP_PLUS | BSub => OP_MINUS | BMul => OP_MUL | BDiv => OP_DIV end.

(* [Lit x]: a decimal literal whose value (sign and magnitude suffix included) is x;
   [Par e]: an explicitly parenthesised sub-expression *)
Inductive expr :=
| Lit (x : F)
| Par (e : expr)
| Bin (o : bop) (l r : expr).

(* the usual rules: the value of a tree *)
Fixpoint denote (e : expr) : F :=
  match e with
  | Lit x => x
  | Par e => denote e
  | Bin BAdd l r => fadd (denote l) (denote r)
  | Bin BSub l r => fsub (denote l) (denote r)
  | Bin BMul l r => fmul (denote l) (denote r)
  | Bin BDiv l r => do_division (denote l) (denote r)
  end.

(* binding strength: 0 for + -, 2 for * /, 3 for atoms (1 is the parser's unused % level) *)
Definition level_of (e : expr) : nat :=
  match e with
  | Lit _ | Par _ => 3
  | Bin BAdd _ _ | Bin BSub _ _ => 0
  | Bin BMul _ _ | Bin BDiv _ _ => 2
  end.

Definition bop_level (o : bop) : nat :=
  match o with BAdd | BSub => 0 | BMul | BDiv => 2 end.

(* [wf e]: e can be written down as it is (its [Par] nodes being the only parentheses) and
   read back as the same tree under precedence and left associativity: the left operand binds
   at least as tightly as the operator, the right operand strictly tighter *)
Fixpoint wf (e : expr) : bool :=
  match e with
  | Lit _ => true
  | Par e => wf e
  | Bin o l r => wf l && wf r && Nat.leb (bop_level o) (level_of l) && Nat.ltb (bop_level o) (level_of r)
  end.

(* every tree has a well-formed rendering with the same value: parenthesise where needed *)
Fixpoint parenthesise (e : expr) : expr :=
  match e with
  | Lit x => Lit x
  | Par e => Par (parenthesise e)
  | Bin o l r =>
    let l' := parenthesise l in
    let r' := parenthesise r in
    Bin o (if Nat.leb (bop_level o) (level_of l') then l' else Par l')
          (if Nat.ltb (bop_level o) (level_of r') then r' else Par r')
  end.

(* the token list of the explicit rendering (every operator written, signs inside literals) *)
Fixpoint toks_of (e : expr) : list (token F) :=
  match e with
  | Lit x => [TNumber x Decimal]
  | Par e => TOperator OP_LP :: toks_of e ++ [TOperator OP_RP]
  | Bin o l r => toks_of l ++ TOperator (bop_char o) :: toks_of r
  end.

(* the syntax tree the parser is expected to build *)
Fixpoint ast_of (e : expr) : ast F :=
  match e with
  | Lit x => AItem (INumber x Decimal)
  | Par e => ast_of e
  | Bin o l r => ABinary (ast_of l) (bop_char o) (ast_of r)
  end.

(* ---- sign prefixes ---- *)
(* A sign written apart from its operand is an operator token of its own.  [sexpr] extends
   [expr] with such prefixes in operand position (not at the start of an expression, where
   the tokenizer instead supplies a leading 0, see [lead_toks]). *)
Inductive sexpr :=
| SLit (x : F)
| SPar (e : sexpr)
| SBin (o : bop) (l r : sexpr)
| SNeg (minus : bool) (e : sexpr).          (* '-' (true) or '+' (false) in front of an atom *)

Definition sign_char (minus : bool) : N := if minus then OP_MINUS else OP_PLUS.

(* the value: the code negates a literal as x * -1.0 and anything else as -1.0 * x; both are
   the negation (Proofs: exact in Q; in binary64 both are the sign flip) *)
Fixpoint sdenote (e : sexpr) : F :=
  match e with
  | SLit x => x
  | SPar e => sdenote e
  | SBin BAdd l r => fadd (sdenote l) (sdenote r)
  | SBin BSub l r => fsub (sdenote l) (sdenote r)
  | SBin BMul l r => fmul (sdenote l) (sdenote r)
  | SBin BDiv l r => do_division (sdenote l) (sdenote r)
  | SNeg minus e =>
    match e with
    | SLit x => fmul x (if minus then fm1 else f1)
    | _ => if minus then fmul fm1 (sdenote e) else sdenote e
    end
  end.

Definition slevel_of (e : sexpr) : nat :=
  match e with
  | SLit _ | SPar _ | SNeg _ _ => 3
  | SBin BAdd _ _ | SBin BSub _ _ => 0
  | SBin BMul _ _ | SBin BDiv _ _ => 2
  end.

Definition is_atom (e : sexpr) : bool := match e with SLit _ | SPar _ => true | _ => false end.

(* well-formed: as [wf]; a sign prefix applies to a literal or a parenthesis and occurs only
   as the right operand of a binary operator (elsewhere it would be a binary operator or an
   expression start) *)
Fixpoint swf (e : sexpr) : bool :=
  match e with
  | SLit _ => true
  | SPar e => swf e && negb (match e with SNeg _ _ => true | _ => false end)
  | SBin o l r =>
    swf l && swf r && Nat.leb (bop_level o) (slevel_of l) && Nat.ltb (bop_level o) (slevel_of r)
    && negb (match l with SNeg _ _ => true | _ => false end)
  | SNeg _ e => is_atom e && swf e
  end.

Fixpoint stoks_of (e : sexpr) : list (token F) :=
  match e with
  | SLit x => [TNumber x Decimal]
  | SPar e => TOperator OP_LP :: stoks_of e ++ [TOperator OP_RP]
  | SBin o l r => stoks_of l ++ TOperator (bop_char o) :: stoks_of r
  | SNeg m e => TOperator (sign_char m) :: stoks_of e
  end.

Fixpoint sast_of (e : sexpr) : ast F :=
  match e with
  | SLit x => AItem (INumber x Decimal)
  | SPar e => sast_of e
  | SBin o l r => ABinary (sast_of l) (bop_char o) (sast_of r)
  | SNeg m e =>
    match e with
    | SLit x => AItem (INumber (fmul x (if m then fm1 else f1)) Decimal)
    | _ => APrefixUnary (sign_char m) (sast_of e)
    end
  end.

(* ---- juxtaposition ---- *)
(* [elided ts' ts]: ts' is ts with some '+' tokens left out, each one standing between the end
   of an operand (a number or ')') and the start of an operand (a number or '(') *)
Definition ends_operand (t : token F) : bool :=
  match t with TNumber _ _ => true | TOperator c => N.eqb c OP_RP | _ => false end.
Definition starts_operand (t : token F) : bool :=
  match t with TNumber _ _ => true | TOperator c => N.eqb c OP_LP | _ => false end.

Inductive elided : list (token F) -> list (token F) -> Prop :=
| el_nil : elided [] []
| el_keep t ts' ts : elided ts' ts -> elided (t :: ts') (t :: ts)
| el_drop a b ts' ts :
    ends_operand a = true -> starts_operand b = true ->
    elided (b :: ts') (b :: ts) -> elided (a :: b :: ts') (a :: TOperator OP_PLUS :: b :: ts).

End WithNum.
Arguments expr F : clear implicits.
Arguments sexpr F : clear implicits.
