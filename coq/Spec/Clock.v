(* Reference semantics of clock times and zones (property C11), written from the property text.
   A wall-clock time is a number of seconds w in [0, 86400); a zone offset is a number of minutes
   east of Greenwich.  Nothing here mentions the model. *)
From Coq Require Import ZArith List NArith.
Import ListNotations.
Open Scope Z_scope.

Definition DAY_SECS : Z := 86400.

Definition wall_ok (w : Z) : Prop := 0 <= w < DAY_SECS.

(* the wall time of h:m:s *)
Definition wall_of (h m sec : Z) : Z := h * 3600 + m * 60 + sec.

(* 12-hour clock: 1..11 am -> 1..11, 1..11 pm -> 13..23 (12:xx am/pm is left out by the statement) *)
Definition hour24 (h12 : Z) (pm : bool) : Z := if pm then h12 + 12 else h12.

(* the instant (seconds since the epoch, UTC) of wall time w of day number [day] in a zone *)
Definition instant_of (day w off : Z) : Z := day * DAY_SECS + w - 60 * off.

(* the wall time an instant shows in a zone *)
Definition clock_of (t off : Z) : Z := (t + 60 * off) mod DAY_SECS.

(* conversion: source wall time minus the source offset plus the target offset, modulo 24 h *)
Definition shown (w src tgt : Z) : Z := (w - 60 * src + 60 * tgt) mod DAY_SECS.

(* adding / subtracting a duration of d seconds moves the clock modulo 24 h *)
Definition shift_add (w d : Z) : Z := (w + d) mod DAY_SECS.
Definition shift_sub (w d : Z) : Z := (w - d) mod DAY_SECS.

(* 'T1 to T2' *)
Definition clock_diff (t1 t2 : Z) : Z := Z.abs (t1 - t2).

(* the text HH:MM:SS of a wall time, as code points *)
Definition digit (d : Z) : N := Z.to_N (48 + d).
Definition two_digits (n : Z) : list N := [digit (n / 10); digit (n mod 10)].
Definition clock_text (w : Z) : list N :=
  two_digits (w / 3600) ++ 58%N :: two_digits ((w / 60) mod 60) ++ 58%N :: two_digits (w mod 60).
