(* Reference semantics of property C06 (money), written from the property text.

   - [conv]: an amount of a currency whose rate is rA, expressed in a currency whose rate is rB.
   - rate tables under update requests: a request names a currency; a request whose name is
     not known is refused and changes nothing, an accepted one changes the rate of exactly
     that currency; later requests win. *)
From Coq Require Import QArith Qcanon.
From SC.Model Require Import Base.

(* "Converting an amount from currency A to currency B multiplies it by rate(B)/rate(A)" *)
Definition conv (rA rB a : Qc) : Qc := (a * rB / rA)%Qc.

Section Tables.
Context {R : Type}.
Definition table := str -> option R.

Definition upd (t : table) (X : str) (r : R) : table :=
  fun Y => if str_eqb Y X then Some r else t Y.

(* one request (name, rate): [resolve] maps the names the calculator knows to currency codes *)
Definition request (resolve : str -> option str) (t : table) (u : str * R) : table * bool :=
  match resolve (fst u) with
  | Some X => (upd t X (snd u), true)
  | None => (t, false)
  end.

Fixpoint table_after (resolve : str -> option str) (t : table) (us : list (str * R)) : table :=
  match us with
  | [] => t
  | u :: rest => table_after resolve (fst (request resolve t u)) rest
  end.

(* the last accepted request for currency Y, if any *)
Fixpoint last_write (resolve : str -> option str) (Y : str) (us : list (str * R)) (acc : option R) : option R :=
  match us with
  | [] => acc
  | u :: rest =>
    last_write resolve Y rest
      (match resolve (fst u) with
       | Some X => if str_eqb Y X then Some (snd u) else acc
       | None => acc
       end)
  end.
End Tables.
Arguments table R : clear implicits.
