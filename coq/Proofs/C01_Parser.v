(* Property C01, parser part: the recursive-descent parser terminates on EVERY token list
   within the fuel the model gives it (parse_fuel = 12 * length + 24), i.e. the model's
   [PFuel] outcome (which stands for a hang of the implementation) is unreachable; every loop
   iteration consumes a token.  Polymorphic in the number algebra.  No axioms. *)
From SC.Model Require Import Base Num Types Config Case Post Parser.
From SC.Proofs Require Import C02_Parser.
From Coq Require Import Arith Lia.

Local Open Scope nat_scope.

Section WithNum.
Context {F : Type} {NF : Num F}.

Notation toks := (list (token F)).
Notation res2 := (@pres F * list (token F))%type.

Definition okr (r : res2) (n : nat) : Prop :=
  nofuel r /\ length (snd r) <= n /\ (fst r = PAst ANone -> length (snd r) < n).
Definition okp (r : res2) (n : nat) : Prop :=
  nofuel r /\ length (snd r) <= n /\ fst r <> PAst ANone.
Definition okb (r : res2) (n : nat) (lft : ast F) : Prop :=
  nofuel r /\ length (snd r) <= n /\ (lft <> ANone -> fst r <> PAst ANone).

Definition Dc (l : level) := match l with LMulDiv => 3 | LModulo => 5 | LAddSub => 7 end.
Definition Cc (l : level) := S (Dc l).
Definition Rc (l : level) := S (Dc l).

Definition term_at (n : nat) : Prop :=
  (forall (ts : toks) f, length ts <= n -> 9 * n + 2 <= f -> okr (parse_unary f ts) n) /\
  (forall t (r : toks) f, length (t :: r) <= n -> 9 * n + 1 <= f -> okp (parse_paren f (t :: r)) n) /\
  (forall l (ts : toks) f, length ts <= n -> 9 * n + Dc l <= f -> okr (parse_sub f l ts) n) /\
  (forall l (ts : toks) f, length ts <= n -> 9 * n + Cc l <= f -> okr (parse_level f l ts) n) /\
  (forall l (ts : toks) f, length ts <= n -> 9 * n + Rc l <= f -> okr (right_loop f l ts) n) /\
  (forall l lft (ts : toks) f, length ts <= n -> 9 * n + 1 <= f -> okb (binary_loop f l lft ts) n lft).

Lemma Dc_ge l : 3 <= Dc l.
Proof. destruct l; cbn; lia. Qed.

Lemma okr_weaken r m n : okr r m -> m <= n -> okr r n.
Proof. intros (H1 & H2 & H3) Hle. repeat split; [exact H1|lia|intro H; specialize (H3 H); lia]. Qed.

Lemma parse_basic_ok (ts : toks) n : length ts <= n -> okr (parse_basic ts) n.
Proof.
  intro Hl. unfold okr, nofuel. destruct ts as [|t r]; cbn [parse_basic fst snd length] in *.
  - repeat split; [discriminate|lia|discriminate].
  - destruct t; cbn [fst snd]; repeat split; try discriminate; try lia.
Qed.

Lemma match_operator_cons ops (ts : toks) op : match_operator ops ts = Some op -> exists t r, ts = t :: r.
Proof. destruct ts as [|t r]; [discriminate|]. intros _. eauto. Qed.

Lemma tl_length (ts : toks) : length (tl ts) = length ts - 1.
Proof. destruct ts; cbn; lia. Qed.

Lemma term_step n : (forall m, m < n -> term_at m) -> term_at n.
Proof.
  intro IH.
  (* the paren parser: the inside is one token shorter *)
  assert (HP : forall t (r : toks) f, length (t :: r) <= n -> 9 * n + 1 <= f -> okp (parse_paren f (t :: r)) n).
  { intros t r f Hl Hf. destruct f as [|f]; [lia|]. rewrite parse_paren_S. cbn [tl]. cbn [length] in Hl.
    destruct n as [|n']; [lia|].
    destruct (IH n' ltac:(lia)) as (_ & _ & _ & HL & _ & _).
    specialize (HL LAddSub r f ltac:(lia) ltac:(unfold Cc, Dc; lia)). destruct HL as (L1 & L2 & L3).
    destruct (parse_level f LAddSub r) as [p rest] eqn:E. cbn [fst snd] in *. unfold nofuel in L1. cbn [fst] in L1.
    unfold okp, nofuel.
    destruct p as [a|m|]; [|cbn [fst snd length]; repeat split; try discriminate; lia|congruence].
    assert (Hgen : forall a', a' <> ANone ->
       okp (match match_operator [OP_RP] rest with Some _ => (PAst a', tl rest) | None => (PErr E_PAREN, t :: r) end) (S n')).
    { intros a' Ha. unfold okp, nofuel. destruct (match_operator [OP_RP] rest); cbn [fst snd length].
      - rewrite tl_length. repeat split; try discriminate; try lia. congruence.
      - repeat split; try discriminate; lia. }
    destruct a; try (apply Hgen; discriminate).
    cbn [fst snd length]. repeat split; try discriminate; lia. }
  (* prefix unary / primary *)
  assert (HU : forall (ts : toks) f, length ts <= n -> 9 * n + 2 <= f -> okr (parse_unary f ts) n).
  { intros ts f Hl Hf. destruct f as [|f]; [lia|]. rewrite parse_unary_S.
    destruct (match_operator [OP_MINUS; OP_PLUS] ts) as [op|] eqn:Eop.
    - destruct (match_operator_cons _ _ _ Eop) as (t0 & r0 & ->). cbn [tl]. cbn [length] in Hl.
      destruct r0 as [|t r']; [apply parse_basic_ok; cbn; lia|]. cbv zeta.
      assert (Herr : okr (PErr E_UNARY, t0 :: t :: r') n).
      { unfold okr, nofuel. cbn [fst snd length] in *. repeat split; try discriminate; lia. }
      assert (Hval : forall a, a <> ANone -> okr (PAst a, r') n).
      { intros a Ha. unfold okr, nofuel. cbn [fst snd length] in *. repeat split; try discriminate; try lia; try congruence. }
      destruct t; try exact Herr; try (apply Hval; discriminate).
      destruct (N.eqb c OP_LP); [|exact Herr].
      cbn [length] in Hl.
      destruct n as [|n']; [lia|].
      destruct (IH n' ltac:(lia)) as (_ & HP' & _).
      specialize (HP' (TOperator c) r' f ltac:(cbn [length]; lia) ltac:(lia)). destruct HP' as (P1 & P2 & P3).
      destruct (parse_paren f (TOperator c :: r')) as [p rest]. cbn [fst snd] in *. unfold nofuel in P1. cbn [fst] in P1.
      unfold okr, nofuel. destruct p as [a|m|]; cbn [fst snd]; repeat split; try discriminate; try lia; try congruence.
    - destruct (match_operator [OP_LP] ts) as [op|] eqn:Elp.
      + destruct (match_operator_cons _ _ _ Elp) as (t0 & r0 & ->).
        destruct (HP t0 r0 f Hl ltac:(lia)) as (P1 & P2 & P3).
        unfold okr. repeat split; [exact P1|exact P2|intro H; contradiction].
      + apply parse_basic_ok. exact Hl. }
  (* the three levels, bottom up *)
  assert (HB : forall l lft (ts : toks) f, length ts <= n -> 9 * n + 1 <= f -> okb (binary_loop f l lft ts) n lft).
  { intros l lft ts f Hl Hf. destruct f as [|f]; [lia|]. rewrite binary_loop_S.
    destruct (match_operator (level_ops l) ts) as [op|] eqn:Eop.
    - destruct (match_operator_cons _ _ _ Eop) as (t0 & r0 & ->). cbn [tl]. cbn [length] in Hl.
      destruct n as [|n']; [lia|].
      destruct (IH n' ltac:(lia)) as (_ & _ & _ & _ & HR & HB').
      specialize (HR l r0 f ltac:(lia) ltac:(destruct l; unfold Rc, Dc; lia)). destruct HR as (R1 & R2 & R3).
      destruct (right_loop f l r0) as [p rest]. cbn [fst snd] in *. unfold nofuel in R1. cbn [fst] in R1.
      destruct p as [a|m|]; [|unfold okb, nofuel; cbn [fst snd]; repeat split; try discriminate; lia|congruence].
      specialize (HB' l (ABinary lft op a) rest f R2 ltac:(lia)). destruct HB' as (B1 & B2 & B3).
      unfold okb. repeat split; [exact B1|lia|intros _; apply B3; discriminate].
    - unfold okb, nofuel. cbn [fst snd]. repeat split; try discriminate; try lia. congruence. }
  assert (HRgen : forall l, (forall (ts : toks) f, length ts <= n -> 9 * n + Dc l <= f -> okr (parse_sub f l ts) n) ->
                  forall (ts : toks) f, length ts <= n -> 9 * n + Rc l <= f -> okr (right_loop f l ts) n).
  { intros l HS ts f Hl Hf. destruct f as [|f]; [unfold Rc in Hf; lia|]. rewrite right_loop_S.
    specialize (HS ts f Hl ltac:(unfold Rc in Hf; lia)). destruct HS as (S1 & S2 & S3).
    destruct (parse_sub f l ts) as [p rest]. cbn [fst snd] in *. unfold nofuel in S1. cbn [fst] in S1.
    assert (Hpass : forall p', p' <> PFuel -> p' <> PAst ANone -> okr (p', rest) n).
    { intros p' H1 H2. unfold okr, nofuel. cbn [fst snd]. repeat split; [exact H1|exact S2|intro; contradiction]. }
    destruct p as [a|m|]; [|apply Hpass; discriminate|congruence].
    destruct a; try (apply Hpass; discriminate).
    specialize (S3 eq_refl).
    destruct n as [|n']; [lia|].
    destruct (IH n' ltac:(lia)) as (_ & _ & _ & _ & HR & _).
    apply okr_weaken with (m := n'); [|lia]. apply HR; [lia|unfold Rc in *; lia]. }
  assert (HLgen : forall l, (forall (ts : toks) f, length ts <= n -> 9 * n + Dc l <= f -> okr (parse_sub f l ts) n) ->
                  forall (ts : toks) f, length ts <= n -> 9 * n + Cc l <= f -> okr (parse_level f l ts) n).
  { intros l HS ts f Hl Hf. destruct f as [|f]; [unfold Cc in Hf; lia|]. rewrite parse_level_S.
    specialize (HS ts f Hl ltac:(unfold Cc in Hf; lia)). destruct HS as (S1 & S2 & S3).
    destruct (parse_sub f l ts) as [p rest]. cbn [fst snd] in *. unfold nofuel in S1. cbn [fst] in S1.
    destruct p as [a|m|]; [|unfold okr, nofuel; cbn [fst snd]; repeat split; try discriminate; lia|congruence].
    assert (Hloop : forall a', a' <> ANone -> okr (binary_loop f l a' rest) n).
    { intros a' Ha. pose proof (Dc_ge l) as Hd. destruct (HB l a' rest f S2 ltac:(unfold Cc in Hf; lia)) as (B1 & B2 & B3).
      unfold okr. repeat split; [exact B1|exact B2|intro H; exfalso; exact (B3 Ha H)]. }
    destruct a; try (apply Hloop; discriminate).
    unfold okr, nofuel. cbn [fst snd]. repeat split; [discriminate|exact S2|intros _; exact (S3 eq_refl)]. }
  assert (HSM : forall (ts : toks) f, length ts <= n -> 9 * n + Dc LMulDiv <= f -> okr (parse_sub f LMulDiv ts) n).
  { intros ts f Hl Hf. destruct f as [|f]; [unfold Dc in Hf; lia|]. rewrite parse_sub_S. apply HU; [exact Hl|unfold Dc in Hf; lia]. }
  pose proof (HLgen LMulDiv HSM) as HLM.
  assert (HSMod : forall (ts : toks) f, length ts <= n -> 9 * n + Dc LModulo <= f -> okr (parse_sub f LModulo ts) n).
  { intros ts f Hl Hf. destruct f as [|f]; [unfold Dc in Hf; lia|]. rewrite parse_sub_S. apply HLM; [exact Hl|unfold Cc, Dc in *; lia]. }
  pose proof (HLgen LModulo HSMod) as HLMod.
  assert (HSA : forall (ts : toks) f, length ts <= n -> 9 * n + Dc LAddSub <= f -> okr (parse_sub f LAddSub ts) n).
  { intros ts f Hl Hf. destruct f as [|f]; [unfold Dc in Hf; lia|]. rewrite parse_sub_S. apply HLMod; [exact Hl|unfold Cc, Dc in *; lia]. }
  pose proof (HLgen LAddSub HSA) as HLA.
  assert (HS : forall l (ts : toks) f, length ts <= n -> 9 * n + Dc l <= f -> okr (parse_sub f l ts) n).
  { intros l; destruct l; assumption. }
  unfold term_at. split; [|split; [|split; [|split; [|split]]]].
  - exact HU.
  - exact HP.
  - exact HS.
  - intros l; destruct l; [exact HLA|exact HLMod|exact HLM].
  - intros l. exact (HRgen l (HS l)).
  - exact HB.
Qed.

Lemma term_all : forall n, term_at n.
Proof. intro n. induction n as [n IH] using lt_wf_ind. apply term_step. exact IH. Qed.

(* the parser, at every level and from any position, never exhausts a fuel of 9*length + 8 *)
Theorem parse_level_terminates : forall l (ts : toks) f,
  9 * length ts + 8 <= f ->
  fst (parse_level f l ts) <> PFuel /\ length (snd (parse_level f l ts)) <= length ts.
Proof.
  intros l ts f Hf. destruct (term_all (length ts)) as (_ & _ & _ & HL & _ & _).
  destruct (HL l ts f (le_n _) ltac:(destruct l; unfold Cc, Dc; lia)) as (H1 & H2 & _). split; assumption.
Qed.

(* assign_name_loop returns an index from which the rest of the list is no longer than it *)
Theorem parse_terminates : forall (tokens : toks) (vs : vars F), fst (parse tokens vs) <> PFuel.
Proof.
  intros tokens vs. unfold parse, parse_assignment.
  assert (Hsub : forall k, fst (parse_level (parse_fuel tokens) LAddSub (skipn k tokens)) <> PFuel /\
                           length (snd (parse_level (parse_fuel tokens) LAddSub (skipn k tokens))) <= length tokens).
  { intro k. pose proof (skipn_length k tokens) as Hk.
    destruct (parse_level_terminates LAddSub (skipn k tokens) (parse_fuel tokens)) as [H1 H2];
      [unfold parse_fuel; lia|]. split; [exact H1|lia]. }
  assert (Hall : forall (r : toks), length r <= length tokens ->
                 fst (parse_level (parse_fuel tokens) LAddSub r) <> PFuel).
  { intros r Hr. apply parse_level_terminates. unfold parse_fuel. lia. }
  destruct (find_index (is_op OP_EQ) tokens) as [i|].
  - destruct (nth_opt tokens 0) as [t0|]; cbn [fst snd].
    + destruct (assign_name_loop (S (length tokens)) tokens vs 0 (to_lowercase (token_to_string vs t0))) as [idx name].
      destruct (Hsub idx) as [H1 H2].
      destruct (parse_level (parse_fuel tokens) LAddSub (skipn idx tokens)) as [p rest]. cbn [fst snd] in *.
      destruct p as [a|m|]; [|cbn [fst]; discriminate|congruence].
      destruct a; cbn [fst]; try discriminate.
      apply Hall. exact H2.
    + apply Hall. lia.
  - cbn [fst snd]. apply Hall. lia.
Qed.

End WithNum.

Print Assumptions parse_level_terminates.
Print Assumptions parse_terminates.
