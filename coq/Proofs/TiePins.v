(* SC.Proofs.TiePins -- the STRUCTURE of the pipeline that the hand-written model hard-wires, pinned against what the
   translator (tools/gen.py) scrapes from the Rust sources of /repo on every run.  The model composes the lexer and
   post-processing passes, the parser levels and the rule registry in a fixed way (Model/Api.v tokinize, Model/Parser.v
   parse_level / level_ops, Model/RuleFns.v); when the code's structure changes, these equalities stop to hold and
   every check reports the broken tie (the model is then no longer known to describe the code).  Built by ./check for
   every property.  No axioms. *)
From SC.Model Require Import Base.
From SC.Gen Require Import RustConsts.

(* Tokinizer::tokinize: the passes, in order (tokinizer/mod.rs) -- Model/Api.v tokinize composes exactly these *)
Lemma pass_order_pinned :
  PASS_ORDER = map s ["language_tokinizer"; "regex_tokinizer"; "alias_tokinizer"; "update_token_variables";
                      "dynamic_type_tokinizer"; "rule_tokinizer"; "token_generator"; "token_cleaner";
                      "missing_token_adder"]%string.
Proof. reflexivity. Qed.

(* Tokinizer::basic_tokinize (conversion codes): regex parsers, aliases, token generation -- Model/Api.v basic_execute *)
Lemma basic_pass_order_pinned :
  BASIC_PASS_ORDER = map s ["regex_tokinizer"; "alias_tokinizer"; "token_generator"]%string.
Proof. reflexivity. Qed.

(* Tokinizer::token_infos (rule, unit and date PATTERNS): months, regex parsers, aliases -- Model/Api.v token_infos *)
Lemma pattern_pass_order_pinned :
  PATTERN_PASS_ORDER = map s ["language_tokinizer"; "regex_tokinizer"; "alias_tokinizer"]%string.
Proof. reflexivity. Qed.

(* the regex parsers, in order (regex_tokinizer/mod.rs TOKEN_REGEX_PARSER) -- Model/Lexer.v *)
Lemma parser_order_pinned :
  PARSER_ORDER = map s ["comment"; "field"; "money"; "atom"; "percent"; "timezone"; "time"; "number"; "text";
                        "whitespace"; "operator"]%string.
Proof. reflexivity. Qed.

(* RULE_FUNCTIONS: every rule name of config.json is bound to the Rust function of the same name *)
Lemma rule_registry_pinned :
  forallb (fun p : str * str => str_eqb (fst p) (snd p)) RULE_REGISTRY = true /\
  map fst RULE_REGISTRY =
  map s ["percent_calculator"; "convert_timezone"; "time_with_timezone"; "to_unixtime"; "from_unixtime";
         "convert_money"; "number_on"; "number_of"; "number_off"; "division_cleanup"; "duration_parse"; "as_duration";
         "to_duration"; "at_date"; "combine_durations"; "find_numbers_percent"; "find_total_from_percent";
         "number_type_convert"; "dynamic_type_convert"]%string.
Proof. split; reflexivity. Qed.

(* the binary parser levels and their operators (syntax/binary.rs) -- Model/Parser.v level_ops / parse_sub *)
Lemma parse_levels_pinned :
  PARSE_LEVELS = [(s "ModuloParser", s "MultiplyDivideParser", [37%N]);
                  (s "MultiplyDivideParser", s "UnaryParser", [42%N; 47%N]);
                  (s "AddSubtractParser", s "ModuloParser", [43%N; 45%N])].
Proof. reflexivity. Qed.

(* the alternatives of the three map_parser calls (syntax/mod.rs, unary.rs, primative.rs) -- Model/Parser.v parse,
   parse_unary *)
Lemma map_parsers_pinned :
  MAP_PARSERS = [(s "mod.rs", map s ["AssignmentParser"; "AddSubtractParser"]%string);
                 (s "unary.rs", map s ["parse_prefix_unary"; "PrimativeParser"]%string);
                 (s "primative.rs", map s ["parse_parenthesis"; "parse_basic_primatives"]%string)].
Proof. reflexivity. Qed.

(* DataItem::calculate of each item kind (compiler/*.rs): the operand kinds it names and the operations it mentions --
   Model/Items.v calculate: number and percent take any operand through its underlying number (all four operations);
   money: number, money, percent, duration; duration: + and - only; time: duration or time, + and -; date and
   date-time: duration, + and -; unit quantity: number, quantity, percent *)
Lemma calc_operands_pinned :
  CALC_OPERANDS =
  [(s "number", [], map s ["Add"; "Div"; "Mul"; "Sub"]%string);
   (s "percent", [], map s ["Add"; "Div"; "Mul"; "Sub"]%string);
   (s "money", map s ["NUMBER"; "MONEY"; "PERCENT"; "DURATION"]%string, map s ["Add"; "Div"; "Mul"; "Sub"]%string);
   (s "duration", [], map s ["Add"; "Sub"]%string);
   (s "time", map s ["DURATION"; "TIME"]%string, map s ["Add"; "Sub"]%string);
   (s "date", map s ["DURATION"]%string, map s ["Add"; "Sub"]%string);
   (s "date_time", map s ["DURATION"]%string, map s ["Add"; "Sub"]%string);
   (s "dynamic_type", map s ["NUMBER"; "DYNAMIC_TYPE"; "PERCENT"]%string, map s ["Add"; "Div"; "Mul"; "Sub"]%string)].
Proof. reflexivity. Qed.

(* no object of config.json has the same key twice: every table the model loads is a function of its keys (a second
   row for a key would silently replace the first one in serde_json and in the translator alike) *)
Lemma config_has_no_duplicate_keys : CONFIG_DUPLICATE_KEYS = [].
Proof. reflexivity. Qed.

Print Assumptions pass_order_pinned.
Print Assumptions rule_registry_pinned.
