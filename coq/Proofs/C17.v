(* Proofs for property C17. *)
From SC.Model Require Import Base.
