(* Proofs for property C17 - highlight (UI) tokens are well-formed character spans.
   Model functions: UiTokens.get_position / check_collision / ui_add / ui_sort / ui_update,
   their call sites in Lexer.v (every parser body) and Rules.v (variables, units, rules).
   Spec: Spec/Spans.v (span_ok, disjoint, Inv, sorted_by_start, WF, byte_off). *)
From SC.Model Require Import Base Num Types Config Case UiTokens Rx RuleFns Rules Lexer Api.
From SC.Model Require Import NumF64 Run64.
From SC.Spec Require Import Spans.
From Coq Require Import Sorting.Sorted Sorting.Permutation.

Local Open Scope N_scope.

(* ================================================================== *)
(* A. the byte -> character map                                         *)
(* ================================================================== *)
Lemma utf8_w_range c : 1 <= utf8_w c <= 4.
Proof. unfold utf8_w. repeat destruct (N.ltb _ _); lia. Qed.

Lemma byte_off_0 x : byte_off x 0 = 0.
Proof. reflexivity. Qed.

Lemma byte_off_cons c r i : byte_off (c :: r) (S i) = utf8_w c + byte_off r i.
Proof. reflexivity. Qed.

Lemma byte_off_all x : byte_off x (length x) = byte_length x.
Proof. unfold byte_off. now rewrite firstn_all. Qed.

Lemma byte_off_step : forall x i, (i < length x)%nat -> byte_off x i < byte_off x (S i).
Proof.
  induction x as [|c r IH]; intros i Hi; [simpl in Hi; lia|].
  destruct i as [|i].
  - rewrite byte_off_cons, !byte_off_0. pose proof (utf8_w_range c). lia.
  - rewrite !byte_off_cons. simpl in Hi. specialize (IH i ltac:(lia)). lia.
Qed.

Lemma byte_off_mono : forall x i j, (i <= j)%nat -> byte_off x i <= byte_off x j.
Proof.
  induction x as [|c r IH]; intros i j Hij.
  - unfold byte_off. rewrite !firstn_nil. lia.
  - destruct i as [|i]; [rewrite byte_off_0; lia|].
    destruct j as [|j]; [lia|]. rewrite !byte_off_cons. specialize (IH i j ltac:(lia)). lia.
Qed.

Lemma byte_off_le_length x i : byte_off x i <= byte_length x.
Proof.
  destruct (Nat.le_gt_cases i (length x)) as [H|H].
  - rewrite <- byte_off_all. now apply byte_off_mono.
  - unfold byte_off. rewrite firstn_all2 by lia. lia.
Qed.

(* every byte of character i maps to i *)
Lemma cob_inside : forall x i b idx, (i < length x)%nat ->
  byte_off x i <= b < byte_off x (S i) -> char_of_byte x b idx = Some (idx + N.of_nat i).
Proof.
  induction x as [|c r IH]; intros i b idx Hi Hb; [simpl in Hi; lia|].
  cbn [char_of_byte]. destruct i as [|i].
  - rewrite byte_off_cons, !byte_off_0 in Hb.
    replace (N.ltb b (utf8_w c)) with true by (symmetry; apply N.ltb_lt; lia).
    f_equal. lia.
  - rewrite !byte_off_cons in Hb.
    replace (N.ltb b (utf8_w c)) with false by (symmetry; apply N.ltb_ge; lia).
    simpl in Hi. rewrite (IH i (b - utf8_w c) (idx + 1)) by lia. f_equal. lia.
Qed.

Lemma cob_none : forall x b idx, byte_length x <= b -> char_of_byte x b idx = None.
Proof.
  induction x as [|c r IH]; intros b idx Hb; [reflexivity|].
  cbn [char_of_byte byte_length] in *.
  replace (N.ltb b (utf8_w c)) with false by (symmetry; apply N.ltb_ge; lia).
  apply IH. lia.
Qed.

Lemma cob_some : forall x b idx p, char_of_byte x b idx = Some p ->
  b < byte_length x /\ idx <= p < idx + N.of_nat (length x).
Proof.
  induction x as [|c r IH]; intros b idx p H; [discriminate|].
  cbn [char_of_byte byte_length length] in *. pose proof (utf8_w_range c).
  destruct (N.ltb_spec b (utf8_w c)).
  - inversion H; subst. lia.
  - apply IH in H. lia.
Qed.

Lemma cob_total : forall x b idx, b < byte_length x -> exists p, char_of_byte x b idx = Some p.
Proof.
  induction x as [|c r IH]; intros b idx Hb; [cbn in Hb; lia|].
  cbn [char_of_byte byte_length] in *.
  destruct (N.ltb_spec b (utf8_w c)); [eauto|]. apply IH. lia.
Qed.

Lemma cob_mono : forall x b1 b2 idx p1 p2, b1 <= b2 ->
  char_of_byte x b1 idx = Some p1 -> char_of_byte x b2 idx = Some p2 -> p1 <= p2.
Proof.
  induction x as [|c r IH]; intros b1 b2 idx p1 p2 Hb H1 H2; [discriminate|].
  cbn [char_of_byte] in *.
  destruct (N.ltb_spec b1 (utf8_w c)).
  - inversion H1; subst.
    destruct (N.ltb_spec b2 (utf8_w c)); [inversion H2; lia|].
    apply cob_some in H2. lia.
  - destruct (N.ltb_spec b2 (utf8_w c)); [lia|].
    eapply IH; [|exact H1|exact H2]. lia.
Qed.

(* get_position (byte offset of character i) = i, for every character index incl. the end *)
Lemma get_position_char : forall line i, (i <= length line)%nat ->
  get_position line (byte_off line i) = N.of_nat i.
Proof.
  intros line i Hi. unfold get_position.
  destruct (Nat.eq_dec i (length line)) as [->|Hne].
  - rewrite byte_off_all, cob_none by lia. now rewrite N.eqb_refl.
  - assert (Hlt : (i < length line)%nat) by lia.
    rewrite (cob_inside line i (byte_off line i) 0 Hlt).
    + lia.
    + pose proof (byte_off_step line i Hlt). lia.
Qed.

(* offsets inside a character map to that character *)
Lemma get_position_inside : forall line i b, (i < length line)%nat ->
  byte_off line i <= b < byte_off line (S i) -> get_position line b = N.of_nat i.
Proof.
  intros line i b Hi Hb. unfold get_position. rewrite (cob_inside line i b 0 Hi Hb). lia.
Qed.

Lemma get_position_end line : get_position line (byte_length line) = N.of_nat (length line).
Proof. rewrite <- byte_off_all. now apply get_position_char. Qed.

(* for ALL byte arguments the result is a character position of the line *)
Lemma get_position_range line b : get_position line b <= N.of_nat (length line).
Proof.
  unfold get_position. destruct (char_of_byte line b 0) as [p|] eqn:E.
  - apply cob_some in E. lia.
  - destruct (N.eqb _ _); lia.
Qed.

(* an offset past the end is reported as position 0 (the `log::error!` branch) *)
Lemma get_position_outside line b : byte_length line < b -> get_position line b = 0.
Proof.
  intro H. unfold get_position. rewrite cob_none by lia.
  replace (N.eqb (byte_length line) b) with false; [reflexivity|].
  symmetry. apply N.eqb_neq. lia.
Qed.

Lemma get_position_mono line b1 b2 : b1 <= b2 -> b2 <= byte_length line ->
  get_position line b1 <= get_position line b2.
Proof.
  intros H12 H2. destruct (N.eq_dec b2 (byte_length line)) as [->|Hne].
  - rewrite get_position_end. apply get_position_range.
  - unfold get_position.
    destruct (cob_total line b1 0 ltac:(lia)) as [p1 E1].
    destruct (cob_total line b2 0 ltac:(lia)) as [p2 E2].
    rewrite E1, E2. exact (cob_mono line b1 b2 0 p1 p2 H12 E1 E2).
Qed.

Lemma get_position_strict line i j : (i < j <= length line)%nat ->
  get_position line (byte_off line i) < get_position line (byte_off line j).
Proof. intros H. rewrite !get_position_char by lia. lia. Qed.

(* ================================================================== *)
(* B. list facts                                                        *)
(* ================================================================== *)
Section Lists.
Context {A : Type}.
Variable R : A -> A -> Prop.

Lemma FOP_cons_iff a l : ForallOrdPairs R (a :: l) <-> Forall (R a) l /\ ForallOrdPairs R l.
Proof. split; [inversion 1; auto | intros [? ?]; now constructor]. Qed.

Lemma FOP_app l1 l2 : ForallOrdPairs R (l1 ++ l2) <->
  ForallOrdPairs R l1 /\ ForallOrdPairs R l2 /\ (forall a b, In a l1 -> In b l2 -> R a b).
Proof.
  induction l1 as [|x l1 IH]; cbn [app].
  - split; [intro H; repeat split; [constructor|exact H|intros ? ? []] | tauto].
  - rewrite !FOP_cons_iff, IH, Forall_app, !Forall_forall. split.
    + intros [[H1 H2] [H3 [H4 H5]]]. repeat split; auto.
      intros a b [<-|Ha] Hb; auto.
    + intros [[H1 H2] [H3 H4]]. repeat split; auto.
      * intros b Hb. apply H4; [now left|exact Hb].
      * intros a b Ha Hb. apply H4; [now right|exact Hb].
Qed.

Lemma SS_cons_iff a l : StronglySorted R (a :: l) <-> Forall (R a) l /\ StronglySorted R l.
Proof. split; [inversion 1; auto | intros [? ?]; now constructor]. Qed.

Lemma SS_app l1 l2 : StronglySorted R (l1 ++ l2) <->
  StronglySorted R l1 /\ StronglySorted R l2 /\ (forall a b, In a l1 -> In b l2 -> R a b).
Proof.
  induction l1 as [|x l1 IH]; cbn [app].
  - split; [intro H; repeat split; [constructor|exact H|intros ? ? []] | tauto].
  - rewrite !SS_cons_iff, IH, Forall_app, !Forall_forall. split.
    + intros [[H1 H2] [H3 [H4 H5]]]. repeat split; auto.
      intros a b [<-|Ha] Hb; auto.
    + intros [[H1 H2] [H3 H4]]. repeat split; auto.
      * intros b Hb. apply H4; [now left|exact Hb].
      * intros a b Ha Hb. apply H4; [now right|exact Hb].
Qed.

Lemma FOP_perm : (forall a b, R a b -> R b a) -> forall l l', Permutation l l' ->
  ForallOrdPairs R l -> ForallOrdPairs R l'.
Proof.
  intros Hsym l l' Hp. induction Hp; intro H.
  - exact H.
  - apply FOP_cons_iff in H as [H1 H2]. apply FOP_cons_iff. split; auto.
    eapply Permutation_Forall; eauto.
  - apply FOP_cons_iff in H as [H1 H2]. apply FOP_cons_iff in H2 as [H2 H3].
    inversion H1; subst. apply FOP_cons_iff. split.
    + constructor; auto.
    + apply FOP_cons_iff. split; auto.
  - auto.
Qed.
End Lists.

Lemma In_firstn {A} : forall n (l : list A) x, In x (firstn n l) -> In x l.
Proof. intros n l x H. rewrite <- (firstn_skipn n l). apply in_or_app. now left. Qed.

Lemma In_skipn {A} : forall n (l : list A) x, In x (skipn n l) -> In x l.
Proof. intros n l x H. rewrite <- (firstn_skipn n l). apply in_or_app. now right. Qed.

Lemma nth_error_in_skipn {A} : forall (l : list A) a i x, (a <= i)%nat ->
  nth_error l i = Some x -> In x (skipn a l).
Proof.
  induction l as [|y l IH]; intros a i x Hai H; [destruct i; discriminate|].
  destruct a as [|a]; [cbn [skipn]; eapply nth_error_In; eauto|].
  destruct i as [|i]; [lia|]. cbn [skipn nth_error] in *. eapply IH; [|exact H]. lia.
Qed.

Lemma nth_error_in_firstn {A} : forall (l : list A) n i x, (i < n)%nat ->
  nth_error l i = Some x -> In x (firstn n l).
Proof.
  induction l as [|y l IH]; intros n i x Hin H; [destruct i; discriminate|].
  destruct n as [|n]; [lia|]. cbn [firstn].
  destruct i as [|i]; cbn [nth_error] in H.
  - inversion H; now left.
  - right. eapply IH; [|exact H]. lia.
Qed.

(* the elements kept in front come before the elements kept behind *)
Lemma split_three {A} : forall (l : list A) a b, (a <= b)%nat ->
  l = firstn a l ++ firstn (b - a) (skipn a l) ++ skipn b l.
Proof.
  intros l a b Hab.
  rewrite <- (firstn_skipn a l) at 1. f_equal.
  rewrite <- (firstn_skipn (b - a) (skipn a l)) at 1. f_equal.
  revert a b Hab. induction l as [|x l IH]; intros a b Hab.
  - now rewrite !skipn_nil.
  - destruct a as [|a]; [now rewrite Nat.sub_0_r|].
    destruct b as [|b]; [lia|]. cbn [skipn Nat.sub]. apply IH. lia.
Qed.

Lemma find_index_some {A} (p : A -> bool) : forall l i, find_index p l = Some i ->
  exists x, nth_error l i = Some x /\ p x = true.
Proof.
  induction l as [|y l IH]; intros i H; [discriminate|].
  cbn [find_index] in H. destruct (p y) eqn:E.
  - inversion H; subst. exists y. auto.
  - destruct (find_index p l) as [k|]; [|discriminate]. inversion H; subst.
    destruct (IH k eq_refl) as [x [H1 H2]]. exists x. auto.
Qed.

(* ================================================================== *)
(* C. the collection while it is filled: ui_add                         *)
(* ================================================================== *)
Lemma disjoint_sym a b : disjoint a b -> disjoint b a.
Proof. unfold disjoint. tauto. Qed.

Lemma check_collision_true us st en : check_collision us st en = true ->
  Forall (fun it => en <= ui_start it \/ ui_end it <= st) us.
Proof.
  unfold check_collision. intro H. apply negb_true_iff in H.
  apply Forall_forall. intros it Hin.
  assert (E : N.ltb (ui_start it) en && N.ltb st (ui_end it) = false).
  { destruct (N.ltb (ui_start it) en && N.ltb st (ui_end it)) eqn:E; [|reflexivity].
    assert (existsb (fun it => N.ltb (ui_start it) en && N.ltb st (ui_end it)) us = true)
      by (apply existsb_exists; eauto). congruence. }
  apply andb_false_iff in E as [E|E]; apply N.ltb_ge in E; auto.
Qed.

Lemma check_collision_false us st en : check_collision us st en = false ->
  exists it, In it us /\ ui_start it < en /\ st < ui_end it.
Proof.
  unfold check_collision. intro H. apply negb_false_iff, existsb_exists in H as [it [Hin H]].
  apply andb_true_iff in H as [H1 H2]. apply N.ltb_lt in H1, H2. eauto.
Qed.

(* ui_add either leaves the collection alone or appends one token *)
Lemma ui_add_cases line us st en k :
  ui_add line us st en k = us \/
  (get_position line st < get_position line en /\
   check_collision us (get_position line st) (get_position line en) = true /\
   ui_add line us st en k =
     us ++ [{| ui_start := get_position line st; ui_end := get_position line en; ui_kind := k |}]).
Proof.
  unfold ui_add.
  destruct (N.ltb_spec (get_position line st) (get_position line en)); cbn [andb]; [|now left].
  destruct (check_collision _ _ _) eqn:E; [right; auto | now left].
Qed.

(* for ANY byte span: the function itself checks start < end and collisions *)
Lemma ui_add_inv line us st en k :
  Inv (N.of_nat (length line)) us -> Inv (N.of_nat (length line)) (ui_add line us st en k).
Proof.
  intros [Hb Hd]. destruct (ui_add_cases line us st en k) as [->|[Hlt [Hc ->]]]; [now split|].
  pose proof (get_position_range line en) as Hr.
  apply check_collision_true in Hc. rewrite Forall_forall in Hc.
  split.
  - apply Forall_app. split; [exact Hb|]. repeat constructor; cbn; lia.
  - apply FOP_app. repeat split; [exact Hd|repeat constructor|].
    intros a b Ha [<-|[]]. unfold disjoint. cbn. specialize (Hc a Ha). lia.
Qed.

Lemma ui_add_opt_inv line us m k :
  Inv (N.of_nat (length line)) us -> Inv (N.of_nat (length line)) (ui_add_opt line us m k).
Proof. destruct m as [[st en]|]; cbn [ui_add_opt]; [apply ui_add_inv|auto]. Qed.

Lemma inv_nil n : Inv n [].
Proof. split; constructor. Qed.

(* a token is reported with its own kind over exactly its characters: a character-aligned
   byte span [byte_off i, byte_off j) that is free is appended as (i, j, k) *)
Lemma ui_add_exact line us i j k : (i < j <= length line)%nat ->
  check_collision us (N.of_nat i) (N.of_nat j) = true ->
  ui_add line us (byte_off line i) (byte_off line j) k =
  us ++ [{| ui_start := N.of_nat i; ui_end := N.of_nat j; ui_kind := k |}].
Proof.
  intros Hij Hc. unfold ui_add. rewrite !get_position_char by lia. rewrite Hc.
  replace (N.ltb (N.of_nat i) (N.of_nat j)) with true by (symmetry; apply N.ltb_lt; lia).
  reflexivity.
Qed.

(* ... and a span that touches an earlier token is dropped, never merged or truncated *)
Lemma ui_add_collision line us st en k it : In it us ->
  ui_start it < get_position line en -> get_position line st < ui_end it ->
  ui_add line us st en k = us.
Proof.
  intros Hin H1 H2. destruct (ui_add_cases line us st en k) as [E|[_ [Hc _]]]; [exact E|].
  apply check_collision_true in Hc. rewrite Forall_forall in Hc. specialize (Hc it Hin). lia.
Qed.

(* any sequence of additions starting from the empty collection *)
Inductive ui_built (line : str) : list uitoken -> Prop :=
| ub_nil : ui_built line []
| ub_add us st en k : ui_built line us -> ui_built line (ui_add line us st en k)
| ub_add_opt us m k : ui_built line us -> ui_built line (ui_add_opt line us m k).

Lemma ui_built_inv line us : ui_built line us -> Inv (N.of_nat (length line)) us.
Proof.
  induction 1; [apply inv_nil|now apply ui_add_inv|now apply ui_add_opt_inv].
Qed.

Lemma fold_ui_add_inv line (spans : list (N * N * uikind)) :
  Inv (N.of_nat (length line))
      (fold_left (fun us sp => ui_add line us (fst (fst sp)) (snd (fst sp)) (snd sp)) spans []).
Proof.
  assert (G : forall us, Inv (N.of_nat (length line)) us ->
              Inv (N.of_nat (length line))
                (fold_left (fun us sp => ui_add line us (fst (fst sp)) (snd (fst sp)) (snd sp)) spans us)).
  { induction spans as [|sp r IH]; intros us H; cbn [fold_left]; [exact H|].
    apply IH. now apply ui_add_inv. }
  apply G, inv_nil.
Qed.

(* ================================================================== *)
(* D. ui_sort                                                           *)
(* ================================================================== *)
Lemma insert_perm t : forall l, Permutation (ui_insert_sorted t l) (t :: l).
Proof.
  induction l as [|x r IH]; cbn [ui_insert_sorted]; [reflexivity|].
  destruct (N.ltb _ _); [reflexivity|].
  rewrite IH. apply perm_swap.
Qed.

Lemma insert_sorted t : forall l, sorted_by_start l -> sorted_by_start (ui_insert_sorted t l).
Proof.
  unfold sorted_by_start.
  induction l as [|x r IH]; intro H; cbn [ui_insert_sorted]; [repeat constructor|].
  apply SS_cons_iff in H as [H1 H2].
  destruct (N.ltb_spec (ui_start t) (ui_start x)).
  - apply SS_cons_iff. split; [|apply SS_cons_iff; auto].
    constructor; [unfold le_start; lia|].
    eapply Forall_impl; [|exact H1]. unfold le_start. intros; lia.
  - apply SS_cons_iff. split; [|auto].
    eapply Permutation_Forall; [symmetry; apply insert_perm|].
    constructor; [unfold le_start; lia|exact H1].
Qed.

Lemma ui_sort_fold : forall l acc, sorted_by_start acc ->
  sorted_by_start (fold_left (fun acc t => ui_insert_sorted t acc) l acc) /\
  Permutation (fold_left (fun acc t => ui_insert_sorted t acc) l acc) (acc ++ l).
Proof.
  induction l as [|t r IH]; intros acc H; cbn [fold_left].
  - rewrite app_nil_r. auto.
  - destruct (IH (ui_insert_sorted t acc) (insert_sorted t acc H)) as [H1 H2]. split; [exact H1|].
    rewrite H2, insert_perm. cbn [app]. apply Permutation_middle.
Qed.

Lemma ui_sort_perm l : Permutation (ui_sort l) l.
Proof. unfold ui_sort. now destruct (ui_sort_fold l [] ltac:(constructor)). Qed.

Lemma ui_sort_sorted l : sorted_by_start (ui_sort l).
Proof. unfold ui_sort. now destruct (ui_sort_fold l [] ltac:(constructor)). Qed.

Lemma inv_perm n l l' : Permutation l l' -> Inv n l -> Inv n l'.
Proof.
  intros Hp [H1 H2]. split; [eapply Permutation_Forall; eauto|].
  eapply FOP_perm; eauto. apply disjoint_sym.
Qed.

Lemma ui_sort_inv n l : Inv n l -> Inv n (ui_sort l).
Proof. apply inv_perm. symmetry. apply ui_sort_perm. Qed.

(* ================================================================== *)
(* E. sorted + pairwise disjoint  <->  a chain                          *)
(* ================================================================== *)
(* the shape of the collection after `sort`: every earlier token ends before every later starts *)
Definition Chain (n : N) (us : list uitoken) : Prop :=
  Forall (span_ok n) us /\ StronglySorted no_overlap us.

Lemma chain_of_sorted_inv n us : Inv n us -> sorted_by_start us -> Chain n us.
Proof.
  intros [Hb Hd] Hs. split; [exact Hb|].
  induction us as [|a r IH]; [constructor|].
  apply FOP_cons_iff in Hd as [Hd1 Hd2]. apply SS_cons_iff in Hs as [Hs1 Hs2].
  inversion Hb as [|? ? Ha Hr]; subst.
  apply SS_cons_iff. split; [|auto].
  rewrite Forall_forall in *. intros b Hin.
  specialize (Hd1 b Hin). specialize (Hs1 b Hin). specialize (Hr b Hin).
  unfold disjoint, le_start, no_overlap, span_ok in *. lia.
Qed.

Lemma sorted_inv_of_chain n us : Chain n us -> Inv n us /\ sorted_by_start us.
Proof.
  intros [Hb Hs]. induction us as [|a r IH]; [repeat split; constructor|].
  apply SS_cons_iff in Hs as [Hs1 Hs2]. inversion Hb as [|? ? Ha Hr]; subst.
  destruct (IH Hr Hs2) as [[_ I2] I3].
  assert (Hrr := Hr). rewrite Forall_forall in Hs1, Hrr.
  repeat split; [exact Hb| |].
  - apply FOP_cons_iff. split; [|exact I2]. apply Forall_forall. intros b Hin.
    left. exact (Hs1 b Hin).
  - apply SS_cons_iff. split; [|exact I3]. apply Forall_forall. intros b Hin.
    specialize (Hs1 b Hin). specialize (Hrr b Hin). unfold le_start, no_overlap, span_ok in *. lia.
Qed.

Lemma consecutive_of_SS (R : uitoken -> uitoken -> Prop) us : StronglySorted R us -> consecutive R us.
Proof.
  induction us as [|a r IH]; intro H; [exact I|].
  apply SS_cons_iff in H as [H1 H2]. destruct r as [|b r]; [exact I|].
  split; [now inversion H1|]. apply IH. exact H2.
Qed.

Lemma chain_wf line us : Chain (N.of_nat (length line)) us -> WF line us.
Proof.
  intro H. destruct (sorted_inv_of_chain _ _ H) as [[Hb _] Hs]. destruct H as [_ Hc].
  repeat split; [exact Hb|now apply consecutive_of_SS|now apply consecutive_of_SS].
Qed.

(* sorted + pairwise disjoint => consecutive spans do not overlap *)
Lemma sorted_inv_wf line us :
  Inv (N.of_nat (length line)) us -> sorted_by_start us -> WF line us.
Proof. intros. now apply chain_wf, chain_of_sorted_inv. Qed.

(* WF is exactly the executable check *)
Lemma wf_from_sound n : forall us lo, wf_from n lo us = true ->
  Forall (span_ok n) us /\ StronglySorted no_overlap us /\ Forall (fun t => lo <= ui_start t) us.
Proof.
  induction us as [|t r IH]; intros lo H; [repeat split; constructor|].
  cbn [wf_from] in H. repeat (apply andb_true_iff in H as [H ?]).
  apply N.leb_le in H, H1. apply N.ltb_lt in H2.
  destruct (IH _ H0) as [I1 [I2 I3]]. repeat split.
  - constructor; [split; lia|exact I1].
  - apply SS_cons_iff. split; [|exact I2]. eapply Forall_impl; [|exact I3]. unfold no_overlap. auto.
  - constructor; [exact H|]. eapply Forall_impl; [|exact I3]. cbn. intros; lia.
Qed.

Lemma wf_b_sound line us : wf_b line us = true -> WF line us.
Proof.
  intro H. apply wf_from_sound in H as [H1 [H2 _]]. apply chain_wf. now split.
Qed.

(* ================================================================== *)
(* F. ui_update                                                         *)
(* ================================================================== *)
Lemma as_i8_le i : (as_i8 i > -1)%Z -> (Z.to_nat (as_i8 i) <= i)%nat.
Proof.
  unfold as_i8. intro H.
  pose proof (Z.mod_pos_bound (Z.of_nat i) 256 ltac:(lia)) as Hb.
  assert (Hle : (Z.of_nat i mod 256 <= Z.of_nat i)%Z) by (apply Z.mod_le; lia).
  destruct (Z.ltb_spec (Z.of_nat i mod 256) 128); lia.
Qed.

Lemma as_i8_small i : (i < 128)%nat -> as_i8 i = Z.of_nat i.
Proof.
  intro H. unfold as_i8. rewrite Z.mod_small by lia.
  destruct (Z.ltb_spec (Z.of_nat i) 128); lia.
Qed.

(* the three outcomes of ui_update, read off the definition *)
Definition merged (line : str) (us : list uitoken) (pst pen : N) (k : uikind) (a j : nat) : list uitoken :=
  firstn a us ++ {| ui_start := get_position line pst; ui_end := get_position line pen; ui_kind := k |}
              :: skipn (S j) us.

Definition update_sites (line : str) (us : list uitoken) (pst pen : N) (i j : nat) : Prop :=
  exists ti tj, nth_error us i = Some ti /\ ui_start ti = get_position line pst /\
                nth_error us j = Some tj /\ ui_end tj = get_position line pen /\
                (Z.to_nat (as_i8 i) <= i)%nat.

Lemma ui_update_cases line us pst pen k :
  ui_update line us pst pen k = Ok us \/
  (exists i j, update_sites line us pst pen i j /\ (Z.to_nat (as_i8 i) <= S j)%nat /\
               ui_update line us pst pen k = Ok (merged line us pst pen k (Z.to_nat (as_i8 i)) j)) \/
  (exists i j, update_sites line us pst pen i j /\ (S j < Z.to_nat (as_i8 i))%nat /\
               ui_update line us pst pen k = Panic 1701).
Proof.
  unfold ui_update, merged.
  destruct (find_index _ us) as [i|] eqn:Ei; [|now left].
  destruct (Z.gtb_spec (as_i8 i) (-1)) as [Hi|Hi]; [|now left].
  destruct (find_index (fun t => N.eqb (ui_end t) _) us) as [j|] eqn:Ej; [|now left].
  apply find_index_some in Ei as [ti [Hti Hsi]]. apply find_index_some in Ej as [tj [Htj Hej]].
  apply N.eqb_eq in Hsi, Hej. pose proof (as_i8_le i ltac:(lia)) as Hle.
  assert (Hs : update_sites line us pst pen i j) by (exists ti, tj; auto).
  right. destruct (Nat.ltb_spec (S j) (Z.to_nat (as_i8 i))).
  - right. exists i, j. auto.
  - left. exists i, j. auto.
Qed.

(* in a chain an element at a smaller index ends before an element at a larger index starts *)
Lemma chain_order n us i j ti tj : Chain n us -> (i < j)%nat ->
  nth_error us i = Some ti -> nth_error us j = Some tj -> ui_end ti <= ui_start tj.
Proof.
  intros [_ Hs] Hij Hi Hj.
  rewrite <- (firstn_skipn j us) in Hs. apply SS_app in Hs as [_ [_ Hc]].
  apply (Hc ti tj).
  - eapply nth_error_in_firstn; eauto.
  - eapply nth_error_in_skipn; [|eauto]. lia.
Qed.

Lemma chain_span n us i ti : Chain n us -> nth_error us i = Some ti -> span_ok n ti.
Proof. intros [Hb _] H. rewrite Forall_forall in Hb. eapply Hb, nth_error_In; eauto. Qed.

(* when the merged span is non-empty the start token is not after the end token: no panic *)
Lemma ui_update_no_panic line us pst pen k n : Chain n us ->
  get_position line pst < get_position line pen ->
  exists us', ui_update line us pst pen k = Ok us'.
Proof.
  intros Hc Hlt.
  destruct (ui_update_cases line us pst pen k) as [H|[[i [j [_ [_ H]]]]|[i [j [Hs [Hgt _]]]]]]; eauto.
  exfalso. destruct Hs as [ti [tj [Hti [Hs [Htj [He Hle]]]]]].
  assert (Hji : (j < i)%nat) by lia.
  pose proof (chain_order n us j i tj ti Hc Hji Htj Hti). lia.
Qed.

(* a merge with a non-empty span keeps the chain: the block a..j is replaced by one token that
   starts where token i >= a starts and ends where token j ends *)
Lemma ui_update_chain line us pst pen k us' :
  Chain (N.of_nat (length line)) us ->
  ui_update line us pst pen k = Ok us' ->
  get_position line pst < get_position line pen \/ us' = us ->
  Chain (N.of_nat (length line)) us'.
Proof.
  intros Hc Hu Hcond.
  destruct Hcond as [Hlt|Heq]; [|rewrite Heq; exact Hc].
  destruct (ui_update_cases line us pst pen k) as [H|[[i [j [Hsites [Hle2 H]]]]|[i [j [_ [_ H]]]]]];
    rewrite H in Hu; [injection Hu as <-; exact Hc| |discriminate].
  injection Hu as <-. unfold merged.
  destruct Hsites as [ti [tj [Hti [Hs [Htj [He Hle]]]]]].
  set (a := Z.to_nat (as_i8 i)) in *.
  set (new := {| ui_start := get_position line pst; ui_end := get_position line pen; ui_kind := k |}).
  destruct Hc as [Hb Hss]. rewrite Forall_forall in Hb.
  assert (Hsplit := split_three us a (S j) Hle2).
  assert (Hss' := Hss). rewrite Hsplit in Hss'.
  apply SS_app in Hss' as [S1 [S23 C1]]. apply SS_app in S23 as [S2 [S3 C2]].
  (* tokens kept in front end before token i starts *)
  assert (F1 : forall x, In x (firstn a us) -> ui_end x <= ui_start new).
  { intros x Hx. unfold new. cbn [ui_start]. rewrite <- Hs.
    assert (Hss2 := Hss). rewrite <- (firstn_skipn a us) in Hss2. apply SS_app in Hss2 as [_ [_ C]].
    apply (C x ti Hx). exact (nth_error_in_skipn us a i ti Hle Hti). }
  (* tokens kept behind start after token j ends *)
  assert (F2 : forall y, In y (skipn (S j) us) -> ui_end new <= ui_start y).
  { intros y Hy. unfold new. cbn [ui_end]. rewrite <- He.
    assert (Hss2 := Hss). rewrite <- (firstn_skipn (S j) us) in Hss2. apply SS_app in Hss2 as [_ [_ C]].
    apply (C tj y); [|exact Hy]. exact (nth_error_in_firstn us (S j) j tj (Nat.lt_succ_diag_r j) Htj). }
  split.
  - apply Forall_app. split; [|constructor].
    + apply Forall_forall. intros x Hx. apply Hb. exact (In_firstn a us x Hx).
    + split; unfold new; cbn [ui_start ui_end]; [exact Hlt|apply get_position_range].
    + apply Forall_forall. intros x Hx. apply Hb. exact (In_skipn (S j) us x Hx).
  - apply SS_app. repeat split; [exact S1| |].
    + apply SS_cons_iff. split; [|exact S3]. apply Forall_forall. exact F2.
    + intros x y Hx [<-|Hy]; [exact (F1 x Hx)|].
      apply C1; [exact Hx|]. apply in_or_app. now right.
Qed.

(* the inserted token is exactly (char of pst, char of pen, k); everything else is untouched *)
Lemma ui_update_shape line us pst pen k us' : ui_update line us pst pen k = Ok us' ->
  us' = us \/
  exists a j, (a <= S j)%nat /\ (S j <= length us)%nat /\ us' = merged line us pst pen k a j.
Proof.
  intro Hu.
  destruct (ui_update_cases line us pst pen k) as [H|[[i [j [Hsites [Hle2 H]]]]|[i [j [_ [_ H]]]]]];
    rewrite H in Hu; [injection Hu as <-; now left| |discriminate].
  injection Hu as <-. right. exists (Z.to_nat (as_i8 i)), j. repeat split; auto.
  destruct Hsites as [ti [tj [_ [_ [Htj _]]]]].
  assert (j < length us)%nat by (apply nth_error_Some; congruence). lia.
Qed.

(* character positions only: whatever byte offsets are passed, no position exceeds the line *)
Definition in_line (n : N) (t : uitoken) : Prop := ui_start t <= n /\ ui_end t <= n.

Lemma ui_update_in_line line us pst pen k us' :
  Forall (in_line (N.of_nat (length line))) us -> ui_update line us pst pen k = Ok us' ->
  Forall (in_line (N.of_nat (length line))) us'.
Proof.
  intros H Hu. destruct (ui_update_shape _ _ _ _ _ _ Hu) as [->|[a [j [_ [_ ->]]]]]; [exact H|].
  rewrite Forall_forall in H. unfold merged.
  apply Forall_app. split; [|constructor].
  - apply Forall_forall. intros x Hx. apply H. exact (In_firstn a us x Hx).
  - split; cbn; apply get_position_range.
  - apply Forall_forall. intros x Hx. apply H. exact (In_skipn (S j) us x Hx).
Qed.

Lemma ui_add_in_line line us st en k :
  Forall (in_line (N.of_nat (length line))) us -> Forall (in_line (N.of_nat (length line))) (ui_add line us st en k).
Proof.
  intro H. destruct (ui_add_cases line us st en k) as [->|[_ [_ ->]]]; [exact H|].
  apply Forall_app. split; [exact H|]. repeat constructor; cbn; apply get_position_range.
Qed.

Lemma inv_in_line n us : Inv n us -> Forall (in_line n) us.
Proof. intros [H _]. eapply Forall_impl; [|exact H]. unfold span_ok, in_line. intros; lia. Qed.

(* exact panic condition *)
Lemma ui_update_panic_iff line us pst pen k site :
  ui_update line us pst pen k = Panic site <->
  site = 1701 /\
  exists i j, find_index (fun t => N.eqb (ui_start t) (get_position line pst)) us = Some i /\
              (as_i8 i > -1)%Z /\
              find_index (fun t => N.eqb (ui_end t) (get_position line pen)) us = Some j /\
              (S j < Z.to_nat (as_i8 i))%nat.
Proof.
  unfold ui_update.
  destruct (find_index _ us) as [i|] eqn:Ei.
  2:{ split; [discriminate|]. intros [_ [i [j [H _]]]]. discriminate. }
  destruct (Z.gtb_spec (as_i8 i) (-1)) as [Hi|Hi].
  2:{ split; [discriminate|]. intros [_ [i' [j [H [H2 _]]]]]. inversion H; subst. lia. }
  destruct (find_index (fun t => N.eqb (ui_end t) _) us) as [j|] eqn:Ej.
  2:{ split; [discriminate|]. intros [_ [i' [j [_ [_ [H _]]]]]]. discriminate. }
  destruct (Nat.ltb_spec (S j) (Z.to_nat (as_i8 i))).
  - split.
    + intro H1; inversion H1; subst. split; [reflexivity|]. exists i, j. repeat split; auto. lia.
    + intros [-> _]. reflexivity.
  - split; [discriminate|]. intros [_ [i' [j' [H1 [_ [H2 H3]]]]]].
    inversion H1; inversion H2; subst. lia.
Qed.

(* ================================================================== *)
(* G. the pipeline: every path through the lexer and the rule stages    *)
(* ================================================================== *)
Local Open Scope Z_scope.

Lemma add_token_ui {F} (st : @Lexer.tstate F) b e ty text st1 ok :
  add_token st b e ty text = (st1, ok) -> ts_ui st1 = ts_ui st.
Proof.
  unfold add_token. destruct (collides _ _ _); intro H; inversion H; reflexivity.
Qed.

Lemma add_token_fst_ui {F} (st : @Lexer.tstate F) b e ty text :
  ts_ui (fst (add_token st b e ty text)) = ts_ui st.
Proof. destruct (add_token st b e ty text) eqn:E. cbn [fst]. eapply add_token_ui; eauto. Qed.

Lemma unfuel_ok {A} (x : res (option A)) a : unfuel x = Ok a -> x = Ok (Some a).
Proof. unfold unfuel. destruct x as [[v|]|]; intro H; inversion H; reflexivity. Qed.

Ltac crunch :=
  repeat match goal with
  | H : Ok (if ?x then _ else _) = Ok _ |- _ => destruct x eqn:?
  | H : Ok _ = Ok _ |- _ => inversion H; subst; clear H
  | H : Panic _ = Ok _ |- _ => discriminate H
  | H : bind ?x _ = Ok _ |- _ => destruct x eqn:?; cbn [bind] in H
  | H : (let '(_, _) := ?x in _) = Ok _ |- _ => destruct x eqn:?
  | H : match ?x with _ => _ end = Ok _ |- _ => destruct x eqn:?
  | H : (if ?x then _ else _) = Ok _ |- _ => destruct x eqn:?
  end.

Section Pipeline.
Context {F : Type} {NF : Num F}.
Variable line : str.
Variable P : list uitoken -> Prop.
Hypothesis P_add : forall us st en k, P us -> P (ui_add line us st en k).

Lemma P_add_opt us m k : P us -> P (ui_add_opt line us m k).
Proof. destruct m as [[a b]|]; cbn [ui_add_opt]; auto. Qed.

Definition PS (st : @Lexer.tstate F) : Prop := P (ts_ui st).

Ltac finish_ps :=
  unfold PS in *; cbn [ts_ui with_ui] in *;
  repeat match goal with
  | H : add_token _ _ _ _ _ = (_, _) |- _ => apply add_token_ui in H; try rewrite H in *
  end;
  try rewrite !add_token_fst_ui;
  repeat match goal with |- context[if ?x then _ else _] => destruct x end;
  repeat match goal with |- context[let (_, _) := ?p in _] => destruct p end;
  cbn [ts_ui with_ui] in *;
  repeat first [assumption | apply P_add | apply P_add_opt].

Definition preserves (body : @parser_body F) : Prop :=
  forall c cp st st', PS st -> body c cp st = Ok st' -> PS st'.

Lemma over_captures_ps body : preserves body ->
  forall c cps st st', PS st -> over_captures body c cps st = Ok st' -> PS st'.
Proof.
  intros Hb c cps. induction cps as [|cp r IH]; intros st st' HP H; cbn [over_captures] in H.
  - now inversion H; subst.
  - destruct (body c cp st) eqn:E; cbn [bind] in H; [|discriminate]. eauto.
Qed.

Lemma over_regexes_ps body data : preserves body ->
  forall rs st st', PS st -> over_regexes body data rs st = Ok st' -> PS st'.
Proof.
  intros Hb rs. induction rs as [|c r IH]; intros st st' HP H; cbn [over_regexes] in H.
  - now inversion H; subst.
  - destruct (over_captures body c (caps_iter c data) st) eqn:E; cbn [bind] in H; [|discriminate].
    eapply IH; [|exact H]. eapply over_captures_ps; eauto.
Qed.

Lemma comment_ps : preserves (comment_body line).
Proof. intros c cp st st' HP H. unfold comment_body in H. crunch; finish_ps. Qed.

Lemma field_ps cfg lang : preserves (field_body cfg lang line).
Proof. intros c cp st st' HP H. unfold field_body in H. crunch; finish_ps. Qed.

Lemma money_ps cfg : preserves (money_body cfg line).
Proof. intros c cp st st' HP H. unfold money_body in H. crunch; finish_ps. Qed.

Lemma percent_ps cfg : preserves (percent_body cfg line).
Proof. intros c cp st st' HP H. unfold percent_body in H. crunch; finish_ps. Qed.

Lemma timezone_ps cfg data : preserves (timezone_body cfg line data).
Proof. intros c cp st st' HP H. unfold timezone_body in H. crunch; finish_ps. Qed.

Lemma time_ps today cfg : preserves (time_body today cfg line).
Proof. intros c cp st st' HP H. unfold time_body in H. crunch; finish_ps. Qed.

Lemma number_ps cfg : preserves (number_body cfg line).
Proof. intros c cp st st' HP H. unfold number_body in H. cbv zeta in H. crunch; finish_ps. Qed.

Lemma text_ps today cfg lang : preserves (text_body today cfg lang line).
Proof.
  intros c cp st st' HP H. unfold text_body in H.
  destruct (need _) as [tsp|]; cbn [bind] in H; [|discriminate].
  destruct (match trim _ with [] => true | _ => false end); [now inversion H; subst|].
  destruct (cap_get cp 0) as [[b e]|]; [|now inversion H; subst].
  cbv zeta in H.
  match type of H with (let '(_, _) := add_token ?S _ _ _ _ in _) = _ =>
    assert (HS : PS S); [|set (S1 := S) in *; clearbody S1] end.
  - match goal with |- PS (match ?o with Some _ => _ | None => _ end) => destruct o end; [|exact HP].
    destruct (add_token st b e _ _) as [st1 ok] eqn:E. apply add_token_ui in E.
    destruct ok; unfold PS; cbn [ts_ui with_ui]; rewrite ?E; auto.
  - destruct (add_token S1 b e _ _) as [st2 ok] eqn:E. apply add_token_ui in E.
    inversion H; subst. destruct ok; unfold PS in *; cbn [ts_ui with_ui]; rewrite ?E; auto.
Qed.

Lemma whitespace_ps : preserves (whitespace_body line).
Proof. intros c cp st st' HP H. unfold whitespace_body in H. crunch; finish_ps. Qed.

Lemma operator_ps : preserves (operator_body line).
Proof. intros c cp st st' HP H. unfold operator_body in H. crunch; finish_ps. Qed.

Lemma atom_ps today cfg rs st st' : PS st -> atom_parser today cfg line rs st = Ok st' -> PS st'.
Proof.
  intros HP H. unfold atom_parser in H. crunch. unfold PS in *.
  match goal with E : get_atom _ _ _ _ = _ |- _ => clear E end.
  revert st HP. induction a as [|[[[b e] t] text] r IH]; intros st HP; cbn [fold_left]; [exact HP|].
  apply IH. now rewrite add_token_fst_ui.
Qed.

Lemma run_parser_ps today cfg lang key rs st st' :
  PS st -> run_parser today cfg lang line key rs st = Ok st' -> PS st'.
Proof.
  intros HP H. unfold run_parser in H.
  repeat match type of H with (if ?x then _ else _) = _ => destruct x end;
    try (eapply over_regexes_ps; [|exact HP|exact H]);
    auto using comment_ps, field_ps, money_ps, percent_ps, timezone_ps, time_ps, number_ps, text_ps,
               whitespace_ps, operator_ps.
  - eapply atom_ps; eauto.
  - now inversion H; subst.
Qed.

Lemma cleanup_ps st : PS st -> PS (cleanup st).
Proof. auto. Qed.

Lemma regex_tokinizer_ps lx today cfg lang st st' :
  PS st -> regex_tokinizer lx today cfg lang line st = Ok st' -> PS st'.
Proof.
  intros HP H. unfold regex_tokinizer in H.
  match type of H with bind ?x _ = _ => destruct x as [st1|] eqn:E end; cbn [bind] in H; [|discriminate].
  inversion H; subst. apply cleanup_ps. clear H.
  revert st HP E. generalize RustConsts.PARSER_ORDER as keys.
  induction keys as [|k r IH]; intros st HP E.
  - now inversion E; subst.
  - destruct (assoc k (lx_parse lx)) as [regexes|] eqn:Ea.
    + destruct (run_parser today cfg lang line k regexes st) as [st2|] eqn:Er; cbn [bind] in E; [|discriminate].
      eapply IH; [|exact E]. eapply run_parser_ps; eauto.
    + eapply IH; eauto.
Qed.

Lemma month_parser_ps lx cfg lang st st' :
  PS st -> month_parser lx cfg lang line st = Ok st' -> PS st'.
Proof.
  intros HP H. unfold month_parser in H.
  destruct (assoc lang (lx_months lx)) as [months|]; [|now inversion H; subst].
  revert st HP H. induction months as [|[c mi] r IH]; intros st HP H.
  - now inversion H; subst.
  - match type of H with bind ?x _ = _ => destruct x as [st2|] eqn:E end; cbn [bind] in H; [|discriminate].
    eapply IH; [|exact H].
    eapply over_captures_ps; [|exact HP|exact E].
    intros c0 cp0 s0 s0' HP0 H0. crunch; finish_ps.
Qed.

Lemma language_tokinizer_ps lx cfg lang st st' :
  PS st -> language_tokinizer lx cfg lang line st = Ok st' -> PS st'.
Proof.
  intros HP H. unfold language_tokinizer in H. crunch. apply cleanup_ps. eapply month_parser_ps; eauto.
Qed.

Lemma alias_tokinizer_ps lx today cfg lang st st' :
  PS st -> alias_tokinizer lx today cfg lang st = Ok st' -> PS st'.
Proof. intros HP H. unfold alias_tokinizer in H. crunch; exact HP. Qed.

(* the whole lexer, from the empty collection *)
Lemma lexer_ps lx today cfg lang st1 st2 st3 : P [] ->
  language_tokinizer lx cfg lang line empty_state = Ok st1 ->
  regex_tokinizer lx today cfg lang line st1 = Ok st2 ->
  alias_tokinizer lx today cfg lang st2 = Ok st3 ->
  PS st3.
Proof.
  intros H0 H1 H2 H3.
  eapply alias_tokinizer_ps; [|exact H3]. eapply regex_tokinizer_ps; [|exact H2].
  eapply language_tokinizer_ps; [|exact H1]. exact H0.
Qed.

(* ---- the stages that rewrite the collection ---- *)
Hypothesis P_sort : forall us, P us -> P (ui_sort us).
Hypothesis P_update : forall us pst pen k us', P us -> ui_update line us pst pen k = Ok us' -> P us'.

Lemma subst_loop_ps vs : forall fuel start st st',
  PS st -> subst_loop fuel line vs start st = Ok (Some st') -> PS st'.
Proof.
  induction fuel as [|f IH]; intros start st st' HP H; cbn [subst_loop] in H; [discriminate|].
  destruct (pick_variable vs (skipn start (ts_infos st)) None) as [best|] eqn:Eb; cbn [bind] in H; [|discriminate].
  destruct best as [[[closest name] size]|]; [|now inversion H; subst].
  destruct (nth_opt (ts_infos st) (start + closest)) as [first|]; [|discriminate].
  destruct (nth_opt (ts_infos st) _) as [last|]; [|discriminate].
  destruct (Nat.ltb _ _); [discriminate|].
  destruct (ui_update line (ts_ui st) (ti_start first) (ti_end last) UVariableUse) as [ui'|] eqn:Eu;
    cbn [bind] in H; [|discriminate].
  eapply IH; [|exact H]. unfold PS. cbn [ts_ui]. eapply P_update; eauto.
Qed.

Lemma update_token_variables_ps vs st st' :
  PS st -> update_token_variables line vs st = Ok (Some st') -> PS st'.
Proof.
  intros HP H. unfold update_token_variables in H.
  match type of H with bind ?x _ = _ => destruct x as [[si ui1]|] eqn:E end; cbn [bind] in H; [|discriminate].
  eapply subst_loop_ps; [|exact H]. unfold PS. cbn [ts_ui].
  crunch; try (apply P_sort; exact HP).
  eapply P_update; [|eassumption]. apply P_sort. exact HP.
Qed.

Lemma ui_type_field_p ui (fs : fields F) ui' : P ui -> ui_type_field line ui fs = Ok ui' -> P ui'.
Proof. intros HP H. unfold ui_type_field in H. crunch; eauto. Qed.

Lemma api_ui_fields_p : forall (fs : fields F) ui ui', P ui -> api_ui_fields line ui fs = Ok ui' -> P ui'.
Proof.
  induction fs as [|[n t] r IH]; intros ui ui' HP H; cbn [api_ui_fields] in H.
  - now inversion H; subst.
  - destruct (ui_update line ui _ _ _) eqn:E; cbn [bind] in H; [|discriminate]. eauto.
Qed.

Lemma dyn_try_patterns_ps vs d : forall pats st st',
  PS st -> dyn_try_patterns line vs d pats st = Ok (Some st') -> PS st'.
Proof.
  induction pats as [|pat r IH]; intros st st' HP H; cbn [dyn_try_patterns] in H; [discriminate|].
  destruct (find_match vs pat (ts_infos st)) as [m|]; cbn [bind] in H; [|discriminate].
  destruct (Nat.eqb _ _); [|eauto].
  destruct (get_number vs (s "value") (fm_fields m)); [|eauto].
  crunch. unfold PS. cbn [ts_ui]. eapply ui_type_field_p; eauto.
Qed.

Lemma dyn_sweep_units_ps vs : forall units st fired st' fired',
  PS st -> dyn_sweep_units line vs units st fired = Ok (st', fired') -> PS st'.
Proof.
  induction units as [|d r IH]; intros st fired st' fired' HP H; cbn [dyn_sweep_units] in H.
  - now inversion H; subst.
  - destruct (dyn_try_patterns line vs d (dt_parse d) st) as [[st1|]|] eqn:E; cbn [bind] in H; [| |discriminate].
    + eapply IH; [|exact H]. eapply dyn_try_patterns_ps; eauto.
    + eauto.
Qed.

Lemma dyn_loop_ps cfg vs : forall fuel st st',
  PS st -> dyn_loop fuel line cfg vs st = Ok (Some st') -> PS st'.
Proof.
  induction fuel as [|f IH]; intros st st' HP H; cbn [dyn_loop] in H; [discriminate|].
  destruct (dyn_sweep_units line vs (all_units cfg) st false) as [[st1 fired]|] eqn:E; cbn [bind] in H; [|discriminate].
  apply dyn_sweep_units_ps in E; [|exact HP].
  destruct fired; [eauto|now inversion H; subst].
Qed.

Lemma rule_try_patterns_ps bexec ny cfg lang vs r : forall pats st st',
  PS st -> rule_try_patterns bexec ny line cfg lang vs r pats st = Ok (Some st') -> PS st'.
Proof.
  induction pats as [|pat rest IH]; intros st st' HP H; cbn [rule_try_patterns] in H; [discriminate|].
  destruct (find_match vs pat (ts_infos st)) as [m|]; cbn [bind] in H; [|discriminate].
  destruct (Nat.eqb _ _); [|eauto].
  destruct r as [fname ps|ps ar].
  - destruct (call_rule _ _ _ _ _ _ _) as [[tok|]|]; cbn [bind] in H; [| |discriminate]; [|eauto].
    crunch. unfold PS. cbn [ts_ui]. eapply ui_type_field_p; eauto.
  - destruct (api_call cfg ar (fm_fields m)) as [tok|]; [|eauto].
    crunch. unfold PS. cbn [ts_ui]. eapply api_ui_fields_p; eauto.
Qed.

Lemma rule_sweep_ps bexec ny cfg lang vs : forall rules st fired st' fired',
  PS st -> rule_sweep bexec ny line cfg lang vs rules st fired = Ok (st', fired') -> PS st'.
Proof.
  induction rules as [|r rest IH]; intros st fired st' fired' HP H; cbn [rule_sweep] in H.
  - now inversion H; subst.
  - destruct (rule_try_patterns _ _ _ _ _ _ _ _ _) as [[st1|]|] eqn:E; cbn [bind] in H; [| |discriminate].
    + eapply IH; [|exact H]. eapply rule_try_patterns_ps; eauto.
    + eauto.
Qed.

Lemma rule_loop_ps bexec ny cfg lang vs rules : forall fuel st st',
  PS st -> rule_loop bexec ny fuel line cfg lang vs rules st = Ok (Some st') -> PS st'.
Proof.
  induction fuel as [|f IH]; intros st st' HP H; cbn [rule_loop] in H; [discriminate|].
  destruct (rule_sweep _ _ _ _ _ _ _ _ _) as [[st1 fired]|] eqn:E; cbn [bind] in H; [|discriminate].
  apply rule_sweep_ps in E; [|exact HP].
  destruct fired; [eauto|now inversion H; subst].
Qed.

Lemma rule_tokinizer_ps bexec ny fuel cfg lang vs st st' :
  PS st -> rule_tokinizer bexec ny fuel line cfg lang vs st = Ok (Some st') -> PS st'.
Proof.
  intros HP H. unfold rule_tokinizer in H. destruct (lang_rules cfg lang).
  - eapply rule_loop_ps; eauto.
  - now inversion H; subst.
Qed.

End Pipeline.

(* ================================================================== *)
(* H. statements about the model's entry points                         *)
(* ================================================================== *)
Local Open Scope N_scope.

Section Top.
Context {F : Type} {NF : Num F}.

(* every line, every configuration and language: what the lexer passes (month parser, the
   eleven regex parsers, aliases) leave in the collection satisfies the invariant *)
Theorem lexer_inv (lx : lexdata) today (cfg : config F) lang line st1 st2 st3 :
  language_tokinizer lx cfg lang line empty_state = Ok st1 ->
  regex_tokinizer lx today cfg lang line st1 = Ok st2 ->
  alias_tokinizer lx today cfg lang st2 = Ok st3 ->
  Inv (N.of_nat (length line)) (ts_ui st3).
Proof.
  intros H1 H2 H3.
  exact (lexer_ps line (Inv (N.of_nat (length line))) (ui_add_inv line)
                  lx today cfg lang st1 st2 st3 (inv_nil _) H1 H2 H3).
Qed.

(* ... and the sort that update_token_variables starts with makes it well-formed *)
Theorem lexer_sorted_wf (lx : lexdata) today (cfg : config F) lang line st1 st2 st3 :
  language_tokinizer lx cfg lang line empty_state = Ok st1 ->
  regex_tokinizer lx today cfg lang line st1 = Ok st2 ->
  alias_tokinizer lx today cfg lang st2 = Ok st3 ->
  WF line (ui_sort (ts_ui st3)) /\ Chain (N.of_nat (length line)) (ui_sort (ts_ui st3)).
Proof.
  intros H1 H2 H3. pose proof (lexer_inv lx today cfg lang line st1 st2 st3 H1 H2 H3) as HI.
  assert (HC : Chain (N.of_nat (length line)) (ui_sort (ts_ui st3))).
  { apply chain_of_sorted_inv; [now apply ui_sort_inv|apply ui_sort_sorted]. }
  split; [now apply chain_wf|exact HC].
Qed.

Lemma in_line_sort n us : Forall (in_line n) us -> Forall (in_line n) (ui_sort us).
Proof. intro H. eapply Permutation_Forall; [symmetry; apply ui_sort_perm|exact H]. Qed.

(* the complete tokenizer incl. variables, units and rules: all positions are character
   positions of the line, whatever byte offsets the later stages pass to update_tokens *)
Theorem tokinize_in_line (lx : lexdata) ck (cfg : config F) lang vs line st toks :
  tokinize lx ck cfg lang vs line = Ok (st, toks) ->
  Forall (in_line (N.of_nat (length line))) (ts_ui st).
Proof.
  intro H. unfold tokinize in H.
  set (n := N.of_nat (length line)).
  destruct (language_tokinizer lx cfg lang line empty_state) as [st1|] eqn:E1; cbn [bind] in H; [|discriminate].
  destruct (regex_tokinizer lx (ck_today ck) cfg lang line st1) as [st2|] eqn:E2; cbn [bind] in H; [|discriminate].
  destruct (alias_tokinizer lx (ck_today ck) cfg lang st2) as [st3|] eqn:E3; cbn [bind] in H; [|discriminate].
  destruct (unfuel (update_token_variables line vs st3)) as [st4|] eqn:E4; cbn [bind] in H; [|discriminate].
  destruct (unfuel (dyn_loop (loop_fuel st4) line cfg vs st4)) as [st5|] eqn:E5; cbn [bind] in H; [|discriminate].
  destruct (unfuel (rule_tokinizer _ _ _ line cfg lang vs st5)) as [st6|] eqn:E6; cbn [bind] in H; [|discriminate].
  inversion H; subst. apply unfuel_ok in E4, E5, E6.
  pose (P := Forall (in_line n)).
  assert (Padd : forall us a b k, P us -> P (ui_add line us a b k)) by (intros; now apply ui_add_in_line).
  assert (Psort : forall us, P us -> P (ui_sort us)) by (intros; now apply in_line_sort).
  assert (Pupd : forall us a b k us', P us -> ui_update line us a b k = Ok us' -> P us')
    by (intros; eapply ui_update_in_line; eauto).
  assert (P3 : PS P st3).
  { eapply (lexer_ps line P Padd); eauto. constructor. }
  assert (P4 : PS P st4) by (eapply (update_token_variables_ps line P Psort Pupd); eauto).
  assert (P5 : PS P st5) by (eapply (dyn_loop_ps line P Pupd); eauto).
  eapply (rule_tokinizer_ps line P Pupd); eauto.
Qed.

Theorem execute_text_in_line (lx : lexdata) ck (cfg : config F) lang vs line lo vs' :
  execute_text lx ck cfg lang vs line = Ok (Some lo, vs') ->
  Forall (in_line (N.of_nat (length line))) (lo_ui lo).
Proof.
  intro H. unfold execute_text in H. destruct line as [|c0 rest]; [inversion H|].
  set (line := c0 :: rest) in *.
  destruct (tokinize lx ck cfg lang vs line) as [[st toks]|] eqn:Et; cbn [bind] in H; [|discriminate].
  apply tokinize_in_line in Et.
  destruct (ts_infos st); [inversion H|].
  repeat match type of H with
  | Ok _ = Ok _ => inversion H; subst; exact Et
  | Panic _ = Ok _ => discriminate H
  | bind ?x _ = Ok _ => destruct x eqn:?; cbn [bind] in H
  | (let '(_, _) := ?x in _) = Ok _ => destruct x eqn:?
  | match ?x with _ => _ end = Ok _ => destruct x eqn:?
  end.
Qed.

End Top.

(* ================================================================== *)
(* I. the i8 index, the degenerate merge, and concrete runs             *)
(* ================================================================== *)
(* `index as i8`: a start token at index 128..255 is never merged (the list is returned as is) *)
Lemma ui_update_i8_skip line us pst pen k i :
  find_index (fun t => N.eqb (ui_start t) (get_position line pst)) us = Some i ->
  (128 <= i < 256)%nat -> ui_update line us pst pen k = Ok us.
Proof.
  intros Hf Hi. unfold ui_update. rewrite Hf.
  assert (E : as_i8 i = (Z.of_nat i - 256)%Z).
  { unfold as_i8. rewrite Z.mod_small by lia. destruct (Z.ltb_spec (Z.of_nat i) 128); lia. }
  rewrite E. destruct (Z.gtb_spec (Z.of_nat i - 256) (-1)); [lia|reflexivity].
Qed.

(* ... and from index 256 on it wraps: the block starts at i mod 256 *)
Lemma as_i8_wrap i : (256 <= i < 384)%nat -> as_i8 i = (Z.of_nat i - 256)%Z.
Proof.
  intro Hi. unfold as_i8.
  assert (E : (Z.of_nat i mod 256 = Z.of_nat i - 256)%Z).
  { symmetry. apply Z.mod_unique with (q := 1%Z); lia. }
  rewrite E. destruct (Z.ltb_spec (Z.of_nat i - 256) 128); lia.
Qed.

Definition tk (a b : N) (k : uikind) : uitoken := {| ui_start := a; ui_end := b; ui_kind := k |}.

(* the function itself (outside the condition of ui_update_chain): with an empty or inverted
   character span the merge inserts a malformed token, or the drain panics *)
Lemma ui_update_degenerate_examples :
  let line := s "ab cd" in
  (* start = 3 > end = 2 : token (3,2) is inserted between the two *)
  ui_update line [tk 0 2 UText; tk 3 5 UText] 3 2 UVariableUse
    = Ok [tk 0 2 UText; tk 3 2 UVariableUse; tk 3 5 UText] /\
  (* start = end = 2 on touching tokens: an empty token is inserted *)
  ui_update line [tk 0 2 UText; tk 2 5 UText] 2 2 UVariableUse
    = Ok [tk 0 2 UText; tk 2 2 UVariableUse; tk 2 5 UText] /\
  (* start token two places after the end token: drain(2..1) panics *)
  ui_update line [tk 0 1 UText; tk 1 2 UText; tk 2 3 UText] 2 1 UVariableUse = Panic 1701.
Proof. cbv zeta. repeat split; vm_compute; reflexivity. Qed.

(* ---- the real model at binary64: Api.execute with the regenerated configuration ---- *)
Definition ui_of_line (lang text : str) : option (list uitoken) :=
  match exec64 CK0 default_config lang text with
  | Ok r => match er_lines r with
            | [Some lo] => Some (lo_ui lo)
            | _ => None end
  | Panic _ => None
  end.

(* "ğüş 1 + 2 # ööö"  (15 characters, 21 bytes) *)
Definition line_tr1 : str := [287;252;351;32;49;32;43;32;50;32;35;32;246;246;246]%N.
(* "şu 15 ağustos 2021"  evaluated as Turkish *)
Definition line_tr2 : str := [351;117;32;49;53;32;97;287;117;115;116;111;115;32;50;48;50;49]%N.
(* "x = 15 ağustos"  (a variable definition: sort + update_tokens) *)
Definition line_tr3 : str := [120;32;61;32;49;53;32;97;287;117;115;116;111;115]%N.

Lemma real_examples :
  ui_of_line (s "en") line_tr1
    = Some [tk 0 3 UText; tk 4 5 UNumber; tk 6 7 UOperator; tk 8 9 UNumber; tk 10 15 UComment] /\
  ui_of_line (s "tr") line_tr2
    = Some [tk 0 2 UText; tk 3 5 UNumber; tk 6 13 UMonth; tk 14 18 UNumber] /\
  ui_of_line (s "tr") line_tr3
    = Some [tk 0 1 UVariableDefination; tk 2 3 UOperator; tk 4 6 UNumber; tk 7 14 UMonth] /\
  (byte_length line_tr1 = 21 /\ length line_tr1 = 15%nat) /\
  span_text line_tr1 (tk 4 5 UNumber) = s "1" /\ span_text line_tr1 (tk 6 7 UOperator) = s "+" /\
  span_text line_tr1 (tk 10 15 UComment) = [35;32;246;246;246]%N /\
  span_text line_tr2 (tk 6 13 UMonth) = [97;287;117;115;116;111;115]%N.
Proof. repeat split; vm_compute; reflexivity. Qed.

Lemma real_examples_wf :
  (forall us, ui_of_line (s "en") line_tr1 = Some us -> WF line_tr1 us) /\
  (forall us, ui_of_line (s "tr") line_tr2 = Some us -> WF line_tr2 us) /\
  (forall us, ui_of_line (s "tr") line_tr3 = Some us -> WF line_tr3 us).
Proof.
  destruct real_examples as [E1 [E2 [E3 _]]].
  split; [|split]; intros us H; [rewrite E1 in H|rewrite E2 in H|rewrite E3 in H];
    inversion H; subst; apply wf_b_sound; vm_compute; reflexivity.
Qed.

(* ---- the remaining defect: matches found on a case-mapped copy of the line ---- *)
(* "ıııı est 12:30": the zone is found in "IIII EST 12:30" (ı is 2 bytes, I is 1), its byte
   offsets 5..8 are then read against the original line *)
Definition line_cm1 : str := [305;305;305;305;32;101;115;116;32;49;50;58;51;48]%N.
(* "İİİ 5 march 2020": the month is found in the lower-cased copy (İ is 2 bytes, i̇ is 3) *)
Definition line_cm2 : str := [304;304;304;32;53;32;109;97;114;99;104;32;50;48;50;48]%N.

(* the spans are well-formed but they are not the characters of the token *)
Lemma casemap_misplaced :
  ui_of_line (s "en") line_cm1 = Some [tk 2 4 USymbol1; tk 5 8 UText; tk 9 14 UDateTime] /\
  span_text line_cm1 (tk 2 4 USymbol1) = [305;305]%N /\        (* "ıı", the zone word is at 5..8 *)
  span_text line_cm1 (tk 5 8 UText) = s "est" /\
  ui_of_line (s "en") line_cm2 = Some [tk 0 3 UText; tk 4 5 UNumber; tk 9 14 UMonth] /\
  span_text line_cm2 (tk 9 14 UMonth) = s "ch 20" /\          (* the month word is at 6..11 *)
  firstn 5 (skipn 6 line_cm2) = s "march".
Proof. repeat split; vm_compute; reflexivity. Qed.

(* ---- the same root cause breaks well-formedness: an EMPTY span after update_tokens ---- *)
(* line 1 "est = 5" defines a variable named by the zone token; line 2 is
   "ıııııKKK7𠀀 est may" (K = U+212A KELVIN SIGN, 𠀀 = U+20000, 4 bytes).  In the upper-cased copy
   EST sits at bytes 20..23, in the lower-cased copy `may` at 23..26; in the line itself bytes
   20..23 all belong to 𠀀 (character 9).  The Month highlight therefore starts at character 9, the
   number 7 ends there, and the variable's update_tokens(20, 23) has start = end = 9: the start token
   (index 2) is one past the end token (index 1), drain(2..2) removes nothing and (9,9) is inserted. *)
Definition ui_of_text (lang text : str) : option (list (list uitoken)) :=
  match exec64 CK0 default_config lang text with
  | Ok r => Some (map (fun o => match o with Some lo => lo_ui lo | None => [] end) (er_lines r))
  | Panic _ => None
  end.

Definition line_em : str :=
  [305; 305; 305; 305; 305; 8490; 8490; 8490; 55; 131072; 32; 101; 115; 116; 32; 109; 97; 121]%N.

Lemma pipeline_empty_span :
  ui_of_text (s "en") (s "est = 5" ++ [10%N] ++ line_em)
    = Some [[tk 0 3 UVariableDefination; tk 4 5 UOperator; tk 6 7 UNumber];
            [tk 0 8 UText; tk 8 9 UNumber; tk 9 9 UVariableUse; tk 9 12 UMonth; tk 15 18 UText]] /\
  ~ WF line_em [tk 0 8 UText; tk 8 9 UNumber; tk 9 9 UVariableUse; tk 9 12 UMonth; tk 15 18 UText] /\
  get_position line_em 20 = 9 /\ get_position line_em 23 = 9.
Proof.
  split; [vm_compute; reflexivity|]. split; [|split; vm_compute; reflexivity].
  intros [H _]. rewrite Forall_forall in H.
  assert (Hin : In (tk 9 9 UVariableUse) [tk 0 8 UText; tk 8 9 UNumber; tk 9 9 UVariableUse; tk 9 12 UMonth; tk 15 18 UText])
    by (cbn; auto).
  apply H in Hin. destruct Hin as [Hlt _]. cbn in Hlt. lia.
Qed.
