(* Proofs for property C10 (durations).

   1. units_ok            the unit lengths scraped from the Rust source are the statement's
   2. parse_*             'N unit' is N times the unit length (months: 12 months = 1 year)
   3. greedy_*            the printed parts are the greedy decomposition of the magnitude
   4. as_floor            'D as unit' rounds the magnitude down to whole units
   5. additive_*          + and juxtaposition add, - subtracts
   6. singular_plural_*   the word printed after a count (tables of config.json) *)
From SC.Model Require Import Base Num Types Config Case Chrono Parser RuleFns Items Format.
From SC.Spec Require Import Duration.
From SC.Gen Require Import RustConsts ConfigData.
From Coq Require Import ZArith Lia.

Ltac Zify.zify_post_hook ::= Z.to_euclidean_division_equations.

(* ------------------------------------------------------------------------------------- *)
(* 1. unit lengths                                                                        *)
(* ------------------------------------------------------------------------------------- *)
Theorem units_ok :
  (MINUTE = SEC_MINUTE /\ HOUR = SEC_HOUR /\ DAY = SEC_DAY /\ WEEK = SEC_WEEK /\
   MONTH = SEC_MONTH /\ YEAR = SEC_YEAR) /\
  (forall k, dur_unit k = unit_len k).
Proof.
  split.
  - vm_compute. repeat split; reflexivity.
  - intro k. destruct k; vm_compute; reflexivity.
Qed.

Lemma dur_unit_len k : dur_unit k = unit_len k.
Proof. apply units_ok. Qed.

Lemma unit_len_pos k : 0 < unit_len k.
Proof. destruct k; vm_compute; reflexivity. Qed.

(* ------------------------------------------------------------------------------------- *)
(* 2. N units                                                                             *)
(* ------------------------------------------------------------------------------------- *)
Definition in_range (secs : Z) : Prop := - DUR_MAX <= secs <= DUR_MAX.

Lemma DUR_MAX_val : DUR_MAX = 9223372036854775. Proof. reflexivity. Qed.

Lemma dur_ok_spec secs : reflect (in_range secs) (dur_ok secs).
Proof.
  unfold in_range, dur_ok.
  destruct (Z.leb_spec0 (- DUR_MAX) secs) as [Ha|Ha]; destruct (Z.leb_spec0 secs DUR_MAX) as [Hb|Hb];
    cbn [andb]; constructor; lia.
Qed.

Lemma dur_ok_iff secs : dur_ok secs = true <-> in_range secs.
Proof. destruct (dur_ok_spec secs) as [H|H]; split; intro H0; try assumption; try reflexivity; try discriminate; contradiction. Qed.

Lemma i64_ok_spec z : reflect (- 9223372036854775808 <= z < 9223372036854775808) (i64_ok z).
Proof.
  unfold i64_ok. change (- 2 ^ 63) with (-9223372036854775808). change (2 ^ 63) with 9223372036854775808.
  destruct (Z.leb_spec0 (- 9223372036854775808) z) as [Ha|Ha];
    destruct (Z.ltb_spec0 z 9223372036854775808) as [Hb|Hb]; cbn [andb]; constructor; lia.
Qed.

Lemma try_dur_some secs : in_range secs -> try_dur secs = Some secs.
Proof. intro H. unfold try_dur. destruct (dur_ok_spec secs) as [_|Hn]; [reflexivity | contradiction]. Qed.

(* the unit a constant word denotes; today/tomorrow/yesterday/now are not duration units *)
Definition const_kind (c : consttype) : option durkind :=
  match c with
  | CSecond => Some DSecond | CMinute => Some DMinute | CHour => Some DHour | CDay => Some DDay
  | CWeek => Some DWeek | CMonth => Some DMonth | CYear => Some DYear
  | CToday | CTomorrow | CYesterday | CNow => None
  end.

(* N months: whole years of 365 days plus the remaining months of 30 days; Rust's `/` and `%`
   truncate toward zero *)
Definition months_secs (n : Z) : Z :=
  Z.quot n 12 * unit_len DYear + Z.rem n 12 * unit_len DMonth.

(* the mathematical value of 'N unit' *)
Definition dur_math (c : consttype) (n : Z) : option Z :=
  match const_kind c with
  | Some DMonth => Some (months_secs n)
  | Some k => Some (n * unit_len k)
  | None => None
  end.

Ltac range_cases :=
  repeat match goal with
  | |- context [dur_ok ?x] => destruct (dur_ok_spec x)
  | |- context [i64_ok ?x] => destruct (i64_ok_spec x)
  end.

(* exact characterisation: the model returns the mathematical value when it fits a
   chrono::Duration and None otherwise (the intermediate i64 checks never fail first) *)
Theorem parse_exact c n :
  duration_of_const c n =
  match dur_math c n with
  | Some secs => if dur_ok secs then Some secs else None
  | None => None
  end.
Proof.
  unfold dur_math, months_secs.
  destruct c; cbn [const_kind duration_of_const];
    unfold try_days, try_dur, chk_i64, unit_len, SEC_YEAR, SEC_MONTH, SEC_WEEK, SEC_DAY, SEC_HOUR, SEC_MINUTE.
  - (* day *)
    replace (365 * Z.quot n 365 + 30 * Z.quot (Z.rem n 365) 30 + Z.rem (Z.rem n 365) 30) with n
      by (pose proof (Z.quot_rem' n 365); pose proof (Z.quot_rem' (Z.rem n 365) 30); lia).
    reflexivity.
  - (* week *)
    replace (7 * 86400) with 604800 by reflexivity. reflexivity.
  - (* month *)
    assert (Hrem : -12 < Z.rem n 12 < 12) by lia.
    revert Hrem. generalize (Z.rem n 12) as m. generalize (Z.quot n 12) as y.
    intros y m Hm.
    destruct (i64_ok_spec (y * 365)) as [H1|H1]; cbn [option_bind].
    + destruct (i64_ok_spec (y * 365 + 30 * m)) as [H2|H2]; cbn [option_bind].
      * replace ((y * 365 + 30 * m) * 86400) with (y * (365 * 86400) + m * (30 * 86400)) by lia.
        reflexivity.
      * destruct (dur_ok_spec (y * (365 * 86400) + m * (30 * 86400))) as [H3|H3]; [|reflexivity].
        exfalso. unfold in_range in H3. rewrite DUR_MAX_val in H3. lia.
    + destruct (dur_ok_spec (y * (365 * 86400) + m * (30 * 86400))) as [H3|H3]; [|reflexivity].
      exfalso. unfold in_range in H3. rewrite DUR_MAX_val in H3. lia.
  - (* year *)
    destruct (i64_ok_spec (n * 365)) as [H1|H1]; cbn [option_bind].
    + replace (n * 365 * 86400) with (n * (365 * 86400)) by lia. reflexivity.
    + destruct (dur_ok_spec (n * (365 * 86400))) as [H3|H3]; [|reflexivity].
      exfalso. unfold in_range in H3. rewrite DUR_MAX_val in H3. lia.
  - (* second *)
    replace (n * 1) with n by lia. reflexivity.
  - (* minute *) reflexivity.
  - (* hour *) reflexivity.
  - reflexivity.
  - reflexivity.
  - reflexivity.
  - reflexivity.
Qed.

(* second, minute, hour, day, week, year: N times the unit length *)
Theorem parse_units c k n :
  const_kind c = Some k -> k <> DMonth -> in_range (n * unit_len k) ->
  duration_of_const c n = Some (n * unit_len k).
Proof.
  intros Hk Hm Hr. rewrite parse_exact. unfold dur_math. rewrite Hk.
  destruct k; try (exfalso; apply Hm; reflexivity);
    match goal with |- context [dur_ok ?x] => destruct (dur_ok_spec x) as [_|Hn]; [reflexivity | contradiction] end.
Qed.

Theorem parse_simple n :
  (in_range n -> duration_of_const CSecond n = Some n) /\
  (in_range (n * unit_len DMinute) -> duration_of_const CMinute n = Some (n * unit_len DMinute)) /\
  (in_range (n * unit_len DHour) -> duration_of_const CHour n = Some (n * unit_len DHour)) /\
  (in_range (n * unit_len DWeek) -> duration_of_const CWeek n = Some (n * unit_len DWeek)).
Proof.
  repeat split; intro H.
  - rewrite (parse_units CSecond DSecond n); [f_equal; unfold unit_len; lia | reflexivity | discriminate |].
    unfold unit_len. replace (n * 1) with n by lia. exact H.
  - apply parse_units; [reflexivity | discriminate | exact H].
  - apply parse_units; [reflexivity | discriminate | exact H].
  - apply parse_units; [reflexivity | discriminate | exact H].
Qed.

(* day: the year/month/day split of the Rust code re-adds to N, also for negative N *)
Theorem parse_day n : in_range (n * unit_len DDay) -> duration_of_const CDay n = Some (n * unit_len DDay).
Proof. apply parse_units; [reflexivity | discriminate]. Qed.

(* year: 365 days *)
Theorem parse_year n : in_range (n * unit_len DYear) -> duration_of_const CYear n = Some (n * unit_len DYear).
Proof. apply parse_units; [reflexivity | discriminate]. Qed.

(* month, any sign: truncating quotient and remainder by 12 *)
Theorem parse_month_quot n :
  in_range (months_secs n) -> duration_of_const CMonth n = Some (months_secs n).
Proof.
  intro H. rewrite parse_exact. unfold dur_math. cbn [const_kind].
  destruct (dur_ok_spec (months_secs n)) as [_|Hn]; [reflexivity | contradiction].
Qed.

Lemma months_secs_nonneg n : 0 <= n ->
  months_secs n = (n / 12) * unit_len DYear + (n mod 12) * unit_len DMonth.
Proof. intro H. unfold months_secs. rewrite Z.quot_div_nonneg, Z.rem_mod_nonneg by lia. reflexivity. Qed.

Lemma months_secs_opp n : months_secs (- n) = - months_secs n.
Proof. unfold months_secs. rewrite Z.quot_opp_l, Z.rem_opp_l by lia. lia. Qed.

(* month: twelve months make one year (365 days), the remaining months have 30 days *)
Theorem parse_month n : 0 <= n -> in_range (n * 31 * 86400) ->
  duration_of_const CMonth n = Some ((n / 12) * unit_len DYear + (n mod 12) * unit_len DMonth).
Proof.
  intros Hn H. rewrite <- months_secs_nonneg by exact Hn. apply parse_month_quot.
  rewrite months_secs_nonneg by exact Hn.
  unfold in_range in *. rewrite DUR_MAX_val in *. unfold unit_len, SEC_YEAR, SEC_MONTH. lia.
Qed.

(* negative month counts mirror the positive ones: -N months = -(N months) *)
Theorem parse_month_neg n :
  duration_of_const CMonth (- n) = option_map Z.opp (duration_of_const CMonth n).
Proof.
  rewrite !parse_exact. unfold dur_math. cbn [const_kind]. rewrite months_secs_opp.
  destruct (dur_ok_spec (months_secs n)) as [H1|H1]; destruct (dur_ok_spec (- months_secs n)) as [H2|H2];
    cbn [option_map]; try reflexivity; exfalso; unfold in_range in *; lia.
Qed.

Theorem parse_month_nonpos n : n <= 0 -> in_range (n * 31 * 86400) ->
  duration_of_const CMonth n = Some (- (((- n) / 12) * unit_len DYear + ((- n) mod 12) * unit_len DMonth)).
Proof.
  intros Hn H. replace n with (- - n) at 1 by lia. rewrite parse_month_neg.
  rewrite parse_month; [reflexivity | lia |]. unfold in_range in *. lia.
Qed.

(* a result is always a valid chrono::Duration; None exactly when the value is out of range *)
Theorem parse_in_range c n secs : duration_of_const c n = Some secs -> dur_ok secs = true.
Proof.
  rewrite parse_exact. destruct (dur_math c n) as [m|]; [|discriminate].
  destruct (dur_ok m) eqn:E; [|discriminate]. intro H. injection H as <-. exact E.
Qed.

Theorem parse_none_iff c n :
  duration_of_const c n = None <->
  match dur_math c n with Some secs => ~ in_range secs | None => True end.
Proof.
  rewrite parse_exact. destruct (dur_math c n) as [m|]; [|tauto].
  destruct (dur_ok_spec m) as [H|H]; split; intro H0; try discriminate; try reflexivity; tauto.
Qed.

(* ------------------------------------------------------------------------------------- *)
(* 3. greedy printing                                                                     *)
(* ------------------------------------------------------------------------------------- *)
Definition chain := [DYear; DMonth; DWeek; DDay; DHour; DMinute].

Lemma dur_unit_pos k : 0 < dur_unit k.
Proof. rewrite dur_unit_len. apply unit_len_pos. Qed.

Lemma dur_parts_from_sum ks d :
  0 <= d ->
  parts_sum (fst (dur_parts_from ks d)) + snd (dur_parts_from ks d) = d /\
  0 <= snd (dur_parts_from ks d).
Proof.
  revert d. induction ks as [|k ks IH]; intros d Hd; cbn [dur_parts_from].
  - cbn [fst snd parts_sum]. lia.
  - pose proof (dur_unit_pos k) as Hpos.
    destruct (Z.leb_spec (dur_unit k) d) as [Hle|Hgt].
    + assert (Hm : 0 <= d mod dur_unit k) by (apply Z.mod_pos_bound; exact Hpos).
      specialize (IH (d mod dur_unit k) Hm).
      destruct (dur_parts_from ks (d mod dur_unit k)) as [ps rest].
      cbn [fst snd parts_sum] in *. destruct IH as [IH1 IH2]. rewrite <- (dur_unit_len k).
      split; [|exact IH2].
      pose proof (Z.div_mod d (dur_unit k) ltac:(lia)) as Hdm. lia.
    + apply IH. exact Hd.
Qed.

Lemma parts_sum_app a b : parts_sum (a ++ b) = parts_sum a + parts_sum b.
Proof.
  induction a as [|[k c] a IH]; cbn [app parts_sum]; [reflexivity | rewrite IH; lia].
Qed.

(* the printed parts always sum to the magnitude *)
Theorem greedy_sum secs : parts_sum (dur_parts secs) = Z.abs secs.
Proof.
  unfold dur_parts. fold chain.
  pose proof (dur_parts_from_sum chain (Z.abs secs) (Z.abs_nonneg _)) as [H1 H2].
  destruct (dur_parts_from chain (Z.abs secs)) as [ps rest]. cbn [fst snd] in *.
  rewrite parts_sum_app.
  destruct (Z.ltb_spec 0 rest) as [Hr|Hr]; cbn [parts_sum unit_len]; lia.
Qed.

(* every printed component is positive and below the bound of its unit, and the units appear
   in the order year, month, week, day, hour, minute, second, each at most once *)
Lemma ranks_increasing_weaken ps lo hi :
  (lo <= hi)%nat -> ranks_increasing ps hi -> ranks_increasing ps lo.
Proof.
  destruct ps as [|[k c] ps]; cbn [ranks_increasing]; [trivial|].
  intros Hl [Ha Hb]. split; [lia | exact Hb].
Qed.

(* a chain is good for an (exclusive) upper bound [B] on the amount when each unit's count
   stays below its bound and what is left after a unit is below that unit *)
Fixpoint good_chain (ks : list durkind) (B : option Z) (lo : nat) : Prop :=
  match ks with
  | [] => match B with Some b => b <= 60 | None => False end
  | k :: r =>
    (lo <= unit_rank k < 6)%nat /\
    match B, unit_bound k with
    | Some b, Some ub => b <= ub * dur_unit k
    | _, None => True
    | None, Some _ => False
    end /\
    good_chain r (Some (dur_unit k)) (S (unit_rank k))
  end.

Definition below (B : option Z) (d : Z) : Prop := match B with Some b => d < b | None => True end.

Lemma greedy_shape_gen ks :
  forall B lo d, good_chain ks B lo -> 0 <= d -> below B d ->
  Forall part_ok (fst (dur_parts_from ks d)) /\
  ranks_increasing (fst (dur_parts_from ks d)) lo /\
  Forall (fun p => (unit_rank (fst p) < 6)%nat) (fst (dur_parts_from ks d)) /\
  0 <= snd (dur_parts_from ks d) < 60.
Proof.
  induction ks as [|k ks IH]; intros B lo d Hg Hd Hb; cbn [dur_parts_from].
  - cbn [fst snd ranks_increasing]. cbn [good_chain] in Hg.
    destruct B as [b|]; [|contradiction]. cbn [below] in Hb.
    repeat split; try constructor; lia.
  - cbn [good_chain] in Hg. destruct Hg as [Hrk [Hbd Hg]].
    pose proof (dur_unit_pos k) as Hpos.
    destruct (Z.leb_spec (dur_unit k) d) as [Hle|Hgt].
    + assert (Hm : 0 <= d mod dur_unit k < dur_unit k) by (apply Z.mod_pos_bound; exact Hpos).
      specialize (IH (Some (dur_unit k)) (S (unit_rank k)) (d mod dur_unit k) Hg (proj1 Hm) (proj2 Hm)).
      destruct (dur_parts_from ks (d mod dur_unit k)) as [ps rest]. cbn [fst snd] in *.
      destruct IH as [I1 [I2 [I3 I4]]].
      repeat split; try lia.
      * constructor; [|exact I1]. unfold part_ok. cbn [fst snd]. split.
        -- apply Z.div_str_pos. lia.
        -- destruct (unit_bound k) as [ub|]; [|exact I].
           destruct B as [b|]; [|contradiction]. cbn [below] in Hb.
           apply Z.div_lt_upper_bound; [exact Hpos | lia].
      * exact I2.
      * constructor; [cbn [fst]; lia | exact I3].
    + specialize (IH (Some (dur_unit k)) (S (unit_rank k)) d Hg Hd Hgt).
      destruct IH as [I1 [I2 [I3 I4]]].
      repeat split; try assumption; try lia.
      apply ranks_increasing_weaken with (hi := S (unit_rank k)); [lia | exact I2].
Qed.

Lemma chain_good : good_chain chain None 0.
Proof. vm_compute. repeat split; try lia; intro H; discriminate H. Qed.

Lemma ranks_increasing_snoc ps lo r :
  ranks_increasing ps lo -> (lo <= 6)%nat ->
  Forall (fun p => (unit_rank (fst p) < 6)%nat) ps ->
  ranks_increasing (ps ++ [(DSecond, r)]) lo.
Proof.
  revert lo. induction ps as [|[k c] ps IH]; intros lo H1 H2 H3; cbn [app ranks_increasing] in *.
  - cbn [unit_rank]. split; [exact H2 | exact I].
  - destruct H1 as [Ha Hb]. inversion H3 as [|x l Hx Hl]; subst. cbn [fst] in Hx.
    split; [exact Ha|]. apply IH; [exact Hb | lia | exact Hl].
Qed.

Theorem greedy_shape secs :
  Forall part_ok (dur_parts secs) /\ ranks_increasing (dur_parts secs) 0.
Proof.
  unfold dur_parts. fold chain.
  pose proof (greedy_shape_gen chain None 0%nat (Z.abs secs) chain_good (Z.abs_nonneg _) I) as H.
  destruct (dur_parts_from chain (Z.abs secs)) as [ps rest]. cbn [fst snd] in H.
  destruct H as [H1 [H2 [H3 H4]]].
  destruct (Z.ltb_spec 0 rest) as [Hr|Hr].
  - split.
    + apply Forall_app. split; [exact H1|]. constructor; [|constructor].
      unfold part_ok; cbn [fst snd unit_bound]. lia.
    + apply ranks_increasing_snoc; [exact H2 | lia | exact H3].
  - rewrite app_nil_r. split; assumption.
Qed.

(* a zero duration prints nothing; the sign is not printed *)
Theorem zero_prints_nothing : dur_parts 0 = [].
Proof. vm_compute. reflexivity. Qed.

Theorem dur_parts_opp secs : dur_parts (- secs) = dur_parts secs.
Proof. unfold dur_parts. rewrite Z.abs_opp. reflexivity. Qed.

Theorem prints_nothing_iff secs : dur_parts secs = [] <-> secs = 0.
Proof.
  split; intro H.
  - pose proof (greedy_sum secs) as Hs. rewrite H in Hs. cbn [parts_sum] in Hs. lia.
  - subst. apply zero_prints_nothing.
Qed.

(* the printed text is the concatenation of the formatted parts *)
Lemma duration_print_parts {F : Type} {NF : Num F} (cfg : config F) lang fmt secs :
  lang_format cfg lang = Some fmt ->
  duration_print cfg lang secs =
  trim (flat_map (fun p => duration_formatter fmt (dur_placeholder (fst p)) (snd p) (fst p)) (dur_parts secs)).
Proof. intro H. unfold duration_print. rewrite H. reflexivity. Qed.

(* ------------------------------------------------------------------------------------- *)
(* 4. 'D as unit' rounds down                                                             *)
(* ------------------------------------------------------------------------------------- *)
Theorem as_floor d :
  duration_as CSecond d = Some (Z.abs d) /\
  (forall c k, In (c, k) [(CMinute, DMinute); (CHour, DHour); (CDay, DDay); (CWeek, DWeek)] ->
     duration_as c d = Some (Z.abs d / unit_len k * unit_len k) /\
     Z.abs d / unit_len k * unit_len k <= Z.abs d < Z.abs d / unit_len k * unit_len k + unit_len k) /\
  (forall c, In c [CMonth; CYear; CToday; CTomorrow; CYesterday; CNow] -> duration_as c d = None).
Proof.
  split; [reflexivity|]. split.
  - intros c k Hin. cbn [In] in Hin.
    assert (Hfl : forall len, 0 < len ->
              Z.abs d / len * len <= Z.abs d < Z.abs d / len * len + len).
    { intros len Hlen. pose proof (Z.abs_nonneg d) as Ha.
      pose proof (Z.div_mod (Z.abs d) len ltac:(lia)) as Hdm.
      pose proof (Z.mod_pos_bound (Z.abs d) len Hlen) as Hmb. lia. }
    destruct Hin as [H|[H|[H|[H|[]]]]]; injection H as <- <-;
      (split; [reflexivity | apply Hfl; apply unit_len_pos]).
  - intros c Hin. cbn [In] in Hin.
    destruct Hin as [H|[H|[H|[H|[H|[H|[]]]]]]]; subst c; reflexivity.
Qed.

(* the sign of the source is dropped and the result is never larger than the source *)
Lemma duration_as_opp c d : duration_as c (- d) = duration_as c d.
Proof. unfold duration_as. rewrite Z.abs_opp. reflexivity. Qed.

(* ------------------------------------------------------------------------------------- *)
(* 5. additivity                                                                          *)
(* ------------------------------------------------------------------------------------- *)
Section Additive.
Context {F : Type} {NF : Num F}.

(* (a) the binary operators on two durations *)
Theorem additive_calc (bexec : config F -> str -> res (option F)) (cfg : config F) (a b : Z) :
  calculate bexec cfg (IDuration a) (IDuration b) OAdd
    = Ok (if dur_ok (a + b) then Some (IDuration (a + b)) else None) /\
  calculate bexec cfg (IDuration a) (IDuration b) OSub
    = Ok (if dur_ok (a - b) then Some (IDuration (a - b)) else None) /\
  calculate bexec cfg (IDuration a) (IDuration b) OMul = Ok None /\
  calculate bexec cfg (IDuration a) (IDuration b) ODiv = Ok None.
Proof. repeat split; reflexivity. Qed.

Corollary additive_calc_ok (bexec : config F -> str -> res (option F)) (cfg : config F) (a b : Z) :
  (dur_ok (a + b) = true ->
   calculate bexec cfg (IDuration a) (IDuration b) OAdd = Ok (Some (IDuration (a + b)))) /\
  (dur_ok (a - b) = true ->
   calculate bexec cfg (IDuration a) (IDuration b) OSub = Ok (Some (IDuration (a - b)))).
Proof.
  destruct (additive_calc bexec cfg a b) as [H1 [H2 _]].
  split; intro H; [rewrite H1 | rewrite H2]; rewrite H; reflexivity.
Qed.

(* (b) durations written next to each other: the rule binds the parts to the fields "1", "2", ...
   (a BTreeMap, iterated in key order) *)
Variable vs : vars F.

Definition key_of (i : nat) : str := [N.of_nat (48 + i)].

Fixpoint fields_from (i : nat) (tis : list (token_info F)) : fields F :=
  match tis with
  | [] => []
  | t :: r => (key_of i, t) :: fields_from (S i) r
  end.

Definition dur_fields (tis : list (token_info F)) : fields F := fields_from 1 tis.

(* left-to-right sum with chrono's range check after every addition *)
Fixpoint sum_checked (ds : list Z) (acc : Z) : option Z :=
  match ds with
  | [] => Some acc
  | d :: r => if dur_ok (acc + d) then sum_checked r (acc + d) else None
  end.

Definition comb_go (fs : fields F) : fields F -> Z -> rret F :=
  fix go (l : fields F) (sum : Z) : rret F :=
    match l with
    | [] => some (TDuration sum)
    | (k, _) :: r =>
      match get_duration vs k fs with
      | None => none
      | Some d => match try_dur (sum + d) with Some sum' => go r sum' | None => none end
      end
    end.

Lemma combine_durations_unfold fs :
  combine_durations vs fs = if has "1" fs && has "2" fs then comb_go fs fs 0 else none.
Proof. reflexivity. Qed.

Lemma assoc_nodup {A} (l : list (str * A)) k v :
  NoDup (map fst l) -> In (k, v) l -> assoc k l = Some v.
Proof.
  induction l as [|[k' v'] l IH]; intros Hnd Hin; cbn [assoc map fst In] in *; [contradiction|].
  inversion Hnd as [|x xs Hx Hxs]; subst.
  destruct Hin as [Heq|Hin].
  - injection Heq as -> ->. rewrite str_eqb_refl. reflexivity.
  - destruct (str_eqb k k') eqn:E.
    + apply str_eqb_eq in E. subst k'. exfalso. apply Hx.
      change k with (fst (k, v)). apply in_map. exact Hin.
    + apply IH; assumption.
Qed.

Lemma key_of_inj i j : key_of i = key_of j -> i = j.
Proof.
  unfold key_of. intro H.
  assert (H' : N.of_nat (48 + i) = N.of_nat (48 + j)) by exact (f_equal (fun l => hd 0%N l) H).
  apply Nat2N.inj in H'. lia.
Qed.

Lemma fields_from_keys i tis k :
  In k (map fst (fields_from i tis)) -> exists j, (i <= j)%nat /\ k = key_of j.
Proof.
  revert i. induction tis as [|t r IH]; intros i Hin; cbn [fields_from map fst In] in Hin; [contradiction|].
  destruct Hin as [<-|Hin].
  - exists i. split; [lia | reflexivity].
  - destruct (IH (S i) Hin) as [j [Hj Hk]]. exists j. split; [lia | exact Hk].
Qed.

Lemma fields_from_nodup i tis : NoDup (map fst (fields_from i tis)).
Proof.
  revert i. induction tis as [|t r IH]; intro i; cbn [fields_from map fst]; constructor.
  - intro Hin. destruct (fields_from_keys (S i) r _ Hin) as [j [Hj Hk]].
    apply key_of_inj in Hk. lia.
  - apply IH.
Qed.

Lemma comb_go_spec fs l ds :
  (forall k ti, In (k, ti) l -> assoc k fs = Some ti) ->
  Forall2 (fun p d => ti_ty (snd p) = Some (TDuration d)) l ds ->
  forall acc, comb_go fs l acc = Ok (option_map TDuration (sum_checked ds acc)).
Proof.
  intros Hassoc Hf. induction Hf as [|[k ti] d l ds Hd Hf IH]; intro acc; cbn [comb_go sum_checked].
  - reflexivity.
  - cbn [snd] in Hd.
    assert (Hg : get_duration vs k fs = Some d).
    { unfold get_duration, field_token. rewrite (Hassoc k ti (or_introl eq_refl)). rewrite Hd. reflexivity. }
    rewrite Hg. unfold try_dur. destruct (dur_ok (acc + d)); [|reflexivity].
    apply IH. intros k' ti' Hin. apply Hassoc. right. exact Hin.
Qed.

Lemma fields_from_forall2 i tis ds :
  Forall2 (fun ti d => ti_ty ti = Some (TDuration d)) tis ds ->
  Forall2 (fun (p : str * token_info F) d => ti_ty (snd p) = Some (TDuration d)) (fields_from i tis) ds.
Proof.
  intro H. revert i. induction H as [|t d tis ds Ht H IH]; intro i; cbn [fields_from]; constructor.
  - exact Ht.
  - apply IH.
Qed.

(* exact: the rule yields the checked left-to-right sum *)
Theorem additive_combine_exact tis ds :
  Forall2 (fun ti d => ti_ty ti = Some (TDuration d)) tis ds ->
  (2 <= length tis)%nat ->
  combine_durations vs (dur_fields tis) = Ok (option_map TDuration (sum_checked ds 0)).
Proof.
  intros Hf Hlen. rewrite combine_durations_unfold.
  assert (Hhas : has "1" (dur_fields tis) && has "2" (dur_fields tis) = true).
  { destruct tis as [|t1 [|t2 r]]; cbn [length] in Hlen; try lia. reflexivity. }
  rewrite Hhas. apply comb_go_spec.
  - intros k ti Hin. apply assoc_nodup; [apply fields_from_nodup | exact Hin].
  - apply fields_from_forall2. exact Hf.
Qed.

Definition zsum (ds : list Z) : Z := fold_left Z.add ds 0.

Lemma sum_checked_ok ds : forall acc,
  (forall j, (1 <= j <= length ds)%nat -> in_range (fold_left Z.add (firstn j ds) acc)) ->
  sum_checked ds acc = Some (fold_left Z.add ds acc).
Proof.
  induction ds as [|d r IH]; intros acc H; cbn [sum_checked fold_left]; [reflexivity|].
  assert (H1 : in_range (acc + d)).
  { apply (H 1%nat). cbn [length]. lia. }
  destruct (dur_ok_spec (acc + d)) as [_|Hn]; [|contradiction].
  apply IH. intros j Hj. apply (H (S j)). cbn [length]. lia.
Qed.

(* the parts add up, provided every partial sum d_1 + ... + d_j is a valid chrono::Duration *)
Theorem additive_combine tis ds :
  Forall2 (fun ti d => ti_ty ti = Some (TDuration d)) tis ds ->
  (2 <= length tis <= 9)%nat ->
  (forall j, (1 <= j <= length ds)%nat -> in_range (zsum (firstn j ds))) ->
  combine_durations vs (dur_fields tis) = Ok (Some (TDuration (zsum ds))).
Proof.
  intros Hf Hlen Hr. rewrite (additive_combine_exact tis ds Hf) by lia.
  rewrite sum_checked_ok by exact Hr. reflexivity.
Qed.

(* out of range at some point: no result (the rule declines, it does not panic) *)
Theorem additive_combine_none tis ds j :
  Forall2 (fun ti d => ti_ty ti = Some (TDuration d)) tis ds ->
  (2 <= length tis)%nat -> (1 <= j <= length ds)%nat -> ~ in_range (zsum (firstn j ds)) ->
  combine_durations vs (dur_fields tis) = Ok None.
Proof.
  intros Hf Hlen Hj Hn. rewrite (additive_combine_exact tis ds Hf) by exact Hlen.
  enough (E : sum_checked ds 0 = None) by (rewrite E; reflexivity).
  clear Hf Hlen. unfold zsum in Hn. revert j Hj Hn. generalize 0 as acc.
  induction ds as [|d r IH]; intros acc j Hj Hn; cbn [length] in Hj; [lia|].
  cbn [sum_checked]. destruct (dur_ok_spec (acc + d)) as [Hok|Hbad]; [|reflexivity].
  destruct j as [|j]; [lia|]. cbn [firstn fold_left] in Hn.
  destruct j as [|j].
  - cbn [firstn fold_left] in Hn. contradiction.
  - apply (IH (acc + d) (S j)); [lia | exact Hn].
Qed.

(* the field maps of the rule patterns (two to six parts), literally *)
Lemma dur_fields_literal t1 t2 t3 t4 t5 t6 :
  dur_fields [t1; t2] = [(s "1", t1); (s "2", t2)] /\
  dur_fields [t1; t2; t3] = [(s "1", t1); (s "2", t2); (s "3", t3)] /\
  dur_fields [t1; t2; t3; t4] = [(s "1", t1); (s "2", t2); (s "3", t3); (s "4", t4)] /\
  dur_fields [t1; t2; t3; t4; t5] = [(s "1", t1); (s "2", t2); (s "3", t3); (s "4", t4); (s "5", t5)] /\
  dur_fields [t1; t2; t3; t4; t5; t6]
    = [(s "1", t1); (s "2", t2); (s "3", t3); (s "4", t4); (s "5", t5); (s "6", t6)].
Proof. repeat split; reflexivity. Qed.

(* ... which is what inserting the bindings into the map in any order produces *)
Example dur_fields_insert t1 t2 t3 t4 t5 t6 :
  assoc_insert (s "3") t3 (assoc_insert (s "6") t6 (assoc_insert (s "1") t1
    (assoc_insert (s "5") t5 (assoc_insert (s "2") t2 (assoc_insert (s "4") t4 [])))))
  = dur_fields [t1; t2; t3; t4; t5; t6].
Proof. reflexivity. Qed.

Definition is_dur (t : token_info F) (d : Z) : Prop := ti_ty t = Some (TDuration d).

Theorem additive_combine_2_to_6 t1 t2 t3 t4 t5 t6 d1 d2 d3 d4 d5 d6 :
  is_dur t1 d1 -> is_dur t2 d2 -> in_range d1 -> in_range (d1 + d2) ->
  combine_durations vs [(s "1", t1); (s "2", t2)] = Ok (Some (TDuration (d1 + d2))) /\
  (is_dur t3 d3 -> in_range (d1 + d2 + d3) ->
   combine_durations vs [(s "1", t1); (s "2", t2); (s "3", t3)] = Ok (Some (TDuration (d1 + d2 + d3))) /\
   (is_dur t4 d4 -> in_range (d1 + d2 + d3 + d4) ->
    combine_durations vs [(s "1", t1); (s "2", t2); (s "3", t3); (s "4", t4)]
      = Ok (Some (TDuration (d1 + d2 + d3 + d4))) /\
    (is_dur t5 d5 -> in_range (d1 + d2 + d3 + d4 + d5) ->
     combine_durations vs [(s "1", t1); (s "2", t2); (s "3", t3); (s "4", t4); (s "5", t5)]
       = Ok (Some (TDuration (d1 + d2 + d3 + d4 + d5))) /\
     (is_dur t6 d6 -> in_range (d1 + d2 + d3 + d4 + d5 + d6) ->
      combine_durations vs [(s "1", t1); (s "2", t2); (s "3", t3); (s "4", t4); (s "5", t5); (s "6", t6)]
        = Ok (Some (TDuration (d1 + d2 + d3 + d4 + d5 + d6))))))).
Proof.
  intros T1 T2 R1 R2.
  pose proof (dur_fields_literal t1 t2 t3 t4 t5 t6) as [L2 [L3 [L4 [L5 L6]]]].
  assert (Hstep : forall tis ds, Forall2 is_dur tis ds -> (2 <= length tis <= 9)%nat ->
            (forall j, (1 <= j <= length ds)%nat -> in_range (zsum (firstn j ds))) ->
            combine_durations vs (dur_fields tis) = Ok (Some (TDuration (zsum ds)))).
  { intros tis ds. apply additive_combine. }
  assert (Hj : forall (P : nat -> Prop) n, (forall j, (j < n)%nat -> P (S j)) ->
            forall j, (1 <= j <= n)%nat -> P j).
  { intros P n H j Hjn. destruct j as [|j]; [lia|]. apply H. lia. }
  split.
  { rewrite <- L2. rewrite (Hstep [t1; t2] [d1; d2]).
    - reflexivity.
    - repeat constructor; assumption.
    - cbn [length]. lia.
    - apply Hj. intros j Hlt. cbn [length] in Hlt.
      destruct j as [|[|j]]; try lia; unfold zsum; cbn [firstn fold_left]; assumption. }
  intros T3 R3. split.
  { rewrite <- L3. rewrite (Hstep [t1; t2; t3] [d1; d2; d3]).
    - reflexivity.
    - repeat constructor; assumption.
    - cbn [length]. lia.
    - apply Hj. intros j Hlt. cbn [length] in Hlt.
      destruct j as [|[|[|j]]]; try lia; unfold zsum; cbn [firstn fold_left]; assumption. }
  intros T4 R4. split.
  { rewrite <- L4. rewrite (Hstep [t1; t2; t3; t4] [d1; d2; d3; d4]).
    - reflexivity.
    - repeat constructor; assumption.
    - cbn [length]. lia.
    - apply Hj. intros j Hlt. cbn [length] in Hlt.
      destruct j as [|[|[|[|j]]]]; try lia; unfold zsum; cbn [firstn fold_left]; assumption. }
  intros T5 R5. split.
  { rewrite <- L5. rewrite (Hstep [t1; t2; t3; t4; t5] [d1; d2; d3; d4; d5]).
    - reflexivity.
    - repeat constructor; assumption.
    - cbn [length]. lia.
    - apply Hj. intros j Hlt. cbn [length] in Hlt.
      destruct j as [|[|[|[|[|j]]]]]; try lia; unfold zsum; cbn [firstn fold_left]; assumption. }
  intros T6 R6.
  rewrite <- L6. rewrite (Hstep [t1; t2; t3; t4; t5; t6] [d1; d2; d3; d4; d5; d6]).
  - reflexivity.
  - repeat constructor; assumption.
  - cbn [length]. lia.
  - apply Hj. intros j Hlt. cbn [length] in Hlt.
    destruct j as [|[|[|[|[|[|j]]]]]]; try lia; unfold zsum; cbn [firstn fold_left]; assumption.
Qed.

End Additive.

(* ------------------------------------------------------------------------------------- *)
(* 6. singular / plural                                                                   *)
(* ------------------------------------------------------------------------------------- *)
(* the count a format row is for: a number, or anything else ("n") for the default row *)
Definition count_of (f : durformat) : option Z := parse_i64 (trim (df_count f)).

Definition row_exact (k : durkind) (c : Z) (f : durformat) : bool :=
  durkind_eqb (df_kind f) k && match count_of f with Some c' => Z.eqb c' c | None => false end.
Definition row_default (k : durkind) (f : durformat) : bool :=
  durkind_eqb (df_kind f) k && match count_of f with Some _ => false | None => true end.

(* the first row of kind k whose count is exactly c, else the first row of kind k whose count
   is not a number *)
Definition select_row (fmt : langformat) (k : durkind) (c : Z) : option durformat :=
  match List.find (row_exact k c) (lf_duration fmt) with
  | Some f => Some f
  | None => List.find (row_default k) (lf_duration fmt)
  end.

Theorem formatter_selects fmt ph c k :
  duration_formatter fmt ph c k =
  match select_row fmt k c with
  | Some f => replace_all ph (Z_to_str c) (df_format f) ++ [32%N]
  | None => Z_to_str c ++ [32%N]
  end.
Proof.
  unfold duration_formatter, select_row.
  change (fun f : durformat => durkind_eqb (df_kind f) k &&
            match parse_i64 (trim (df_count f)) with Some c0 => Z.eqb c0 c | None => false end)
    with (row_exact k c).
  change (fun f : durformat => durkind_eqb (df_kind f) k &&
            match parse_i64 (trim (df_count f)) with Some _ => false | None => true end)
    with (row_default k).
  destruct (find (row_exact k c) (lf_duration fmt)) as [f|]; [reflexivity|].
  destruct (find (row_default k) (lf_duration fmt)) as [f|]; reflexivity.
Qed.

Definition en_singular (k : durkind) : str :=
  match k with
  | DSecond => s "second" | DMinute => s "minute" | DHour => s "hour" | DDay => s "day"
  | DWeek => s "week" | DMonth => s "month" | DYear => s "year"
  end.
Definition en_plural (k : durkind) : str := en_singular k ++ s "s".

(* saniye, dakika, saat, gün, hafta, ay, yıl *)
Definition tr_word (k : durkind) : str :=
  match k with
  | DSecond => s "saniye" | DMinute => s "dakika" | DHour => s "saat" | DDay => [103; 252; 110]%N
  | DWeek => s "hafta" | DMonth => s "ay" | DYear => [121; 305; 108]%N
  end.

Lemma languages_ok : map fst d_format = [s "en"; s "tr"].
Proof. vm_compute. reflexivity. Qed.

(* English: "1 <singular> " for one, "<c> <plural> " for every other count (0, 2, 3, ...) *)
Theorem singular_plural_en fmt k :
  assoc (s "en") d_format = Some fmt ->
  duration_formatter fmt (dur_placeholder k) 1 k = s "1 " ++ en_singular k ++ s " " /\
  (forall c, c <> 1 ->
     duration_formatter fmt (dur_placeholder k) c k = Z_to_str c ++ s " " ++ en_plural k ++ s " ").
Proof.
  intro Hfmt. vm_compute in Hfmt. injection Hfmt as <-. split.
  - destruct k; vm_compute; reflexivity.
  - intros c Hc. unfold duration_formatter. generalize (Z_to_str c) as v. intro v.
    transitivity ((v ++ 32%N :: en_plural k) ++ [32%N]).
    + destruct k; (destruct c as [|[p|p|]|p]; [| | | exfalso; apply Hc; reflexivity |]);
        vm_compute; reflexivity.
    + rewrite <- app_assoc. reflexivity.
Qed.

(* Turkish: one form for every count *)
Theorem singular_plural_tr fmt k c :
  assoc (s "tr") d_format = Some fmt ->
  duration_formatter fmt (dur_placeholder k) c k = Z_to_str c ++ s " " ++ tr_word k ++ s " ".
Proof.
  intro Hfmt. vm_compute in Hfmt. injection Hfmt as <-.
  unfold duration_formatter. generalize (Z_to_str c) as v. intro v.
  transitivity ((v ++ 32%N :: tr_word k) ++ [32%N]).
  - destruct k; (destruct c as [|[p|p|]|p]); vm_compute; reflexivity.
  - rewrite <- app_assoc. reflexivity.
Qed.

(* the words a duration may be written with denote the unit they name *)
Lemma unit_words_en cs :
  assoc (s "en") d_constant_pair = Some cs ->
  map (fun w => assoc (s w) cs)
    ["second"; "seconds"; "minute"; "minutes"; "hour"; "hours"; "day"; "days"; "week"; "weeks";
     "month"; "months"; "year"; "years"]%string
  = map Some [CSecond; CSecond; CMinute; CMinute; CHour; CHour; CDay; CDay; CWeek; CWeek;
              CMonth; CMonth; CYear; CYear].
Proof. intro H. vm_compute in H. injection H as <-. vm_compute. reflexivity. Qed.

(* ------------------------------------------------------------------------------------- *)
(* examples (non-vacuity)                                                                 *)
(* ------------------------------------------------------------------------------------- *)
Example parts_example :
  dur_parts (400 * 86400 + 3725)
  = [(DYear, 1); (DMonth, 1); (DDay, 5); (DHour, 1); (DMinute, 2); (DSecond, 5)].
Proof. vm_compute. reflexivity. Qed.

Example print_example_en fmt :
  assoc (s "en") d_format = Some fmt ->
  flat_map (fun p => duration_formatter fmt (dur_placeholder (fst p)) (snd p) (fst p))
           (dur_parts (400 * 86400 + 3725))
  = s "1 year 1 month 5 days 1 hour 2 minutes 5 seconds ".
Proof. intro H. vm_compute in H. injection H as <-. vm_compute. reflexivity. Qed.

Example print_example_tr fmt :
  assoc (s "tr") d_format = Some fmt ->
  flat_map (fun p => duration_formatter fmt (dur_placeholder (fst p)) (snd p) (fst p))
           (dur_parts (- (400 * 86400 + 3725)))
  = s "1 " ++ [121; 305; 108]%N ++ s " 1 ay 5 " ++ [103; 252; 110]%N ++ s " 1 saat 2 dakika 5 saniye ".
Proof. intro H. vm_compute in H. injection H as <-. vm_compute. reflexivity. Qed.

Example parse_examples :
  duration_of_const CMonth 12 = Some (unit_len DYear) /\
  duration_of_const CMonth 14 = Some (unit_len DYear + 2 * unit_len DMonth) /\
  duration_of_const CMonth (-14) = Some (- (unit_len DYear + 2 * unit_len DMonth)) /\
  duration_of_const CDay (-400) = Some (-400 * 86400) /\
  duration_of_const CWeek 2 = Some 1209600 /\
  duration_of_const CYear 292471209 = None /\
  duration_as CHour (-7325) = Some 7200.
Proof. vm_compute. repeat split; reflexivity. Qed.

Print Assumptions units_ok.
Print Assumptions parse_exact.
Print Assumptions parse_units.
Print Assumptions parse_simple.
Print Assumptions parse_day.
Print Assumptions parse_year.
Print Assumptions parse_month.
Print Assumptions parse_month_quot.
Print Assumptions parse_month_neg.
Print Assumptions parse_month_nonpos.
Print Assumptions parse_in_range.
Print Assumptions parse_none_iff.
Print Assumptions greedy_sum.
Print Assumptions greedy_shape.
Print Assumptions zero_prints_nothing.
Print Assumptions dur_parts_opp.
Print Assumptions prints_nothing_iff.
Print Assumptions as_floor.
Print Assumptions additive_calc.
Print Assumptions additive_combine_exact.
Print Assumptions additive_combine.
Print Assumptions additive_combine_none.
Print Assumptions additive_combine_2_to_6.
Print Assumptions formatter_selects.
Print Assumptions singular_plural_en.
Print Assumptions singular_plural_tr.
