(* SC.Proofs.C02_Refuted -- concrete binary64 witnesses for property C02.

   (1) The hypothesis [known_paren3 (toks_of e) = false] of c02_missing_token_adder_id and
       c02_token_level is necessary: for "(((1+2)))" the post-processing step inserts a
       spurious 0 after the second '(' and the parser then fails with "Parentheses not
       closed", although the very same tokens, not post-processed, parse to the right tree.
   (2) Non-vacuity of c02_token_level: a depth-4 expression with all four operators and
       nested parentheses satisfies every hypothesis; the computed value is given.

   All facts are closed computations (vm_compute).  No axioms. *)
From Coq Require Import Floats.
From SC.Model Require Import Base Num Types Config Case Post Parser Items Interp NumF64.
From SC.Spec Require Import Expr.
From SC.Proofs Require Import C02_Parser.

Local Open Scope float_scope.

(* ------------------------------------------------------------------ *)
(* 1. known_paren3 is necessary                                        *)
(* ------------------------------------------------------------------ *)

(* "(((1+2)))" *)
Definition e_paren3 : expr float := Par (Par (Par (Bin BAdd (Lit 1) (Lit 2)))).

Lemma e_paren3_wf : wf e_paren3 = true.
Proof. vm_compute. reflexivity. Qed.

Lemma e_paren3_known : known_paren3 (toks_of e_paren3) = true.
Proof. vm_compute. reflexivity. Qed.

(* the spurious 0: "((0(1+2)))" *)
Lemma e_paren3_mta :
  missing_token_adder (toks_of e_paren3) =
  [TOperator OP_LP; TOperator OP_LP; TNumber 0 Decimal; TOperator OP_LP;
   TNumber 1 Decimal; TOperator OP_PLUS; TNumber 2 Decimal;
   TOperator OP_RP; TOperator OP_RP; TOperator OP_RP].
Proof. vm_compute. reflexivity. Qed.

Lemma e_paren3_mta_changes : missing_token_adder (toks_of e_paren3) <> toks_of e_paren3.
Proof. vm_compute. discriminate. Qed.

(* the parser rejects the post-processed line ... *)
Theorem c02_paren3_refuted :
  wf e_paren3 = true /\
  known_paren3 (toks_of e_paren3) = true /\
  fst (parse (missing_token_adder (toks_of e_paren3)) []) = PErr E_PAREN.
Proof. vm_compute. repeat split; reflexivity. Qed.

(* ... whereas the same tokens without post-processing give the expected tree and value
   (this is c02_parse_level / c02_eval, which need no hypothesis on parentheses) *)
Lemma e_paren3_parse_raw :
  parse (toks_of e_paren3) [] = (PAst (ast_of e_paren3), []) /\ denote e_paren3 = 3.
Proof. vm_compute. split; reflexivity. Qed.

(* so the conclusion of c02_token_level fails for e_paren3 (with infos = []) *)
Theorem c02_token_level_needs_paren3 :
  ~ (exists vs', parse (missing_token_adder (token_cleaner [] (toks_of e_paren3))) [] =
                 (PAst (ast_of e_paren3), vs')).
Proof. intros [vs' H]. vm_compute in H. discriminate. Qed.

(* two levels of parentheses are fine *)
Definition e_paren2 : expr float := Par (Par (Bin BAdd (Lit 1) (Lit 2))).
Lemma e_paren2_ok :
  known_paren3 (toks_of e_paren2) = false /\
  parse (missing_token_adder (toks_of e_paren2)) [] = (PAst (ast_of e_paren2), []).
Proof. vm_compute. split; reflexivity. Qed.

(* the three parentheses need not be at the start of the line: "2*(((3)))" *)
Definition e_paren3_inner : expr float := Bin BMul (Lit 2) (Par (Par (Par (Lit 3)))).
Theorem c02_paren3_inner_refuted :
  wf e_paren3_inner = true /\
  known_paren3 (toks_of e_paren3_inner) = true /\
  fst (parse (missing_token_adder (toks_of e_paren3_inner)) []) = PErr E_PAREN.
Proof. vm_compute. repeat split; reflexivity. Qed.

(* on an assignment line the '=' plays the role of the first '(':  "X = ((1+2))" is already
   in the defect class *)
Definition a_paren2 : list (token float) := assign_toks (s "X") e_paren2.
Theorem c02_assign_paren2_refuted :
  known_paren3 a_paren2 = true /\
  fst (parse (missing_token_adder a_paren2) []) = PErr E_PAREN /\
  fst (parse a_paren2 []) = PAst (AAssignment (s "x") (ast_of e_paren2)).
Proof. vm_compute. repeat split; reflexivity. Qed.

(* ------------------------------------------------------------------ *)
(* 2. Non-vacuity of c02_token_level                                   *)
(* ------------------------------------------------------------------ *)

(* (1+2*(3-4/(5+6)))*7-8/(2*(1+1)) *)
Definition e_big : expr float :=
  Bin BSub
    (Bin BMul
       (Par (Bin BAdd (Lit 1)
                      (Bin BMul (Lit 2)
                                (Par (Bin BSub (Lit 3)
                                               (Bin BDiv (Lit 4) (Par (Bin BAdd (Lit 5) (Lit 6)))))))))
       (Lit 7))
    (Bin BDiv (Lit 8) (Par (Bin BMul (Lit 2) (Par (Bin BAdd (Lit 1) (Lit 1)))))).

Lemma e_big_hyps : wf e_big = true /\ known_paren3 (toks_of e_big) = false.
Proof. vm_compute. split; reflexivity. Qed.

Lemma e_big_size : length (toks_of e_big) = 31%nat /\ cost e_big = 136%nat /\
                   parse_fuel (toks_of e_big) = 396%nat.
Proof. vm_compute. repeat split; reflexivity. Qed.

(* printed 41.909090909090907 (the exact quotient is 461/11 = 41.90909...) *)
Definition v_big : float := 0x1.4f45d1745d174p+5.

Lemma e_big_value : denote e_big = v_big.
Proof. vm_compute. reflexivity. Qed.

(* instance of the general theorem *)
Theorem c02_token_level_e_big : forall bexec cfg vs infos,
  find_index info_is_eq infos = None ->
  exists vs', parse (missing_token_adder (token_cleaner infos (toks_of e_big))) vs
              = (PAst (ast_of e_big), vs') /\ vs' = vs /\
  execute_ast bexec cfg vs' (ast_of e_big)
  = Ok (IOk (AItem (INumber v_big Decimal)), vs').
Proof.
  intros bexec cfg vs infos Hinf.
  destruct e_big_hyps as [Hwf Hk].
  destruct (c02_token_level bexec cfg vs infos e_big Hwf Hk Hinf) as (vs' & Hp & Hvs & Hex).
  exists vs'. rewrite <- e_big_value. auto.
Qed.

(* and the same by direct computation (infos = [], empty session) *)
Theorem c02_token_level_e_big_computed : forall bexec cfg,
  parse (missing_token_adder (token_cleaner [] (toks_of e_big))) [] = (PAst (ast_of e_big), []) /\
  execute_ast bexec cfg [] (ast_of e_big)
  = Ok (IOk (AItem (INumber v_big Decimal)), []).
Proof. intros bexec cfg. split; vm_compute; reflexivity. Qed.

(* division by zero yields 0 (do_division), also at the specification level: 1/(2-2) *)
Definition e_div0 : expr float := Bin BDiv (Lit 1) (Par (Bin BSub (Lit 2) (Lit 2))).
Lemma e_div0_value : wf e_div0 = true /\ known_paren3 (toks_of e_div0) = false /\ denote e_div0 = 0.
Proof. vm_compute. repeat split; reflexivity. Qed.

(* juxtaposition: "1 2 3.5" is 6.5 *)
Lemma juxtaposition_example :
  missing_token_adder (nums [1; 2; 3.5]) =
  [TNumber 1 Decimal; TOperator OP_PLUS; TNumber 2 Decimal; TOperator OP_PLUS; TNumber 3.5 Decimal]
  /\ fold_left fadd [2; 3.5] 1 = 6.5.
Proof. vm_compute. split; reflexivity. Qed.

(* Print Assumptions lists only Coq's primitive binary64 / 63-bit integer types and
   operations (kernel primitives, shown as "Axioms" by Coq 8.16); nothing else is assumed. *)
Print Assumptions c02_paren3_refuted.
Print Assumptions c02_token_level_needs_paren3.
Print Assumptions c02_paren3_inner_refuted.
Print Assumptions c02_assign_paren2_refuted.
Print Assumptions c02_token_level_e_big.
Print Assumptions c02_token_level_e_big_computed.
Print Assumptions e_big_value.
