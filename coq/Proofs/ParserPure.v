(* SC.Proofs.ParserPure -- the expression parser never builds an assignment node, and evaluating
   an assignment-free tree never changes the session.  Shared by C01_NoPanic and C03.
   Polymorphic in the number algebra; no axioms. *)
From SC.Model Require Import Base Num Types Config Case Match Post Parser Items Interp.
From SC.Proofs Require Import C02_Parser.
From Coq Require Import Arith Lia.

Local Open Scope nat_scope.

Section ParserPure.
Context {F : Type} {NF : Num F}.

(* ---- assignment-free syntax trees: what a right-hand side is ---- *)
Fixpoint pure (a : ast F) : bool :=
  match a with
  | ABinary l _ r => pure l && pure r
  | APrefixUnary _ e => pure e
  | AAssignment _ _ _ => false
  | _ => true
  end.

(* ---- the parser builds assignment-free trees ---- *)
Definition res_pure (r : @pres F * list (token F)) : Prop :=
  match fst r with PAst a => pure a = true | _ => True end.

Definition pure_at (f : nat) : Prop :=
  (forall l ts, res_pure (parse_level f l ts)) /\
  (forall l ts, res_pure (parse_sub f l ts)) /\
  (forall l lft ts, pure lft = true -> res_pure (binary_loop f l lft ts)) /\
  (forall l ts, res_pure (right_loop f l ts)) /\
  (forall ts, res_pure (parse_unary f ts)) /\
  (forall ts, res_pure (parse_paren f ts)).

Lemma parse_basic_pure (ts : list (token F)) : res_pure (parse_basic ts).
Proof. destruct ts as [|t r]; [exact I|]. destruct t; exact I || reflexivity. Qed.

Lemma pure_all : forall f, pure_at f.
Proof.
  induction f as [|f (H1 & H2 & H3 & H4 & H5 & H6)].
  - repeat split; intros; exact I.
  - unfold pure_at, res_pure in *. repeat split.
    + intros l ts. rewrite parse_level_S. specialize (H2 l ts).
      destruct (parse_sub f l ts) as [[a|m|] r]; cbn [fst] in *; try exact I.
      destruct a; try (apply H3; exact H2); reflexivity.
    + intros l ts. rewrite parse_sub_S. destruct l; [apply H1|apply H1|apply H5].
    + intros l lft ts Hl. rewrite binary_loop_S.
      destruct (match_operator (level_ops l) ts) as [op|]; [|exact Hl].
      specialize (H4 l (tl ts)).
      destruct (right_loop f l (tl ts)) as [[a|m|] rest]; cbn [fst] in *; try exact I.
      apply H3. cbn [pure]. rewrite Hl, H4. reflexivity.
    + intros l ts. rewrite right_loop_S. specialize (H2 l ts).
      destruct (parse_sub f l ts) as [[a|m|] r]; cbn [fst] in *; try exact I.
      destruct a; try exact H2. apply H4.
    + intros ts. rewrite parse_unary_S.
      destruct (match_operator [OP_MINUS; OP_PLUS] ts) as [op|].
      * destruct (tl ts) as [|t r'] eqn:Etl; [exact I|].
        destruct t; try exact I; try reflexivity.
        destruct (N.eqb c OP_LP); [|exact I].
        specialize (H6 (TOperator c :: r')).
        destruct (parse_paren f (TOperator c :: r')) as [[a|m|] rest]; cbn [fst] in *; try exact I.
        exact H6.
      * destruct (match_operator [OP_LP] ts); [apply H6|apply parse_basic_pure].
    + intros ts. rewrite parse_paren_S. specialize (H1 LAddSub (tl ts)).
      destruct (parse_level f LAddSub (tl ts)) as [[a|m|] r]; cbn [fst] in *; try exact I.
      destruct a; try exact I;
        (destruct (match_operator [OP_RP] r); [exact H1|exact I]).
Qed.

Lemma parse_level_pure f l (ts : list (token F)) a r :
  parse_level f l ts = (PAst a, r) -> pure a = true.
Proof.
  intro H. destruct (pure_all f) as (H1 & _). specialize (H1 l ts). unfold res_pure in H1.
  rewrite H in H1. exact H1.
Qed.


(* evaluating an assignment-free tree leaves the session as it was, whatever the outcome *)
Theorem exec_pure_vars (bexec : config F -> str -> res (option F)) cfg : forall (a : ast F) vs r vs',
  pure a = true -> execute_ast bexec cfg vs a = Ok (r, vs') -> vs' = vs.
Proof.
  induction a as [ |f|i|m|l IHl op r0 IHr|op e IHe|name ntoks e IHe|v|name]; intros vs r vs' Hp H;
    cbn [pure] in Hp; try discriminate; cbn [execute_ast] in H; try (inversion H; reflexivity).
  - apply andb_true_iff in Hp as [Hl Hr].
    destruct (execute_ast bexec cfg vs l) as [[[cl|m1] vs1]|site] eqn:El; cbn [bind] in H; try discriminate.
    2:{ inversion H; subst. exact (IHl _ _ _ Hl El). }
    pose proof (IHl _ _ _ Hl El) as H1. subst vs1.
    destruct (execute_ast bexec cfg vs r0) as [[[cr|m2] vs2]|site] eqn:Er; cbn [bind] in H; try discriminate.
    2:{ inversion H; subst. exact (IHr _ _ _ Hr Er). }
    pose proof (IHr _ _ _ Hr Er) as H2. subst vs2.
    destruct cl; destruct cr; try (inversion H; reflexivity);
      (destruct (calculate_item bexec cfg op _ _); cbn [bind] in H; [inversion H; reflexivity|discriminate]).
  - destruct (execute_ast bexec cfg vs e) as [[[v|m1] vs1]|site] eqn:Ee; cbn [bind] in H; try discriminate.
    2:{ inversion H; subst. exact (IHe _ _ _ Hp Ee). }
    pose proof (IHe _ _ _ Hp Ee) as H1. subst vs1.
    destruct (N.eqb op OP_PLUS); [inversion H; reflexivity|].
    destruct (N.eqb op OP_MINUS); [|inversion H; reflexivity].
    destruct v; inversion H; reflexivity.
Qed.

End ParserPure.
