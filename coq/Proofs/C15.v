(* Proofs for property C15 - printed results can be typed back in.

   Layout
     0  the end-to-end notion (Reprintable) and its executable test through Run64.exec64
     1  word tables (finite, regenerated data): duration words, month words, unit words, zone names, currencies
     2  based integers (composition of the C13 theorems)
     3  durations: the printed parts re-read and recombined give the magnitude (unbounded)
     4  numbers: the printed decimal is read back as the canonical digits; idempotence under a stated hypothesis
     5  whole-pipeline families and the refuted witnesses of the known findings C15-K1 .. C15-K10 *)
From Coq Require Import Floats Lia.
From SC.Model Require Import Base Num NumF64 FloatIO Types Config Case Chrono UiTokens Rx Post Parser Items Interp RuleFns
     Rules Format Lexer Api Run64 Corr.
From SC.Spec Require Import Calendar Duration.
From SC.Gen Require Import RustConsts ConfigData Regexes.
From SC.Proofs Require Import C08 C10 C13.
Local Open Scope Z_scope.

(* ================================================================ 0. the end-to-end notion *)

(* the printed text and the value of a one-line evaluation *)
Definition out_of (r : res (exec_result (F:=float))) : option (str * option (token float)) :=
  match r with
  | Ok r => match er_lines r with
            | [Some o] => match lo_result o with LOk out a => Some (out, ast_as_token a) | _ => None end
            | _ => None
            end
  | Panic _ => None
  end.

Definition enter (ck : clock) (cfg : config float) (lang line : str) := out_of (exec64 ck cfg lang line).

(* THE FULL STATEMENT of the property, for one line: whatever value the line prints, the printed text is not empty
   and, entered as a new line under the same configuration, language and clock, prints the same text again *)
Definition Reprintable (ck : clock) (cfg : config float) (lang line : str) : Prop :=
  forall out v, enter ck cfg lang line = Some (out, v) ->
    out <> [] /\ exists v', enter ck cfg lang out = Some (out, v').

(* ... and the stronger reading: the value behind the re-entered text is the same value *)
Definition Reprintable_value (ck : clock) (cfg : config float) (lang line : str) : Prop :=
  forall out v, enter ck cfg lang line = Some (out, v) ->
    out <> [] /\ exists v', enter ck cfg lang out = Some (out, v') /\ opt_token_exact v v' = true.

Definition is_nil {A} (l : list A) : bool := match l with [] => true | _ => false end.

(* executable tests; a line that prints no value is (vacuously) reprintable, so [prints] is tested too *)
Definition prints (ck : clock) (cfg : config float) (lang line : str) : bool :=
  match enter ck cfg lang line with Some _ => true | None => false end.

Definition reprints (ck : clock) (cfg : config float) (lang line : str) : bool :=
  match enter ck cfg lang line with
  | Some (out, _) =>
    negb (is_nil out) &&
    match enter ck cfg lang out with Some (out', _) => str_eqb out' out | None => false end
  | None => false
  end.

Definition reprints_value (ck : clock) (cfg : config float) (lang line : str) : bool :=
  match enter ck cfg lang line with
  | Some (out, v) =>
    negb (is_nil out) &&
    match enter ck cfg lang out with Some (out', v') => str_eqb out' out && opt_token_exact v v' | None => false end
  | None => false
  end.

Lemma reprints_sound ck cfg lang line :
  reprints ck cfg lang line = true -> prints ck cfg lang line = true /\ Reprintable ck cfg lang line.
Proof.
  unfold reprints, prints, Reprintable. destruct (enter ck cfg lang line) as [[out v]|] eqn:E; [|discriminate].
  intro H. apply andb_prop in H. destruct H as [Hn Hs]. split; [reflexivity|].
  intros out0 v0 H0. inversion H0; subst out0 v0. split.
  - destruct out; [discriminate|discriminate].
  - destruct (enter ck cfg lang out) as [[out' v']|]; [|discriminate].
    apply str_eqb_eq in Hs. subst out'. exists v'. reflexivity.
Qed.

Lemma reprints_value_sound ck cfg lang line :
  reprints_value ck cfg lang line = true -> prints ck cfg lang line = true /\ Reprintable_value ck cfg lang line.
Proof.
  unfold reprints_value, prints, Reprintable_value. destruct (enter ck cfg lang line) as [[out v]|] eqn:E; [|discriminate].
  intro H. apply andb_prop in H. destruct H as [Hn Hs]. split; [reflexivity|].
  intros out0 v0 H0. inversion H0; subst out0 v0. split.
  - destruct out; [discriminate|discriminate].
  - destruct (enter ck cfg lang out) as [[out' v']|]; [|discriminate].
    apply andb_prop in Hs. destruct Hs as [Hs Hv]. apply str_eqb_eq in Hs. subst out'. exists v'. split; [reflexivity|exact Hv].
Qed.

Lemma value_implies_text ck cfg lang line : Reprintable_value ck cfg lang line -> Reprintable ck cfg lang line.
Proof.
  intros H out v E. destruct (H out v E) as [Hn [v' [E' _]]]. split; [exact Hn|]. exists v'. exact E'.
Qed.

(* a line that prints a value whose printed text does NOT print itself again *)
Definition refutes (ck : clock) (cfg : config float) (lang line : str) : bool :=
  prints ck cfg lang line && negb (reprints ck cfg lang line).

Lemma refutes_sound ck cfg lang line : refutes ck cfg lang line = true -> ~ Reprintable ck cfg lang line.
Proof.
  unfold refutes, prints, reprints, Reprintable. intros H HR.
  destruct (enter ck cfg lang line) as [[out v]|] eqn:E; [|discriminate]. cbn [andb] in H.
  destruct (HR out v eq_refl) as [Hn [v' E']]. rewrite E' in H. rewrite str_eqb_refl in H.
  destruct out; [contradiction Hn; reflexivity|]. discriminate.
Qed.

(* the clock of the families (any fixed day; 2024-10-04) and the configurations *)
Definition CK15 : clock := {| ck_today := 20000; ck_year := 2024 |}.
Definition DC : config float := default_config.
Definition cfg_seps (d t : str) : config float :=
  set_fmt DC (cf_money DC) (cf_number DC) (cf_percent DC) d t (cf_tz DC).
Definition cfg_num (c : config float) (n : N) (rm rnd : bool) : config float :=
  set_fmt c (cf_money c) {| nc_digits := n; nc_rm := rm; nc_round := rnd |} {| nc_digits := n; nc_rm := rm; nc_round := rnd |}
          (cf_dsep c) (cf_tsep c) (cf_tz c).
Definition EN : str := s "en".
Definition TR : str := s "tr".

(* ================================================================ 1. word tables *)

(* ---- 1a. duration words: the word a format row prints (the text behind the placeholder and the blank) *)
Fixpoint after_blank (x : str) : str :=
  match x with
  | [] => []
  | c :: r => if N.eqb c 32 then r else after_blank r
  end.
Definition row_word (f : durformat) : str := after_blank (df_format f).

Definition kind_const (k : durkind) : consttype :=
  match k with
  | DSecond => CSecond | DMinute => CMinute | DHour => CHour | DDay => CDay
  | DWeek => CWeek | DMonth => CMonth | DYear => CYear
  end.

Definition consttype_eqb (a b : consttype) : bool :=
  match a, b with
  | CDay, CDay | CWeek, CWeek | CMonth, CMonth | CYear, CYear | CSecond, CSecond | CMinute, CMinute | CHour, CHour
  | CToday, CToday | CTomorrow, CTomorrow | CYesterday, CYesterday | CNow, CNow => true
  | _, _ => false
  end.

Lemma consttype_eqb_eq a b : consttype_eqb a b = true -> a = b.
Proof. destruct a, b; cbn; intro H; try reflexivity; discriminate. Qed.

(* the row's word is a keyword of the SAME unit in the language's constant table and a member of the word group
   the duration rule `{NUMBER:duration} {GROUP:type:duration_group}` asks for; and the row has the shape
   `{placeholder} word` (or `1 word`) *)
Definition dur_row_ok (lang : str) (f : durformat) : bool :=
  match assoc lang d_constant_pair, assoc lang d_word_group with
  | Some cs, Some gs =>
    match assoc (row_word f) cs, assoc (s "duration_group") gs with
    | Some c, Some ws =>
      consttype_eqb c (kind_const (df_kind f)) && mem_str (row_word f) ws && negb (is_nil (row_word f)) &&
      (str_eqb (df_format f) (dur_placeholder (df_kind f) ++ 32%N :: row_word f) ||
       str_eqb (df_format f) (s "1 " ++ row_word f))
    | _, _ => false
    end
  | _, _ => false
  end.

Definition dur_rows_ok (lang : str) : bool :=
  match assoc lang d_format with
  | Some fmt => forallb (dur_row_ok lang) (lf_duration fmt) && Nat.leb 7 (length (lf_duration fmt))
  | None => false
  end.

Lemma dur_rows_en : dur_rows_ok EN = true. Proof. vm_compute. reflexivity. Qed.
Lemma dur_rows_tr : dur_rows_ok TR = true. Proof. vm_compute. reflexivity. Qed.

Lemma duration_words : forall lang fmt f, In lang [EN; TR] ->
  assoc lang d_format = Some fmt -> In f (lf_duration fmt) ->
  exists cs gs ws,
    assoc lang d_constant_pair = Some cs /\ assoc lang d_word_group = Some gs /\
    assoc (s "duration_group") gs = Some ws /\
    assoc (row_word f) cs = Some (kind_const (df_kind f)) /\ mem_str (row_word f) ws = true /\ row_word f <> [] /\
    (df_format f = dur_placeholder (df_kind f) ++ 32%N :: row_word f \/ df_format f = s "1 " ++ row_word f).
Proof.
  intros lang fmt f Hl Hf Hin.
  assert (Hok : dur_rows_ok lang = true).
  { cbn [In] in Hl. destruct Hl as [Hl|[Hl|Hl]]; [subst lang; exact dur_rows_en|subst lang; exact dur_rows_tr|contradiction]. }
  unfold dur_rows_ok in Hok. rewrite Hf in Hok. apply andb_prop in Hok. destruct Hok as [Hok _].
  rewrite forallb_forall in Hok. specialize (Hok f Hin). unfold dur_row_ok in Hok.
  destruct (assoc lang d_constant_pair) as [cs|] eqn:E1; [|discriminate].
  destruct (assoc lang d_word_group) as [gs|] eqn:E2; [|discriminate].
  destruct (assoc (row_word f) cs) as [c|] eqn:E3; [|discriminate].
  destruct (assoc (s "duration_group") gs) as [ws|] eqn:E4; [|discriminate].
  apply andb_prop in Hok. destruct Hok as [Hok Hshape].
  apply andb_prop in Hok. destruct Hok as [Hok Hne].
  apply andb_prop in Hok. destruct Hok as [Hc Hm].
  apply consttype_eqb_eq in Hc. subst c.
  exists cs, gs, ws. split; [reflexivity|]. split; [reflexivity|]. split; [exact E4|]. split; [exact E3|].
  split; [exact Hm|]. split.
  - intro E. rewrite E in Hne. discriminate.
  - apply orb_prop in Hshape. destruct Hshape as [H|H]; apply str_eqb_eq in H; [left|right]; exact H.
Qed.

(* ---- 1b. unit words: the word of a unit's format string, lower-cased, is one of the unit's names and the
        type word of one of its parse patterns `{NUMBER:value} {TEXT:type:<word>}` *)
Definition unit_row := (N * str * list str * str * str * list str * option N * option bool * option bool * str)%type.
Definition ur_format (r : unit_row) : str := let '(_, f, _, _, _, _, _, _, _, _) := r in f.
Definition ur_parse (r : unit_row) : list str := let '(_, _, p, _, _, _, _, _, _, _) := r in p.
Definition ur_names (r : unit_row) : list str := let '(_, _, _, _, _, n, _, _, _, _) := r in n.
Definition ur_index (r : unit_row) : N := let '(i, _, _, _, _, _, _, _, _, _) := r in i.

(* the format is `{value}` + optional blank + word *)
Definition unit_word (r : unit_row) : option str :=
  let f := ur_format r in
  if starts_with (s "{value}") f then
    let rest := skipn 7 f in
    Some (match rest with 32%N :: w => w | w => w end)
  else None.

Definition unit_row_ok (r : unit_row) : bool :=
  match unit_word r with
  | Some w =>
    negb (is_nil w) && mem_str (to_lowercase w) (ur_names r) &&
    mem_str (s "{NUMBER:value} {TEXT:type:" ++ to_lowercase w ++ s "}") (ur_parse r)
  | None => false
  end.

Definition all_unit_rows : list (str * unit_row) :=
  flat_map (fun g => map (fun r => (fst g, r)) (snd g)) d_types_raw.

Lemma unit_rows_ok : forallb (fun gr => unit_row_ok (snd gr)) all_unit_rows = true.
Proof. vm_compute. reflexivity. Qed.

Lemma unit_words : forall g r, In (g, r) all_unit_rows ->
  exists w, unit_word r = Some w /\ w <> [] /\ mem_str (to_lowercase w) (ur_names r) = true /\
            mem_str (s "{NUMBER:value} {TEXT:type:" ++ to_lowercase w ++ s "}") (ur_parse r) = true.
Proof.
  intros g r Hin. pose proof unit_rows_ok as H. rewrite forallb_forall in H. specialize (H (g, r) Hin).
  cbn [snd] in H. unfold unit_row_ok in H. destruct (unit_word r) as [w|]; [|discriminate].
  apply andb_prop in H. destruct H as [H Hp]. apply andb_prop in H. destruct H as [Hn Hm].
  exists w. split; [reflexivity|]. split; [intro E; rewrite E in Hn; discriminate|]. split; assumption.
Qed.

Lemma unit_rows_count : length all_unit_rows = 33%nat. Proof. vm_compute. reflexivity. Qed.

(* ---- 1c. month words, through the lexer: what date_print writes for a day of month m ("5 February" in the
        clock's year, "5 Feb 2020" otherwise; uppercase-first of the table's long / short name) is read back as
        that very day and printed identically *)
Definition month_rows (lang : str) : list monthinfo :=
  match assoc lang d_months with Some l => l | None => [] end.

Definition date_is (r : option (str * option (token float))) (out : str) (days : Z) : bool :=
  match r with
  | Some (out', Some (TDate d _)) => str_eqb out' out && Z.eqb d days
  | _ => false
  end.

Definition month_row_ok (lang : str) (mi : monthinfo) : bool :=
  let m := mi_month mi in
  let l1 := s "5 " ++ uppercase_first_letter (mi_long mi) in
  let l2 := s "5 " ++ uppercase_first_letter (mi_short mi) ++ s " 2020" in
  str_eqb (date_print DC lang (ck_year CK15) (days_from_civil (ck_year CK15) m 5) (cf_tz DC)) l1 &&
  str_eqb (date_print DC lang (ck_year CK15) (days_from_civil 2020 m 5) (cf_tz DC)) l2 &&
  date_is (enter CK15 DC lang l1) l1 (days_from_civil (ck_year CK15) m 5) &&
  date_is (enter CK15 DC lang l2) l2 (days_from_civil 2020 m 5).

Lemma month_rows_ok :
  forallb (fun lang => forallb (month_row_ok lang) (month_rows lang) && Nat.eqb (length (month_rows lang)) 12) [EN; TR] = true.
Proof. vm_compute. reflexivity. Qed.

Lemma date_is_true r out days : date_is r out days = true ->
  exists tz, r = Some (out, Some (TDate days tz)).
Proof.
  unfold date_is. destruct r as [[o [t|]]|]; try discriminate. destruct t; try discriminate.
  intro H. apply andb_prop in H. destruct H as [H1 H2]. apply str_eqb_eq in H1. apply Z.eqb_eq in H2. subst.
  eexists. reflexivity.
Qed.

Lemma month_words : forall lang mi, In lang [EN; TR] -> In mi (month_rows lang) ->
  let m := mi_month mi in
  let l1 := s "5 " ++ uppercase_first_letter (mi_long mi) in
  let l2 := s "5 " ++ uppercase_first_letter (mi_short mi) ++ s " 2020" in
  date_print DC lang (ck_year CK15) (days_from_civil (ck_year CK15) m 5) (cf_tz DC) = l1 /\
  date_print DC lang (ck_year CK15) (days_from_civil 2020 m 5) (cf_tz DC) = l2 /\
  (exists tz, enter CK15 DC lang l1 = Some (l1, Some (TDate (days_from_civil (ck_year CK15) m 5) tz))) /\
  (exists tz, enter CK15 DC lang l2 = Some (l2, Some (TDate (days_from_civil 2020 m 5) tz))).
Proof.
  intros lang mi Hl Hin m l1 l2. pose proof month_rows_ok as H. rewrite forallb_forall in H.
  specialize (H lang Hl). apply andb_prop in H. destruct H as [H _]. rewrite forallb_forall in H.
  specialize (H mi Hin). unfold month_row_ok in H. fold m l1 l2 in H.
  apply andb_prop in H. destruct H as [H H4]. apply andb_prop in H. destruct H as [H H3].
  apply andb_prop in H. destruct H as [H1 H2]. apply str_eqb_eq in H1. apply str_eqb_eq in H2.
  split; [exact H1|]. split; [exact H2|]. split; apply date_is_true; assumption.
Qed.

(* ---- 1d. zone names: `10:30 Z` for every zone of the table prints a text that prints itself again with the
        same value; for the 174 zones the zone regex can express and that are no currency code the value is the
        time in that zone and the text is `10:30:00 Z` *)
Definition zone_time (p : str * Z) : bool :=
  match enter CK15 DC EN (s "10:30 " ++ fst p) with
  | Some (out, Some (TTime t z)) =>
    str_eqb (tz_name z) (fst p) && Z.eqb (tz_off z) (snd p) && str_eqb out (s "10:30:00 " ++ fst p)
  | _ => false
  end.

Lemma zone_rows_ok :
  forallb (fun p => reprints_value CK15 DC EN (s "10:30 " ++ fst p)) d_timezones = true /\
  length (filter zone_time d_timezones) = 174%nat /\ length d_timezones = 191%nat.
Proof. vm_compute. repeat split; reflexivity. Qed.

Lemma zone_words : forall n o, In (n, o) d_timezones ->
  Reprintable_value CK15 DC EN (s "10:30 " ++ n) /\ prints CK15 DC EN (s "10:30 " ++ n) = true.
Proof.
  intros n o Hin. destruct zone_rows_ok as [H _]. rewrite forallb_forall in H. specialize (H (n, o) Hin).
  cbn [fst] in H. apply reprints_value_sound in H. destruct H as [Hp Hr]. split; assumption.
Qed.

Lemma zone_times : forall n o, zone_time (n, o) = true ->
  exists t, enter CK15 DC EN (s "10:30 " ++ n)
            = Some (s "10:30:00 " ++ n, Some (TTime t {| tz_name := n; tz_off := o |})).
Proof.
  intros n o H. unfold zone_time in H. change (fst (n, o)) with n in H. change (snd (n, o)) with o in H.
  destruct (enter CK15 DC EN (s "10:30 " ++ n)) as [[out [tk|]]|]; try discriminate.
  destruct tk; try discriminate. apply andb_prop in H. destruct H as [H H3]. apply andb_prop in H. destruct H as [H1 H2].
  apply str_eqb_eq in H1. apply Z.eqb_eq in H2. apply str_eqb_eq in H3. destruct tz as [zn zo].
  change (zn = n) in H1. change (zo = o) in H2. subst. eexists. reflexivity.
Qed.

(* ---- 1e. currencies: the partition of the table.  money_print writes the currency's symbol; the reader
        (read_currency) knows alias keys and codes.  SPEC SIDE (from config.json parse.money): the name the money
        regexes capture from the printed text - `\p{Sc}` directly in front of the amount, or `[ ]*[a-zA-Z]{2,}` /
        `[ ]*\p{Sc}` behind it *)
Definition is_sc (c : N) : bool :=
  existsb (N.eqb c) [36; 162; 163; 164; 165; 1423; 1547; 2046; 2047; 2546; 2547; 2555; 2801; 3065; 3647; 6107;
                     8352; 8353; 8354; 8355; 8356; 8357; 8358; 8359; 8360; 8361; 8362; 8363; 8364; 8365; 8366; 8367;
                     8368; 8369; 8370; 8371; 8372; 8373; 8374; 8375; 8376; 8377; 8378; 8379; 8380; 8381; 8382; 8383;
                     8384; 43064; 65020; 65129; 65284; 65504; 65505; 65509; 65510]%N.
Definition is_ascii_letter (c : N) : bool := (N.leb 65 c && N.leb c 90) || (N.leb 97 c && N.leb c 122).
Fixpoint take_letters (x : str) : str :=
  match x with c :: r => if is_ascii_letter c then c :: take_letters r else [] | [] => [] end.

Definition reader_name (c : currency) : option str :=
  let sym := c_symbol c in
  if c_left c then
    match rev sym with
    | l :: _ => if negb (c_space c) && is_sc l then Some [l] else None
    | [] => None
    end
  else
    let w := take_letters sym in
    if Nat.leb 2 (length w) then Some w
    else match sym with f :: _ => if is_sc f then Some [f] else None | [] => None end.

(* read_currency on that name: the currency it denotes *)
Definition reads_as (c : currency) : option str :=
  match reader_name c with
  | Some n => read_currency DC n
  | None => None
  end.

Definition rereadable (kv : str * currency) : bool :=
  match reads_as (snd kv) with Some code => str_eqb code (c_code (snd kv)) | None => false end.
(* the printed text is exactly what some re-readable currency prints (18 currencies print like USD: `$1.234,50`) *)
Definition prints_like_rereadable (kv : str * currency) : bool :=
  match reads_as (snd kv) with
  | Some code =>
    match currency_by_code DC code with
    | Some c' => str_eqb (c_symbol c') (c_symbol (snd kv)) && Bool.eqb (c_left c') (c_left (snd kv)) &&
                 Bool.eqb (c_space c') (c_space (snd kv)) && N.eqb (c_digits c') (c_digits (snd kv)) &&
                 rereadable (code, c')
    | None => false
    end
  | None => false
  end.

Definition money_line (kv : str * currency) : str := s "1234,5 " ++ fst kv.

(* the pipeline agrees with the spec-side partition on every row: the printed money is read back as the same
   amount of the same currency exactly for the re-readable rows, and prints the same TEXT again exactly for the rows
   that print like a re-readable currency *)
Definition currency_row_ok (kv : str * currency) : bool :=
  prints CK15 DC EN (money_line kv) &&
  Bool.eqb (reprints_value CK15 DC EN (money_line kv)) (rereadable kv) &&
  Bool.eqb (reprints CK15 DC EN (money_line kv)) (prints_like_rereadable kv).

Lemma currency_rows_ok : forallb currency_row_ok d_currency = true.
Proof. vm_compute. reflexivity. Qed.

Lemma currency_partition_lists :
  map fst (filter rereadable d_currency) = [s "dkk"; s "eur"; s "mvr"; s "tjs"; s "try"; s "usd"] /\
  length d_currency = 161%nat /\
  length (filter prints_like_rereadable d_currency) = 24%nat /\
  length (filter (fun kv => match reads_as (snd kv) with None => true | Some _ => false end) d_currency) = 125%nat.
Proof. vm_compute. repeat split; reflexivity. Qed.

Lemma currency_partition : forall kv, In kv d_currency ->
  prints CK15 DC EN (money_line kv) = true /\
  (rereadable kv = true -> Reprintable_value CK15 DC EN (money_line kv)) /\
  (prints_like_rereadable kv = true -> Reprintable CK15 DC EN (money_line kv)) /\
  (prints_like_rereadable kv = false -> ~ Reprintable CK15 DC EN (money_line kv)).
Proof.
  intros kv Hin. pose proof currency_rows_ok as H. rewrite forallb_forall in H. specialize (H kv Hin).
  unfold currency_row_ok in H. apply andb_prop in H. destruct H as [H H3]. apply andb_prop in H. destruct H as [H1 H2].
  apply Bool.eqb_prop in H2. apply Bool.eqb_prop in H3.
  split; [exact H1|]. split; [|split].
  - intro Hr. rewrite Hr in H2. apply reprints_value_sound in H2. apply H2.
  - intro Hr. rewrite Hr in H3. apply reprints_sound in H3. apply H3.
  - intro Hr. rewrite Hr in H3. apply refutes_sound. unfold refutes. rewrite H1, H3. reflexivity.
Qed.

(* ---- 1f. units through the pipeline: every unit, entered with every one of its names that a parse pattern `{NUMBER:value} {TEXT:type:name}` carries, prints a text that prints
        itself again with the same value (default separators and the three other lexable conventions) *)
Definition unit_lines (d : str) : list str :=
  flat_map (fun gr => map (fun nm => s "1234" ++ d ++ s "5 " ++ nm)
                         (filter (fun nm => mem_str (s "{NUMBER:value} {TEXT:type:" ++ nm ++ s "}") (ur_parse (snd gr)))
                                 (ur_names (snd gr)))) all_unit_rows.

Definition is_unit (r : option (str * option (token float))) : bool :=
  match r with Some (_, Some (TDynamicType _ _)) => true | _ => false end.

Lemma unit_lines_ok :
  forallb (fun l => reprints_value CK15 DC EN l && is_unit (enter CK15 DC EN l)) (unit_lines (s ",")) = true /\
  forallb (fun l => reprints_value CK15 (cfg_seps (s ".") (s ",")) EN l) (unit_lines (s ".")) = true /\
  forallb (fun l => reprints_value CK15 (cfg_seps (s ".") []) TR l) (unit_lines (s ".")) = true /\
  forallb (fun l => reprints_value CK15 (cfg_seps (s ",") []) TR l) (unit_lines (s ",")) = true /\
  length (unit_lines (s ",")) = 61%nat.
Proof. vm_compute. repeat split; reflexivity. Qed.

(* ================================================================ 2. based integers (composition of C13) *)
Section Based.
Context {F : Type} {NF : Num F}.

(* print, read the digits back, print again: the same text, for every non-negative value the number type holds
   exactly after the cast (side condition of C13_print_read_int; every |n| <= 2^53 at binary64) *)
Theorem based_roundtrip : forall cfg lang year (x : F) t, based t -> 0 <= as_i64 x ->
  as_i64 (fofZ (as_i64 x) : F) = as_i64 x ->
  exists ds y,
    item_print cfg lang year (INumber x t) = Ok (prefix_of t ++ ds) /\
    from_radix (base_of t) ds = Some y /\
    item_print cfg lang year (INumber y t) = Ok (prefix_of t ++ ds).
Proof.
  intros cfg lang year x t Hb Hx Hrt.
  destruct (print_read cfg lang year x t Hb Hx) as [ds [H1 [H2 [_ H4]]]].
  exists ds, (fofZ (as_i64 x)). split; [exact H1|]. split; [exact H4|].
  rewrite print_based by exact Hb. rewrite Hrt.
  destruct (Z.ltb_spec (as_i64 x) 0) as [Hlt|_]; [lia|]. rewrite <- H2. reflexivity.
Qed.
End Based.

(* ================================================================ 3. durations *)
(* a printed part `count word` re-read by the duration rule (word -> constant of the same unit, 1a) *)
Definition reread_part (p : durkind * Z) : option Z := duration_of_const (kind_const (fst p)) (snd p).
Definition part_secs (p : durkind * Z) : Z := snd p * unit_len (fst p).

Lemma const_kind_kind_const k : const_kind (kind_const k) = Some k.
Proof. destruct k; reflexivity. Qed.

Lemma parts_sum_fold ps : forall acc, fold_left Z.add (map part_secs ps) acc = acc + parts_sum ps.
Proof.
  induction ps as [|[k c] r IH]; intro acc; cbn [map fold_left parts_sum]; [lia|].
  rewrite IH. unfold part_secs. cbn [fst snd]. lia.
Qed.

Lemma part_le_sum ps : Forall (fun p => 0 < snd p) ps ->
  0 <= parts_sum ps /\ forall p, In p ps -> 0 <= part_secs p <= parts_sum ps.
Proof.
  induction 1 as [|[k c] r Hc _ IH]; cbn [parts_sum]; [split; [lia|intros p []]|].
  destruct IH as [IH0 IH]. cbn [snd] in Hc.
  assert (Hu : 0 < unit_len k) by (destruct k; reflexivity).
  assert (0 <= c * unit_len k) by nia. split; [lia|].
  intros p [<-|Hin]; unfold part_secs; cbn [fst snd]; [lia|]. specialize (IH p Hin). unfold part_secs in IH. lia.
Qed.

Lemma firstn_sum_nonneg ds : Forall (fun d => 0 <= d) ds -> forall j acc, 0 <= acc ->
  acc <= fold_left Z.add (firstn j ds) acc <= fold_left Z.add ds acc.
Proof.
  induction 1 as [|d r Hd _ IH]; intros j acc Hacc.
  - destruct j; cbn; lia.
  - destruct j as [|j]; cbn [firstn fold_left].
    + specialize (IH 0%nat (acc + d)). cbn [firstn fold_left] in IH. lia.
    + specialize (IH j (acc + d)). lia.
Qed.

(* every part the printer writes, re-read, denotes count * unit length - provided the month count is below 12 (it can
   be 12: known finding C15-K6) - and the parts sum to the magnitude: UNBOUNDED, every duration chrono can hold *)
Theorem duration_parts_reread : forall secs, in_range secs ->
  (forall c, In (DMonth, c) (dur_parts secs) -> c < 12) ->
  Forall (fun p => reread_part p = Some (part_secs p)) (dur_parts secs) /\
  parts_sum (dur_parts secs) = Z.abs secs.
Proof.
  intros secs Hr Hm. pose proof (greedy_sum secs) as Hs. split; [|exact Hs].
  destruct (greedy_shape secs) as [Hok _].
  assert (Hpos : Forall (fun p => 0 < snd p) (dur_parts secs)).
  { eapply Forall_impl; [|exact Hok]. intros p [H _]. exact H. }
  destruct (part_le_sum _ Hpos) as [_ Hle]. rewrite Hs in Hle.
  assert (Habs : Z.abs secs <= DUR_MAX) by (unfold in_range in Hr; lia).
  rewrite Forall_forall. intros [k c] Hin. specialize (Hle _ Hin). unfold part_secs in *. cbn [fst snd] in *.
  rewrite Forall_forall in Hok. destruct (Hok _ Hin) as [Hc Hb]. cbn [fst snd] in Hc, Hb.
  unfold reread_part. cbn [fst snd].
  destruct k; try (apply parse_units; [reflexivity|discriminate|unfold in_range; lia]).
  (* months *)
  specialize (Hm c Hin). cbn [kind_const]. rewrite parse_month by (first [lia | unfold in_range; rewrite DUR_MAX_val; lia]).
  rewrite Z.div_small by lia. rewrite Z.mod_small by lia. f_equal; lia.
Qed.

Section Combine.
Context {F : Type} {NF : Num F}.
Lemma forall2_reread (tis : list (token_info F)) ps :
  Forall (fun p => reread_part p = Some (part_secs p)) ps ->
  Forall2 (fun ti p => exists d, reread_part p = Some d /\ ti_ty ti = Some (TDuration d)) tis ps ->
  Forall2 (fun ti d => ti_ty ti = Some (TDuration d)) tis (map part_secs ps).
Proof.
  intros Hre Hf. induction Hf as [|ti p tis' ps' [d [Hd Ht]] _ IH]; cbn [map]; constructor.
  - inversion Hre as [|? ? Hp _]; subst. rewrite Hp in Hd. inversion Hd; subst. exact Ht.
  - apply IH. inversion Hre; assumption.
Qed.

(* ... and the combine rule on the re-read parts (two or more) gives back the magnitude *)
Theorem duration_recombine : forall (vs : vars F) secs tis, in_range secs ->
  (forall c, In (DMonth, c) (dur_parts secs) -> c < 12) ->
  Forall2 (fun ti p => exists d, reread_part p = Some d /\ ti_ty ti = Some (TDuration d)) tis (dur_parts secs) ->
  (2 <= length tis)%nat ->
  combine_durations vs (dur_fields tis) = Ok (Some (TDuration (Z.abs secs))).
Proof.
  intros vs secs tis Hr Hm Hf Hlen. destruct (duration_parts_reread secs Hr Hm) as [Hre Hs].
  pose proof (forall2_reread tis _ Hre Hf) as Hf'.
  rewrite (additive_combine_exact vs tis _ Hf' Hlen).
  destruct (greedy_shape secs) as [Hok _].
  assert (Hnn : Forall (fun d => 0 <= d) (map part_secs (dur_parts secs))).
  { rewrite Forall_forall. intros d Hd. apply in_map_iff in Hd. destruct Hd as [[k c] [<- Hin]].
    rewrite Forall_forall in Hok. destruct (Hok _ Hin) as [Hc _]. unfold part_secs. cbn [fst snd] in *.
    assert (0 < unit_len k) by (destruct k; reflexivity). nia. }
  rewrite sum_checked_ok.
  - rewrite parts_sum_fold, Hs. reflexivity.
  - intros j _. pose proof (firstn_sum_nonneg _ Hnn j 0 (Z.le_refl 0)) as Hj.
    rewrite parts_sum_fold, Hs in Hj. unfold in_range in *. lia.
Qed.
End Combine.

(* the printer does write 12 months, and 12 months re-read are a 365-day year: 5 days more *)
Lemma twelve_months_refuted :
  dur_parts (364 * 86400) = [(DMonth, 12); (DDay, 4)] /\
  reread_part (DMonth, 12) = Some (365 * 86400) /\ part_secs (DMonth, 12) = 360 * 86400 /\
  dur_parts (729 * 86400) = [(DYear, 1); (DMonth, 12); (DDay, 4)].
Proof. vm_compute. repeat split; reflexivity. Qed.

(* when does it happen: exactly when the remainder after the whole years reaches 360 days *)
Lemma twelve_months_iff : forall secs,
  (exists c, In (DMonth, c) (dur_parts secs) /\ 12 <= c) <-> 12 * MONTH <= Z.abs secs mod YEAR.
Proof.
  intro secs. unfold dur_parts. set (d := Z.abs secs). assert (Hd : 0 <= d) by apply Z.abs_nonneg.
  cbn [dur_parts_from dur_unit].
  assert (HY : YEAR = 31536000) by reflexivity. assert (HM : MONTH = 2592000) by reflexivity.
  assert (Hmod : 0 <= d mod YEAR < YEAR) by (apply Z.mod_pos_bound; rewrite HY; lia).
  (* the month part depends only on the remainder after the years *)
  assert (Hrem : forall r, 0 <= r ->
            (exists c, In (DMonth, c)
               (let '(ps, rest) := (if MONTH <=? r
                  then let '(ps, rest) := dur_parts_from [DWeek; DDay; DHour; DMinute] (r mod MONTH) in ((DMonth, r / MONTH) :: ps, rest)
                  else dur_parts_from [DWeek; DDay; DHour; DMinute] r) in
                ps ++ (if 0 <? rest then [(DSecond, rest)] else [])) /\ 12 <= c) <-> 12 * MONTH <= r).
  { intros r Hr. assert (Hno : forall x c, ~ In (DMonth, c)
       (let '(ps, rest) := dur_parts_from [DWeek; DDay; DHour; DMinute] x in ps ++ (if 0 <? rest then [(DSecond, rest)] else []))).
    { intros x c. cbn [dur_parts_from dur_unit].
      repeat match goal with |- context [if ?b then _ else _] => destruct b end;
        cbn [app In]; intro H; repeat (destruct H as [H|H]; [discriminate|]); exact H. }
    destruct (Z.leb_spec MONTH r) as [Hge|Hlt].
    - specialize (Hno (r mod MONTH)). destruct (dur_parts_from [DWeek; DDay; DHour; DMinute] (r mod MONTH)) as [ps rest].
      cbn [app In]. split.
      + intros [c [[E|Hin] Hc]]; [inversion E; subst c; rewrite HM in *; lia|exfalso; exact (Hno c Hin)].
      + intro H. exists (r / MONTH). split; [left; reflexivity|]. rewrite HM in *. lia.
    - specialize (Hno r). destruct (dur_parts_from [DWeek; DDay; DHour; DMinute] r) as [ps rest]. split.
      + intros [c [Hin _]]. exfalso. exact (Hno c Hin).
      + intro H. rewrite HM in *. lia. }
  destruct (Z.leb_spec YEAR d) as [Hge|Hlt].
  - specialize (Hrem (d mod YEAR) (proj1 Hmod)).
    destruct (if MONTH <=? d mod YEAR then _ else _) as [ps rest] eqn:E in Hrem |- *.
    cbn [app In]. rewrite <- Hrem. split.
    + intros [c [[E'|Hin] Hc]]; [discriminate|]. exists c. split; assumption.
    + intros [c [Hin Hc]]. exists c. split; [right; exact Hin|exact Hc].
  - rewrite (Z.mod_small d YEAR) by lia. apply Hrem. exact Hd.
Qed.

(* ================================================================ 5. whole-pipeline families *)
(* representative values of every kind; each line prints a value whose text prints itself again *)
Definition en_family : list str :=
  map s ["0"; "7"; "-7"; "999"; "1000"; "1234,5"; "-1234,5"; "1234567,891"; "-1234567,891"; "0,5"; "0,05"; "0,005"; "0,004";
         "99,995"; "999999,995"; "123456789012"; "1000000 * 1000000 * 1000"; "1/3"; "2/3"; "10/4"; "0 - 1/3"; "1M"; "2,5k";
         "10%"; "12,5%"; "-5%"; "1234,5%"; "%50"; "0,5%"; "1234567%";
         "10 usd"; "1234,5 usd"; "-10 usd"; "$10"; "10 $"; "10 dollar"; "10 eur"; "10 euro"; "1234567,891 eur"; "10 try"; "10 tl";
         "10 dkk"; "10 kr"; "10 kroner"; "10 mvr"; "10 tjs"; "10 usd to try"; "10% on 50 usd";
         "1 second"; "2 seconds"; "1 minute"; "45 minutes"; "1 hour"; "3 hours 5 minutes"; "1 day"; "6 days"; "1 week"; "4 weeks";
         "1 month"; "11 months"; "13 months"; "1 year"; "30 years";
         "1 year 1 month 1 week 1 day 1 hour 1 minute 1 second"; "2 years 3 months 2 weeks 4 days 5 hours 6 minutes 7 seconds";
         "1 day - 3 days"; "100 days"; "1000000 seconds"; "400 days + 5 hours"; "12:30 to 14:45";
         "12:30"; "0:00"; "23:59:59"; "11:30 pm"; "12:00 am"; "7:05:09"; "12:30 EST"; "12:30 GMT+3"; "12:30 GMT-5";
         "9:15 GMT+05:30"; "10:00 EST + 90 minutes"; "23:30 EST to UTC";
         "5 feb 2020"; "5 february"; "17 august"; "31 dec 1999"; "1 jan 2035"; "today"; "tomorrow"; "yesterday";
         "5 feb 2020 + 3 weeks"; "1/2/2021"; "5 feb 999"; "5 feb 10000";
         "10 km"; "1234,5 km"; "-3 kg"; "0,25 inch"; "1 mb"; "1,5 kb"; "1500 kb"; "3 bit"; "1 km to m"; "1 inch to mm";
         "5 mb to kb"; "3 km + 500 m"; "1 tb to byte";
         "255 to hex"; "8 to octal"; "5 to binary"; "0xFF"; "0o17"; "0b101"; "0 to hex"; "4096 to hex"; "1000000 to hex";
         "4611686018427387904 to hex"; "65535 to binary"; "511 to octal"; "0xff + 1"; "0b11 * 0b10"; "2,5 to hex";
         "0x7FFFFFFFFFFFFFFF"; "0xDEADBEEF"; "0X1F"; "16 hex"; "0xFF to decimal"]%string.

Definition tr_family : list str :=
  [[49;50;51;52;44;53]%N (* 1234,5 *);
   [45;49;50;51;52;44;53]%N (* -1234,5 *);
   [49;50;51;52;53;54;55;44;56;57;49]%N (* 1234567,891 *);
   [49;47;51]%N (* 1/3 *);
   [49;48;37]%N (* 10% *);
   [49;50;44;53;37]%N (* 12,5% *);
   [49;48;32;117;115;100]%N (* 10 usd *);
   [49;48;32;116;114;121]%N (* 10 try *);
   [49;48;32;101;117;114]%N (* 10 eur *);
   [49;50;51;52;44;53;32;100;107;107]%N (* 1234,5 dkk *);
   [51;32;115;97;97;116;32;53;32;100;97;107;105;107;97]%N (* 3 saat 5 dakika *);
   [49;32;121;305;108;32;50;32;97;121;32;49;32;104;97;102;116;97;32;51;32;103;252;110;32;52;32;115;97;97;116;32;53;32;100;97;107;105;107;97;32;54;32;115;97;110;105;121;101]%N
     (* 1 yil 2 ay 1 hafta 3 gun 4 saat 5 dakika 6 saniye, dotless i / u-umlaut spellings *);
   [50;32;121;105;108]%N (* 2 yil *);
   [52;53;32;115;97;110;105;121;101]%N (* 45 saniye *);
   [49;32;103;252;110]%N (* 1 gun (u-umlaut) *);
   [53;32;351;117;98;97;116;32;50;48;50;48]%N (* 5 subat 2020 (s-cedilla) *);
   [53;32;351;117;98;97;116]%N (* 5 subat *);
   [49;55;32;97;287;117;115;116;111;115]%N (* 17 agustos (g-breve) *);
   [49;32;111;99;97;107;32;49;57;57;57]%N (* 1 ocak 1999 *);
   [55;32;97;114;97;108;305;107;32;50;48;50;49]%N (* 7 aralik 2021 (dotless i) *);
   [98;117;103;252;110]%N (* bugun *);
   [121;97;114;305;110]%N (* yarin *);
   [100;252;110]%N (* dun *);
   [49;48;32;107;109]%N (* 10 km *);
   [49;50;51;52;44;53;32;107;103]%N (* 1234,5 kg *);
   [49;32;109;98]%N (* 1 mb *);
   [48;120;70;70]%N (* 0xFF *);
   [48;98;49;48;49]%N (* 0b101 *);
   [48;111;49;55]%N (* 0o17 *);
   [53;32;351;117;98;97;116;32;50;48;50;48;32;43;32;51;32;104;97;102;116;97]%N (* 5 subat 2020 + 3 hafta *);
   [49;48;48;32;103;252;110]%N (* 100 gun *);
   (* a time prints with its zone; tr joins them since /repo fix (time_with_timezone rule) *)
   [49;50;58;51;48]%N (* 12:30 *);
   [50;51;58;53;57;58;53;57]%N (* 23:59:59 *);
   [49;50;58;51;48;32;69;83;84]%N (* 12:30 EST *);
   [49;50;58;51;48;32;71;77;84;43;51]%N (* 12:30 GMT+3 *);
   [49;50;58;51;48;58;48;48;32;85;84;67]%N (* 12:30:00 UTC *)].

(* the same values under the other lexable separator conventions and digit settings *)
Definition sep_family (d : string) : list str :=
  map (fun x => replace_all (s "#") (s d) (s x))
      ["1234#5"; "-1234#5"; "1234567#891"; "0#5"; "1/3"; "1M"; "12#5%"; "1234#5%"; "1234#5 usd"; "1234567#891 eur"; "10 try";
       "1234#5 dkk"; "1234#5 km"; "1234567 kb"; "1234567 seconds"; "255 to hex"; "12:30"; "5 feb 2020"]%string.

Definition digit_family : list str :=
  map s ["1234,5"; "1/3"; "0,1 + 0,2"; "1234567,891"; "0 - 2/3"; "5"; "0,000001"; "123456,789 * 1000"; "12,345%"; "1234,5678%"]%string.

Definition digit_settings : list (N * bool * bool) :=
  [(0, true, true); (0, false, true); (1, false, true); (3, true, true); (3, false, true); (5, true, true);
   (9, false, true); (2, true, false); (2, false, false); (4, false, false)]%N.

Lemma families_ok :
  forallb (reprints CK15 DC EN) en_family = true /\
  forallb (reprints CK15 DC TR) tr_family = true /\
  forallb (reprints CK15 (cfg_seps (s ".") (s ",")) EN) (sep_family ".") = true /\
  forallb (reprints CK15 (cfg_seps (s ".") []) EN) (sep_family ".") = true /\
  forallb (reprints CK15 (cfg_seps (s ",") []) EN) (sep_family ",") = true /\
  forallb (fun st => let '(n, rm, rnd) := st in
             forallb (reprints CK15 (cfg_num DC n rm rnd) EN) digit_family) digit_settings = true.
Proof. vm_compute. repeat split; reflexivity. Qed.

Lemma families_sizes :
  length en_family = 127%nat /\ length tr_family = 36%nat /\ length (sep_family ".") = 18%nat /\
  length digit_family = 10%nat /\ length digit_settings = 10%nat.
Proof. vm_compute. repeat split; reflexivity. Qed.

(* ---- the known findings, each through the model's pipeline: the line prints a value and the printed text does
        not print itself again *)
Definition tr_time_cfg := DC.
Definition refuted_rows : list (config float * str * str * str) :=
  [ (DC, EN, s "-0,004", s "-0")                                           (* C15-K1 negative zero *)
  ; (DC, EN, s "-0,004%", s "%-0")
  ; (cfg_seps (s ",") (s " "), EN, s "1234,5", s "1 234,50")                (* C15-K2 separator outside [.,] *)
  ; (cfg_seps (s ".") (s "'"), EN, s "1234.5", s "1'234.50")
  ; (DC, EN, s "10 gbp", [163;49;48;44;48;48]%N)                            (* C15-K3 symbol no reader name: GBP *)
  ; (DC, EN, s "10 chf", s "CHF 10,00")
  ; (DC, EN, s "10 bgn", [49;48;44;48;48;32;1083;1074;46]%N)                (* BGN: configured alias, not lexable *)
  ; (DC, EN, s "10 sek", s "10,00 kr")                                      (* C15-K4 symbol names DKK *)
  ; (DC, EN, s "10 hkd", s "HK$10,00")
  ; (DC, EN, s "1 day - 1 day", [])                                         (* C15-K5 zero duration *)
  ; (DC, EN, s "364 days", s "12 months 4 days")                            (* C15-K6 twelve months *)
  ; (DC, EN, s "1600000000 to date", s "13 Sep 2020 12:26:40 UTC")          (* C15-K8 date-time *)
  ; (DC, EN, s "5 feb 2020 at 12:30", s "5 Feb 2020 12:30:00 UTC")
  ; (DC, EN, s "5 feb 2020 to unix", s "1580860800")                        (* C15-K9 raw timestamp *)
  ; (DC, EN, s "205 to hex", s "0xCD") ].                                   (* C15-K10 hex digits spell a currency *)

Definition refuted_row_ok (r : config float * str * str * str) : bool :=
  let '(cfg, lang, line, out) := r in
  match enter CK15 cfg lang line with Some (o, _) => str_eqb o out | None => false end && refutes CK15 cfg lang line.

Lemma refuted_rows_ok : forallb refuted_row_ok refuted_rows = true.
Proof. vm_compute. reflexivity. Qed.

Lemma refuted : forall cfg lang line out, In (cfg, lang, line, out) refuted_rows ->
  (exists v, enter CK15 cfg lang line = Some (out, v)) /\ ~ Reprintable CK15 cfg lang line.
Proof.
  intros cfg lang line out Hin. pose proof refuted_rows_ok as H. rewrite forallb_forall in H.
  specialize (H _ Hin). unfold refuted_row_ok in H. apply andb_prop in H. destruct H as [H1 H2]. split.
  - destruct (enter CK15 cfg lang line) as [[o v]|]; [|discriminate]. apply str_eqb_eq in H1. subst o. exists v. reflexivity.
  - apply refutes_sound. exact H2.
Qed.

(* what the re-entered texts of the witnesses print instead *)
Lemma refuted_outputs :
  option_map fst (enter CK15 DC EN (s "-0")) = Some (s "0") /\
  option_map fst (enter CK15 (cfg_seps (s ",") (s " ")) EN (s "1 234,50")) = Some (s "235,50") /\
  option_map fst (enter CK15 DC EN [163;49;48;44;48;48]%N) = Some (s "0") /\
  option_map fst (enter CK15 DC EN (s "10,00 kr")) = Some (s "10,00 kr.") /\
  enter CK15 DC EN [] = None /\
  option_map fst (enter CK15 DC EN (s "12 months 4 days")) = Some (s "1 year 4 days") /\
  enter CK15 DC EN (s "13 Sep 2020 12:26:40 UTC") = None /\
  option_map fst (enter CK15 DC EN (s "1580860800")) = Some (s "1.580.860.800") /\
  option_map fst (enter CK15 DC EN (s "0xCD")) = Some (s "$0,00").
Proof. vm_compute. repeat split; reflexivity. Qed.

(* ================================================================ 6. the full statement and what is proved *)
(* the property in full: for EVERY configuration, language, clock and line *)
Definition C15_full : Prop := forall ck cfg lang line, Reprintable ck cfg lang line.

(* it does not hold (15 witnesses, 9 mechanisms) ... *)
Lemma full_refuted : ~ C15_full.
Proof.
  intro H. destruct (refuted DC EN (s "-0,004") (s "-0")) as [_ Hn]; [left; reflexivity|]. apply Hn. apply H.
Qed.

(* ... what is proved end to end is Reprintable at the clock CK15 on the stated finite families (the value behind the
   re-entered text is the printed, i.e. rounded, value: `1/3` prints 0,33 and 0,33 prints 0,33) *)
Lemma families_reprintable :
  (forall l, In l en_family -> Reprintable CK15 DC EN l /\ prints CK15 DC EN l = true) /\
  (forall l, In l tr_family -> Reprintable CK15 DC TR l /\ prints CK15 DC TR l = true) /\
  (forall l, In l (sep_family ".") -> Reprintable CK15 (cfg_seps (s ".") (s ",")) EN l /\
                                      Reprintable CK15 (cfg_seps (s ".") []) EN l) /\
  (forall l, In l (sep_family ",") -> Reprintable CK15 (cfg_seps (s ",") []) EN l) /\
  (forall n rm rnd l, In (n, rm, rnd) digit_settings -> In l digit_family ->
     Reprintable CK15 (cfg_num DC n rm rnd) EN l).
Proof.
  destruct families_ok as [H1 [H2 [H3 [H4 [H5 H6]]]]].
  rewrite forallb_forall in H1, H2, H3, H4, H5, H6.
  split; [|split; [|split; [|split]]].
  - intros l Hl. destruct (reprints_sound _ _ _ _ (H1 l Hl)). split; assumption.
  - intros l Hl. destruct (reprints_sound _ _ _ _ (H2 l Hl)). split; assumption.
  - intros l Hl. split; [apply (reprints_sound _ _ _ _ (H3 l Hl))|apply (reprints_sound _ _ _ _ (H4 l Hl))].
  - intros l Hl. apply (reprints_sound _ _ _ _ (H5 l Hl)).
  - intros n rm rnd l Hs Hl. specialize (H6 _ Hs). cbn beta iota in H6. rewrite forallb_forall in H6.
    apply (reprints_sound _ _ _ _ (H6 l Hl)).
Qed.

Lemma unit_lines_reprintable :
  (forall l, In l (unit_lines (s ",")) ->
     Reprintable_value CK15 DC EN l /\ is_unit (enter CK15 DC EN l) = true) /\
  (forall l, In l (unit_lines (s ".")) ->
     Reprintable_value CK15 (cfg_seps (s ".") (s ",")) EN l /\ Reprintable_value CK15 (cfg_seps (s ".") []) TR l) /\
  (forall l, In l (unit_lines (s ",")) -> Reprintable_value CK15 (cfg_seps (s ",") []) TR l) /\
  length (unit_lines (s ",")) = 61%nat.
Proof.
  destruct unit_lines_ok as [H1 [H2 [H3 [H4 H5]]]]. rewrite forallb_forall in H1, H2, H3, H4.
  split; [|split; [|split; [|exact H5]]].
  - intros l Hl. specialize (H1 l Hl). apply andb_prop in H1. destruct H1 as [Ha Hb].
    split; [apply (reprints_value_sound _ _ _ _ Ha)|exact Hb].
  - intros l Hl. split; [apply (reprints_value_sound _ _ _ _ (H2 l Hl))|apply (reprints_value_sound _ _ _ _ (H3 l Hl))].
  - intros l Hl. apply (reprints_value_sound _ _ _ _ (H4 l Hl)).
Qed.

Lemma full_partial : ~ C15_full /\
  (forall l, In l en_family -> Reprintable CK15 DC EN l /\ prints CK15 DC EN l = true) /\
  (forall l, In l tr_family -> Reprintable CK15 DC TR l /\ prints CK15 DC TR l = true).
Proof.
  split; [exact full_refuted|]. destruct families_reprintable as [H1 [H2 _]]. split; assumption.
Qed.

(* ================================================================ 4. numbers *)
Section Number.
Context {F : Type} {NF : Num F}.

Lemma find_index_dot ip fp : free 46%N ip -> find_index (N.eqb 46) (ip ++ 46%N :: fp) = Some (length ip).
Proof.
  induction 1 as [|c r Hc _ IH]; cbn [app find_index length]; [reflexivity|].
  destruct (N.eqb_spec 46 c) as [E|_]; [congruence|]. rewrite IH. reflexivity.
Qed.

Lemma find_index_none ip : free 46%N ip -> find_index (N.eqb 46) ip = None.
Proof.
  induction 1 as [|c r Hc _ IH]; cbn [find_index]; [reflexivity|].
  destruct (N.eqb_spec 46 c) as [E|_]; [congruence|]. rewrite IH. reflexivity.
Qed.

Lemma firstn_len_app {A} (a b : list A) : firstn (length a) (a ++ b) = a.
Proof. induction a; cbn; [destruct b; reflexivity|f_equal; assumption]. Qed.
Lemma skipn_S_len_app {A} (a : list A) x b : skipn (S (length a)) (a ++ x :: b) = b.
Proof. induction a; cbn [length app skipn]; [reflexivity|assumption]. Qed.

(* the grouping loop inserts nothing but the separator: removing the separator character gives the digits back,
   and a character that is neither a digit of [ds] nor the separator does not occur *)
Lemma group_loop_remove t ds : free t ds -> forall i n dot,
  subst1 t [] (group_loop ds i n dot [t]) = ds.
Proof.
  induction 1 as [|c r Hc _ IH]; intros i n dot; cbn [group_loop]; [reflexivity|].
  change (c :: ?x) with ([c] ++ x). rewrite !subst1_app. rewrite (subst1_free t [] [c]) by (constructor; [exact Hc|constructor]).
  rewrite IH. destruct (negb (Nat.eqb n (S i)) && Nat.eqb (Nat.modulo (S dot) 3) 0); [rewrite subst1_hit|]; reflexivity.
Qed.

Lemma group_loop_nosep ds : forall i n dot, group_loop ds i n dot [] = ds.
Proof.
  induction ds as [|c r IH]; intros i n dot; cbn [group_loop]; [reflexivity|].
  rewrite IH. destruct (negb (Nat.eqb n (S i)) && Nat.eqb (Nat.modulo (S dot) 3) 0); reflexivity.
Qed.

Lemma group_loop_free d t ds : free d ds -> d <> t -> forall i n dot, free d (group_loop ds i n dot [t]).
Proof.
  induction 1 as [|c r Hc _ IH]; intros Hdt i n dot; cbn [group_loop]; [constructor|].
  constructor; [exact Hc|]. apply free_app; [|apply IH; exact Hdt].
  destruct (negb (Nat.eqb n (S i)) && Nat.eqb (Nat.modulo (S dot) 3) 0); [constructor; [congruence|constructor]|constructor].
Qed.

(* the thousands separator: none, or one character *)
Definition tsep_of (t : option N) : str := match t with Some c => [c] | None => [] end.

(* what format_number writes when the rendering of |x| is ip '.' fp (or ip alone): sign, grouped ip, fraction *)
Definition printed (neg : bool) (t : option N) (d : N) (ip : str) (fp : option str) : str :=
  (if neg then [45%N] else []) ++ group_loop ip 0 (length ip) (3 - Nat.modulo (length ip) 3) (tsep_of t)
    ++ match fp with Some f => d :: f | None => [] end.

Lemma format_number_shape (x : F) t d n rm (rnd : bool) ip fp :
  (if rnd then ffixed (fabs x) n else fdisplay (fabs x)) = ip ++ match fp with Some f => 46%N :: f | None => [] end ->
  free 46%N ip ->
  format_number x (tsep_of t) [d] n rm rnd
  = Ok (printed (fltb x f0) t d ip
          (match fp with Some f => if negb (forallb (N.eqb 48) f) || negb rm then Some f else None | None => None end)).
Proof.
  intros Hst Hip. unfold format_number, printed. rewrite Hst. destruct fp as [f|].
  - rewrite find_index_dot by exact Hip. rewrite firstn_len_app, skipn_S_len_app.
    rewrite app_length. cbn [length]. replace (Nat.eqb (length ip) (length ip + S (length f))) with false
      by (symmetry; apply Nat.eqb_neq; lia).
    rewrite andb_true_r. destruct (negb (forallb (N.eqb 48) f) || negb rm); rewrite <- ?app_assoc, ?app_nil_r; reflexivity.
  - rewrite app_nil_r. rewrite find_index_none by exact Hip. rewrite firstn_all.
    rewrite Nat.eqb_refl, andb_false_r. rewrite app_nil_r. reflexivity.
Qed.

(* THE READER ON THE PRINTER'S OUTPUT, unbounded: all digit strings ip, fp, every one-character decimal separator
   and every thousands separator that is one other character or absent (neither a digit nor '-'): the text
   format_number writes is normalised by read_decimal to sign ip '.' fp - grouping and convention disappear *)
Theorem printed_normalises (cfg : config F) neg t d ip fp :
  cf_dsep cfg = [d] -> cf_tsep cfg = tsep_of t ->
  free d ip -> free 45%N [d] -> match t with Some c => free c ip /\ c <> d /\ c <> 45%N /\ c <> 46%N /\
                                                     match fp with Some f => free c f | None => True end
                                        | None => True end ->
  match fp with Some f => free d f | None => True end ->
  read_decimal cfg (printed neg t d ip fp)
  = fparse ((if neg then [45%N] else []) ++ ip ++ match fp with Some f => 46%N :: f | None => [] end).
Proof.
  intros Hd Ht Hdip Hd45 Htc Hdf. unfold read_decimal, printed. rewrite Hd, Ht. f_equal.
  assert (Hd45' : d <> 45%N) by (inversion Hd45; congruence).
  assert (Hsd : subst1 d [46%N] [45%N] = [45%N]) by (apply subst1_free; repeat constructor; congruence).
  destruct t as [c|]; cbn [tsep_of].
  - destruct Htc as [Hcip [Hcd [Hc45 [Hc46 Hcf]]]].
    assert (Hsc : subst1 c [] [45%N] = [45%N]) by (apply subst1_free; repeat constructor; congruence).
    assert (Hcdd : subst1 c [] [d] = [d]) by (apply subst1_free; repeat constructor; congruence).
    rewrite (replace_all_single c). rewrite (replace_all_single d).
    destruct neg; destruct fp as [f|]; cbn [app]; try change (d :: f) with ([d] ++ f);
      try change (45%N :: ?x) with ([45%N] ++ x);
      rewrite ?subst1_app, ?group_loop_remove by exact Hcip; rewrite ?Hsc, ?Hcdd;
      rewrite ?(subst1_free c [] f) by exact Hcf;
      rewrite ?subst1_app, ?Hsd, ?subst1_hit, ?(subst1_free d [46%N] ip) by exact Hdip;
      rewrite ?(subst1_free d [46%N] f) by exact Hdf; rewrite ?app_nil_r; reflexivity.
  - rewrite replace_all_nil_nil, group_loop_nosep. rewrite (replace_all_single d).
    destruct neg; destruct fp as [f|]; cbn [app]; try change (d :: f) with ([d] ++ f);
      try change (45%N :: ?x) with ([45%N] ++ x);
      rewrite ?subst1_app, ?Hsd, ?subst1_hit, ?(subst1_free d [46%N] ip) by exact Hdip;
      rewrite ?(subst1_free d [46%N] f) by exact Hdf; rewrite ?app_nil_r; reflexivity.
Qed.

(* format_number depends on the value only through its sign test and its rendering: a value that renders alike
   prints alike - the last step of the round trip under the stated hypothesis *)
Theorem format_number_same_rendering (x y : F) tsep dsep n rm (rnd : bool) :
  fltb y f0 = fltb x f0 ->
  (if rnd then ffixed (fabs y) n else fdisplay (fabs y)) = (if rnd then ffixed (fabs x) n else fdisplay (fabs x)) ->
  format_number y tsep dsep n rm rnd = format_number x tsep dsep n rm rnd.
Proof. intros Hs Hr. unfold format_number. rewrite Hs, Hr. reflexivity. Qed.

End Number.

(* binary64: the hypotheses of format_number_same_rendering for the value read back from the printed digits, on a
   family of values x digit counts (by computation); they FAIL for a value below zero that rounds to zero (C15-K1) *)
Definition idem64 (x : float) (n : N) : bool :=
  match fparse (F:=float) ((if fltb x f0 then [45%N] else []) ++ ffixed (fabs x) n) with
  | Some y => str_eqb (ffixed (fabs y) n) (ffixed (fabs x) n) && Bool.eqb (fltb y f0) (fltb x f0)
  | None => false
  end.

Definition number_family : list float :=
  map (fun p => f64_dec (fst p) (snd p))
      [(0, 0); (7, 0); (-7, 0); (12345, 1); (-12345, 1); (1234567891, 3); (-1234567891, 3); (5, 1); (5, 2); (5, 3); (4, 3);
       (99995, 3); (999999995, 3); (123456789012, 0); (333333333333, 12); (-666666666666, 12); (25, 1); (1, 6);
       (30000000000000004, 17); (1000000000000000000, 0)].
Definition number_digits : list N := [0; 1; 2; 3; 5; 9]%N.

Lemma number_family_idempotent :
  forallb (fun x => forallb (idem64 x) number_digits) number_family = true /\
  idem64 (f64_dec (-4) 3) 2 = false.
Proof. vm_compute. split; reflexivity. Qed.

Lemma number_family_idem : forall x n, In x number_family -> In n number_digits ->
  exists y, fparse (F:=float) ((if fltb x f0 then [45%N] else []) ++ ffixed (fabs x) n) = Some y /\
            ffixed (fabs y) n = ffixed (fabs x) n /\ fltb y f0 = fltb x f0.
Proof.
  intros x n Hx Hn. destruct number_family_idempotent as [H _]. rewrite forallb_forall in H. specialize (H x Hx).
  rewrite forallb_forall in H. specialize (H n Hn). unfold idem64 in H.
  destruct (fparse _) as [y|]; [|discriminate]. apply andb_prop in H. destruct H as [H1 H2].
  apply str_eqb_eq in H1. apply Bool.eqb_prop in H2. exists y. repeat split; assumption.
Qed.
