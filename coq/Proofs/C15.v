(* Proofs for property C15. *)
From SC.Model Require Import Base.
