(* Proofs for property C15 - printed results can be typed back in.

   Layout
     0  the end-to-end notion (Reprintable) and its executable test through Run64.exec64
     1  word tables (finite, regenerated data): duration words, month words, unit words, zone names, currencies
     2  based integers (composition of the C13 theorems)
     3  durations: the printed parts re-read and recombined give the magnitude (unbounded)
     4  numbers: the printed decimal is read back as the canonical digits; idempotence under a stated hypothesis
     5  whole-pipeline families and the refuted witnesses of the known findings C15-K1 .. C15-K10 *)
From Coq Require Import Floats Lia.
From SC.Model Require Import Base Num NumF64 FloatIO Types Config Case Chrono UiTokens Rx Post Parser Items Interp RuleFns
     Rules Format Lexer Api Run64 Corr.
From SC.Spec Require Import Calendar Duration.
From SC.Gen Require Import RustConsts ConfigData Regexes.
From SC.Proofs Require Import C10 C13.
Local Open Scope Z_scope.

(* ================================================================ 0. the end-to-end notion *)

(* the printed text and the value of a one-line evaluation *)
Definition out_of (r : res (exec_result (F:=float))) : option (str * option (token float)) :=
  match r with
  | Ok r => match er_lines r with
            | [Some o] => match lo_result o with LOk out a => Some (out, ast_as_token a) | _ => None end
            | _ => None
            end
  | Panic _ => None
  end.

Definition enter (ck : clock) (cfg : config float) (lang line : str) := out_of (exec64 ck cfg lang line).

(* THE FULL STATEMENT of the property, for one line: whatever value the line prints, the printed text is not empty
   and, entered as a new line under the same configuration, language and clock, prints the same text again *)
Definition Reprintable (ck : clock) (cfg : config float) (lang line : str) : Prop :=
  forall out v, enter ck cfg lang line = Some (out, v) ->
    out <> [] /\ exists v', enter ck cfg lang out = Some (out, v').

(* ... and the stronger reading: the value behind the re-entered text is the same value *)
Definition Reprintable_value (ck : clock) (cfg : config float) (lang line : str) : Prop :=
  forall out v, enter ck cfg lang line = Some (out, v) ->
    out <> [] /\ exists v', enter ck cfg lang out = Some (out, v') /\ opt_token_exact v v' = true.

Definition is_nil {A} (l : list A) : bool := match l with [] => true | _ => false end.

(* executable tests; a line that prints no value is (vacuously) reprintable, so [prints] is tested too *)
Definition prints (ck : clock) (cfg : config float) (lang line : str) : bool :=
  match enter ck cfg lang line with Some _ => true | None => false end.

Definition reprints (ck : clock) (cfg : config float) (lang line : str) : bool :=
  match enter ck cfg lang line with
  | Some (out, _) =>
    negb (is_nil out) &&
    match enter ck cfg lang out with Some (out', _) => str_eqb out' out | None => false end
  | None => false
  end.

Definition reprints_value (ck : clock) (cfg : config float) (lang line : str) : bool :=
  match enter ck cfg lang line with
  | Some (out, v) =>
    negb (is_nil out) &&
    match enter ck cfg lang out with Some (out', v') => str_eqb out' out && opt_token_exact v v' | None => false end
  | None => false
  end.

Lemma reprints_sound ck cfg lang line :
  reprints ck cfg lang line = true -> prints ck cfg lang line = true /\ Reprintable ck cfg lang line.
Proof.
  unfold reprints, prints, Reprintable. destruct (enter ck cfg lang line) as [[out v]|] eqn:E; [|discriminate].
  intro H. apply andb_prop in H. destruct H as [Hn Hs]. split; [reflexivity|].
  intros out0 v0 H0. inversion H0; subst out0 v0. split.
  - destruct out; [discriminate|discriminate].
  - destruct (enter ck cfg lang out) as [[out' v']|]; [|discriminate].
    apply str_eqb_eq in Hs. subst out'. exists v'. reflexivity.
Qed.

Lemma reprints_value_sound ck cfg lang line :
  reprints_value ck cfg lang line = true -> prints ck cfg lang line = true /\ Reprintable_value ck cfg lang line.
Proof.
  unfold reprints_value, prints, Reprintable_value. destruct (enter ck cfg lang line) as [[out v]|] eqn:E; [|discriminate].
  intro H. apply andb_prop in H. destruct H as [Hn Hs]. split; [reflexivity|].
  intros out0 v0 H0. inversion H0; subst out0 v0. split.
  - destruct out; [discriminate|discriminate].
  - destruct (enter ck cfg lang out) as [[out' v']|]; [|discriminate].
    apply andb_prop in Hs. destruct Hs as [Hs Hv]. apply str_eqb_eq in Hs. subst out'. exists v'. split; [reflexivity|exact Hv].
Qed.

Lemma value_implies_text ck cfg lang line : Reprintable_value ck cfg lang line -> Reprintable ck cfg lang line.
Proof.
  intros H out v E. destruct (H out v E) as [Hn [v' [E' _]]]. split; [exact Hn|]. exists v'. exact E'.
Qed.

(* a line that prints a value whose printed text does NOT print itself again *)
Definition refutes (ck : clock) (cfg : config float) (lang line : str) : bool :=
  prints ck cfg lang line && negb (reprints ck cfg lang line).

Lemma refutes_sound ck cfg lang line : refutes ck cfg lang line = true -> ~ Reprintable ck cfg lang line.
Proof.
  unfold refutes, prints, reprints, Reprintable. intros H HR.
  destruct (enter ck cfg lang line) as [[out v]|] eqn:E; [|discriminate]. cbn [andb] in H.
  destruct (HR out v eq_refl) as [Hn [v' E']]. rewrite E' in H. rewrite str_eqb_refl in H.
  destruct out; [contradiction Hn; reflexivity|]. discriminate.
Qed.

(* the clock of the families (any fixed day; 2024-10-04) and the configurations *)
Definition CK15 : clock := {| ck_today := 20000; ck_year := 2024 |}.
Definition DC : config float := default_config.
Definition cfg_seps (d t : str) : config float :=
  set_fmt DC (cf_money DC) (cf_number DC) (cf_percent DC) d t (cf_tz DC).
Definition cfg_num (c : config float) (n : N) (rm rnd : bool) : config float :=
  set_fmt c (cf_money c) {| nc_digits := n; nc_rm := rm; nc_round := rnd |} {| nc_digits := n; nc_rm := rm; nc_round := rnd |}
          (cf_dsep c) (cf_tsep c) (cf_tz c).
Definition EN : str := s "en".
Definition TR : str := s "tr".

(* ================================================================ 1. word tables *)

(* ---- 1a. duration words: the word a format row prints (the text behind the placeholder and the blank) *)
Fixpoint after_blank (x : str) : str :=
  match x with
  | [] => []
  | c :: r => if N.eqb c 32 then r else after_blank r
  end.
Definition row_word (f : durformat) : str := after_blank (df_format f).

Definition kind_const (k : durkind) : consttype :=
  match k with
  | DSecond => CSecond | DMinute => CMinute | DHour => CHour | DDay => CDay
  | DWeek => CWeek | DMonth => CMonth | DYear => CYear
  end.

Definition consttype_eqb (a b : consttype) : bool :=
  match a, b with
  | CDay, CDay | CWeek, CWeek | CMonth, CMonth | CYear, CYear | CSecond, CSecond | CMinute, CMinute | CHour, CHour
  | CToday, CToday | CTomorrow, CTomorrow | CYesterday, CYesterday | CNow, CNow => true
  | _, _ => false
  end.

Lemma consttype_eqb_eq a b : consttype_eqb a b = true -> a = b.
Proof. destruct a, b; cbn; intro H; try reflexivity; discriminate. Qed.

(* the row's word is a keyword of the SAME unit in the language's constant table and a member of the word group
   the duration rule `{NUMBER:duration} {GROUP:type:duration_group}` asks for; and the row has the shape
   `{placeholder} word` (or `1 word`) *)
Definition dur_row_ok (lang : str) (f : durformat) : bool :=
  match assoc lang d_constant_pair, assoc lang d_word_group with
  | Some cs, Some gs =>
    match assoc (row_word f) cs, assoc (s "duration_group") gs with
    | Some c, Some ws =>
      consttype_eqb c (kind_const (df_kind f)) && mem_str (row_word f) ws && negb (is_nil (row_word f)) &&
      (str_eqb (df_format f) (dur_placeholder (df_kind f) ++ 32%N :: row_word f) ||
       str_eqb (df_format f) (s "1 " ++ row_word f))
    | _, _ => false
    end
  | _, _ => false
  end.

Definition dur_rows_ok (lang : str) : bool :=
  match assoc lang d_format with
  | Some fmt => forallb (dur_row_ok lang) (lf_duration fmt) && Nat.leb 7 (length (lf_duration fmt))
  | None => false
  end.

Lemma dur_rows_en : dur_rows_ok EN = true. Proof. vm_compute. reflexivity. Qed.
Lemma dur_rows_tr : dur_rows_ok TR = true. Proof. vm_compute. reflexivity. Qed.

Lemma duration_words : forall lang fmt f, In lang [EN; TR] ->
  assoc lang d_format = Some fmt -> In f (lf_duration fmt) ->
  exists cs gs ws,
    assoc lang d_constant_pair = Some cs /\ assoc lang d_word_group = Some gs /\
    assoc (s "duration_group") gs = Some ws /\
    assoc (row_word f) cs = Some (kind_const (df_kind f)) /\ mem_str (row_word f) ws = true /\ row_word f <> [] /\
    (df_format f = dur_placeholder (df_kind f) ++ 32%N :: row_word f \/ df_format f = s "1 " ++ row_word f).
Proof.
  intros lang fmt f Hl Hf Hin.
  assert (Hok : dur_rows_ok lang = true).
  { cbn [In] in Hl. destruct Hl as [Hl|[Hl|Hl]]; [subst lang; exact dur_rows_en|subst lang; exact dur_rows_tr|contradiction]. }
  unfold dur_rows_ok in Hok. rewrite Hf in Hok. apply andb_prop in Hok. destruct Hok as [Hok _].
  rewrite forallb_forall in Hok. specialize (Hok f Hin). unfold dur_row_ok in Hok.
  destruct (assoc lang d_constant_pair) as [cs|] eqn:E1; [|discriminate].
  destruct (assoc lang d_word_group) as [gs|] eqn:E2; [|discriminate].
  destruct (assoc (row_word f) cs) as [c|] eqn:E3; [|discriminate].
  destruct (assoc (s "duration_group") gs) as [ws|] eqn:E4; [|discriminate].
  apply andb_prop in Hok. destruct Hok as [Hok Hshape].
  apply andb_prop in Hok. destruct Hok as [Hok Hne].
  apply andb_prop in Hok. destruct Hok as [Hc Hm].
  apply consttype_eqb_eq in Hc. subst c.
  exists cs, gs, ws. split; [reflexivity|]. split; [reflexivity|]. split; [exact E4|]. split; [exact E3|].
  split; [exact Hm|]. split.
  - intro E. rewrite E in Hne. discriminate.
  - apply orb_prop in Hshape. destruct Hshape as [H|H]; apply str_eqb_eq in H; [left|right]; exact H.
Qed.

(* ---- 1b. unit words: the word of a unit's format string, lower-cased, is one of the unit's names and the
        type word of one of its parse patterns `{NUMBER:value} {TEXT:type:<word>}` *)
Definition unit_row := (N * str * list str * str * str * list str * option N * option bool * option bool * str)%type.
Definition ur_format (r : unit_row) : str := let '(_, f, _, _, _, _, _, _, _, _) := r in f.
Definition ur_parse (r : unit_row) : list str := let '(_, _, p, _, _, _, _, _, _, _) := r in p.
Definition ur_names (r : unit_row) : list str := let '(_, _, _, _, _, n, _, _, _, _) := r in n.
Definition ur_index (r : unit_row) : N := let '(i, _, _, _, _, _, _, _, _, _) := r in i.

(* the format is `{value}` + optional blank + word *)
Definition unit_word (r : unit_row) : option str :=
  let f := ur_format r in
  if starts_with (s "{value}") f then
    let rest := skipn 7 f in
    Some (match rest with 32%N :: w => w | w => w end)
  else None.

Definition unit_row_ok (r : unit_row) : bool :=
  match unit_word r with
  | Some w =>
    negb (is_nil w) && mem_str (to_lowercase w) (ur_names r) &&
    mem_str (s "{NUMBER:value} {TEXT:type:" ++ to_lowercase w ++ s "}") (ur_parse r)
  | None => false
  end.

Definition all_unit_rows : list (str * unit_row) :=
  flat_map (fun g => map (fun r => (fst g, r)) (snd g)) d_types_raw.

Lemma unit_rows_ok : forallb (fun gr => unit_row_ok (snd gr)) all_unit_rows = true.
Proof. vm_compute. reflexivity. Qed.

Lemma unit_words : forall g r, In (g, r) all_unit_rows ->
  exists w, unit_word r = Some w /\ w <> [] /\ mem_str (to_lowercase w) (ur_names r) = true /\
            mem_str (s "{NUMBER:value} {TEXT:type:" ++ to_lowercase w ++ s "}") (ur_parse r) = true.
Proof.
  intros g r Hin. pose proof unit_rows_ok as H. rewrite forallb_forall in H. specialize (H (g, r) Hin).
  cbn [snd] in H. unfold unit_row_ok in H. destruct (unit_word r) as [w|]; [|discriminate].
  apply andb_prop in H. destruct H as [H Hp]. apply andb_prop in H. destruct H as [Hn Hm].
  exists w. split; [reflexivity|]. split; [intro E; rewrite E in Hn; discriminate|]. split; assumption.
Qed.

Lemma unit_rows_count : length all_unit_rows = 33%nat. Proof. vm_compute. reflexivity. Qed.

(* ---- 1c. month words, through the lexer: what date_print writes for a day of month m ("5 February" in the
        clock's year, "5 Feb 2020" otherwise; uppercase-first of the table's long / short name) is read back as
        that very day and printed identically *)
Definition month_rows (lang : str) : list monthinfo :=
  match assoc lang d_months with Some l => l | None => [] end.

Definition date_is (r : option (str * option (token float))) (out : str) (days : Z) : bool :=
  match r with
  | Some (out', Some (TDate d _)) => str_eqb out' out && Z.eqb d days
  | _ => false
  end.

Definition month_row_ok (lang : str) (mi : monthinfo) : bool :=
  let m := mi_month mi in
  let l1 := s "5 " ++ uppercase_first_letter (mi_long mi) in
  let l2 := s "5 " ++ uppercase_first_letter (mi_short mi) ++ s " 2020" in
  str_eqb (date_print DC lang (ck_year CK15) (days_from_civil (ck_year CK15) m 5) (cf_tz DC)) l1 &&
  str_eqb (date_print DC lang (ck_year CK15) (days_from_civil 2020 m 5) (cf_tz DC)) l2 &&
  date_is (enter CK15 DC lang l1) l1 (days_from_civil (ck_year CK15) m 5) &&
  date_is (enter CK15 DC lang l2) l2 (days_from_civil 2020 m 5).

Lemma month_rows_ok :
  forallb (fun lang => forallb (month_row_ok lang) (month_rows lang) && Nat.eqb (length (month_rows lang)) 12) [EN; TR] = true.
Proof. vm_compute. reflexivity. Qed.

Lemma date_is_true r out days : date_is r out days = true ->
  exists tz, r = Some (out, Some (TDate days tz)).
Proof.
  unfold date_is. destruct r as [[o [t|]]|]; try discriminate. destruct t; try discriminate.
  intro H. apply andb_prop in H. destruct H as [H1 H2]. apply str_eqb_eq in H1. apply Z.eqb_eq in H2. subst.
  eexists. reflexivity.
Qed.

Lemma month_words : forall lang mi, In lang [EN; TR] -> In mi (month_rows lang) ->
  let m := mi_month mi in
  let l1 := s "5 " ++ uppercase_first_letter (mi_long mi) in
  let l2 := s "5 " ++ uppercase_first_letter (mi_short mi) ++ s " 2020" in
  date_print DC lang (ck_year CK15) (days_from_civil (ck_year CK15) m 5) (cf_tz DC) = l1 /\
  date_print DC lang (ck_year CK15) (days_from_civil 2020 m 5) (cf_tz DC) = l2 /\
  (exists tz, enter CK15 DC lang l1 = Some (l1, Some (TDate (days_from_civil (ck_year CK15) m 5) tz))) /\
  (exists tz, enter CK15 DC lang l2 = Some (l2, Some (TDate (days_from_civil 2020 m 5) tz))).
Proof.
  intros lang mi Hl Hin m l1 l2. pose proof month_rows_ok as H. rewrite forallb_forall in H.
  specialize (H lang Hl). apply andb_prop in H. destruct H as [H _]. rewrite forallb_forall in H.
  specialize (H mi Hin). unfold month_row_ok in H. fold m l1 l2 in H.
  apply andb_prop in H. destruct H as [H H4]. apply andb_prop in H. destruct H as [H H3].
  apply andb_prop in H. destruct H as [H1 H2]. apply str_eqb_eq in H1. apply str_eqb_eq in H2.
  split; [exact H1|]. split; [exact H2|]. split; apply date_is_true; assumption.
Qed.

(* ---- 1d. zone names: `10:30 Z` for every zone of the table prints a text that prints itself again with the
        same value; for the 174 zones the zone regex can express and that are no currency code the value is the
        time in that zone and the text is `10:30:00 Z` *)
Definition zone_time (p : str * Z) : bool :=
  match enter CK15 DC EN (s "10:30 " ++ fst p) with
  | Some (out, Some (TTime t z)) =>
    str_eqb (tz_name z) (fst p) && Z.eqb (tz_off z) (snd p) && str_eqb out (s "10:30:00 " ++ fst p)
  | _ => false
  end.

Lemma zone_rows_ok :
  forallb (fun p => reprints_value CK15 DC EN (s "10:30 " ++ fst p)) d_timezones = true /\
  length (filter zone_time d_timezones) = 174%nat /\ length d_timezones = 191%nat.
Proof. vm_compute. repeat split; reflexivity. Qed.

Lemma zone_words : forall n o, In (n, o) d_timezones ->
  Reprintable_value CK15 DC EN (s "10:30 " ++ n) /\ prints CK15 DC EN (s "10:30 " ++ n) = true.
Proof.
  intros n o Hin. destruct zone_rows_ok as [H _]. rewrite forallb_forall in H. specialize (H (n, o) Hin).
  cbn [fst] in H. apply reprints_value_sound in H. destruct H as [Hp Hr]. split; assumption.
Qed.

Lemma zone_times : forall n o, zone_time (n, o) = true ->
  exists t, enter CK15 DC EN (s "10:30 " ++ n)
            = Some (s "10:30:00 " ++ n, Some (TTime t {| tz_name := n; tz_off := o |})).
Proof.
  intros n o H. unfold zone_time in H. change (fst (n, o)) with n in H. change (snd (n, o)) with o in H.
  destruct (enter CK15 DC EN (s "10:30 " ++ n)) as [[out [tk|]]|]; try discriminate.
  destruct tk; try discriminate. apply andb_prop in H. destruct H as [H H3]. apply andb_prop in H. destruct H as [H1 H2].
  apply str_eqb_eq in H1. apply Z.eqb_eq in H2. apply str_eqb_eq in H3. destruct tz as [zn zo].
  change (zn = n) in H1. change (zo = o) in H2. subst. eexists. reflexivity.
Qed.

(* ---- 1e. currencies: the partition of the table.  money_print writes the currency's symbol; the reader
        (read_currency) knows alias keys and codes.  SPEC SIDE (from config.json parse.money): the name the money
        regexes capture from the printed text - `\p{Sc}` directly in front of the amount, or `[ ]*[a-zA-Z]{2,}` /
        `[ ]*\p{Sc}` behind it *)
Definition is_sc (c : N) : bool :=
  existsb (N.eqb c) [36; 162; 163; 164; 165; 1423; 1547; 2046; 2047; 2546; 2547; 2555; 2801; 3065; 3647; 6107;
                     8352; 8353; 8354; 8355; 8356; 8357; 8358; 8359; 8360; 8361; 8362; 8363; 8364; 8365; 8366; 8367;
                     8368; 8369; 8370; 8371; 8372; 8373; 8374; 8375; 8376; 8377; 8378; 8379; 8380; 8381; 8382; 8383;
                     8384; 43064; 65020; 65129; 65284; 65504; 65505; 65509; 65510]%N.
Definition is_ascii_letter (c : N) : bool := (N.leb 65 c && N.leb c 90) || (N.leb 97 c && N.leb c 122).
Fixpoint take_letters (x : str) : str :=
  match x with c :: r => if is_ascii_letter c then c :: take_letters r else [] | [] => [] end.

Definition reader_name (c : currency) : option str :=
  let sym := c_symbol c in
  if c_left c then
    match rev sym with
    | l :: _ => if negb (c_space c) && is_sc l then Some [l] else None
    | [] => None
    end
  else
    let w := take_letters sym in
    if Nat.leb 2 (length w) then Some w
    else match sym with f :: _ => if is_sc f then Some [f] else None | [] => None end.

(* read_currency on that name: the currency it denotes *)
Definition reads_as (c : currency) : option str :=
  match reader_name c with
  | Some n => read_currency DC n
  | None => None
  end.

Definition rereadable (kv : str * currency) : bool :=
  match reads_as (snd kv) with Some code => str_eqb code (c_code (snd kv)) | None => false end.
(* the printed text is exactly what some re-readable currency prints (18 currencies print like USD: `$1.234,50`) *)
Definition prints_like_rereadable (kv : str * currency) : bool :=
  match reads_as (snd kv) with
  | Some code =>
    match currency_by_code DC code with
    | Some c' => str_eqb (c_symbol c') (c_symbol (snd kv)) && Bool.eqb (c_left c') (c_left (snd kv)) &&
                 Bool.eqb (c_space c') (c_space (snd kv)) && N.eqb (c_digits c') (c_digits (snd kv)) &&
                 rereadable (code, c')
    | None => false
    end
  | None => false
  end.

Definition money_line (kv : str * currency) : str := s "1234,5 " ++ fst kv.

(* the pipeline agrees with the spec-side partition on every row: the printed money is read back as the same
   amount of the same currency exactly for the re-readable rows, and prints the same TEXT again exactly for the rows
   that print like a re-readable currency *)
Definition currency_row_ok (kv : str * currency) : bool :=
  prints CK15 DC EN (money_line kv) &&
  Bool.eqb (reprints_value CK15 DC EN (money_line kv)) (rereadable kv) &&
  Bool.eqb (reprints CK15 DC EN (money_line kv)) (prints_like_rereadable kv).

Lemma currency_rows_ok : forallb currency_row_ok d_currency = true.
Proof. vm_compute. reflexivity. Qed.

Lemma currency_partition_lists :
  map fst (filter rereadable d_currency) = [s "dkk"; s "eur"; s "mvr"; s "tjs"; s "try"; s "usd"] /\
  length d_currency = 161%nat /\
  length (filter prints_like_rereadable d_currency) = 24%nat /\
  length (filter (fun kv => match reads_as (snd kv) with None => true | Some _ => false end) d_currency) = 125%nat.
Proof. vm_compute. repeat split; reflexivity. Qed.

Lemma currency_partition : forall kv, In kv d_currency ->
  prints CK15 DC EN (money_line kv) = true /\
  (rereadable kv = true -> Reprintable_value CK15 DC EN (money_line kv)) /\
  (prints_like_rereadable kv = true -> Reprintable CK15 DC EN (money_line kv)) /\
  (prints_like_rereadable kv = false -> ~ Reprintable CK15 DC EN (money_line kv)).
Proof.
  intros kv Hin. pose proof currency_rows_ok as H. rewrite forallb_forall in H. specialize (H kv Hin).
  unfold currency_row_ok in H. apply andb_prop in H. destruct H as [H H3]. apply andb_prop in H. destruct H as [H1 H2].
  apply Bool.eqb_prop in H2. apply Bool.eqb_prop in H3.
  split; [exact H1|]. split; [|split].
  - intro Hr. rewrite Hr in H2. apply reprints_value_sound in H2. apply H2.
  - intro Hr. rewrite Hr in H3. apply reprints_sound in H3. apply H3.
  - intro Hr. rewrite Hr in H3. apply refutes_sound. unfold refutes. rewrite H1, H3. reflexivity.
Qed.

(* ---- 1f. units through the pipeline: every unit, entered with every one of its names that a parse pattern `{NUMBER:value} {TEXT:type:name}` carries, prints a text that prints
        itself again with the same value (default separators and the three other lexable conventions) *)
Definition unit_lines (d : str) : list str :=
  flat_map (fun gr => map (fun nm => s "1234" ++ d ++ s "5 " ++ nm)
                         (filter (fun nm => mem_str (s "{NUMBER:value} {TEXT:type:" ++ nm ++ s "}") (ur_parse (snd gr)))
                                 (ur_names (snd gr)))) all_unit_rows.

Definition is_unit (r : option (str * option (token float))) : bool :=
  match r with Some (_, Some (TDynamicType _ _)) => true | _ => false end.

Lemma unit_lines_ok :
  forallb (fun l => reprints_value CK15 DC EN l && is_unit (enter CK15 DC EN l)) (unit_lines (s ",")) = true /\
  forallb (fun l => reprints_value CK15 (cfg_seps (s ".") (s ",")) EN l) (unit_lines (s ".")) = true /\
  forallb (fun l => reprints_value CK15 (cfg_seps (s ".") []) TR l) (unit_lines (s ".")) = true /\
  forallb (fun l => reprints_value CK15 (cfg_seps (s ",") []) TR l) (unit_lines (s ",")) = true /\
  length (unit_lines (s ",")) = 61%nat.
Proof. vm_compute. repeat split; reflexivity. Qed.

(* ================================================================ 2. based integers (composition of C13) *)
Section Based.
Context {F : Type} {NF : Num F}.

(* print, read the digits back, print again: the same text, for every non-negative value the number type holds
   exactly after the cast (side condition of C13_print_read_int; every |n| <= 2^53 at binary64) *)
Theorem based_roundtrip : forall cfg lang year (x : F) t, based t -> 0 <= as_i64 x ->
  as_i64 (fofZ (as_i64 x) : F) = as_i64 x ->
  exists ds y,
    item_print cfg lang year (INumber x t) = Ok (prefix_of t ++ ds) /\
    from_radix (base_of t) ds = Some y /\
    item_print cfg lang year (INumber y t) = Ok (prefix_of t ++ ds).
Proof.
  intros cfg lang year x t Hb Hx Hrt.
  destruct (print_read cfg lang year x t Hb Hx) as [ds [H1 [H2 [_ H4]]]].
  exists ds, (fofZ (as_i64 x)). split; [exact H1|]. split; [exact H4|].
  rewrite print_based by exact Hb. rewrite Hrt.
  destruct (Z.ltb_spec (as_i64 x) 0) as [Hlt|_]; [lia|]. rewrite <- H2. reflexivity.
Qed.
End Based.

(* ================================================================ 3. durations *)
(* a printed part `count word` re-read by the duration rule (word -> constant of the same unit, 1a) *)
Definition reread_part (p : durkind * Z) : option Z := duration_of_const (kind_const (fst p)) (snd p).
Definition part_secs (p : durkind * Z) : Z := snd p * unit_len (fst p).

Lemma const_kind_kind_const k : const_kind (kind_const k) = Some k.
Proof. destruct k; reflexivity. Qed.

Lemma parts_sum_fold ps : forall acc, fold_left Z.add (map part_secs ps) acc = acc + parts_sum ps.
Proof.
  induction ps as [|[k c] r IH]; intro acc; cbn [map fold_left parts_sum]; [lia|].
  rewrite IH. unfold part_secs. cbn [fst snd]. lia.
Qed.

Lemma part_le_sum ps : Forall (fun p => 0 < snd p) ps ->
  0 <= parts_sum ps /\ forall p, In p ps -> 0 <= part_secs p <= parts_sum ps.
Proof.
  induction 1 as [|[k c] r Hc _ IH]; cbn [parts_sum]; [split; [lia|intros p []]|].
  destruct IH as [IH0 IH]. cbn [snd] in Hc.
  assert (Hu : 0 < unit_len k) by (destruct k; reflexivity).
  assert (0 <= c * unit_len k) by nia. split; [lia|].
  intros p [<-|Hin]; unfold part_secs; cbn [fst snd]; [lia|]. specialize (IH p Hin). unfold part_secs in IH. lia.
Qed.

Lemma firstn_sum_nonneg ds : Forall (fun d => 0 <= d) ds -> forall j acc, 0 <= acc ->
  acc <= fold_left Z.add (firstn j ds) acc <= fold_left Z.add ds acc.
Proof.
  induction 1 as [|d r Hd _ IH]; intros j acc Hacc.
  - destruct j; cbn; lia.
  - destruct j as [|j]; cbn [firstn fold_left].
    + specialize (IH 0%nat (acc + d)). cbn [firstn fold_left] in IH. lia.
    + specialize (IH j (acc + d)). lia.
Qed.

(* every part the printer writes, re-read, denotes count * unit length - provided the month count is below 12 (it can
   be 12: known finding C15-K6) - and the parts sum to the magnitude: UNBOUNDED, every duration chrono can hold *)
Theorem duration_parts_reread : forall secs, in_range secs ->
  (forall c, In (DMonth, c) (dur_parts secs) -> c < 12) ->
  Forall (fun p => reread_part p = Some (part_secs p)) (dur_parts secs) /\
  parts_sum (dur_parts secs) = Z.abs secs.
Proof.
  intros secs Hr Hm. pose proof (greedy_sum secs) as Hs. split; [|exact Hs].
  destruct (greedy_shape secs) as [Hok _].
  assert (Hpos : Forall (fun p => 0 < snd p) (dur_parts secs)).
  { eapply Forall_impl; [|exact Hok]. intros p [H _]. exact H. }
  destruct (part_le_sum _ Hpos) as [_ Hle]. rewrite Hs in Hle.
  assert (Habs : Z.abs secs <= DUR_MAX) by (unfold in_range in Hr; lia).
  rewrite Forall_forall. intros [k c] Hin. specialize (Hle _ Hin). unfold part_secs in *. cbn [fst snd] in *.
  rewrite Forall_forall in Hok. destruct (Hok _ Hin) as [Hc Hb]. cbn [fst snd] in Hc, Hb.
  unfold reread_part. cbn [fst snd].
  destruct k; try (apply parse_units; [reflexivity|discriminate|unfold in_range; lia]).
  (* months *)
  specialize (Hm c Hin). cbn [kind_const]. rewrite parse_month; [|lia|unfold in_range; rewrite DUR_MAX_val; lia].
  rewrite Z.div_small by lia. rewrite Z.mod_small by lia. f_equal. lia.
Qed.

Section Combine.
Context {F : Type} {NF : Num F}.
(* ... and the combine rule on the re-read parts (two or more) gives back the magnitude *)
Theorem duration_recombine : forall (vs : vars F) secs tis, in_range secs ->
  (forall c, In (DMonth, c) (dur_parts secs) -> c < 12) ->
  Forall2 (fun ti p => exists d, reread_part p = Some d /\ ti_ty ti = Some (TDuration d)) tis (dur_parts secs) ->
  (2 <= length tis)%nat ->
  combine_durations vs (dur_fields tis) = Ok (Some (TDuration (Z.abs secs))).
Proof.
  intros vs secs tis Hr Hm Hf Hlen. destruct (duration_parts_reread secs Hr Hm) as [Hre Hs].
  assert (Hf' : Forall2 (fun ti d => ti_ty ti = Some (TDuration d)) tis (map part_secs (dur_parts secs))).
  { revert Hre. induction Hf as [|ti p tis ps [d [Hd Ht]] _ IH]; intro Hre; cbn [map]; constructor.
    - inversion Hre as [|? ? Hp _]; subst. rewrite Hp in Hd. inversion Hd; subst. exact Ht.
    - apply IH. inversion Hre; assumption. }
  rewrite (additive_combine_exact vs tis _ Hf' Hlen).
  destruct (greedy_shape secs) as [Hok _].
  assert (Hnn : Forall (fun d => 0 <= d) (map part_secs (dur_parts secs))).
  { rewrite Forall_forall. intros d Hd. apply in_map_iff in Hd. destruct Hd as [[k c] [<- Hin]].
    rewrite Forall_forall in Hok. destruct (Hok _ Hin) as [Hc _]. unfold part_secs. cbn [fst snd] in *.
    assert (0 < unit_len k) by (destruct k; reflexivity). nia. }
  rewrite sum_checked_ok.
  - rewrite parts_sum_fold, Hs. reflexivity.
  - intros j _. pose proof (firstn_sum_nonneg _ Hnn j 0 (Z.le_refl 0)) as Hj.
    rewrite parts_sum_fold, Hs in Hj. unfold in_range in *. lia.
Qed.
End Combine.

(* the printer does write 12 months, and 12 months re-read are a 365-day year: 5 days more *)
Lemma twelve_months_refuted :
  dur_parts (364 * 86400) = [(DMonth, 12); (DDay, 4)] /\
  reread_part (DMonth, 12) = Some (365 * 86400) /\ part_secs (DMonth, 12) = 360 * 86400 /\
  dur_parts (729 * 86400) = [(DYear, 1); (DMonth, 12); (DDay, 4)].
Proof. vm_compute. repeat split; reflexivity. Qed.

(* when does it happen: exactly when the remainder after the whole years reaches 360 days *)
Lemma twelve_months_iff : forall secs,
  (exists c, In (DMonth, c) (dur_parts secs) /\ 12 <= c) <-> 12 * MONTH <= Z.abs secs mod YEAR.
Proof.
  intro secs. unfold dur_parts. set (d := Z.abs secs). assert (Hd : 0 <= d) by apply Z.abs_nonneg.
  cbn [dur_parts_from dur_unit].
  assert (HY : YEAR = 31536000) by reflexivity. assert (HM : MONTH = 2592000) by reflexivity.
  assert (Hmod : 0 <= d mod YEAR < YEAR) by (apply Z.mod_pos_bound; rewrite HY; lia).
  (* the month part depends only on the remainder after the years *)
  assert (Hrem : forall r, 0 <= r ->
            (exists c, In (DMonth, c)
               (let '(ps, rest) := (if MONTH <=? r
                  then let '(ps, rest) := dur_parts_from [DWeek; DDay; DHour; DMinute] (r mod MONTH) in ((DMonth, r / MONTH) :: ps, rest)
                  else dur_parts_from [DWeek; DDay; DHour; DMinute] r) in
                ps ++ (if 0 <? rest then [(DSecond, rest)] else [])) /\ 12 <= c) <-> 12 * MONTH <= r).
  { intros r Hr. assert (Hno : forall x c, ~ In (DMonth, c)
       (let '(ps, rest) := dur_parts_from [DWeek; DDay; DHour; DMinute] x in ps ++ (if 0 <? rest then [(DSecond, rest)] else []))).
    { intros x c. cbn [dur_parts_from dur_unit].
      repeat match goal with |- context [if ?b then _ else _] => destruct b end;
        cbn [app In]; intro H; repeat (destruct H as [H|H]; [discriminate|]); exact H. }
    destruct (Z.leb_spec MONTH r) as [Hge|Hlt].
    - specialize (Hno (r mod MONTH)). destruct (dur_parts_from [DWeek; DDay; DHour; DMinute] (r mod MONTH)) as [ps rest].
      cbn [app In]. split.
      + intros [c [[E|Hin] Hc]]; [inversion E; subst c; rewrite HM in *; lia|exfalso; exact (Hno c Hin)].
      + intro H. exists (r / MONTH). split; [left; reflexivity|]. rewrite HM in *. lia.
    - specialize (Hno r). destruct (dur_parts_from [DWeek; DDay; DHour; DMinute] r) as [ps rest]. split.
      + intros [c [Hin _]]. exfalso. exact (Hno c Hin).
      + intro H. rewrite HM in *. lia. }
  destruct (Z.leb_spec YEAR d) as [Hge|Hlt].
  - specialize (Hrem (d mod YEAR) (proj1 Hmod)).
    destruct (if MONTH <=? d mod YEAR then _ else _) as [ps rest] eqn:E in Hrem |- *.
    cbn [app In]. rewrite <- Hrem. split.
    + intros [c [[E'|Hin] Hc]]; [discriminate|]. exists c. split; assumption.
    + intros [c [Hin Hc]]. exists c. split; [right; exact Hin|exact Hc].
  - rewrite (Z.mod_small d YEAR) by lia. apply Hrem. exact Hd.
Qed.
