(* SC.Proofs.RegexLemmas — structural facts about SC.Model.Regex, proved once for
   every regex and every text:

     captures_at_length / captures_iter_length :
        every reported match has exactly ngroups+1 entries;
     captures_at_spans / captures_iter_spans   (span_sound) :
        every reported span (a,b) satisfies  a <= b <= byte_len s;
     captures_at_whole_set / captures_iter_whole_set :
        entry 0 (the whole match) is always set;
     captures_at_from :
        the whole match reported by captures_at starts at or after start_byte
        (when start_byte is within the text).

   No axioms. *)

From Coq Require Import List NArith ZArith Bool Arith Lia.
Require Import SC.Model.Regex.
Import ListNotations.

Local Open Scope N_scope.

(* ------------------------------------------------------------------ *)
(* byte_len                                                            *)
(* ------------------------------------------------------------------ *)

Lemma byte_len_from_add : forall s a b, byte_len_from (a + b) s = a + byte_len_from b s.
Proof.
  induction s as [|c t IH]; intros a b; simpl.
  - reflexivity.
  - rewrite <- N.add_assoc. apply IH.
Qed.

Lemma byte_len_from_acc : forall s acc, byte_len_from acc s = acc + byte_len s.
Proof.
  intros s acc. unfold byte_len. rewrite <- byte_len_from_add. rewrite N.add_0_r. reflexivity.
Qed.

Lemma byte_len_nil : byte_len [] = 0.
Proof. reflexivity. Qed.

Lemma byte_len_cons : forall c t, byte_len (c :: t) = utf8_width c + byte_len t.
Proof.
  intros c t. unfold byte_len at 1. simpl. rewrite byte_len_from_acc. lia.
Qed.

Lemma byte_len_app : forall a b, byte_len (a ++ b) = byte_len a + byte_len b.
Proof.
  induction a as [|c t IH]; intros b.
  - rewrite app_nil_l, byte_len_nil. lia.
  - rewrite <- app_comm_cons, !byte_len_cons, IH. lia.
Qed.

Lemma utf8_width_pos : forall c, 1 <= utf8_width c.
Proof.
  intros c. unfold utf8_width.
  destruct (c <? 128); [lia|]. destruct (c <? 2048); [lia|]. destruct (c <? 65536); lia.
Qed.

(* ------------------------------------------------------------------ *)
(* Well-formed matcher states                                          *)
(* ------------------------------------------------------------------ *)

Definition cap_ok (bound : N) (c : nat * (N * N)) : Prop :=
  fst (snd c) <= snd (snd c) /\ snd (snd c) <= bound.

(* [st] is a position of the text [s]: the unconsumed part is a suffix, the byte
   offset is the length of the corresponding prefix, and the capture log only
   mentions well-ordered spans that end at or before the current position *)
Definition wf (s : list N) (st : mstate) : Prop :=
  (exists pre, s = pre ++ ms_rest st /\ ms_pos st = byte_len pre)
  /\ Forall (cap_ok (ms_pos st)) (ms_caps st).

Lemma cap_ok_mono : forall b b' c, b <= b' -> cap_ok b c -> cap_ok b' c.
Proof. unfold cap_ok. intros. lia. Qed.

Lemma caps_mono : forall b b' l, b <= b' -> Forall (cap_ok b) l -> Forall (cap_ok b') l.
Proof.
  intros b b' l Hb H. eapply Forall_impl; [|exact H]. intros c. apply cap_ok_mono; exact Hb.
Qed.

Lemma wf_pos_le : forall s st, wf s st -> ms_pos st <= byte_len s.
Proof.
  intros s st [[pre [Hs Hp]] _]. rewrite Hs, byte_len_app. lia.
Qed.

(* The CPS soundness property: a successful run of the matcher is a successful
   run of its continuation on some well-formed state further to the right. *)
Definition msound (s : list N) (m : matcher) : Prop :=
  forall st k res, wf s st -> m st k = Some res ->
    exists st', wf s st' /\ ms_pos st <= ms_pos st' /\ k st' = Some res.

Lemma msound_eps : forall s, msound s m_eps.
Proof.
  intros s st k res Hwf H. exists st. split; [exact Hwf|]. split; [lia|exact H].
Qed.

Lemma msound_set : forall s f, msound s (m_set f).
Proof.
  intros s f st k res Hwf H. unfold m_set in H.
  destruct st as [rest pos prev rem caps]. simpl in *.
  destruct rest as [|c t]; [discriminate|].
  destruct (f c); [|discriminate].
  eexists. split; [|split; [|exact H]].
  - destruct Hwf as [[pre [Hs Hp]] Hc]. simpl in *. split.
    + exists (pre ++ [c]). simpl. split.
      * rewrite <- app_assoc. exact Hs.
      * rewrite byte_len_app, byte_len_cons, byte_len_nil. lia.
    + simpl. eapply caps_mono; [|exact Hc]. lia.
  - simpl. lia.
Qed.

Lemma msound_cat : forall s ma mb, msound s ma -> msound s mb -> msound s (m_cat ma mb).
Proof.
  intros s ma mb Ha Hb st k res Hwf H. unfold m_cat in H.
  destruct (Ha _ _ _ Hwf H) as [st1 [Hwf1 [Hle1 H1]]].
  destruct (Hb _ _ _ Hwf1 H1) as [st2 [Hwf2 [Hle2 H2]]].
  exists st2. split; [exact Hwf2|]. split; [lia|exact H2].
Qed.

Lemma msound_alt : forall s ma mb, msound s ma -> msound s mb -> msound s (m_alt ma mb).
Proof.
  intros s ma mb Ha Hb st k res Hwf H. unfold m_alt in H.
  destruct (ma st k) as [r|] eqn:E.
  - inversion H; subst. exact (Ha _ _ _ Hwf E).
  - exact (Hb _ _ _ Hwf H).
Qed.

Lemma msound_group : forall s idx mr, msound s mr -> msound s (m_group idx mr).
Proof.
  intros s idx mr Hr st k res Hwf H. unfold m_group in H.
  destruct (Hr _ _ _ Hwf H) as [st1 [Hwf1 [Hle1 H1]]].
  eexists. split; [|split; [|exact H1]].
  - destruct Hwf1 as [Hpre Hc]. split; simpl.
    + exact Hpre.
    + constructor; [|exact Hc]. unfold cap_ok. simpl. lia.
  - simpl. exact Hle1.
Qed.

Lemma msound_assert : forall s f, msound s (m_assert f).
Proof.
  intros s f st k res Hwf H. unfold m_assert in H.
  destruct (f st); [|discriminate].
  exists st. split; [exact Hwf|]. split; [lia|exact H].
Qed.

Lemma msound_exactly : forall s mr n, msound s mr -> msound s (m_exactly mr n).
Proof.
  intros s mr n Hr. induction n as [|n IH]; simpl.
  - apply msound_eps.
  - intros st k res Hwf H.
    destruct (Hr _ _ _ Hwf H) as [st1 [Hwf1 [Hle1 H1]]].
    destruct (IH _ _ _ Hwf1 H1) as [st2 [Hwf2 [Hle2 H2]]].
    exists st2. split; [exact Hwf2|]. split; [lia|exact H2].
Qed.

Lemma msound_upto : forall s mr g d, msound s mr -> msound s (m_upto mr g d).
Proof.
  intros s mr g d Hr. induction d as [|d IH]; simpl.
  - apply msound_eps.
  - assert (Htake : forall st k res, wf s st ->
              mr st (fun st' => m_upto mr g d st' k) = Some res ->
              exists st', wf s st' /\ ms_pos st <= ms_pos st' /\ k st' = Some res).
    { intros st k res Hwf H.
      destruct (Hr _ _ _ Hwf H) as [st1 [Hwf1 [Hle1 H1]]].
      destruct (IH _ _ _ Hwf1 H1) as [st2 [Hwf2 [Hle2 H2]]].
      exists st2. split; [exact Hwf2|]. split; [lia|exact H2]. }
    assert (Hskip : forall st (k : kont) res, wf s st -> k st = Some res ->
              exists st', wf s st' /\ ms_pos st <= ms_pos st' /\ k st' = Some res).
    { intros st k res Hwf H. exists st. split; [exact Hwf|]. split; [lia|exact H]. }
    destruct g; intros st k res Hwf H.
    + destruct (mr st (fun st' => m_upto mr true d st' k)) as [r|] eqn:E.
      * inversion H; subst. exact (Htake _ _ _ Hwf E).
      * exact (Hskip _ _ _ Hwf H).
    + destruct (k st) as [r|] eqn:E.
      * inversion H; subst. exact (Hskip _ _ _ Hwf E).
      * exact (Htake _ _ _ Hwf H).
Qed.

Lemma msound_plus : forall s mr g fuel first, msound s mr ->
  forall st k res, wf s st -> m_plus mr g fuel first st k = Some res ->
    exists st', wf s st' /\ ms_pos st <= ms_pos st' /\ k st' = Some res.
Proof.
  intros s mr g fuel first Hr. revert first.
  induction fuel as [|f IH]; intros first st k res Hwf H; simpl in H; [discriminate|].
  destruct (Hr _ _ _ Hwf H) as [st1 [Hwf1 [Hle1 H1]]]. clear H.
  cbv beta in H1.
  destruct (ms_pos st1 =? ms_pos st).
  - destruct first; [|discriminate].
    exists st1. split; [exact Hwf1|]. split; [exact Hle1|exact H1].
  - assert (Hloop : forall r, m_plus mr g f false st1 k = Some r ->
              exists st', wf s st' /\ ms_pos st <= ms_pos st' /\ k st' = Some r).
    { intros r E. destruct (IH _ _ _ _ Hwf1 E) as [st2 [Hwf2 [Hle2 H2]]].
      exists st2. split; [exact Hwf2|]. split; [lia|exact H2]. }
    destruct g.
    + destruct (m_plus mr true f false st1 k) as [r|] eqn:E.
      * inversion H1; subst. apply Hloop. reflexivity.
      * exists st1. split; [exact Hwf1|]. split; [exact Hle1|exact H1].
    + destruct (k st1) as [r|] eqn:E.
      * inversion H1; subst. exists st1. split; [exact Hwf1|]. split; [exact Hle1|exact E].
      * apply Hloop. exact H1.
Qed.

Lemma msound_rep : forall s mr mn mx g, msound s mr -> msound s (m_rep mr mn mx g).
Proof.
  intros s mr mn mx g Hr. unfold m_rep. destruct mx as [mxn|].
  - intros st k res Hwf H.
    destruct (msound_exactly s mr mn Hr _ _ _ Hwf H) as [st1 [Hwf1 [Hle1 H1]]].
    destruct (msound_upto s mr g (mxn - mn) Hr _ _ _ Hwf1 H1) as [st2 [Hwf2 [Hle2 H2]]].
    exists st2. split; [exact Hwf2|]. split; [lia|exact H2].
  - destruct mn as [|mn'].
    + destruct g; intros st k res Hwf H.
      * destruct (m_plus mr true (plus_fuel st) true st k) as [r|] eqn:E.
        -- inversion H; subst. exact (msound_plus s mr true _ true Hr _ _ _ Hwf E).
        -- exists st. split; [exact Hwf|]. split; [lia|exact H].
      * destruct (k st) as [r|] eqn:E.
        -- inversion H; subst. exists st. split; [exact Hwf|]. split; [lia|exact E].
        -- exact (msound_plus s mr false _ true Hr _ _ _ Hwf H).
    + intros st k res Hwf H.
      destruct (msound_exactly s mr mn' Hr _ _ _ Hwf H) as [st1 [Hwf1 [Hle1 H1]]].
      destruct (msound_plus s mr g _ true Hr _ _ _ Hwf1 H1) as [st2 [Hwf2 [Hle2 H2]]].
      exists st2. split; [exact Hwf2|]. split; [lia|exact H2].
Qed.

Theorem compile_sound : forall s pt r, msound s (compile pt r).
Proof.
  intros s pt r. induction r; simpl.
  - apply msound_eps.
  - apply msound_set.
  - apply msound_cat; assumption.
  - apply msound_alt; assumption.
  - apply msound_rep; assumption.
  - apply msound_group; assumption.
  - apply msound_assert.
  - apply msound_assert.
  - apply msound_assert.
  - apply msound_assert.
Qed.

(* ------------------------------------------------------------------ *)
(* Search                                                              *)
(* ------------------------------------------------------------------ *)

(* (rest,pos) is a position of s *)
Definition at_pos (s rest : list N) (pos : N) : Prop :=
  exists pre, s = pre ++ rest /\ pos = byte_len pre.

Lemma at_pos_step : forall s c t pos, at_pos s (c :: t) pos -> at_pos s t (pos + utf8_width c).
Proof.
  intros s c t pos [pre [Hs Hp]]. exists (pre ++ [c]). split.
  - rewrite <- app_assoc. exact Hs.
  - rewrite byte_len_app, byte_len_cons, byte_len_nil. lia.
Qed.

Lemma search_sound : forall s mr, msound s mr ->
  forall rest pos prev rem ms st,
    at_pos s rest pos ->
    search mr rest pos prev rem = Some (ms, st) ->
    wf s st /\ pos <= ms /\ ms <= ms_pos st.
Proof.
  intros s mr Hm rest. induction rest as [|c t IH]; intros pos prev rem ms st Hat H; simpl in H.
  - destruct (mr (MS [] pos prev rem []) k_done) as [st0|] eqn:E; [|discriminate].
    inversion H; subst.
    assert (Hwf0 : wf s (MS [] ms prev rem [])) by (split; [exact Hat|constructor]).
    destruct (Hm _ _ _ Hwf0 E) as [st1 [Hwf1 [Hle1 H1]]].
    unfold k_done in H1. inversion H1; subst. simpl in Hle1. split; [exact Hwf1|]. lia.
  - destruct (mr (MS (c :: t) pos prev rem []) k_done) as [st0|] eqn:E.
    + inversion H; subst.
      assert (Hwf0 : wf s (MS (c :: t) ms prev rem [])) by (split; [exact Hat|constructor]).
      destruct (Hm _ _ _ Hwf0 E) as [st1 [Hwf1 [Hle1 H1]]].
      unfold k_done in H1. inversion H1; subst. simpl in Hle1. split; [exact Hwf1|]. lia.
    + destruct (IH _ _ _ _ _ (at_pos_step _ _ _ _ Hat) H) as [Hwf [Hle1 Hle2]].
      split; [exact Hwf|]. pose proof (utf8_width_pos c). lia.
Qed.

Lemma skip_to_sound : forall s rest pos prev target rest' pos' prev',
  at_pos s rest pos ->
  skip_to rest pos prev target = Some (rest', pos', prev') ->
  at_pos s rest' pos' /\ target <= pos'.
Proof.
  intros s rest. induction rest as [|c t IH]; intros pos prev target rest' pos' prev' Hat H; simpl in H.
  - destruct (target <=? pos) eqn:E; [|discriminate].
    inversion H; subst. split; [exact Hat|]. apply N.leb_le. exact E.
  - destruct (target <=? pos) eqn:E.
    + inversion H; subst. split; [exact Hat|]. apply N.leb_le. exact E.
    + exact (IH _ _ _ _ _ _ (at_pos_step _ _ _ _ Hat) H).
Qed.

(* ------------------------------------------------------------------ *)
(* Rendered results                                                    *)
(* ------------------------------------------------------------------ *)

Definition span_ok (n : N) (o : option (N * N)) : Prop :=
  match o with
  | Some (a, b) => a <= b /\ b <= n
  | None => True
  end.

Lemma lookup_cap_ok : forall bound l i sp,
  Forall (cap_ok bound) l -> lookup_cap i l = Some sp -> fst sp <= snd sp /\ snd sp <= bound.
Proof.
  intros bound l i sp Hall. induction Hall as [|[j sp'] l Hc Hall IH]; simpl; intros H.
  - discriminate.
  - destruct (Nat.eqb i j).
    + inversion H; subst. exact Hc.
    + exact (IH H).
Qed.

Lemma render_caps_length : forall ng ms st, length (render_caps ng ms st) = S ng.
Proof.
  intros. unfold render_caps. simpl. rewrite map_length, seq_length. reflexivity.
Qed.

Lemma render_caps_ok : forall s ng ms st,
  wf s st -> ms <= ms_pos st -> Forall (span_ok (byte_len s)) (render_caps ng ms st).
Proof.
  intros s ng ms st Hwf Hle. pose proof (wf_pos_le _ _ Hwf) as Hb.
  unfold render_caps. constructor.
  - simpl. lia.
  - apply Forall_forall. intros o Hin. apply in_map_iff in Hin. destruct Hin as [i [Hi _]].
    destruct o as [[a b]|]; simpl; [|exact I].
    destruct Hwf as [_ Hc].
    destruct (lookup_cap_ok _ _ _ _ Hc Hi) as [H1 H2]. simpl in *. lia.
Qed.

(* ------------------------------------------------------------------ *)
(* captures_at                                                         *)
(* ------------------------------------------------------------------ *)

Lemma at_pos_start : forall s, at_pos s s 0.
Proof. intros s. exists []. split; reflexivity. Qed.

Lemma captures_at_p_inv : forall pt r ng s start l,
  captures_at_p pt r ng s start = Some l ->
  exists ms st, l = render_caps ng ms st /\ wf s st /\ start <= ms /\ ms <= ms_pos st.
Proof.
  intros pt r ng s start l H. unfold captures_at_p in H.
  destruct (skip_to s 0 None start) as [[[rest pos] prev]|] eqn:Esk; [|discriminate].
  destruct (skip_to_sound _ _ _ _ _ _ _ _ (at_pos_start s) Esk) as [Hat Hge].
  destruct (search (compile pt r) rest pos prev (length rest)) as [[ms st]|] eqn:Ese; [|discriminate].
  inversion H; subst.
  destruct (search_sound s _ (compile_sound s pt r) _ _ _ _ _ _ Hat Ese) as [Hwf [H1 H2]].
  exists ms, st. split; [reflexivity|]. split; [exact Hwf|]. split; lia.
Qed.

Theorem captures_at_length : forall ut r ng s start l,
  captures_at ut r ng s start = Some l -> length l = S ng.
Proof.
  intros ut r ng s start l H. apply captures_at_p_inv in H.
  destruct H as [ms [st [-> _]]]. apply render_caps_length.
Qed.

Theorem captures_at_spans : forall ut r ng s start l,
  captures_at ut r ng s start = Some l -> Forall (span_ok (byte_len s)) l.
Proof.
  intros ut r ng s start l H. apply captures_at_p_inv in H.
  destruct H as [ms [st [-> [Hwf [_ Hle]]]]]. apply render_caps_ok; assumption.
Qed.

Theorem captures_at_whole_set : forall ut r ng s start l,
  captures_at ut r ng s start = Some l ->
  exists a b, hd_error l = Some (Some (a, b)) /\ start <= a /\ a <= b /\ b <= byte_len s.
Proof.
  intros ut r ng s start l H. apply captures_at_p_inv in H.
  destruct H as [ms [st [-> [Hwf [Hge Hle]]]]].
  exists ms, (ms_pos st). split; [reflexivity|].
  pose proof (wf_pos_le _ _ Hwf). lia.
Qed.

Corollary captures_at_from : forall ut r ng s start l a b,
  captures_at ut r ng s start = Some l -> hd_error l = Some (Some (a, b)) -> start <= a.
Proof.
  intros ut r ng s start l a b H Hd.
  destruct (captures_at_whole_set _ _ _ _ _ _ H) as [a' [b' [Hd' [Hs _]]]].
  rewrite Hd in Hd'. inversion Hd'; subst. exact Hs.
Qed.

(* ------------------------------------------------------------------ *)
(* captures_iter                                                       *)
(* ------------------------------------------------------------------ *)

Definition match_ok (s : list N) (ng : nat) (m : list (option (N * N))) : Prop :=
  length m = S ng
  /\ Forall (span_ok (byte_len s)) m
  /\ exists a b, hd_error m = Some (Some (a, b)).

Lemma render_match_ok : forall s ng ms st,
  wf s st -> ms <= ms_pos st -> match_ok s ng (render_caps ng ms st).
Proof.
  intros s ng ms st Hwf Hle. split; [apply render_caps_length|].
  split; [apply render_caps_ok; assumption|].
  exists ms, (ms_pos st). reflexivity.
Qed.

Lemma wf_at_pos : forall s st, wf s st -> at_pos s (ms_rest st) (ms_pos st).
Proof. intros s st [H _]. exact H. Qed.

Lemma iter_loop_ok : forall s mr ng, msound s mr ->
  forall fuel rest pos prev rem last,
    at_pos s rest pos ->
    Forall (match_ok s ng) (iter_loop fuel mr ng rest pos prev rem last).
Proof.
  intros s mr ng Hm fuel. induction fuel as [|f IH]; intros rest pos prev rem last Hat; simpl.
  - constructor.
  - destruct (search mr rest pos prev rem) as [[ms st]|] eqn:Ese; [|constructor].
    destruct (search_sound s mr Hm _ _ _ _ _ _ Hat Ese) as [Hwf [H1 H2]].
    match goal with |- context [if ?c then _ else _] => destruct c end.
    + destruct rest as [|c t]; [constructor|].
      destruct (search mr t (pos + utf8_width c) (Some c) (Nat.pred rem)) as [[ms' st']|] eqn:Ese';
        [|constructor].
      destruct (search_sound s mr Hm _ _ _ _ _ _ (at_pos_step _ _ _ _ Hat) Ese') as [Hwf' [H1' H2']].
      constructor.
      * apply render_match_ok; assumption.
      * apply IH. apply wf_at_pos. exact Hwf'.
    + constructor.
      * apply render_match_ok; assumption.
      * apply IH. apply wf_at_pos. exact Hwf.
Qed.

Theorem captures_iter_ok : forall ut r ng s,
  Forall (match_ok s ng) (captures_iter ut r ng s).
Proof.
  intros ut r ng s. unfold captures_iter, captures_iter_p.
  apply iter_loop_ok.
  - apply compile_sound.
  - apply at_pos_start.
Qed.

Corollary captures_iter_length : forall ut r ng s m,
  In m (captures_iter ut r ng s) -> length m = S ng.
Proof.
  intros ut r ng s m Hin.
  pose proof (captures_iter_ok ut r ng s) as H. rewrite Forall_forall in H.
  exact (proj1 (H m Hin)).
Qed.

Corollary captures_iter_spans : forall ut r ng s m,
  In m (captures_iter ut r ng s) -> Forall (span_ok (byte_len s)) m.
Proof.
  intros ut r ng s m Hin.
  pose proof (captures_iter_ok ut r ng s) as H. rewrite Forall_forall in H.
  exact (proj1 (proj2 (H m Hin))).
Qed.

Corollary captures_iter_whole_set : forall ut r ng s m,
  In m (captures_iter ut r ng s) -> exists a b, hd_error m = Some (Some (a, b)).
Proof.
  intros ut r ng s m Hin.
  pose proof (captures_iter_ok ut r ng s) as H. rewrite Forall_forall in H.
  exact (proj2 (proj2 (H m Hin))).
Qed.

(* is_match agrees with captures_at from offset 0 *)
Theorem is_match_captures_at : forall ut r ng s,
  is_match ut r s = match captures_at ut r ng s 0 with Some _ => true | None => false end.
Proof.
  intros ut r ng s. unfold is_match, is_match_p, captures_at, captures_at_p.
  assert (Hsk : skip_to s 0 None 0 = Some (s, 0, None)) by (destruct s; reflexivity).
  rewrite Hsk.
  destruct (search (compile (prepare ut) r) s 0 None (length s)) as [[ms st]|]; reflexivity.
Qed.
