(* Property C18, central clause: after any sequence of registrations and deletions the
   calculator behaves exactly like a fresh calculator on which only the surviving rules were
   registered in the same order.

   1. *_lex                the lexer reads the configuration only through nine fields
                           ([lexer_view]); in particular never cf_rules, cf_types, cf_rates:
                           rule patterns tokenise alike under every rule table
   2. C18_fresh_equiv      the state after a history of add_rule / delete_rule IS the state after
                           registering the survivors (reference list: add appends, delete removes
                           the first of that name) in order; hence every later operation observes
                           the same (C18_fresh_run)
   3. example              computed through Corr.run at binary64 *)
From Coq Require Import Floats Arith Lia.
From SC.Model Require Import Base Num NumF64 Types Config Case Match Chrono UiTokens Rx Post Parser Items Interp
     RuleFns Rules Format Lexer Api Run64 Corr.
From SC.Gen Require Import RustConsts.
From SC.Proofs Require Import C04 C18.

Local Open Scope nat_scope.

(* ------------------------------------------------------------------------------------- *)
(* 1. what the lexer reads of a configuration                                             *)
(* ------------------------------------------------------------------------------------- *)
Section LexerView.
Context {F : Type} {NF : Num F}.

(* the nine fields the lexer reads (cf_rules, cf_types, cf_type_conv, cf_rates, cf_months,
   cf_format and the three number formats are not among them) *)
Definition lexer_view (c : config F) :=
  (cf_currency c, cf_currency_alias c, cf_timezones c, cf_word_group c, cf_constant_pair c,
   cf_type_group c, cf_dsep c, cf_tsep c, cf_tz c).

Definition lex_same (c c' : config F) : Prop := lexer_view c' = lexer_view c.

Lemma lex_same_refl c : lex_same c c.
Proof. reflexivity. Qed.
Lemma lex_same_sym c c' : lex_same c c' -> lex_same c' c.
Proof. unfold lex_same. congruence. Qed.
Lemma lex_same_trans c1 c2 c3 : lex_same c1 c2 -> lex_same c2 c3 -> lex_same c1 c3.
Proof. unfold lex_same. congruence. Qed.

(* the mutators that leave the view alone *)
Lemma lex_same_set_rules c r : lex_same c (set_rules c r).
Proof. reflexivity. Qed.
Lemma lex_same_set_types c t : lex_same c (set_types c t).
Proof. reflexivity. Qed.
Lemma lex_same_set_rates c t : lex_same c (set_rates c t).
Proof. reflexivity. Qed.

Section Pair.
Variable lx : lexdata.
Variable today : Z.
Variables c c' : config F.
Hypothesis H : lex_same c c'.

Lemma ls_currency : cf_currency c' = cf_currency c. Proof. unfold lex_same, lexer_view in H. congruence. Qed.
Lemma ls_currency_alias : cf_currency_alias c' = cf_currency_alias c. Proof. unfold lex_same, lexer_view in H. congruence. Qed.
Lemma ls_timezones : cf_timezones c' = cf_timezones c. Proof. unfold lex_same, lexer_view in H. congruence. Qed.
Lemma ls_word_group : cf_word_group c' = cf_word_group c. Proof. unfold lex_same, lexer_view in H. congruence. Qed.
Lemma ls_constant_pair : cf_constant_pair c' = cf_constant_pair c. Proof. unfold lex_same, lexer_view in H. congruence. Qed.
Lemma ls_type_group : cf_type_group c' = cf_type_group c. Proof. unfold lex_same, lexer_view in H. congruence. Qed.
Lemma ls_dsep : cf_dsep c' = cf_dsep c. Proof. unfold lex_same, lexer_view in H. congruence. Qed.
Lemma ls_tsep : cf_tsep c' = cf_tsep c. Proof. unfold lex_same, lexer_view in H. congruence. Qed.
Lemma ls_tz : cf_tz c' = cf_tz c. Proof. unfold lex_same, lexer_view in H. congruence. Qed.

Ltac projs :=
  rewrite ?ls_currency, ?ls_currency_alias, ?ls_timezones, ?ls_word_group, ?ls_constant_pair, ?ls_type_group,
          ?ls_dsep, ?ls_tsep, ?ls_tz.

(* ---- the readers ---- *)
Lemma read_decimal_lex x : read_decimal c' x = read_decimal c x.
Proof. unfold read_decimal. projs. reflexivity. Qed.

Lemma read_currency_lex name : read_currency c' name = read_currency c name.
Proof. unfold read_currency. projs. reflexivity. Qed.

Lemma get_time_offset_lex : get_time_offset c' = get_time_offset c.
Proof. unfold get_time_offset. projs. reflexivity. Qed.

Lemma lang_groups_lex lang : lang_groups c' lang = lang_groups c lang.
Proof. unfold lang_groups. projs. reflexivity. Qed.

Lemma lang_constants_lex lang : lang_constants c' lang = lang_constants c lang.
Proof. unfold lang_constants. projs. reflexivity. Qed.

(* ---- language_tokinizer: the month parser takes the configuration and ignores it ---- *)
Lemma month_parser_lex lang line st : month_parser lx c' lang line st = month_parser lx c lang line st.
Proof. reflexivity. Qed.

Theorem language_tokinizer_lex lang line st :
  language_tokinizer lx c' lang line st = language_tokinizer lx c lang line st.
Proof. unfold language_tokinizer. rewrite month_parser_lex. reflexivity. Qed.

(* ---- the parser bodies, pointwise ---- *)
Lemma get_field_type_lex lang ty name extra :
  get_field_type c' lang ty name extra = get_field_type c lang ty name extra.
Proof. unfold get_field_type. rewrite lang_groups_lex. projs. reflexivity. Qed.

Lemma field_body_lex lang line c0 cp st : field_body c' lang line c0 cp st = field_body c lang line c0 cp st.
Proof. unfold field_body, get_field_type, lang_groups. projs. reflexivity. Qed.

Lemma money_body_lex line c0 cp st : money_body c' line c0 cp st = money_body c line c0 cp st.
Proof. unfold money_body, read_decimal, read_currency. projs. reflexivity. Qed.

Lemma atom_of_lex c0 data cp : atom_of today c' c0 data cp = atom_of today c c0 data cp.
Proof. unfold atom_of, get_time_offset. projs. reflexivity. Qed.

Lemma get_atom_lex data rs : get_atom today c' data rs = get_atom today c data rs.
Proof. unfold get_atom, atom_of, get_time_offset. projs. reflexivity. Qed.

Lemma atom_parser_lex line rs st : atom_parser today c' line rs st = atom_parser today c line rs st.
Proof. unfold atom_parser. rewrite get_atom_lex. reflexivity. Qed.

Lemma percent_body_lex line c0 cp st : percent_body c' line c0 cp st = percent_body c line c0 cp st.
Proof. unfold percent_body, read_decimal. projs. reflexivity. Qed.

Lemma parse_timezone_lex c0 data cp : parse_timezone c' c0 data cp = parse_timezone c c0 data cp.
Proof. unfold parse_timezone. projs. reflexivity. Qed.

Lemma timezone_body_lex line data c0 cp st :
  timezone_body c' line data c0 cp st = timezone_body c line data c0 cp st.
Proof. unfold timezone_body. rewrite parse_timezone_lex. reflexivity. Qed.

Lemma time_body_lex line c0 cp st : time_body today c' line c0 cp st = time_body today c line c0 cp st.
Proof. unfold time_body, get_time_offset. projs. reflexivity. Qed.

Lemma number_body_lex line c0 cp st : number_body c' line c0 cp st = number_body c line c0 cp st.
Proof. unfold number_body, read_decimal. projs. reflexivity. Qed.

Lemma text_body_lex lang line c0 cp st :
  text_body today c' lang line c0 cp st = text_body today c lang line c0 cp st.
Proof. unfold text_body, lang_constants, get_time_offset, read_currency. projs. reflexivity. Qed.

(* ---- iteration under pointwise-equal bodies ---- *)
Lemma over_captures_ext (b1 b2 : @parser_body F) :
  (forall c0 cp st, b1 c0 cp st = b2 c0 cp st) ->
  forall c0 cps st, over_captures b1 c0 cps st = over_captures b2 c0 cps st.
Proof.
  intros E c0 cps. induction cps as [|cp r IH]; intros st; [reflexivity|].
  cbn [over_captures]. rewrite E. destruct (b2 c0 cp st); cbn [bind]; [apply IH|reflexivity].
Qed.

Lemma over_regexes_ext (b1 b2 : @parser_body F) :
  (forall c0 cp st, b1 c0 cp st = b2 c0 cp st) ->
  forall data rs st, over_regexes b1 data rs st = over_regexes b2 data rs st.
Proof.
  intros E data rs. induction rs as [|c0 r IH]; intros st; [reflexivity|].
  cbn [over_regexes]. rewrite (over_captures_ext b1 b2 E).
  destruct (over_captures b2 c0 _ st); cbn [bind]; [apply IH|reflexivity].
Qed.

Lemma mapM_ext {A B} (f g : A -> res B) l : (forall x, f x = g x) -> mapM f l = mapM g l.
Proof.
  intro E. induction l as [|x r IH]; [reflexivity|]. cbn [mapM]. rewrite E, IH. reflexivity.
Qed.

(* ---- regex_tokinizer ---- *)
Lemma run_parser_lex lang line key rs st :
  run_parser today c' lang line key rs st = run_parser today c lang line key rs st.
Proof.
  unfold run_parser.
  repeat match goal with |- (if ?b then _ else _) = _ => destruct b end; try reflexivity.
  - apply over_regexes_ext. intros. apply field_body_lex.
  - apply over_regexes_ext. intros. apply money_body_lex.
  - apply atom_parser_lex.
  - apply over_regexes_ext. intros. apply percent_body_lex.
  - apply over_regexes_ext. intros. apply timezone_body_lex.
  - apply over_regexes_ext. intros. apply time_body_lex.
  - apply over_regexes_ext. intros. apply number_body_lex.
  - apply over_regexes_ext. intros. apply text_body_lex.
Qed.

Theorem regex_tokinizer_lex lang line st :
  regex_tokinizer lx today c' lang line st = regex_tokinizer lx today c lang line st.
Proof.
  unfold regex_tokinizer. f_equal. revert st.
  induction PARSER_ORDER as [|k r IH]; intros st; [reflexivity|].
  destruct (assoc k (lx_parse lx)) as [rs|]; [|apply IH].
  rewrite run_parser_lex. destruct (run_parser today c lang line k rs st); cbn [bind]; [apply IH|reflexivity].
Qed.

(* ---- alias_tokinizer ---- *)
Lemma alias_apply_lex aliases t : alias_apply lx today c' aliases t = alias_apply lx today c aliases t.
Proof.
  induction aliases as [|[c0 data] r IH]; [reflexivity|].
  cbn [alias_apply]. rewrite get_atom_lex, IH. reflexivity.
Qed.

Theorem alias_tokinizer_lex lang st : alias_tokinizer lx today c' lang st = alias_tokinizer lx today c lang st.
Proof.
  unfold alias_tokinizer.
  rewrite (mapM_ext _ _ (ts_infos st) (alias_apply_lex (lx_alias lx))).
  destruct (mapM _ (ts_infos st)) as [infos1|]; cbn [bind]; [|reflexivity].
  destruct (assoc lang (lx_lang_alias lx)) as [al|]; [|reflexivity].
  rewrite (mapM_ext _ _ infos1 (alias_apply_lex al)). reflexivity.
Qed.

(* ---- Tokinizer::token_infos: what rule patterns are tokenised with ---- *)
Theorem token_infos_lex lang line : token_infos lx today c' lang line = token_infos lx today c lang line.
Proof.
  unfold token_infos. rewrite language_tokinizer_lex.
  destruct (language_tokinizer lx c lang line empty_state) as [st1|]; cbn [bind]; [|reflexivity].
  rewrite regex_tokinizer_lex.
  destruct (regex_tokinizer lx today c lang line st1) as [st2|]; cbn [bind]; [|reflexivity].
  rewrite alias_tokinizer_lex. reflexivity.
Qed.

End Pair.

(* the lexer never reads the rule table (nor the unit families, nor the rates) *)
Theorem token_infos_set_rules lx today (c : config F) r lang line :
  token_infos lx today (set_rules c r) lang line = token_infos lx today c lang line.
Proof. apply token_infos_lex. apply lex_same_set_rules. Qed.

Theorem token_infos_set_types lx today (c : config F) t lang line :
  token_infos lx today (set_types c t) lang line = token_infos lx today c lang line.
Proof. apply token_infos_lex. apply lex_same_set_types. Qed.

Theorem tokenise_patterns_lex lx ck (c c' : config F) lang pats :
  lex_same c c' -> tokenise_patterns lx ck c' lang pats = tokenise_patterns lx ck c lang pats.
Proof. intro H. unfold tokenise_patterns. apply mapM_ext. intro line. apply token_infos_lex. exact H. Qed.

Theorem tokenise_patterns_set_rules lx ck (c : config F) r lang pats :
  tokenise_patterns lx ck (set_rules c r) lang pats = tokenise_patterns lx ck c lang pats.
Proof. apply tokenise_patterns_lex. apply lex_same_set_rules. Qed.

Theorem tokenise_patterns_set_types lx ck (c : config F) t lang pats :
  tokenise_patterns lx ck (set_types c t) lang pats = tokenise_patterns lx ck c lang pats.
Proof. apply tokenise_patterns_lex. apply lex_same_set_types. Qed.

End LexerView.

(* in the vocabulary of Proofs/C18.v *)
Lemma same_but_rules_lex (c c' : config float) : same_but_rules c c' -> lex_same c c'.
Proof. unfold same_but_rules. intro E. rewrite E. apply lex_same_set_rules. Qed.

Theorem token_infos_same_but_rules lx today (c c' : config float) lang line :
  same_but_rules c c' -> token_infos lx today c' lang line = token_infos lx today c lang line.
Proof. intro E. apply token_infos_lex. apply same_but_rules_lex. exact E. Qed.

Theorem tokenise_patterns_same_but_rules lx ck (c c' : config float) lang pats :
  same_but_rules c c' -> tokenise_patterns lx ck c' lang pats = tokenise_patterns lx ck c lang pats.
Proof. intro E. apply tokenise_patterns_lex. apply same_but_rules_lex. exact E. Qed.

(* ------------------------------------------------------------------------------------- *)
(* 2. a history of registrations and deletions = registering the survivors                *)
(* ------------------------------------------------------------------------------------- *)
(* association-list facts *)
Lemma assoc_update_compose {A} k (f g : A -> A) l :
  assoc_update k g (assoc_update k f l) = assoc_update k (fun v => g (f v)) l.
Proof.
  induction l as [|[k' v] r IH]; cbn [assoc_update]; [reflexivity|].
  destruct (str_eqb k k') eqn:E; cbn [assoc_update]; rewrite E; [reflexivity|f_equal; exact IH].
Qed.

Lemma assoc_update_ext {A} k (f g : A -> A) l :
  (forall v, f v = g v) -> assoc_update k f l = assoc_update k g l.
Proof.
  intro E. induction l as [|[k' v] r IH]; cbn [assoc_update]; [reflexivity|].
  destruct (str_eqb k k'); [rewrite E; reflexivity|f_equal; exact IH].
Qed.

Lemma assoc_update_const_id {A} k (v : A) l : assoc k l = Some v -> assoc_update k (fun _ => v) l = l.
Proof.
  induction l as [|[k' w] r IH]; cbn [assoc assoc_update]; [reflexivity|].
  destruct (str_eqb k k'); [intro E; inversion E; reflexivity|intro E; f_equal; apply IH; exact E].
Qed.

Lemma assoc_update_none {A} k (f : A -> A) l : assoc k l = None -> assoc_update k f l = l.
Proof.
  induction l as [|[k' w] r IH]; cbn [assoc assoc_update]; [reflexivity|].
  destruct (str_eqb k k'); [discriminate|intro E; f_equal; apply IH; exact E].
Qed.

Lemma assoc_some_in {A} k (v : A) l : assoc k l = Some v -> exists k', In (k', v) l.
Proof.
  induction l as [|[k' w] r IH]; cbn [assoc]; [discriminate|].
  destruct (str_eqb k k').
  - intro E; inversion E; subst. exists k'. left. reflexivity.
  - intro E. destruct (IH E) as [k2 Hin]. exists k2. right. exact Hin.
Qed.

Lemma set_rules_twice (c : config float) r r' : set_rules (set_rules c r) r' = set_rules c r'.
Proof. reflexivity. Qed.
Lemma cf_rules_set (c : config float) r : cf_rules (set_rules c r) = r.
Proof. reflexivity. Qed.
Lemma set_rules_id (c : config float) : set_rules c (cf_rules c) = c.
Proof. destruct c; reflexivity. Qed.

(* ---- the reference: the list of registrations (as they were given to add_rule) ---- *)
Record reg := { rg_patterns : list str; rg_name : str; rg_kind : rulekind; rg_k : float; rg_cur : str }.

(* delete removes the first registration of that name *)
Fixpoint reg_remove_first (name : str) (l : list reg) : list reg :=
  match l with
  | [] => []
  | r :: rest => if str_eqb name (rg_name r) then rest else r :: reg_remove_first name rest
  end.

(* add appends; everything but add_rule / delete_rule leaves the registrations alone *)
Definition spec_reg (l : list reg) (o : op) : list reg :=
  match o with
  | OAddRule _ patterns name kind k cur =>
    l ++ [{| rg_patterns := patterns; rg_name := name; rg_kind := kind; rg_k := k; rg_cur := cur |}]
  | ODeleteRule _ name => reg_remove_first name l
  | _ => l
  end.

(* the registrations that survive a history, in registration order *)
Definition survivors_spec (ops : list op) : list reg := fold_left spec_reg ops [].

(* the replay: one add_rule per registration *)
Definition add_of (lang : str) (r : reg) : op :=
  OAddRule lang (rg_patterns r) (rg_name r) (rg_kind r) (rg_k r) (rg_cur r).
Definition adds_of (lang : str) (l : list reg) : list op := map (add_of lang) l.

Lemma spec_reg_add_of lang l r : spec_reg l (add_of lang r) = l ++ [r].
Proof. destruct r; reflexivity. Qed.

Lemma fold_adds_of lang : forall l regs, fold_left spec_reg (adds_of lang l) regs = regs ++ l.
Proof.
  induction l as [|r l IH]; intro regs; cbn [adds_of map fold_left]; [symmetry; apply app_nil_r|].
  fold (adds_of lang l). rewrite IH, spec_reg_add_of, <- app_assoc. reflexivity.
Qed.

Lemma survivors_adds_of lang l : survivors_spec (adds_of lang l) = l.
Proof. unfold survivors_spec. rewrite fold_adds_of. reflexivity. Qed.

(* ---- the histories considered: add_rule / delete_rule on one language, patterns that
        tokenise without a panic (under the configuration [c]; by part 1 equivalently under
        the configuration at the moment of the call) ---- *)
Section Histories.
Variable ck : clock.

Definition reg_ok (c : config float) (lang : str) (r : reg) : Prop :=
  exists ps0, tokenise_patterns LX ck c lang (rg_patterns r) = Ok ps0.

Definition rule_op_ok (c : config float) (lang : str) (o : op) : Prop :=
  match o with
  | OAddRule l patterns _ _ _ _ => l = lang /\ exists ps0, tokenise_patterns LX ck c lang patterns = Ok ps0
  | ODeleteRule l _ => l = lang
  | _ => False
  end.

Lemma reg_remove_first_Forall (P : reg -> Prop) name l : Forall P l -> Forall P (reg_remove_first name l).
Proof.
  induction 1 as [|r l Hr Hl IH]; cbn [reg_remove_first]; [constructor|].
  destruct (str_eqb name (rg_name r)); [exact Hl|constructor; assumption].
Qed.

Lemma survivors_ok c lang : forall ops regs,
  Forall (reg_ok c lang) regs -> Forall (rule_op_ok c lang) ops -> Forall (reg_ok c lang) (fold_left spec_reg ops regs).
Proof.
  induction ops as [|o ops IH]; intros regs Hr Ho; cbn [fold_left]; [exact Hr|].
  inversion Ho as [|? ? Ho1 Ho2]; subst. apply IH; [|exact Ho2].
  destruct o; try contradiction; cbn [spec_reg].
  - destruct Ho1 as (_ & ps0 & Ht). apply Forall_app. split; [exact Hr|].
    constructor; [|constructor]. exists ps0. exact Ht.
  - apply reg_remove_first_Forall. exact Hr.
Qed.

Lemma adds_of_ok c lang l : Forall (reg_ok c lang) l -> Forall (rule_op_ok c lang) (adds_of lang l).
Proof.
  induction 1 as [|r l Hr _ IH]; cbn [adds_of map]; constructor; [|exact IH].
  cbn [add_of rule_op_ok]. split; [reflexivity|exact Hr].
Qed.

(* ---- the rule that add_rule stores for a registration ---- *)
Definition stored_pats (c : config float) (lang : str) (pats : list str) : list (list (token_info float)) :=
  match tokenise_patterns LX ck c lang pats with Ok ps0 => nonempty_pats ps0 | Panic _ => [] end.

Definition rule_of_reg (c : config float) (lang : str) (r : reg) : rule float :=
  RApi (stored_pats c lang (rg_patterns r)) (mk_api (rg_name r) (rg_kind r) (rg_k r) (rg_cur r)).

(* ---- one step, as a configuration update ---- *)
Lemma step_add_cfg m lang patterns name kind k cur ps0 rs :
  tokenise_patterns LX ck (m_cfg m) lang patterns = Ok ps0 ->
  assoc lang (cf_rules (m_cfg m)) = Some rs ->
  fst (step ck m (OAddRule lang patterns name kind k cur)) =
  with_cfg m (set_rules (m_cfg m)
                        (assoc_update lang (fun rs => rs ++ [RApi (nonempty_pats ps0) (mk_api name kind k cur)])
                                      (cf_rules (m_cfg m)))).
Proof. intros Ht Ha. cbn [step]. rewrite Ht, Ha. reflexivity. Qed.

Lemma step_del_cfg m lang name rs :
  assoc lang (cf_rules (m_cfg m)) = Some rs ->
  fst (step ck m (ODeleteRule lang name)) =
  match find_index (is_named name) rs with
  | Some i => with_cfg m (set_rules (m_cfg m) (assoc_update lang (fun rs => remove_at i rs) (cf_rules (m_cfg m))))
  | None => m
  end.
Proof.
  intros Ha. cbn [step]. rewrite Ha.
  change (fun r : rule float => match r with RApi _ ar => str_eqb name (ar_name ar) | RInternal _ _ => false end)
    with (is_named name).
  destruct (find_index (is_named name) rs); reflexivity.
Qed.

(* ---- delete on a rule list "built-in rules, then the registrations" ---- *)
Lemma delete_closed name (f : reg -> rule float) :
  (forall r, is_named name (f r) = str_eqb name (rg_name r)) ->
  forall ints regs, api_of ints = [] ->
  match find_index (is_named name) (ints ++ map f regs) with
  | Some i => remove_at i (ints ++ map f regs) = ints ++ map f (reg_remove_first name regs)
  | None => reg_remove_first name regs = regs
  end.
Proof.
  intros Hf ints regs. induction ints as [|a ints IH]; intro Hi.
  - cbn [app]. clear Hi. induction regs as [|r regs IHr]; cbn [map find_index reg_remove_first]; [reflexivity|].
    rewrite Hf. destruct (str_eqb name (rg_name r)); [reflexivity|].
    destruct (find_index (is_named name) (map f regs)) as [i|]; cbn [option_map remove_at map].
    + f_equal. exact IHr.
    + f_equal. exact IHr.
  - destruct a as [fn ps|ps ar]; [|discriminate Hi].
    cbn [app find_index is_named]. specialize (IH Hi).
    destruct (find_index (is_named name) (ints ++ map f regs)) as [i|]; cbn [option_map remove_at].
    + f_equal. exact IH.
    + exact IH.
Qed.

(* ---- the closed form of the state: the initial configuration [c0] whose rule list of
        [lang] is the built-in rules [ints] followed by the rules of the registrations ---- *)
Definition st_of (c0 : config float) (lang : str) (ints : list (rule float))
           (ss : list (N * session (F:=float))) (regs : list reg) : mstate :=
  {| m_cfg := set_rules c0 (assoc_update lang (fun _ => ints ++ map (rule_of_reg c0 lang) regs) (cf_rules c0));
     m_sessions := ss |}.

Lemma step_closed c0 lang ints ss x regs o :
  assoc lang (cf_rules c0) = Some x -> api_of ints = [] -> rule_op_ok c0 lang o ->
  fst (step ck (st_of c0 lang ints ss regs) o) = st_of c0 lang ints ss (spec_reg regs o).
Proof.
  intros Hx Hi Hok.
  assert (Ha : assoc lang (cf_rules (m_cfg (st_of c0 lang ints ss regs)))
               = Some (ints ++ map (rule_of_reg c0 lang) regs)).
  { unfold st_of. cbn [m_cfg]. rewrite cf_rules_set, assoc_update_same, Hx. reflexivity. }
  destruct o; try contradiction.
  - destruct Hok as (-> & ps0 & Ht).
    rewrite (step_add_cfg _ lang patterns name kind k cur ps0 _) by
      (try exact Ha; unfold st_of; cbn [m_cfg]; rewrite tokenise_patterns_set_rules; exact Ht).
    unfold st_of, with_cfg. cbn [m_cfg m_sessions spec_reg].
    rewrite set_rules_twice, cf_rules_set, assoc_update_compose. f_equal. f_equal.
    apply assoc_update_ext. intros _. rewrite map_app, app_assoc. cbn [map]. f_equal. f_equal.
    unfold rule_of_reg, stored_pats. cbn [rg_patterns rg_name rg_kind rg_k rg_cur]. rewrite Ht. reflexivity.
  - cbn [rule_op_ok] in Hok. subst lang0.
    rewrite (step_del_cfg _ lang name _ Ha).
    pose proof (delete_closed name (rule_of_reg c0 lang) (fun r => eq_refl) ints regs Hi) as D.
    cbn [spec_reg].
    destruct (find_index (is_named name) (ints ++ map (rule_of_reg c0 lang) regs)) as [i|].
    + unfold st_of, with_cfg. cbn [m_cfg m_sessions].
      rewrite set_rules_twice, cf_rules_set, assoc_update_compose. f_equal. f_equal.
      apply assoc_update_ext. intros _. exact D.
    + rewrite D. reflexivity.
Qed.

Lemma final_closed c0 lang ints ss x :
  assoc lang (cf_rules c0) = Some x -> api_of ints = [] ->
  forall ops regs, Forall (rule_op_ok c0 lang) ops ->
  final ck (st_of c0 lang ints ss regs) ops = st_of c0 lang ints ss (fold_left spec_reg ops regs).
Proof.
  intros Hx Hi. induction ops as [|o ops IH]; intros regs Hok; [reflexivity|].
  inversion Hok as [|? ? Ho1 Ho2]; subst.
  change (final ck (st_of c0 lang ints ss regs) (o :: ops))
    with (final ck (fst (step ck (st_of c0 lang ints ss regs) o)) ops).
  rewrite (step_closed c0 lang ints ss x regs o Hx Hi Ho1). cbn [fold_left]. apply IH. exact Ho2.
Qed.

(* a state whose rule list of [lang] is [rs] is the closed form with no registrations *)
Lemma st_of_init c ss lang rs :
  assoc lang (cf_rules c) = Some rs -> st_of c lang rs ss [] = {| m_cfg := c; m_sessions := ss |}.
Proof.
  intro Hrs. unfold st_of. cbn [map]. rewrite app_nil_r, (assoc_update_const_id lang rs _ Hrs), set_rules_id.
  reflexivity.
Qed.

(* ---- the theorems ---- *)
(* the closed form of the state after a history: the WHOLE configuration is the initial one
   with the rules of the survivors appended behind the built-in rules of the language *)
Theorem history_state m lang rs ops :
  rules_of m lang = Some rs -> api_of rs = [] -> Forall (rule_op_ok (m_cfg m) lang) ops ->
  final ck m ops = st_of (m_cfg m) lang rs (m_sessions m) (survivors_spec ops).
Proof.
  intros Hrs Hi Hok. destruct m as [c ss]. unfold rules_of in Hrs. cbn [m_cfg m_sessions] in *.
  rewrite <- (st_of_init c ss lang rs Hrs) at 1.
  apply (final_closed c lang rs ss rs Hrs Hi). exact Hok.
Qed.

(* C18, central clause: the state after the history IS the state of the calculator on which
   only the survivors were registered, in order (configuration and sessions) *)
Theorem fresh_equiv m lang rs ops :
  rules_of m lang = Some rs -> api_of rs = [] -> Forall (rule_op_ok (m_cfg m) lang) ops ->
  final ck m ops = final ck m (adds_of lang (survivors_spec ops)).
Proof.
  intros Hrs Hi Hok.
  rewrite (history_state m lang rs ops Hrs Hi Hok).
  rewrite (history_state m lang rs (adds_of lang (survivors_spec ops)) Hrs Hi).
  - rewrite survivors_adds_of. reflexivity.
  - apply adds_of_ok. apply (survivors_ok (m_cfg m) lang ops []); [constructor|exact Hok].
Qed.

(* an unknown language: every registration and deletion is refused, nothing changes *)
Lemma final_unknown m lang : forall ops,
  rules_of m lang = None -> Forall (rule_op_ok (m_cfg m) lang) ops -> final ck m ops = m.
Proof.
  induction ops as [|o ops IH]; intros Hn Hok; [reflexivity|].
  inversion Hok as [|? ? Ho1 Ho2]; subst.
  change (final ck m (o :: ops)) with (final ck (fst (step ck m o)) ops).
  assert (E : fst (step ck m o) = m).
  { unfold rules_of in Hn. destruct o; try contradiction.
    - destruct Ho1 as (-> & ps0 & Ht). cbn [step]. rewrite Ht, Hn. reflexivity.
    - cbn [rule_op_ok] in Ho1. subst lang0. cbn [step]. rewrite Hn. reflexivity. }
  rewrite E. apply IH; assumption.
Qed.

(* known or unknown language *)
Theorem fresh_equiv_any m lang ops :
  match rules_of m lang with Some rs => api_of rs = [] | None => True end ->
  Forall (rule_op_ok (m_cfg m) lang) ops ->
  final ck m ops = final ck m (adds_of lang (survivors_spec ops)).
Proof.
  intros Hi Hok. destruct (rules_of m lang) as [rs|] eqn:Hrs.
  - apply (fresh_equiv m lang rs ops Hrs Hi Hok).
  - rewrite (final_unknown m lang ops Hrs Hok).
    rewrite (final_unknown m lang (adds_of lang (survivors_spec ops)) Hrs); [reflexivity|].
    apply adds_of_ok. apply (survivors_ok (m_cfg m) lang ops []); [constructor|exact Hok].
Qed.

(* hence every later operation (evaluation, sessions, further registrations ...) observes the same *)
Corollary fresh_run m lang ops evals :
  match rules_of m lang with Some rs => api_of rs = [] | None => True end ->
  Forall (rule_op_ok (m_cfg m) lang) ops ->
  run ck (final ck m ops) evals = run ck (final ck m (adds_of lang (survivors_spec ops))) evals.
Proof. intros Hi Hok. rewrite (fresh_equiv_any m lang ops Hi Hok). reflexivity. Qed.

(* as one history each: the observations of the operations after the rule history *)
Corollary fresh_run_app m lang ops evals :
  match rules_of m lang with Some rs => api_of rs = [] | None => True end ->
  Forall (rule_op_ok (m_cfg m) lang) ops ->
  skipn (length ops) (run ck m (ops ++ evals)) =
  skipn (length (survivors_spec ops)) (run ck m (adds_of lang (survivors_spec ops) ++ evals)).
Proof.
  intros Hi Hok. rewrite !run_app.
  assert (L : forall m ops, length (run ck m ops) = length ops).
  { intros m0 ops0. revert m0. induction ops0 as [|o r IH]; intro m0; cbn [run length]; [reflexivity|].
    destruct (step ck m0 o) as [m' ob]. cbn [length]. rewrite IH. reflexivity. }
  rewrite <- (L m ops) at 1. rewrite skipn_app, skipn_all, Nat.sub_diag. cbn [skipn app].
  replace (length (survivors_spec ops)) with (length (run ck m (adds_of lang (survivors_spec ops))))
    by (rewrite L; unfold adds_of; apply map_length).
  rewrite skipn_app, skipn_all, Nat.sub_diag. cbn [skipn app].
  apply fresh_run; assumption.
Qed.

(* the invariant: the API rules stand behind the built-in rules, in registration order *)
Corollary history_rules m lang rs ops :
  rules_of m lang = Some rs -> api_of rs = [] -> Forall (rule_op_ok (m_cfg m) lang) ops ->
  rules_of (final ck m ops) lang = Some (rs ++ map (rule_of_reg (m_cfg m) lang) (survivors_spec ops)) /\
  same_but_rules (m_cfg m) (m_cfg (final ck m ops)) /\
  m_sessions (final ck m ops) = m_sessions m.
Proof.
  intros Hrs Hi Hok. rewrite (history_state m lang rs ops Hrs Hi Hok).
  unfold rules_of, st_of, same_but_rules. cbn [m_cfg m_sessions]. repeat split.
  rewrite cf_rules_set, assoc_update_same. unfold rules_of in Hrs. rewrite Hrs. reflexivity.
Qed.

End Histories.

(* ---- agreement with the reference semantics of Proofs/C18.v (spec_rop over RAdd / RDel,
        realises): the survivors, seen as stored (patterns, rule) pairs, are that reference ---- *)
Section Link.
Variable ck : clock.

Definition pa_of (c : config float) (lang : str) (r : reg) : list (list (token_info float)) * apirule float :=
  (stored_pats ck c lang (rg_patterns r), mk_api (rg_name r) (rg_kind r) (rg_k r) (rg_cur r)).

Definition rop_of (c : config float) (lang : str) (o : op) : rop :=
  match o with
  | OAddRule _ patterns name kind k cur => RAdd (stored_pats ck c lang patterns) (mk_api name kind k cur)
  | ODeleteRule _ name => RDel name
  | _ => RDel []
  end.

Lemma api_of_rules_of_regs c lang regs : api_of (map (rule_of_reg ck c lang) regs) = map (pa_of c lang) regs.
Proof.
  induction regs as [|r l IH]; [reflexivity|].
  change (api_of (map (rule_of_reg ck c lang) (r :: l)))
    with (pa_of c lang r :: api_of (map (rule_of_reg ck c lang) l)).
  rewrite IH. reflexivity.
Qed.

Lemma remove_first_regs c lang name regs :
  remove_first name (map (pa_of c lang) regs) = map (pa_of c lang) (reg_remove_first name regs).
Proof.
  induction regs as [|r l IH]; [reflexivity|]. cbn [map remove_first reg_remove_first pa_of mk_api ar_name].
  destruct (str_eqb name (rg_name r)); [reflexivity|]. cbn [map]. f_equal. exact IH.
Qed.

Theorem survivors_reference c lang : forall ops regs,
  Forall (rule_op_ok ck c lang) ops ->
  map (pa_of c lang) (fold_left spec_reg ops regs) =
  fold_left spec_rop (map (rop_of c lang) ops) (map (pa_of c lang) regs).
Proof.
  induction ops as [|o ops IH]; intros regs Hok; [reflexivity|].
  inversion Hok as [|? ? Ho1 Ho2]; subst. cbn [fold_left map]. rewrite (IH _ Ho2). f_equal.
  destruct o; try contradiction; cbn [spec_reg rop_of spec_rop].
  - rewrite map_app. reflexivity.
  - symmetry. apply remove_first_regs.
Qed.

(* add_rule / delete_rule leave the lexer's view of the configuration alone *)
Lemma step_rule_lex m o lang c : rule_op_ok ck c lang o -> lex_same (m_cfg m) (m_cfg (fst (step ck m o))).
Proof.
  intro Hok. destruct o; try contradiction; cbn [step].
  - destruct (tokenise_patterns LX ck (m_cfg m) lang0 patterns); [|reflexivity].
    destruct (assoc lang0 (cf_rules (m_cfg m))); reflexivity.
  - destruct (assoc lang0 (cf_rules (m_cfg m))); [|reflexivity].
    destruct (find_index _ _); reflexivity.
Qed.

(* the histories of this file realise their reference histories in the sense of Proofs/C18.v,
   so C18.rule_history applies to them as well *)
Theorem rule_ops_realise c lang : forall ops m,
  lex_same c (m_cfg m) -> Forall (rule_op_ok ck c lang) ops ->
  realises ck lang m ops (map (rop_of c lang) ops).
Proof.
  induction ops as [|o ops IH]; intros m Hl Hok; [exact I|].
  inversion Hok as [|? ? Ho1 Ho2]; subst.
  pose proof (step_rule_lex m o lang c Ho1) as Hs.
  assert (Hl' : lex_same c (m_cfg (fst (step ck m o)))) by (eapply lex_same_trans; eassumption).
  specialize (IH _ Hl' Ho2).
  destruct o; try contradiction; cbn [map rop_of realises].
  - destruct Ho1 as (-> & ps0 & Ht). repeat split; [|exact IH].
    exists ps0. rewrite (tokenise_patterns_lex LX ck c (m_cfg m) lang patterns Hl). split; [exact Ht|].
    unfold stored_pats. rewrite Ht. reflexivity.
  - cbn [rule_op_ok] in Ho1. subst lang0. repeat split. exact IH.
Qed.

End Link.

(* ---- the default configuration has no API rule in any language ---- *)
Definition no_api_b (rs : list (rule float)) : bool := match api_of rs with [] => true | _ => false end.

Lemma default_no_api_table : forallb (fun kv => no_api_b (snd kv)) (cf_rules default_config) = true.
Proof. vm_compute. reflexivity. Qed.

Lemma default_no_api lang rs : rules_of init_state lang = Some rs -> api_of rs = [].
Proof.
  unfold rules_of, init_state. cbn [m_cfg]. intro E. destruct (assoc_some_in _ _ _ E) as [k Hin].
  pose proof (proj1 (forallb_forall _ _) default_no_api_table _ Hin) as Hb. cbn [snd] in Hb.
  unfold no_api_b in Hb. destruct (api_of rs); [reflexivity|discriminate].
Qed.

(* the fresh calculator *)
Theorem fresh_equiv_init ck lang ops :
  Forall (rule_op_ok ck default_config lang) ops ->
  final ck init_state ops = final ck init_state (adds_of lang (survivors_spec ops)).
Proof.
  intro Hok. apply fresh_equiv_any; [|exact Hok].
  destruct (rules_of init_state lang) as [rs|] eqn:E; [|exact I]. apply (default_no_api lang rs E).
Qed.

Corollary fresh_run_init ck lang ops evals :
  Forall (rule_op_ok ck default_config lang) ops ->
  run ck (final ck init_state ops) evals =
  run ck (final ck init_state (adds_of lang (survivors_spec ops))) evals.
Proof. intro Hok. rewrite (fresh_equiv_init ck lang ops Hok). reflexivity. Qed.

(* ------------------------------------------------------------------------------------- *)
(* 3. non-vacuity, computed through Corr.run at binary64                                  *)
(* ------------------------------------------------------------------------------------- *)
From SC.Model Require Import FloatIO.

Definition fr_ck : clock := {| ck_today := 20000; ck_year := 2024 |}.
Definition fr_two : float := Eval vm_compute in f64_of_Z 2.
Definition fr_three : float := Eval vm_compute in f64_of_Z 3.
Definition fr_ten : float := Eval vm_compute in f64_of_Z 10.

(* two registrations of the same name, a deletion (removes the FIRST), another registration *)
Definition fr_hist : list op :=
  [OAddRule (s "en") [s "{NUMBER:x} widgets"] (s "w") RScale fr_two [];
   OAddRule (s "en") [s "{NUMBER:x} widgets"] (s "w") RScale fr_ten [];
   ODeleteRule (s "en") (s "w");
   OAddRule (s "en") [s "{NUMBER:x} gadgets"; s ""] (s "g") RScale fr_three [];
   ODeleteRule (s "en") (s "nosuch")].

Definition fr_evals : list op :=
  [OExec (s "en") (s "3 widgets"); OExec (s "en") (s "3 gadgets"); OExec (s "en") (s "1 + 1");
   ONewSession 1; OSetLanguage 1 (s "en"); OSetText 1 (s "a = 2 widgets
a + 1"); OExecSession 1;
   ODeleteRule (s "en") (s "w"); OExec (s "en") (s "3 widgets")].

Definition fr_replay : list op :=
  [OAddRule (s "en") [s "{NUMBER:x} widgets"] (s "w") RScale fr_ten [];
   OAddRule (s "en") [s "{NUMBER:x} gadgets"; s ""] (s "g") RScale fr_three []].

Example fr_replay_is_adds_of : adds_of (s "en") (survivors_spec fr_hist) = fr_replay.
Proof. vm_compute. reflexivity. Qed.

Example fr_hist_ok : Forall (rule_op_ok fr_ck default_config (s "en")) fr_hist.
Proof.
  unfold fr_hist.
  repeat (apply Forall_cons;
          [cbn [rule_op_ok]; first [reflexivity|split; [reflexivity|eexists; vm_compute; reflexivity]]|]).
  apply Forall_nil.
Qed.

(* the theorem applied to the example ... *)
Example fr_states_equal : final fr_ck init_state fr_hist = final fr_ck init_state fr_replay.
Proof. rewrite <- fr_replay_is_adds_of. apply fresh_equiv_init. exact fr_hist_ok. Qed.

(* ... and the same fact computed, with the observations shown *)
Definition fr_show (o : mobs) : list (option str) :=
  match o with
  | MRes r => map (fun l => match l with
                            | Some lo => match lo_result lo with LOk out _ => Some out | LErr _ => None end
                            | None => None end) (er_lines r)
  | MRet (Some true) => [Some (s "true")]
  | MRet (Some false) => [Some (s "false")]
  | _ => []
  end.

Example fr_example :
  run fr_ck (final fr_ck init_state fr_hist) fr_evals = run fr_ck (final fr_ck init_state fr_replay) fr_evals /\
  map fr_show (run fr_ck init_state fr_hist) =
    [[Some (s "true")]; [Some (s "true")]; [Some (s "true")]; [Some (s "true")]; [Some (s "false")]] /\
  map fr_show (run fr_ck (final fr_ck init_state fr_hist) fr_evals) =
    [[Some (s "30")]; [Some (s "9")]; [Some (s "2")]; []; []; []; [Some (s "20"); Some (s "21")];
     [Some (s "true")]; [Some (s "3")]].
Proof. vm_compute. repeat split; reflexivity. Qed.

Print Assumptions token_infos_lex.
Print Assumptions tokenise_patterns_set_rules.
Print Assumptions tokenise_patterns_same_but_rules.
Print Assumptions history_state.
Print Assumptions fresh_equiv.
Print Assumptions fresh_equiv_any.
Print Assumptions fresh_run.
Print Assumptions fresh_run_app.
Print Assumptions history_rules.
Print Assumptions survivors_reference.
Print Assumptions rule_ops_realise.
Print Assumptions fresh_equiv_init.
Print Assumptions fresh_run_init.
Print Assumptions fr_states_equal.
Print Assumptions fr_example.
