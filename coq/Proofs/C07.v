(* Proofs for property C07 (number printing).

   1. group3 / group_loop_group3   the grouping loop puts the separator exactly in front of every
                                   complete group of three counted from the right (all digit lists)
   2. spec_print / format_correct  format_number IS the specified print: every value, separator
                                   string, digit count and flag setting, any number algebra
   3. sign                         '-' exactly for values below zero
   4. wrappers                     percent, money (symbol, placement, digits), unit quantities
   5. binary64 facts               the former witnesses of the double rounding (repaired in 9ef4dcc)
                                   now print as specified; families of prints; currency table
   6. fixed_exact (Spec/Fixed.v)   "{:.N}" of a binary64 is the half-even rounding of its exact value *)
From SC.Model Require Import Base Num NumF64 FloatIO Types Config Case Chrono Parser Format Run64.
From SC.Spec Require Import Fixed.
From SC.Gen Require Import ConfigData.
From Coq Require Import ZArith Lia Floats ZifyNat.

Ltac Zify.zify_post_hook ::= Z.to_euclidean_division_equations.

(* ------------------------------------------------------------------------------------- *)
(* 1. grouping in threes                                                                  *)
(* ------------------------------------------------------------------------------------- *)
(* The reference: after a digit comes a separator exactly when the number of digits that
   remain to its right is positive and a multiple of three. *)
Fixpoint group3 (tsep ds : str) : str :=
  match ds with
  | [] => []
  | c :: r =>
    c :: (if negb (Nat.eqb (length r) 0) && Nat.eqb (Nat.modulo (length r) 3) 0 then tsep else [])
      ++ group3 tsep r
  end.

Lemma group_loop_inv : forall ds index n dot tsep,
  n = (index + length ds)%nat -> Nat.modulo (dot + length ds) 3 = 0%nat ->
  group_loop ds index n dot tsep = group3 tsep ds.
Proof.
  induction ds as [|c r IH]; intros index n dot tsep Hn Hd; cbn [group_loop group3]; [reflexivity|].
  cbn [length] in Hn, Hd.
  f_equal. f_equal.
  - assert (E1 : Nat.eqb n (S index) = Nat.eqb (length r) 0).
    { destruct (Nat.eqb_spec n (S index)), (Nat.eqb_spec (length r) 0); try reflexivity; exfalso; lia. }
    assert (E2 : Nat.eqb (Nat.modulo (S dot) 3) 0 = Nat.eqb (Nat.modulo (length r) 3) 0).
    { destruct (Nat.eqb_spec (Nat.modulo (S dot) 3) 0), (Nat.eqb_spec (Nat.modulo (length r) 3) 0);
        try reflexivity; exfalso; lia. }
    rewrite E1, E2. reflexivity.
  - apply IH; [lia|]. replace (S dot + length r)%nat with (dot + S (length r))%nat by lia. exact Hd.
Qed.

(* the loop of formatter/mod.rs:57-71 as format_number starts it *)
Theorem group_loop_group3 : forall (ds tsep : str),
  group_loop ds 0 (length ds) (3 - Nat.modulo (length ds) 3) tsep = group3 tsep ds.
Proof.
  intros ds tsep. apply group_loop_inv; [reflexivity|].
  generalize (length ds). intro n. lia.
Qed.

(* what group3 is: short lists are unchanged, and a block whose length is a multiple of three
   is preceded by exactly one separator *)
Lemma group3_short : forall tsep ds, (length ds <= 3)%nat -> group3 tsep ds = ds.
Proof.
  intros tsep ds H.
  destruct ds as [|a [|b [|c [|d r]]]]; cbn in *; try reflexivity; lia.
Qed.

Lemma group3_app : forall tsep a b,
  a <> [] -> b <> [] -> Nat.modulo (length b) 3 = 0%nat ->
  group3 tsep (a ++ b) = group3 tsep a ++ tsep ++ group3 tsep b.
Proof.
  intros tsep a b Ha Hb Hm. induction a as [|c a IH]; [contradiction|].
  destruct a as [|c' a'].
  - cbn [app group3 length].
    assert (E : negb (Nat.eqb (length b) 0) && Nat.eqb (Nat.modulo (length b) 3) 0 = true).
    { rewrite Hm. destruct b; [contradiction|]. reflexivity. }
    rewrite E. reflexivity.
  - assert (Hne : c' :: a' <> []) by discriminate.
    remember (c' :: a') as a2 eqn:Ea2.
    cbn [app group3]. rewrite (IH Hne).
    assert (E : negb (Nat.eqb (length (a2 ++ b)) 0) && Nat.eqb (Nat.modulo (length (a2 ++ b)) 3) 0
              = negb (Nat.eqb (length a2) 0) && Nat.eqb (Nat.modulo (length a2) 3) 0).
    { rewrite app_length. rewrite Ea2. cbn [length].
      assert (H : Nat.modulo (S (length a') + length b) 3 = Nat.modulo (S (length a')) 3) by lia.
      rewrite H. reflexivity. }
    rewrite E. rewrite <- app_assoc. reflexivity.
Qed.

Lemma group3_no_sep : forall ds, group3 [] ds = ds.
Proof.
  induction ds as [|c r IH]; cbn [group3]; [reflexivity|].
  destruct (negb _ && _); cbn; rewrite IH; reflexivity.
Qed.

(* the separators are the only thing added: (n-1)/3 of them *)
Lemma group3_length : forall tsep ds,
  length (group3 tsep ds) = (length ds + length tsep * ((length ds - 1) / 3))%nat.
Proof.
  intros tsep ds. induction ds as [|c r IH]; [cbn; lia|].
  cbn [group3 length]. rewrite app_length, IH.
  replace (S (length r) - 1)%nat with (length r) by lia.
  destruct (Nat.eqb_spec (length r) 0) as [E|E]; cbn [negb andb].
  - rewrite E. cbn. lia.
  - destruct (Nat.eqb_spec (Nat.modulo (length r) 3) 0) as [M|M]; cbn [length].
    + assert (length r / 3 = S ((length r - 1) / 3))%nat by lia. rewrite H. lia.
    + assert (length r / 3 = (length r - 1) / 3)%nat by lia. rewrite H. lia.
Qed.

(* ------------------------------------------------------------------------------------- *)
(* strings: the part in front of the first '.' and the part behind it                     *)
(* ------------------------------------------------------------------------------------- *)
Fixpoint int_part (st : str) : str :=
  match st with
  | [] => []
  | c :: r => if N.eqb c 46 then [] else c :: int_part r
  end.
Fixpoint frac_part (st : str) : str :=
  match st with
  | [] => []
  | c :: r => if N.eqb c 46 then r else frac_part r
  end.
Definition has_dot (st : str) : bool := existsb (fun c => N.eqb c 46) st.
Definition all_zero (st : str) : bool := forallb (fun c => N.eqb c 48) st.

Lemma int_part_length_le st : (length (int_part st) <= length st)%nat.
Proof.
  induction st as [|c r IH]; cbn [int_part length]; [lia|].
  destruct (N.eqb c 46); cbn [length]; lia.
Qed.

Lemma firstn_int_part st : firstn (length (int_part st)) st = int_part st.
Proof.
  induction st as [|c r IH]; cbn [int_part]; [reflexivity|].
  destruct (N.eqb c 46); cbn [length firstn]; [reflexivity|]. rewrite IH. reflexivity.
Qed.

Lemma skipn_int_part st : skipn (S (length (int_part st))) st = frac_part st.
Proof.
  induction st as [|c r IH]; cbn [int_part frac_part]; [reflexivity|].
  destruct (N.eqb c 46) eqn:E; cbn [length skipn].
  - reflexivity.
  - exact IH.
Qed.

Lemma int_part_full_iff st : Nat.eqb (length (int_part st)) (length st) = negb (has_dot st).
Proof.
  unfold has_dot.
  induction st as [|c r IH]; cbn [int_part existsb length]; [reflexivity|].
  destruct (N.eqb c 46) eqn:E; cbn [length orb negb Nat.eqb]; [reflexivity|]. exact IH.
Qed.

Lemma split_at_dot st : has_dot st = true -> st = int_part st ++ 46%N :: frac_part st.
Proof.
  unfold has_dot.
  induction st as [|c r IH]; cbn [int_part frac_part existsb]; [discriminate|].
  destruct (N.eqb_spec c 46) as [E|E]; cbn [orb app].
  - intros _. subst c. reflexivity.
  - intro H. f_equal. apply IH. exact H.
Qed.

Lemma no_dot_int_part st : has_dot st = false -> int_part st = st /\ frac_part st = [].
Proof.
  unfold has_dot.
  induction st as [|c r IH]; cbn [int_part frac_part existsb]; [split; reflexivity|].
  destruct (N.eqb c 46); cbn [orb]; [discriminate|].
  intro H. destruct (IH H) as [A B]. rewrite A, B. split; reflexivity.
Qed.

(* ------------------------------------------------------------------------------------- *)
(* 2. format_number is the specified print                                                *)
(* ------------------------------------------------------------------------------------- *)
Lemma find_dot_int_part st :
  match find_index (N.eqb 46) st with Some i => i | None => length st end = length (int_part st).
Proof.
  induction st as [|c r IH]; cbn [find_index int_part length]; [reflexivity|].
  rewrite (N.eqb_sym 46 c). destruct (N.eqb c 46); cbn [length]; [reflexivity|].
  destruct (find_index (N.eqb 46) r); cbn [option_map]; rewrite IH; reflexivity.
Qed.

Lemma forallb_zero st : forallb (N.eqb 48) st = all_zero st.
Proof.
  unfold all_zero. induction st as [|c r IH]; cbn [forallb]; [reflexivity|].
  rewrite (N.eqb_sym 48 c), IH. reflexivity.
Qed.

Section WithNum.
Context {F : Type} {NF : Num F}.

(* the rendering of the magnitude: it supplies every printed digit, the length of the integer
   part and the zero-fraction test *)
Definition fmt_string (x : F) (digits : N) (rnd : bool) : str :=
  if rnd then ffixed (fabs x) digits else fdisplay (fabs x).

Definition sign_str (x : F) : str := if fltb x f0 then [45%N] else [].

(* [st] is the decimal rendering of |x| (correctly rounded "{:.N}", or the shortest "{}" when
   rounding is switched off) *)
Definition show_fraction (rm : bool) (st : str) : bool :=
  has_dot st && (negb rm || negb (all_zero (frac_part st))).

Definition spec_print (neg : bool) (tsep dsep : str) (rm : bool) (st : str) : str :=
  (if neg then [45%N] else []) ++ group3 tsep (int_part st)
    ++ (if show_fraction rm st then dsep ++ frac_part st else []).

(* the main theorem, unconditional: never a panic, always the specified print *)
Theorem format_correct : forall (x : F) (tsep dsep : str) (digits : N) (rm rnd : bool),
  format_number x tsep dsep digits rm rnd
  = Ok (spec_print (fltb x f0) tsep dsep rm (fmt_string x digits rnd)).
Proof.
  intros. unfold format_number, spec_print, show_fraction, fmt_string.
  set (st := if rnd then _ else _).
  cbv zeta. rewrite (find_dot_int_part st).
  rewrite firstn_int_part, skipn_int_part, int_part_full_iff, negb_involutive, forallb_zero.
  pose proof (group_loop_group3 (int_part st) tsep) as G. rewrite G.
  replace ((negb (all_zero (frac_part st)) || negb rm) && has_dot st)
    with (has_dot st && (negb rm || negb (all_zero (frac_part st))))
    by (destruct (has_dot st), rm, (all_zero (frac_part st)); reflexivity).
  destruct (has_dot st && (negb rm || negb (all_zero (frac_part st)))).
  - rewrite <- app_assoc. reflexivity.
  - rewrite app_nil_r. reflexivity.
Qed.

(* the printed text read back: removing the sign gives the grouped integer part followed, when
   shown, by the decimal separator and exactly the digits behind the '.' of the rendering *)
Corollary format_never_panics : forall (x : F) tsep dsep digits rm rnd,
  is_ok (format_number x tsep dsep digits rm rnd) = true.
Proof. intros. rewrite format_correct. reflexivity. Qed.

(* ------------------------------------------------------------------------------------- *)
(* 3. sign                                                                                *)
(* ------------------------------------------------------------------------------------- *)
Definition starts_minus (x : str) : bool := match x with c :: _ => N.eqb c 45 | [] => false end.

(* the print starts with '-' exactly for values below zero, provided the rendering of the
   magnitude does not itself start with '-' and has a non-empty integer part (checked for
   binary64 in magnitude_unsigned) *)
Theorem format_sign : forall x tsep dsep digits rm rnd out,
  format_number x tsep dsep digits rm rnd = Ok out ->
  starts_minus (fmt_string x digits rnd) = false ->
  int_part (fmt_string x digits rnd) <> [] ->
  starts_minus out = fltb x f0.
Proof.
  intros x tsep dsep digits rm rnd out H Hs Hne.
  rewrite format_correct in H. injection H as <-.
  unfold spec_print. destruct (fltb x f0); [reflexivity|].
  cbn [app].
  destruct (fmt_string x digits rnd) as [|c0 r0]; [contradiction Hne; reflexivity|].
  cbn [int_part] in *. cbn [starts_minus] in Hs.
  destruct (N.eqb c0 46); [contradiction Hne; reflexivity|].
  cbn [group3 app starts_minus]. exact Hs.
Qed.

(* ------------------------------------------------------------------------------------- *)
(* 4. wrappers                                                                            *)
(* ------------------------------------------------------------------------------------- *)
Definition map_res {A B} (f : A -> B) (r : res A) : res B :=
  match r with Ok a => Ok (f a) | Panic s => Panic s end.

Definition money_place (c : currency) (p : str) : str :=
  if c_left c then c_symbol c ++ (if c_space c then [32%N] else []) ++ p
  else p ++ (if c_space c then [32%N] else []) ++ c_symbol c.

Theorem print_number : forall (cfg : config F) lang y x,
  item_print cfg lang y (INumber x Decimal)
  = format_number x (cf_tsep cfg) (cf_dsep cfg) (nc_digits (cf_number cfg))
                  (nc_rm (cf_number cfg)) (nc_round (cf_number cfg)).
Proof. reflexivity. Qed.

Theorem print_percent : forall (cfg : config F) lang y x,
  item_print cfg lang y (IPercent x)
  = map_res (fun r => 37%N :: r)
      (format_number x (cf_tsep cfg) (cf_dsep cfg) (nc_digits (cf_percent cfg))
                     (nc_rm (cf_percent cfg)) (nc_round (cf_percent cfg))).
Proof. intros. cbn [item_print]. destruct (format_number _ _ _ _ _ _); reflexivity. Qed.

Theorem print_money : forall (cfg : config F) lang y x code c,
  currency_by_code cfg code = Some c ->
  item_print cfg lang y (IMoney x code)
  = map_res (money_place c)
      (format_number x (cf_tsep cfg) (cf_dsep cfg) (c_digits c) (nc_rm (cf_money cfg)) (nc_round (cf_money cfg))).
Proof.
  intros cfg lang y x code c H. cbn [item_print]. rewrite H.
  destruct (format_number _ _ _ _ _ _); [|reflexivity].
  unfold money_place. cbn [bind map_res].
  destruct (c_left c), (c_space c); cbn [app]; reflexivity.
Qed.

Definition unit_digits (d : dyntype F) : N := match dt_digits d with Some n => n | None => 2%N end.
Definition unit_rm (d : dyntype F) : bool := match dt_rm d with Some b => b | None => true end.
Definition unit_round (d : dyntype F) : bool := match dt_round d with Some b => b | None => true end.

Theorem print_unit : forall (cfg : config F) lang y x u d,
  unit_of cfg u = Some d ->
  item_print cfg lang y (IDynamicType x u)
  = map_res (fun p => replace_all (s "{value}") p (dt_format d))
      (format_number x (cf_tsep cfg) (cf_dsep cfg) (unit_digits d) (unit_rm d) (unit_round d)).
Proof.
  intros cfg lang y x u d H. cbn [item_print]. rewrite H.
  unfold unit_digits, unit_rm, unit_round.
  destruct (format_number _ _ _ _ _ _); reflexivity.
Qed.

End WithNum.

(* ------------------------------------------------------------------------------------- *)
(* 5. binary64 facts (the executed instance; vm_compute on primitive floats)              *)
(* ------------------------------------------------------------------------------------- *)
(* the binary64 nearest to a decimal literal, as [NUMBER:x] injects it *)
Definition v (x : string) : float := match f64_parse (s x) with Some f => f | None => nan end.

(* separators as in the default configuration: '.' thousands, ',' decimal *)
Definition fmt64 (x : string) (n : N) (rm rnd : bool) : res str :=
  format_number (v x) (s ".") (s ",") n rm rnd.

(* the former witnesses of the double rounding (known finding C07-double-rounding, repaired in
   /repo 9ef4dcc): 0.995 is 0.99499999999999999556 in binary64 and prints 0,99 (it printed 0);
   999999.995 is 999999.99499999999534 (it printed 9.999.99.); 10^21 has its 22 digits (it lost
   one); with rounding off the shortest rendering is printed whole (99.995 printed 99.,95 and
   5.001 printed 5) *)
Theorem former_witnesses :
  fmt64 "0.995" 2 true true = Ok (s "0,99") /\
  fmt64 "-0.995" 2 true true = Ok (s "-0,99") /\
  fmt64 "999999.995" 2 true true = Ok (s "999.999,99") /\
  fmt64 "1e21" 2 true true = Ok (s "1.000.000.000.000.000.000.000") /\
  fmt64 "1e21" 2 false true = Ok (s "1.000.000.000.000.000.000.000,00") /\
  fmt64 "99.995" 2 false false = Ok (s "99,995") /\
  fmt64 "999.995" 2 false false = Ok (s "999,995") /\
  fmt64 "5.001" 2 true false = Ok (s "5,001") /\
  fmt64 "1.0005" 3 true true = Ok (s "1") /\
  fmt64 "1.7976931348623157e308" 0 true true
    = Ok (s ("179.769.313.486.231.570.814.527.423.731.704.356.798.070.567.525.844.996.598.917.476.803.157.260.780.028.538.760."
             ++ "589.558.632.766.878.171.540.458.953.514.382.464.234.321.326.889.464.182.768.467.546.703.537.516.986.049.910.576."
             ++ "551.282.076.245.490.090.389.328.944.075.868.508.455.133.942.304.583.236.903.222.948.165.808.559.332.123.348.274."
             ++ "797.826.204.144.723.168.738.177.180.919.299.881.250.404.026.184.124.858.368")).
Proof. vm_compute. repeat split; reflexivity. Qed.

(* a family of prints (default separators): ties, values below one unit of the last digit,
   negative zero, 10^15, the smallest subnormal, 21 integer digits *)
Definition good_rows : list (string * N * bool * bool * string) :=
  [ ("1234567.891", 2, true, true, "1.234.567,89"); ("-1234567.891", 0, true, true, "-1.234.568");
    ("1234567.891", 2, true, false, "1.234.567,891");
    ("0.5", 0, true, true, "0"); ("1.5", 0, true, true, "2"); ("2.5", 0, true, true, "2");
    ("0.125", 2, true, true, "0,12"); ("0.375", 2, false, true, "0,38");
    ("1000", 2, true, true, "1.000"); ("1000", 2, false, true, "1.000,00");
    ("999", 2, false, true, "999,00"); ("100000", 1, false, true, "100.000,0");
    ("-0.004", 2, true, true, "-0"); ("-0.004", 2, false, true, "-0,00"); ("0.004", 3, true, true, "0,004");
    ("0", 2, false, true, "0,00"); ("-0", 2, false, true, "0,00"); ("0", 2, true, true, "0");
    ("99.995", 2, true, true, "100"); ("99.995", 2, false, true, "100,00");
    ("123456789.123456789", 9, true, true, "123.456.789,123456791");
    ("0.1", 9, true, true, "0,100000000"); ("100", 0, false, false, "100");
    ("1e15", 3, false, true, "1.000.000.000.000.000,000"); ("4.9e-324", 2, true, true, "0");
    ("123456789012345680000", 2, true, true, "123.456.789.012.345.683.968");
    ("1e14", 9, false, true, "100.000.000.000.000,000000000"); ("1e20", 3, true, true, "100.000.000.000.000.000.000");
    ("0.0001", 3, true, false, "0,0001"); ("0.0001", 3, true, true, "0") ]%string%N.

Definition good_row_ok (r : string * N * bool * bool * string) : bool :=
  let '(x, n, rm, rnd, out) := r in
  match fmt64 x n rm rnd with Ok o => str_eqb o (s out) | Panic _ => false end.

Theorem good_rows_ok : forall r, In r good_rows -> good_row_ok r = true.
Proof. apply forallb_forall. vm_compute. reflexivity. Qed.

Definition digit_range : list N := map N.of_nat (seq 0 10).

(* the sign on the executed instance: the rendering of a magnitude never starts with '-' and its
   integer part is not empty (the side conditions of format_sign) *)
Definition sign_family : list float :=
  map v ["0"; "-0"; "0.004"; "-0.004"; "-0.995"; "-1"; "-1e21"; "1e21"; "-4.9e-324"; "-123456.789"; "17"]%string.

Theorem magnitude_unsigned : forall x n, In x sign_family -> In n digit_range ->
  starts_minus (fmt_string x n true) = false /\ starts_minus (fmt_string x n false) = false /\
  int_part (fmt_string x n true) <> [] /\ int_part (fmt_string x n false) <> [].
Proof.
  assert (H : forallb (fun x => forallb (fun n =>
              negb (starts_minus (fmt_string x n true)) && negb (starts_minus (fmt_string x n false)) &&
              negb (Nat.eqb (length (int_part (fmt_string x n true))) 0) &&
              negb (Nat.eqb (length (int_part (fmt_string x n false))) 0)) digit_range) sign_family = true)
    by (vm_compute; reflexivity).
  intros x n Hx Hn. rewrite forallb_forall in H. specialize (H x Hx). rewrite forallb_forall in H.
  specialize (H n Hn). apply andb_true_iff in H as [H H4]. apply andb_true_iff in H as [H H3].
  apply andb_true_iff in H as [H1 H2].
  apply negb_true_iff in H1, H2, H3, H4. repeat split; try assumption.
  - intro E. rewrite E in H3. discriminate.
  - intro E. rewrite E in H4. discriminate.
Qed.

(* money: every configured currency is found by its code and prints the amount with its own
   number of digits, its symbol and its placement (table regenerated from config.json) *)
Definition currency_eqb (a b : currency) : bool :=
  str_eqb (c_code a) (c_code b) && str_eqb (c_symbol a) (c_symbol b) && Bool.eqb (c_left a) (c_left b)
  && Bool.eqb (c_space a) (c_space b) && N.eqb (c_digits a) (c_digits b).

Definition money_row_ok (x : float) (kv : str * currency) : bool :=
  let c := snd kv in
  let cfg := default_config in
  match currency_by_code cfg (c_code c), item_print cfg (s "en") 2026 (IMoney x (c_code c)) with
  | Some c', Ok out =>
    currency_eqb c' c &&
    str_eqb out (money_place c (spec_print (PrimFloat.ltb x 0) (cf_tsep cfg) (cf_dsep cfg) (nc_rm (cf_money cfg))
                                           (f64_to_fixed (PrimFloat.abs x) (c_digits c))))
  | _, _ => false
  end.

Theorem money_table : forall kv, In kv d_currency ->
  money_row_ok (v "1234567.891") kv = true /\ money_row_ok (v "-0.75") kv = true.
Proof.
  assert (H : forallb (fun kv => money_row_ok (v "1234567.891") kv && money_row_ok (v "-0.75") kv) d_currency = true)
    by (vm_compute; reflexivity).
  intros kv Hkv. rewrite forallb_forall in H. specialize (H kv Hkv). apply andb_true_iff in H. exact H.
Qed.

Theorem money_table_nonempty : (12 <= length d_currency)%nat /\
  (exists kv, In kv d_currency /\ c_left (snd kv) = true /\ c_space (snd kv) = true) /\
  (exists kv, In kv d_currency /\ c_left (snd kv) = true /\ c_space (snd kv) = false) /\
  (exists kv, In kv d_currency /\ c_left (snd kv) = false /\ c_space (snd kv) = true) /\
  (exists kv, In kv d_currency /\ c_left (snd kv) = false /\ c_space (snd kv) = false).
Proof.
  assert (F : forall p, existsb p d_currency = true -> exists kv, In kv d_currency /\ p kv = true).
  { intros p H. apply existsb_exists in H. exact H. }
  split; [vm_compute; lia|].
  repeat split.
  - destruct (F (fun kv => c_left (snd kv) && c_space (snd kv))) as [kv [I P]]; [vm_compute; reflexivity|].
    apply andb_true_iff in P as [P1 P2]. exists kv. auto.
  - destruct (F (fun kv => c_left (snd kv) && negb (c_space (snd kv)))) as [kv [I P]]; [vm_compute; reflexivity|].
    apply andb_true_iff in P as [P1 P2]. apply negb_true_iff in P2. exists kv. auto.
  - destruct (F (fun kv => negb (c_left (snd kv)) && c_space (snd kv))) as [kv [I P]]; [vm_compute; reflexivity|].
    apply andb_true_iff in P as [P1 P2]. apply negb_true_iff in P1. exists kv. auto.
  - destruct (F (fun kv => negb (c_left (snd kv)) && negb (c_space (snd kv)))) as [kv [I P]]; [vm_compute; reflexivity|].
    apply andb_true_iff in P as [P1 P2]. apply negb_true_iff in P1, P2. exists kv. auto.
Qed.

(* the wrappers on the default configuration *)
Theorem wrappers_examples :
  item_print default_config (s "en") 2026 (IPercent (v "-1234.567")) = Ok (s "%-1.234,57") /\
  item_print default_config (s "en") 2026 (IMoney (v "1234.5") (s "USD")) = Ok (s "$1.234,50") /\
  item_print default_config (s "en") 2026 (IMoney (v "1234.5") (s "JPY")) = Ok (165%N :: s "1.234") /\
  item_print default_config (s "en") 2026 (IMoney (v "1234.5") (s "EUR")) = Ok (s "1.234,50 " ++ [8364%N]) /\
  item_print default_config (s "en") 2026 (IDynamicType (v "1.5") {| u_group := s "metric-length"; u_index := 7 |})
    = Ok (s "1,50 Kilometer").
Proof. vm_compute. repeat split; reflexivity. Qed.

(* ------------------------------------------------------------------------------------- *)
(* 6. "{:.N}" of a binary64 shows the half-even rounding of its exact value (Spec/Fixed.v) *)
(* ------------------------------------------------------------------------------------- *)
Lemma pow5_table_nth : forall i, (i < 25)%nat -> nth_error pow5_table i = Some (5 ^ (16 * Z.of_nat i)).
Proof.
  intros i Hi.
  do 25 (destruct i as [|i]; [vm_compute; reflexivity|]). lia.
Qed.

Lemma pow5_correct : forall k, 0 <= k -> pow5 k = 5 ^ k.
Proof.
  intros k Hk. unfold pow5.
  destruct (Z.leb_spec k 0); [replace k with 0 by lia; reflexivity|].
  destruct (Z.ltb_spec k 400); [|reflexivity].
  assert (Hq : 0 <= k / 16 < 25) by (split; [apply Z.div_pos; lia | apply Z.div_lt_upper_bound; lia]).
  rewrite pow5_table_nth by lia.
  rewrite Z2Nat.id by lia.
  rewrite <- Z.pow_add_r by (try apply Z.mod_pos_bound; lia).
  f_equal. pose proof (Z.div_mod k 16 ltac:(lia)). lia.
Qed.

Lemma pow2_correct : forall k, 0 <= k -> pow2 k = 2 ^ k.
Proof. intros k Hk. unfold pow2. rewrite Z.shiftl_mul_pow2 by lia. lia. Qed.

Lemma pow10_correct : forall k, 0 <= k -> pow10 k = 10 ^ k.
Proof.
  intros k Hk. unfold pow10.
  destruct (Z.leb_spec k 0); [replace k with 0 by lia; reflexivity|].
  rewrite Z.shiftl_mul_pow2 by lia. rewrite pow5_correct by lia.
  rewrite <- Z.pow_mul_l. reflexivity.
Qed.

Theorem scaled_round_exact : forall m e p, 0 <= m -> 0 <= p ->
  scaled_round m e p = fixed_scaled m e p.
Proof.
  intros m e p Hm Hp. unfold scaled_round, fixed_scaled.
  rewrite pow10_correct by lia.
  destruct (Z.leb_spec 0 e) as [He|He].
  - rewrite Z.shiftl_mul_pow2 by lia. reflexivity.
  - cbv zeta. unfold round_half_even.
    rewrite pow2_correct by lia.
    rewrite Z.shiftr_div_pow2 by lia.
    replace (2 ^ (- e) - 1) with (Z.ones (- e)) by (rewrite Z.ones_equiv; lia).
    rewrite Z.land_ones by lia.
    rewrite Z.double_spec.
    destruct (2 * ((m * 10 ^ p) mod 2 ^ (- e)) ?= 2 ^ (- e)); try reflexivity.
    rewrite <- Z.negb_odd. destruct (Z.odd _); reflexivity.
Qed.

Theorem fixed_exact : forall (x : float) (n : N),
  f64_to_fixed x n =
  match Prim2SF x with
  | S754_nan => s_NaN
  | S754_infinity sg => with_sign sg s_inf
  | S754_zero sg => with_sign sg (fixed_str 0 (Z.of_N n))
  | S754_finite sg m e => with_sign sg (fixed_str (fixed_scaled (Zpos m) e (Z.of_N n)) (Z.of_N n))
  end.
Proof.
  intros x n. unfold f64_to_fixed. destruct (Prim2SF x); try reflexivity.
  rewrite scaled_round_exact by lia. reflexivity.
Qed.
