(* Proofs for property C07 (number printing).

   1. group3 / group_loop_group3   the grouping loop puts the separator exactly in front of every
                                   complete group of three counted from the right (all digit lists)
   2. format_number_structure      the decision table of format_number for an arbitrary number algebra
   3. spec_print / format_consistent   when the two roundings agree the output is the specified one
   4. sign                         '-' exactly for values below zero
   5. wrappers                     percent, money (symbol, placement, digits), unit quantities
   6. binary64 facts               witnesses of the double rounding, families of correct prints,
                                   termination of fract_information on a checked family
   7. fixed_exact (Spec/Fixed.v)   "{:.N}" of a binary64 is the half-even rounding of its exact value *)
From SC.Model Require Import Base Num NumF64 FloatIO Types Config Case Chrono Parser Format Run64.
From SC.Spec Require Import Fixed.
From SC.Gen Require Import ConfigData.
From Coq Require Import ZArith Lia Floats ZifyNat.

Ltac Zify.zify_post_hook ::= Z.to_euclidean_division_equations.

(* ------------------------------------------------------------------------------------- *)
(* 1. grouping in threes                                                                  *)
(* ------------------------------------------------------------------------------------- *)
(* The reference: after a digit comes a separator exactly when the number of digits that
   remain to its right is positive and a multiple of three. *)
Fixpoint group3 (tsep ds : str) : str :=
  match ds with
  | [] => []
  | c :: r =>
    c :: (if negb (Nat.eqb (length r) 0) && Nat.eqb (Nat.modulo (length r) 3) 0 then tsep else [])
      ++ group3 tsep r
  end.

Lemma group_loop_inv : forall ds index n dot tsep,
  n = (index + length ds)%nat -> Nat.modulo (dot + length ds) 3 = 0%nat ->
  group_loop ds index n dot tsep = group3 tsep ds.
Proof.
  induction ds as [|c r IH]; intros index n dot tsep Hn Hd; cbn [group_loop group3]; [reflexivity|].
  cbn [length] in Hn, Hd.
  f_equal. f_equal.
  - assert (E1 : Nat.eqb n (S index) = Nat.eqb (length r) 0).
    { destruct (Nat.eqb_spec n (S index)), (Nat.eqb_spec (length r) 0); try reflexivity; exfalso; lia. }
    assert (E2 : Nat.eqb (Nat.modulo (S dot) 3) 0 = Nat.eqb (Nat.modulo (length r) 3) 0).
    { destruct (Nat.eqb_spec (Nat.modulo (S dot) 3) 0), (Nat.eqb_spec (Nat.modulo (length r) 3) 0);
        try reflexivity; exfalso; lia. }
    rewrite E1, E2. reflexivity.
  - apply IH; [lia|]. replace (S dot + length r)%nat with (dot + S (length r))%nat by lia. exact Hd.
Qed.

(* the loop of formatter/mod.rs:57-71 as format_number starts it *)
Theorem group_loop_group3 : forall (ds tsep : str),
  group_loop ds 0 (length ds) (3 - Nat.modulo (length ds) 3) tsep = group3 tsep ds.
Proof.
  intros ds tsep. apply group_loop_inv; [reflexivity|].
  generalize (length ds). intro n. lia.
Qed.

(* what group3 is: short lists are unchanged, and a block whose length is a multiple of three
   is preceded by exactly one separator *)
Lemma group3_short : forall tsep ds, (length ds <= 3)%nat -> group3 tsep ds = ds.
Proof.
  intros tsep ds H.
  destruct ds as [|a [|b [|c [|d r]]]]; cbn in *; try reflexivity; lia.
Qed.

Lemma group3_app : forall tsep a b,
  a <> [] -> b <> [] -> Nat.modulo (length b) 3 = 0%nat ->
  group3 tsep (a ++ b) = group3 tsep a ++ tsep ++ group3 tsep b.
Proof.
  intros tsep a b Ha Hb Hm. induction a as [|c a IH]; [contradiction|].
  destruct a as [|c' a'].
  - cbn [app group3 length].
    assert (E : negb (Nat.eqb (length b) 0) && Nat.eqb (Nat.modulo (length b) 3) 0 = true).
    { rewrite Hm. destruct b; [contradiction|]. reflexivity. }
    rewrite E. reflexivity.
  - assert (Hne : c' :: a' <> []) by discriminate.
    remember (c' :: a') as a2 eqn:Ea2.
    cbn [app group3]. rewrite (IH Hne).
    assert (E : negb (Nat.eqb (length (a2 ++ b)) 0) && Nat.eqb (Nat.modulo (length (a2 ++ b)) 3) 0
              = negb (Nat.eqb (length a2) 0) && Nat.eqb (Nat.modulo (length a2) 3) 0).
    { rewrite app_length. rewrite Ea2. cbn [length].
      assert (H : Nat.modulo (S (length a') + length b) 3 = Nat.modulo (S (length a')) 3) by lia.
      rewrite H. reflexivity. }
    rewrite E. rewrite <- app_assoc. reflexivity.
Qed.

Lemma group3_no_sep : forall ds, group3 [] ds = ds.
Proof.
  induction ds as [|c r IH]; cbn [group3]; [reflexivity|].
  destruct (negb _ && _); cbn; rewrite IH; reflexivity.
Qed.

(* the separators are the only thing added: (n-1)/3 of them *)
Lemma group3_length : forall tsep ds,
  length (group3 tsep ds) = (length ds + length tsep * ((length ds - 1) / 3))%nat.
Proof.
  intros tsep ds. induction ds as [|c r IH]; [cbn; lia|].
  cbn [group3 length]. rewrite app_length, IH.
  replace (S (length r) - 1)%nat with (length r) by lia.
  destruct (Nat.eqb_spec (length r) 0) as [E|E]; cbn [negb andb].
  - rewrite E. cbn. lia.
  - destruct (Nat.eqb_spec (Nat.modulo (length r) 3) 0) as [M|M]; cbn [length].
    + assert (length r / 3 = S ((length r - 1) / 3))%nat by lia. rewrite H. lia.
    + assert (length r / 3 = (length r - 1) / 3)%nat by lia. rewrite H. lia.
Qed.

(* ------------------------------------------------------------------------------------- *)
(* strings: the part in front of the first '.' and the part behind it                     *)
(* ------------------------------------------------------------------------------------- *)
Fixpoint int_part (st : str) : str :=
  match st with
  | [] => []
  | c :: r => if N.eqb c 46 then [] else c :: int_part r
  end.
Fixpoint frac_part (st : str) : str :=
  match st with
  | [] => []
  | c :: r => if N.eqb c 46 then r else frac_part r
  end.
Definition has_dot (st : str) : bool := existsb (fun c => N.eqb c 46) st.
Definition all_zero (st : str) : bool := forallb (fun c => N.eqb c 48) st.

Lemma int_part_length_le st : (length (int_part st) <= length st)%nat.
Proof.
  induction st as [|c r IH]; cbn [int_part length]; [lia|].
  destruct (N.eqb c 46); cbn [length]; lia.
Qed.

Lemma firstn_int_part st : firstn (length (int_part st)) st = int_part st.
Proof.
  induction st as [|c r IH]; cbn [int_part]; [reflexivity|].
  destruct (N.eqb c 46); cbn [length firstn]; [reflexivity|]. rewrite IH. reflexivity.
Qed.

Lemma skipn_int_part st : skipn (S (length (int_part st))) st = frac_part st.
Proof.
  induction st as [|c r IH]; cbn [int_part frac_part]; [reflexivity|].
  destruct (N.eqb c 46) eqn:E; cbn [length skipn].
  - reflexivity.
  - exact IH.
Qed.

Lemma int_part_full_iff st : Nat.eqb (length (int_part st)) (length st) = negb (has_dot st).
Proof.
  unfold has_dot.
  induction st as [|c r IH]; cbn [int_part existsb length]; [reflexivity|].
  destruct (N.eqb c 46) eqn:E; cbn [length orb negb Nat.eqb]; [reflexivity|]. exact IH.
Qed.

Lemma split_at_dot st : has_dot st = true -> st = int_part st ++ 46%N :: frac_part st.
Proof.
  unfold has_dot.
  induction st as [|c r IH]; cbn [int_part frac_part existsb]; [discriminate|].
  destruct (N.eqb_spec c 46) as [E|E]; cbn [orb app].
  - intros _. subst c. reflexivity.
  - intro H. f_equal. apply IH. exact H.
Qed.

Lemma no_dot_int_part st : has_dot st = false -> int_part st = st /\ frac_part st = [].
Proof.
  unfold has_dot.
  induction st as [|c r IH]; cbn [int_part frac_part existsb]; [split; reflexivity|].
  destruct (N.eqb c 46); cbn [orb]; [discriminate|].
  intro H. destruct (IH H) as [A B]. rewrite A, B. split; reflexivity.
Qed.

(* ------------------------------------------------------------------------------------- *)
(* 2. the structure of format_number                                                      *)
(* ------------------------------------------------------------------------------------- *)
Section WithNum.
Context {F : Type} {NF : Num F}.

(* the three ingredients *)
Definition fmt_copy (x : F) (digits : N) : F :=
  do_division (fround (fmul x (powi10 digits))) (powi10 digits).           (* the separately rounded copy *)
Definition fmt_trunc_part (x : F) (digits : N) : str := fdisplay (fabs (ftrunc (fmt_copy x digits))).
Definition fmt_fract (x : F) (digits : N) : option Z := fract_information (ffract (fmt_copy x digits)).
Definition fmt_string (x : F) (digits : N) (rnd : bool) : str :=             (* supplies every printed digit *)
  if rnd then ffixed (fabs x) digits else fdisplay (fabs x).

Definition sign_str (x : F) : str := if fltb x f0 then [45%N] else [].

Theorem format_number_structure : forall (x : F) (tsep dsep : str) (digits : N) (rm rnd : bool),
  format_number x tsep dsep digits rm rnd =
  match fmt_fract x digits with
  | None => Panic SITE_FI_FUEL
  | Some fp =>
    let ts := length (fmt_trunc_part x digits) in
    let st := fmt_string x digits rnd in
    if Nat.ltb (length st) ts then Panic SITE_NTH_UNWRAP
    else Ok (sign_str x ++ group3 tsep (firstn ts st) ++
             (if ((0 <? fp) || negb rm) && negb (Nat.eqb ts (length st))
              then dsep ++ skipn (S ts) st else []))
  end.
Proof.
  intros. unfold format_number, fmt_fract, fmt_trunc_part, fmt_string, fmt_copy, sign_str.
  set (copy := do_division _ _).
  set (st := if rnd then _ else _).
  set (ts := length (fdisplay (fabs (ftrunc copy)))).
  destruct (fract_information (ffract copy)) as [fp|]; [|reflexivity].
  cbv zeta.
  destruct (Nat.ltb (length st) ts) eqn:Hlt; [reflexivity|].
  apply Nat.ltb_ge in Hlt.
  assert (Hg : group_loop (firstn ts st) 0 ts (3 - Nat.modulo ts 3) tsep = group3 tsep (firstn ts st)).
  { pose proof (group_loop_group3 (firstn ts st) tsep) as G.
    rewrite firstn_length_le in G by exact Hlt. exact G. }
  rewrite Hg.
  destruct (((0 <? fp) || negb rm) && negb (Nat.eqb ts (length st))).
  - rewrite <- app_assoc. reflexivity.
  - rewrite app_nil_r. reflexivity.
Qed.

(* ------------------------------------------------------------------------------------- *)
(* 3. the specified print and the consistency of the two roundings                        *)
(* ------------------------------------------------------------------------------------- *)
(* [st] is the decimal rendering of |x| (correctly rounded "{:.N}", or the shortest "{}" when
   rounding is switched off) *)
Definition show_fraction (rm : bool) (st : str) : bool :=
  has_dot st && (negb rm || negb (all_zero (frac_part st))).

Definition spec_print (neg : bool) (tsep dsep : str) (rm : bool) (st : str) : str :=
  (if neg then [45%N] else []) ++ group3 tsep (int_part st)
    ++ (if show_fraction rm st then dsep ++ frac_part st else []).

(* the separately rounded copy agrees with the string on the length of the integer part ... *)
Definition len_agree (x : F) (digits : N) (rnd : bool) : bool :=
  Nat.eqb (length (fmt_trunc_part x digits)) (length (int_part (fmt_string x digits rnd))).
(* ... and on whether the fraction is zero *)
Definition frac_agree (x : F) (digits : N) (rnd : bool) : bool :=
  match fmt_fract x digits with
  | None => false
  | Some fp => Bool.eqb (0 <? fp) (negb (all_zero (frac_part (fmt_string x digits rnd))))
  end.

Definition Inconsistent (x : F) (digits : N) (rnd : bool) : Prop :=
  len_agree x digits rnd = false \/ frac_agree x digits rnd = false.

Lemma Inconsistent_dec x digits rnd : {Inconsistent x digits rnd} + {~ Inconsistent x digits rnd}.
Proof.
  unfold Inconsistent.
  destruct (len_agree x digits rnd); [|left; left; reflexivity].
  destruct (frac_agree x digits rnd); [|left; right; reflexivity].
  right. intros [H|H]; discriminate.
Qed.

Lemma format_len_agree : forall x tsep dsep digits rm rnd fp,
  len_agree x digits rnd = true -> fmt_fract x digits = Some fp ->
  format_number x tsep dsep digits rm rnd =
  Ok (sign_str x ++ group3 tsep (int_part (fmt_string x digits rnd)) ++
      (if ((0 <? fp) || negb rm) && has_dot (fmt_string x digits rnd)
       then dsep ++ frac_part (fmt_string x digits rnd) else [])).
Proof.
  intros x tsep dsep digits rm rnd fp HL HF.
  rewrite format_number_structure, HF. cbv zeta.
  unfold len_agree in HL. apply Nat.eqb_eq in HL. rewrite HL.
  set (st := fmt_string x digits rnd).
  pose proof (int_part_length_le st) as Hle.
  destruct (Nat.ltb (length st) (length (int_part st))) eqn:E.
  { apply Nat.ltb_lt in E. lia. }
  rewrite firstn_int_part, skipn_int_part, int_part_full_iff, negb_involutive. reflexivity.
Qed.

(* the main theorem: outside the class the print is the specified one *)
Theorem format_consistent : forall x tsep dsep digits rm rnd,
  ~ Inconsistent x digits rnd ->
  format_number x tsep dsep digits rm rnd
  = Ok (spec_print (fltb x f0) tsep dsep rm (fmt_string x digits rnd)).
Proof.
  intros x tsep dsep digits rm rnd H.
  unfold Inconsistent in H.
  destruct (len_agree x digits rnd) eqn:HL; [|exfalso; apply H; left; reflexivity].
  destruct (frac_agree x digits rnd) eqn:HF; [|exfalso; apply H; right; reflexivity].
  unfold frac_agree in HF. destruct (fmt_fract x digits) as [fp|] eqn:HFP; [|discriminate].
  rewrite (format_len_agree _ _ _ _ _ _ fp HL HFP).
  unfold spec_print, sign_str, show_fraction.
  apply eqb_prop in HF. rewrite HF.
  set (st := fmt_string x digits rnd).
  replace ((negb (all_zero (frac_part st)) || negb rm) && has_dot st)
    with (has_dot st && (negb rm || negb (all_zero (frac_part st)))).
  - reflexivity.
  - destruct (has_dot st), rm, (all_zero (frac_part st)); reflexivity.
Qed.

(* when zero fractions are kept only the length of the integer part matters *)
Theorem format_keep_fraction : forall x tsep dsep digits rnd,
  len_agree x digits rnd = true -> fmt_fract x digits <> None ->
  format_number x tsep dsep digits false rnd
  = Ok (spec_print (fltb x f0) tsep dsep false (fmt_string x digits rnd)).
Proof.
  intros x tsep dsep digits rnd HL HF.
  destruct (fmt_fract x digits) as [fp|] eqn:HFP; [|contradiction].
  rewrite (format_len_agree _ _ _ _ _ _ fp HL HFP).
  unfold spec_print, sign_str, show_fraction. cbn [negb orb]. rewrite orb_true_r, andb_true_r. reflexivity.
Qed.

(* ------------------------------------------------------------------------------------- *)
(* 4. sign                                                                                *)
(* ------------------------------------------------------------------------------------- *)
Definition starts_minus (x : str) : bool := match x with c :: _ => N.eqb c 45 | [] => false end.

(* the print starts with '-' exactly for values below zero, provided the rendering of the
   magnitude does not itself start with '-' (checked for binary64 in magnitude_unsigned) and
   the integer part is not empty *)
Theorem format_sign : forall x tsep dsep digits rm rnd out,
  format_number x tsep dsep digits rm rnd = Ok out ->
  starts_minus (fmt_string x digits rnd) = false ->
  fmt_trunc_part x digits <> [] ->
  starts_minus out = fltb x f0.
Proof.
  intros x tsep dsep digits rm rnd out H Hs Hne.
  rewrite format_number_structure in H.
  destruct (fmt_fract x digits) as [fp|]; [|discriminate].
  cbv zeta in H.
  destruct (Nat.ltb _ _) eqn:Hlt; [discriminate|]. apply Nat.ltb_ge in Hlt.
  injection H as <-.
  unfold sign_str. destruct (fltb x f0); [reflexivity|].
  cbn [app].
  destruct (fmt_trunc_part x digits) as [|t0 tr]; [contradiction|].
  destruct (fmt_string x digits rnd) as [|c0 r0]; [cbn in Hlt; lia|].
  cbn [length firstn group3 app starts_minus]. exact Hs.
Qed.

(* ------------------------------------------------------------------------------------- *)
(* 5. wrappers                                                                            *)
(* ------------------------------------------------------------------------------------- *)
Definition map_res {A B} (f : A -> B) (r : res A) : res B :=
  match r with Ok a => Ok (f a) | Panic s => Panic s end.

Definition money_place (c : currency) (p : str) : str :=
  if c_left c then c_symbol c ++ (if c_space c then [32%N] else []) ++ p
  else p ++ (if c_space c then [32%N] else []) ++ c_symbol c.

Theorem print_number : forall (cfg : config F) lang y x,
  item_print cfg lang y (INumber x Decimal)
  = format_number x (cf_tsep cfg) (cf_dsep cfg) (nc_digits (cf_number cfg))
                  (nc_rm (cf_number cfg)) (nc_round (cf_number cfg)).
Proof. reflexivity. Qed.

Theorem print_percent : forall (cfg : config F) lang y x,
  item_print cfg lang y (IPercent x)
  = map_res (fun r => 37%N :: r)
      (format_number x (cf_tsep cfg) (cf_dsep cfg) (nc_digits (cf_percent cfg))
                     (nc_rm (cf_percent cfg)) (nc_round (cf_percent cfg))).
Proof. intros. cbn [item_print]. destruct (format_number _ _ _ _ _ _); reflexivity. Qed.

Theorem print_money : forall (cfg : config F) lang y x code c,
  currency_by_code cfg code = Some c ->
  item_print cfg lang y (IMoney x code)
  = map_res (money_place c)
      (format_number x (cf_tsep cfg) (cf_dsep cfg) (c_digits c) (nc_rm (cf_money cfg)) (nc_round (cf_money cfg))).
Proof.
  intros cfg lang y x code c H. cbn [item_print]. rewrite H.
  destruct (format_number _ _ _ _ _ _); [|reflexivity].
  unfold money_place. cbn [bind map_res].
  destruct (c_left c), (c_space c); cbn [app]; reflexivity.
Qed.

Definition unit_digits (d : dyntype F) : N := match dt_digits d with Some n => n | None => 2%N end.
Definition unit_rm (d : dyntype F) : bool := match dt_rm d with Some b => b | None => true end.
Definition unit_round (d : dyntype F) : bool := match dt_round d with Some b => b | None => true end.

Theorem print_unit : forall (cfg : config F) lang y x u d,
  unit_of cfg u = Some d ->
  item_print cfg lang y (IDynamicType x u)
  = map_res (fun p => replace_all (s "{value}") p (dt_format d))
      (format_number x (cf_tsep cfg) (cf_dsep cfg) (unit_digits d) (unit_rm d) (unit_round d)).
Proof.
  intros cfg lang y x u d H. cbn [item_print]. rewrite H.
  unfold unit_digits, unit_rm, unit_round.
  destruct (format_number _ _ _ _ _ _); reflexivity.
Qed.

End WithNum.

(* ------------------------------------------------------------------------------------- *)
(* 6. binary64 facts (the executed instance; vm_compute on primitive floats)              *)
(* ------------------------------------------------------------------------------------- *)
(* the binary64 nearest to a decimal literal, as [NUMBER:x] injects it *)
Definition v (x : string) : float := match f64_parse (s x) with Some f => f | None => nan end.

(* separators as in the default configuration: '.' thousands, ',' decimal *)
Definition fmt64 (x : string) (n : N) (rm rnd : bool) : res str :=
  format_number (v x) (s ".") (s ",") n rm rnd.
Definition spec64 (x : string) (n : N) (rm rnd : bool) : str :=
  spec_print (PrimFloat.ltb (v x) 0) (s ".") (s ",") rm (fmt_string (v x) n rnd).

(* the known finding: the two roundings disagree and the print is wrong *)
Theorem inconsistent_refuted :
  (* 0.995 = 0.99499999999999999556 in binary64: "{:.2}" is 0.99, the copy round(99.5)/100 is 1 *)
  (Inconsistent (v "0.995") 2 true /\ fmt64 "0.995" 2 true true = Ok (s "0") /\ spec64 "0.995" 2 true true = s "0,99") /\
  (Inconsistent (v "-0.995") 2 true /\ fmt64 "-0.995" 2 true true = Ok (s "-0") /\ spec64 "-0.995" 2 true true = s "-0,99") /\
  (* 999999.995 = 999999.99499999999534: the copy has one integer digit more than the string *)
  (Inconsistent (v "999999.995") 2 true /\ fmt64 "999999.995" 2 true true = Ok (s "9.999.99.")
     /\ spec64 "999999.995" 2 true true = s "999.999,99") /\
  (* 10^21: the copy round(1e23)/100 displays with 21 digits, the value has 22 *)
  (Inconsistent (v "1e21") 2 true /\ fmt64 "1e21" 2 true true = Ok (s "100.000.000.000.000.000.000")
     /\ spec64 "1e21" 2 true true = s "1.000.000.000.000.000.000.000") /\
  (* rounding switched off: the digits are the shortest rendering, the copy is still rounded *)
  (Inconsistent (v "99.995") 2 false /\ fmt64 "99.995" 2 false false = Ok (s "99.,95") /\ spec64 "99.995" 2 false false = s "99,995") /\
  (Inconsistent (v "999.995") 2 false /\ fmt64 "999.995" 2 false false = Ok (s "9.99.,95")
     /\ spec64 "999.995" 2 false false = s "999,995") /\
  (Inconsistent (v "5.001") 2 false /\ fmt64 "5.001" 2 true false = Ok (s "5") /\ spec64 "5.001" 2 true false = s "5,001").
Proof.
  repeat split; try (vm_compute; reflexivity);
    first [ left; vm_compute; reflexivity | right; vm_compute; reflexivity ].
Qed.

(* non-vacuity: consistent inputs, with the print one expects (default separators) *)
Definition consistentb (x : float) (n : N) (rnd : bool) : bool := len_agree x n rnd && frac_agree x n rnd.

Lemma consistentb_true x n rnd : consistentb x n rnd = true -> ~ Inconsistent x n rnd.
Proof.
  unfold consistentb, Inconsistent. intro H. apply andb_true_iff in H as [A B].
  rewrite A, B. intros [C|C]; discriminate.
Qed.

Definition good_rows : list (string * N * bool * bool * string) :=
  [ ("1234567.891", 2, true, true, "1.234.567,89"); ("-1234567.891", 0, true, true, "-1.234.568");
    ("1234567.891", 2, true, false, "1.234.567,891");
    ("0.5", 0, true, true, "0"); ("1.5", 0, true, true, "2"); ("2.5", 0, true, true, "2");
    ("0.125", 2, true, true, "0,12"); ("0.375", 2, false, true, "0,38");
    ("1000", 2, true, true, "1.000"); ("1000", 2, false, true, "1.000,00");
    ("999", 2, false, true, "999,00"); ("100000", 1, false, true, "100.000,0");
    ("-0.004", 2, true, true, "-0"); ("-0.004", 2, false, true, "-0,00"); ("0.004", 3, true, true, "0,004");
    ("0", 2, false, true, "0,00"); ("-0", 2, false, true, "0,00"); ("0", 2, true, true, "0");
    ("99.995", 2, true, true, "100"); ("99.995", 2, false, true, "100,00");
    ("123456789.123456789", 9, true, true, "123.456.789,123456791");
    ("0.1", 9, true, true, "0,100000000"); ("100", 0, false, false, "100");
    ("1e15", 3, false, true, "1.000.000.000.000.000,000"); ("4.9e-324", 2, true, true, "0");
    ("123456789012345680000", 2, true, true, "123.456.789.012.345.683.968") ]%string%N.

Definition good_row_ok (r : string * N * bool * bool * string) : bool :=
  let '(x, n, rm, rnd, out) := r in
  consistentb (v x) n rnd &&
  match fmt64 x n rm rnd with Ok o => str_eqb o (s out) | Panic _ => false end &&
  str_eqb (spec64 x n rm rnd) (s out).

Theorem good_rows_ok : forall r, In r good_rows -> good_row_ok r = true.
Proof. apply forallb_forall. vm_compute. reflexivity. Qed.

(* a grid: k/8 for |k| <= 100 (every tie of the last digit at 0, 1 and 2 digits is among them: the
   string rounds it to even, the copy away from zero, and still they agree on what format_number
   takes from the copy), digits 0..9; and the powers of ten 10^e, digits n, as long as
   10^(e+n) is a binary64 (e + n <= 22) in both rounding settings.  Beyond, e.g. 10^21 at 2
   digits, the copy is off (see inconsistent_refuted). *)
Definition eighth (k : Z) : float := PrimFloat.div (f64_of_Z k) (f64_of_Z 8).
Definition zrange (lo n : nat) : list Z := map (fun i => Z.of_nat i - Z.of_nat lo) (seq 0 n).
Definition digit_range : list N := map N.of_nat (seq 0 10).

Definition grid_ok : bool :=
  forallb (fun k => forallb (fun n => consistentb (eighth k) n true) digit_range) (zrange 100 201)
  && forallb (fun e => forallb (fun n =>
                (22 <? e + Z.of_N n) || (consistentb (f64_of_Z (10 ^ e)) n true && consistentb (f64_of_Z (10 ^ e)) n false))
                digit_range) (map Z.of_nat (seq 0 23)).

Theorem grid_consistent : grid_ok = true.
Proof. vm_compute. reflexivity. Qed.

(* the sign on the executed instance: the rendering of a magnitude never starts with '-' *)
Definition sign_family : list float :=
  map v ["0"; "-0"; "0.004"; "-0.004"; "-0.995"; "-1"; "-1e21"; "1e21"; "-4.9e-324"; "-123456.789"; "17"]%string.

Theorem magnitude_unsigned : forall x n, In x sign_family -> In n digit_range ->
  starts_minus (fmt_string x n true) = false /\ starts_minus (fmt_string x n false) = false /\
  fmt_trunc_part x n <> [].
Proof.
  assert (H : forallb (fun x => forallb (fun n =>
              negb (starts_minus (fmt_string x n true)) && negb (starts_minus (fmt_string x n false)) &&
              negb (Nat.eqb (length (fmt_trunc_part x n)) 0)) digit_range) sign_family = true)
    by (vm_compute; reflexivity).
  intros x n Hx Hn. rewrite forallb_forall in H. specialize (H x Hx). rewrite forallb_forall in H.
  specialize (H n Hn). apply andb_true_iff in H as [H H3]. apply andb_true_iff in H as [H1 H2].
  apply negb_true_iff in H1, H2, H3. repeat split; try assumption.
  intro E. rewrite E in H3. discriminate.
Qed.

(* fract_information: both loops end well inside the model's fuel on binary64 (checked family:
   the smallest subnormal needs 320 rounds of the first loop).  format_number only passes the
   fraction of a finite value (do_division turns a non-finite quotient into 0). *)
Definition fi_family : list float :=
  map v ["4.9e-324"; "1e-300"; "1e-5"; "0.0001"; "0.00011"; "0.1"; "0.3333333333333333"; "0.5"; "0.9999";
         "0.99995"; "0.999999999999"; "0.1234567"; "0.987"; "0.995"; "0.005"; "0.045"; "0"; "1e300"]%string.

Theorem fract_information_terminates : forall x, In x fi_family ->
  exists z, fract_information x = Some z /\ 0 <= z.
Proof.
  assert (H : forallb (fun x => match fract_information x with Some z => 0 <=? z | None => false end) fi_family = true)
    by (vm_compute; reflexivity).
  intros x Hx. rewrite forallb_forall in H. specialize (H x Hx).
  destruct (fract_information x) as [z|]; [|discriminate]. exists z. split; [reflexivity|]. apply Z.leb_le. exact H.
Qed.

(* money: every configured currency is found by its code and prints the amount with its own
   number of digits, its symbol and its placement (table regenerated from config.json) *)
Definition currency_eqb (a b : currency) : bool :=
  str_eqb (c_code a) (c_code b) && str_eqb (c_symbol a) (c_symbol b) && Bool.eqb (c_left a) (c_left b)
  && Bool.eqb (c_space a) (c_space b) && N.eqb (c_digits a) (c_digits b).

Definition money_row_ok (x : float) (kv : str * currency) : bool :=
  let c := snd kv in
  let cfg := default_config in
  match currency_by_code cfg (c_code c), item_print cfg (s "en") 2026 (IMoney x (c_code c)) with
  | Some c', Ok out =>
    currency_eqb c' c && consistentb x (c_digits c) (nc_round (cf_money cfg)) &&
    str_eqb out (money_place c (spec_print (PrimFloat.ltb x 0) (cf_tsep cfg) (cf_dsep cfg) (nc_rm (cf_money cfg))
                                           (f64_to_fixed (PrimFloat.abs x) (c_digits c))))
  | _, _ => false
  end.

Theorem money_table : forall kv, In kv d_currency ->
  money_row_ok (v "1234567.891") kv = true /\ money_row_ok (v "-0.75") kv = true.
Proof.
  assert (H : forallb (fun kv => money_row_ok (v "1234567.891") kv && money_row_ok (v "-0.75") kv) d_currency = true)
    by (vm_compute; reflexivity).
  intros kv Hkv. rewrite forallb_forall in H. specialize (H kv Hkv). apply andb_true_iff in H. exact H.
Qed.

Theorem money_table_nonempty : (12 <= length d_currency)%nat /\
  (exists kv, In kv d_currency /\ c_left (snd kv) = true /\ c_space (snd kv) = true) /\
  (exists kv, In kv d_currency /\ c_left (snd kv) = true /\ c_space (snd kv) = false) /\
  (exists kv, In kv d_currency /\ c_left (snd kv) = false /\ c_space (snd kv) = true) /\
  (exists kv, In kv d_currency /\ c_left (snd kv) = false /\ c_space (snd kv) = false).
Proof.
  assert (F : forall p, existsb p d_currency = true -> exists kv, In kv d_currency /\ p kv = true).
  { intros p H. apply existsb_exists in H. exact H. }
  split; [vm_compute; lia|].
  repeat split.
  - destruct (F (fun kv => c_left (snd kv) && c_space (snd kv))) as [kv [I P]]; [vm_compute; reflexivity|].
    apply andb_true_iff in P as [P1 P2]. exists kv. auto.
  - destruct (F (fun kv => c_left (snd kv) && negb (c_space (snd kv)))) as [kv [I P]]; [vm_compute; reflexivity|].
    apply andb_true_iff in P as [P1 P2]. apply negb_true_iff in P2. exists kv. auto.
  - destruct (F (fun kv => negb (c_left (snd kv)) && c_space (snd kv))) as [kv [I P]]; [vm_compute; reflexivity|].
    apply andb_true_iff in P as [P1 P2]. apply negb_true_iff in P1. exists kv. auto.
  - destruct (F (fun kv => negb (c_left (snd kv)) && negb (c_space (snd kv)))) as [kv [I P]]; [vm_compute; reflexivity|].
    apply andb_true_iff in P as [P1 P2]. apply negb_true_iff in P1, P2. exists kv. auto.
Qed.

(* the wrappers on the default configuration *)
Theorem wrappers_examples :
  item_print default_config (s "en") 2026 (IPercent (v "-1234.567")) = Ok (s "%-1.234,57") /\
  item_print default_config (s "en") 2026 (IMoney (v "1234.5") (s "USD")) = Ok (s "$1.234,50") /\
  item_print default_config (s "en") 2026 (IMoney (v "1234.5") (s "JPY")) = Ok (165%N :: s "1.234") /\
  item_print default_config (s "en") 2026 (IMoney (v "1234.5") (s "EUR")) = Ok (s "1.234,50 " ++ [8364%N]) /\
  item_print default_config (s "en") 2026 (IDynamicType (v "1.5") {| u_group := s "metric-length"; u_index := 7 |})
    = Ok (s "1,50 Kilometer").
Proof. vm_compute. repeat split; reflexivity. Qed.

(* ------------------------------------------------------------------------------------- *)
(* 7. "{:.N}" of a binary64 shows the half-even rounding of its exact value (Spec/Fixed.v) *)
(* ------------------------------------------------------------------------------------- *)
Lemma pow5_table_nth : forall i, (i < 25)%nat -> nth_error pow5_table i = Some (5 ^ (16 * Z.of_nat i)).
Proof.
  intros i Hi.
  do 25 (destruct i as [|i]; [vm_compute; reflexivity|]). lia.
Qed.

Lemma pow5_correct : forall k, 0 <= k -> pow5 k = 5 ^ k.
Proof.
  intros k Hk. unfold pow5.
  destruct (Z.leb_spec k 0); [replace k with 0 by lia; reflexivity|].
  destruct (Z.ltb_spec k 400); [|reflexivity].
  assert (Hq : 0 <= k / 16 < 25) by (split; [apply Z.div_pos; lia | apply Z.div_lt_upper_bound; lia]).
  rewrite pow5_table_nth by lia.
  rewrite Z2Nat.id by lia.
  rewrite <- Z.pow_add_r by (try apply Z.mod_pos_bound; lia).
  f_equal. pose proof (Z.div_mod k 16 ltac:(lia)). lia.
Qed.

Lemma pow2_correct : forall k, 0 <= k -> pow2 k = 2 ^ k.
Proof. intros k Hk. unfold pow2. rewrite Z.shiftl_mul_pow2 by lia. lia. Qed.

Lemma pow10_correct : forall k, 0 <= k -> pow10 k = 10 ^ k.
Proof.
  intros k Hk. unfold pow10.
  destruct (Z.leb_spec k 0); [replace k with 0 by lia; reflexivity|].
  rewrite Z.shiftl_mul_pow2 by lia. rewrite pow5_correct by lia.
  rewrite <- Z.pow_mul_l. reflexivity.
Qed.

Theorem scaled_round_exact : forall m e p, 0 <= m -> 0 <= p ->
  scaled_round m e p = fixed_scaled m e p.
Proof.
  intros m e p Hm Hp. unfold scaled_round, fixed_scaled.
  rewrite pow10_correct by lia.
  destruct (Z.leb_spec 0 e) as [He|He].
  - rewrite Z.shiftl_mul_pow2 by lia. reflexivity.
  - cbv zeta. unfold round_half_even.
    rewrite pow2_correct by lia.
    rewrite Z.shiftr_div_pow2 by lia.
    replace (2 ^ (- e) - 1) with (Z.ones (- e)) by (rewrite Z.ones_equiv; lia).
    rewrite Z.land_ones by lia.
    rewrite Z.double_spec.
    destruct (2 * ((m * 10 ^ p) mod 2 ^ (- e)) ?= 2 ^ (- e)); try reflexivity.
    rewrite <- Z.negb_odd. destruct (Z.odd _); reflexivity.
Qed.

Theorem fixed_exact : forall (x : float) (n : N),
  f64_to_fixed x n =
  match Prim2SF x with
  | S754_nan => s_NaN
  | S754_infinity sg => with_sign sg s_inf
  | S754_zero sg => with_sign sg (fixed_str 0 (Z.of_N n))
  | S754_finite sg m e => with_sign sg (fixed_str (fixed_scaled (Zpos m) e (Z.of_N n)) (Z.of_N n))
  end.
Proof.
  intros x n. unfold f64_to_fixed. destruct (Prim2SF x); try reflexivity.
  rewrite scaled_round_exact by lia. reflexivity.
Qed.
