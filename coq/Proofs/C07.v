(* Proofs for property C07 (number printing).

   1. group3 / group_loop_group3   the grouping loop puts the separator exactly in front of every
                                   complete group of three counted from the right (all digit lists)
   2. format_number_structure      the decision table of format_number for an arbitrary number algebra
   3. spec_print / format_consistent   when the two roundings agree the output is the specified one
   4. sign                         '-' exactly for values below zero
   5. wrappers                     percent, money (symbol, placement, digits), unit quantities
   6. binary64 facts               witnesses of the double rounding, families of correct prints,
                                   termination of fract_information on a checked family
   7. fixed_exact (Spec/Fixed.v)   "{:.N}" of a binary64 is the half-even rounding of its exact value *)
From SC.Model Require Import Base Num NumF64 FloatIO Types Config Case Chrono Parser Format Run64.
From SC.Gen Require Import ConfigData.
From Coq Require Import ZArith Lia Floats ZifyNat.

Ltac Zify.zify_post_hook ::= Z.to_euclidean_division_equations.

(* ------------------------------------------------------------------------------------- *)
(* 1. grouping in threes                                                                  *)
(* ------------------------------------------------------------------------------------- *)
(* The reference: after a digit comes a separator exactly when the number of digits that
   remain to its right is positive and a multiple of three. *)
Fixpoint group3 (tsep ds : str) : str :=
  match ds with
  | [] => []
  | c :: r =>
    c :: (if negb (Nat.eqb (length r) 0) && Nat.eqb (Nat.modulo (length r) 3) 0 then tsep else [])
      ++ group3 tsep r
  end.

Lemma group_loop_inv : forall ds index n dot tsep,
  n = (index + length ds)%nat -> Nat.modulo (dot + length ds) 3 = 0%nat ->
  group_loop ds index n dot tsep = group3 tsep ds.
Proof.
  induction ds as [|c r IH]; intros index n dot tsep Hn Hd; cbn [group_loop group3]; [reflexivity|].
  cbn [length] in Hn, Hd.
  f_equal. f_equal.
  - assert (E1 : Nat.eqb n (S index) = Nat.eqb (length r) 0).
    { destruct (Nat.eqb_spec n (S index)), (Nat.eqb_spec (length r) 0); try reflexivity; exfalso; lia. }
    assert (E2 : Nat.eqb (Nat.modulo (S dot) 3) 0 = Nat.eqb (Nat.modulo (length r) 3) 0).
    { destruct (Nat.eqb_spec (Nat.modulo (S dot) 3) 0), (Nat.eqb_spec (Nat.modulo (length r) 3) 0);
        try reflexivity; exfalso; lia. }
    rewrite E1, E2. reflexivity.
  - apply IH; [lia|]. replace (S dot + length r)%nat with (dot + S (length r))%nat by lia. exact Hd.
Qed.

(* the loop of formatter/mod.rs:57-71 as format_number starts it *)
Theorem group_loop_group3 : forall (ds tsep : str),
  group_loop ds 0 (length ds) (3 - Nat.modulo (length ds) 3) tsep = group3 tsep ds.
Proof.
  intros ds tsep. apply group_loop_inv; [reflexivity|].
  generalize (length ds). intro n. lia.
Qed.

(* what group3 is: short lists are unchanged, and a block whose length is a multiple of three
   is preceded by exactly one separator *)
Lemma group3_short : forall tsep ds, (length ds <= 3)%nat -> group3 tsep ds = ds.
Proof.
  intros tsep ds H.
  destruct ds as [|a [|b [|c [|d r]]]]; cbn in *; try reflexivity; lia.
Qed.

Lemma group3_app : forall tsep a b,
  a <> [] -> b <> [] -> Nat.modulo (length b) 3 = 0%nat ->
  group3 tsep (a ++ b) = group3 tsep a ++ tsep ++ group3 tsep b.
Proof.
  intros tsep a b Ha Hb Hm. induction a as [|c a IH]; [contradiction|].
  destruct a as [|c' a'].
  - cbn [app group3 length].
    assert (E : negb (Nat.eqb (length b) 0) && Nat.eqb (Nat.modulo (length b) 3) 0 = true).
    { rewrite Hm. destruct b; [contradiction|]. reflexivity. }
    rewrite E. reflexivity.
  - assert (Hne : c' :: a' <> []) by discriminate.
    remember (c' :: a') as a2 eqn:Ea2.
    cbn [app group3]. rewrite (IH Hne).
    assert (E : negb (Nat.eqb (length (a2 ++ b)) 0) && Nat.eqb (Nat.modulo (length (a2 ++ b)) 3) 0
              = negb (Nat.eqb (length a2) 0) && Nat.eqb (Nat.modulo (length a2) 3) 0).
    { rewrite app_length. rewrite Ea2. cbn [length].
      assert (H : Nat.modulo (S (length a') + length b) 3 = Nat.modulo (S (length a')) 3) by lia.
      rewrite H. reflexivity. }
    rewrite E. rewrite <- app_assoc. reflexivity.
Qed.

Lemma group3_no_sep : forall ds, group3 [] ds = ds.
Proof.
  induction ds as [|c r IH]; cbn [group3]; [reflexivity|].
  destruct (negb _ && _); cbn; rewrite IH; reflexivity.
Qed.

(* the separators are the only thing added: (n-1)/3 of them *)
Lemma group3_length : forall tsep ds,
  length (group3 tsep ds) = (length ds + length tsep * ((length ds - 1) / 3))%nat.
Proof.
  intros tsep ds. induction ds as [|c r IH]; [cbn; lia|].
  cbn [group3 length]. rewrite app_length, IH.
  replace (S (length r) - 1)%nat with (length r) by lia.
  destruct (Nat.eqb_spec (length r) 0) as [E|E]; cbn [negb andb].
  - rewrite E. cbn. lia.
  - destruct (Nat.eqb_spec (Nat.modulo (length r) 3) 0) as [M|M]; cbn [length].
    + assert (length r / 3 = S ((length r - 1) / 3))%nat by lia. rewrite H. lia.
    + assert (length r / 3 = (length r - 1) / 3)%nat by lia. rewrite H. lia.
Qed.

(* ------------------------------------------------------------------------------------- *)
(* strings: the part in front of the first '.' and the part behind it                     *)
(* ------------------------------------------------------------------------------------- *)
Fixpoint int_part (st : str) : str :=
  match st with
  | [] => []
  | c :: r => if N.eqb c 46 then [] else c :: int_part r
  end.
Fixpoint frac_part (st : str) : str :=
  match st with
  | [] => []
  | c :: r => if N.eqb c 46 then r else frac_part r
  end.
Definition has_dot (st : str) : bool := existsb (fun c => N.eqb c 46) st.
Definition all_zero (st : str) : bool := forallb (fun c => N.eqb c 48) st.

Lemma int_part_length_le st : (length (int_part st) <= length st)%nat.
Proof.
  induction st as [|c r IH]; cbn [int_part length]; [lia|].
  destruct (N.eqb c 46); cbn [length]; lia.
Qed.

Lemma firstn_int_part st : firstn (length (int_part st)) st = int_part st.
Proof.
  induction st as [|c r IH]; cbn [int_part]; [reflexivity|].
  destruct (N.eqb c 46); cbn [length firstn]; [reflexivity|]. rewrite IH. reflexivity.
Qed.

Lemma skipn_int_part st : skipn (S (length (int_part st))) st = frac_part st.
Proof.
  induction st as [|c r IH]; cbn [int_part frac_part]; [reflexivity|].
  destruct (N.eqb c 46) eqn:E; cbn [length skipn].
  - reflexivity.
  - exact IH.
Qed.

Lemma int_part_full_iff st : Nat.eqb (length (int_part st)) (length st) = negb (has_dot st).
Proof.
  unfold has_dot.
  induction st as [|c r IH]; cbn [int_part existsb length]; [reflexivity|].
  destruct (N.eqb c 46) eqn:E; cbn [length orb negb Nat.eqb]; [reflexivity|]. exact IH.
Qed.

Lemma split_at_dot st : has_dot st = true -> st = int_part st ++ 46%N :: frac_part st.
Proof.
  unfold has_dot.
  induction st as [|c r IH]; cbn [int_part frac_part existsb]; [discriminate|].
  destruct (N.eqb_spec c 46) as [E|E]; cbn [orb app].
  - intros _. subst c. reflexivity.
  - intro H. f_equal. apply IH. exact H.
Qed.

Lemma no_dot_int_part st : has_dot st = false -> int_part st = st /\ frac_part st = [].
Proof.
  unfold has_dot.
  induction st as [|c r IH]; cbn [int_part frac_part existsb]; [split; reflexivity|].
  destruct (N.eqb c 46); cbn [orb]; [discriminate|].
  intro H. destruct (IH H) as [A B]. rewrite A, B. split; reflexivity.
Qed.

(* ------------------------------------------------------------------------------------- *)
(* 2. the structure of format_number                                                      *)
(* ------------------------------------------------------------------------------------- *)
Section WithNum.
Context {F : Type} {NF : Num F}.

(* the three ingredients *)
Definition fmt_copy (x : F) (digits : N) : F :=
  do_division (fround (fmul x (powi10 digits))) (powi10 digits).           (* the separately rounded copy *)
Definition fmt_trunc_part (x : F) (digits : N) : str := fdisplay (fabs (ftrunc (fmt_copy x digits))).
Definition fmt_fract (x : F) (digits : N) : option Z := fract_information (ffract (fmt_copy x digits)).
Definition fmt_string (x : F) (digits : N) (rnd : bool) : str :=             (* supplies every printed digit *)
  if rnd then ffixed (fabs x) digits else fdisplay (fabs x).

Definition sign_str (x : F) : str := if fltb x f0 then [45%N] else [].

Theorem format_number_structure : forall (x : F) (tsep dsep : str) (digits : N) (rm rnd : bool),
  format_number x tsep dsep digits rm rnd =
  match fmt_fract x digits with
  | None => Panic SITE_FI_FUEL
  | Some fp =>
    let ts := length (fmt_trunc_part x digits) in
    let st := fmt_string x digits rnd in
    if Nat.ltb (length st) ts then Panic SITE_NTH_UNWRAP
    else Ok (sign_str x ++ group3 tsep (firstn ts st) ++
             (if ((0 <? fp) || negb rm) && negb (Nat.eqb ts (length st))
              then dsep ++ skipn (S ts) st else []))
  end.
Proof.
  intros. unfold format_number, fmt_fract, fmt_trunc_part, fmt_string, fmt_copy, sign_str.
  set (copy := do_division _ _).
  set (st := if rnd then _ else _).
  set (ts := length (fdisplay (fabs (ftrunc copy)))).
  destruct (fract_information (ffract copy)) as [fp|]; [|reflexivity].
  cbv zeta.
  destruct (Nat.ltb (length st) ts) eqn:Hlt; [reflexivity|].
  apply Nat.ltb_ge in Hlt.
  assert (Hg : group_loop (firstn ts st) 0 ts (3 - Nat.modulo ts 3) tsep = group3 tsep (firstn ts st)).
  { pose proof (group_loop_group3 (firstn ts st) tsep) as G.
    rewrite firstn_length_le in G by exact Hlt. exact G. }
  rewrite Hg.
  destruct (((0 <? fp) || negb rm) && negb (Nat.eqb ts (length st))).
  - rewrite <- app_assoc. reflexivity.
  - rewrite app_nil_r. reflexivity.
Qed.

(* ------------------------------------------------------------------------------------- *)
(* 3. the specified print and the consistency of the two roundings                        *)
(* ------------------------------------------------------------------------------------- *)
(* [st] is the decimal rendering of |x| (correctly rounded "{:.N}", or the shortest "{}" when
   rounding is switched off) *)
Definition show_fraction (rm : bool) (st : str) : bool :=
  has_dot st && (negb rm || negb (all_zero (frac_part st))).

Definition spec_print (neg : bool) (tsep dsep : str) (rm : bool) (st : str) : str :=
  (if neg then [45%N] else []) ++ group3 tsep (int_part st)
    ++ (if show_fraction rm st then dsep ++ frac_part st else []).

(* the separately rounded copy agrees with the string on the length of the integer part ... *)
Definition len_agree (x : F) (digits : N) (rnd : bool) : bool :=
  Nat.eqb (length (fmt_trunc_part x digits)) (length (int_part (fmt_string x digits rnd))).
(* ... and on whether the fraction is zero *)
Definition frac_agree (x : F) (digits : N) (rnd : bool) : bool :=
  match fmt_fract x digits with
  | None => false
  | Some fp => Bool.eqb (0 <? fp) (negb (all_zero (frac_part (fmt_string x digits rnd))))
  end.

Definition Inconsistent (x : F) (digits : N) (rnd : bool) : Prop :=
  len_agree x digits rnd = false \/ frac_agree x digits rnd = false.

Lemma Inconsistent_dec x digits rnd : {Inconsistent x digits rnd} + {~ Inconsistent x digits rnd}.
Proof.
  unfold Inconsistent.
  destruct (len_agree x digits rnd); [|left; left; reflexivity].
  destruct (frac_agree x digits rnd); [|left; right; reflexivity].
  right. intros [H|H]; discriminate.
Qed.

Lemma format_len_agree : forall x tsep dsep digits rm rnd fp,
  len_agree x digits rnd = true -> fmt_fract x digits = Some fp ->
  format_number x tsep dsep digits rm rnd =
  Ok (sign_str x ++ group3 tsep (int_part (fmt_string x digits rnd)) ++
      (if ((0 <? fp) || negb rm) && has_dot (fmt_string x digits rnd)
       then dsep ++ frac_part (fmt_string x digits rnd) else [])).
Proof.
  intros x tsep dsep digits rm rnd fp HL HF.
  rewrite format_number_structure, HF. cbv zeta.
  unfold len_agree in HL. apply Nat.eqb_eq in HL. rewrite HL.
  set (st := fmt_string x digits rnd).
  pose proof (int_part_length_le st) as Hle.
  destruct (Nat.ltb (length st) (length (int_part st))) eqn:E.
  { apply Nat.ltb_lt in E. lia. }
  rewrite firstn_int_part, skipn_int_part, int_part_full_iff, negb_involutive. reflexivity.
Qed.

(* the main theorem: outside the class the print is the specified one *)
Theorem format_consistent : forall x tsep dsep digits rm rnd,
  ~ Inconsistent x digits rnd ->
  format_number x tsep dsep digits rm rnd
  = Ok (spec_print (fltb x f0) tsep dsep rm (fmt_string x digits rnd)).
Proof.
  intros x tsep dsep digits rm rnd H.
  unfold Inconsistent in H.
  destruct (len_agree x digits rnd) eqn:HL; [|exfalso; apply H; left; reflexivity].
  destruct (frac_agree x digits rnd) eqn:HF; [|exfalso; apply H; right; reflexivity].
  unfold frac_agree in HF. destruct (fmt_fract x digits) as [fp|] eqn:HFP; [|discriminate].
  rewrite (format_len_agree _ _ _ _ _ _ fp HL HFP).
  unfold spec_print, sign_str, show_fraction.
  apply eqb_prop in HF. rewrite HF.
  set (st := fmt_string x digits rnd).
  replace ((negb (all_zero (frac_part st)) || negb rm) && has_dot st)
    with (has_dot st && (negb rm || negb (all_zero (frac_part st)))).
  - reflexivity.
  - destruct (has_dot st), rm, (all_zero (frac_part st)); reflexivity.
Qed.

(* when zero fractions are kept only the length of the integer part matters *)
Theorem format_keep_fraction : forall x tsep dsep digits rnd,
  len_agree x digits rnd = true -> fmt_fract x digits <> None ->
  format_number x tsep dsep digits false rnd
  = Ok (spec_print (fltb x f0) tsep dsep false (fmt_string x digits rnd)).
Proof.
  intros x tsep dsep digits rnd HL HF.
  destruct (fmt_fract x digits) as [fp|] eqn:HFP; [|contradiction].
  rewrite (format_len_agree _ _ _ _ _ _ fp HL HFP).
  unfold spec_print, sign_str, show_fraction. cbn [negb orb]. rewrite orb_true_r, andb_true_r. reflexivity.
Qed.

(* ------------------------------------------------------------------------------------- *)
(* 4. sign                                                                                *)
(* ------------------------------------------------------------------------------------- *)
Definition starts_minus (x : str) : bool := match x with c :: _ => N.eqb c 45 | [] => false end.

(* the print starts with '-' exactly for values below zero, provided the rendering of the
   magnitude does not itself start with '-' (it never does, see f64_magnitude_unsigned) and
   the integer part is not empty *)
Theorem format_sign : forall x tsep dsep digits rm rnd out,
  format_number x tsep dsep digits rm rnd = Ok out ->
  starts_minus (fmt_string x digits rnd) = false ->
  fmt_trunc_part x digits <> [] ->
  starts_minus out = fltb x f0.
Proof.
  intros x tsep dsep digits rm rnd out H Hs Hne.
  rewrite format_number_structure in H.
  destruct (fmt_fract x digits) as [fp|]; [|discriminate].
  cbv zeta in H.
  destruct (Nat.ltb _ _) eqn:Hlt; [discriminate|]. apply Nat.ltb_ge in Hlt.
  injection H as <-.
  unfold sign_str. destruct (fltb x f0); [reflexivity|].
  cbn [app].
  destruct (fmt_trunc_part x digits) as [|t0 tr]; [contradiction|].
  destruct (fmt_string x digits rnd) as [|c0 r0]; [cbn in Hlt; lia|].
  cbn [length firstn group3 app starts_minus]. exact Hs.
Qed.

(* ------------------------------------------------------------------------------------- *)
(* 5. wrappers                                                                            *)
(* ------------------------------------------------------------------------------------- *)
Definition map_res {A B} (f : A -> B) (r : res A) : res B :=
  match r with Ok a => Ok (f a) | Panic s => Panic s end.

Definition money_place (c : currency) (p : str) : str :=
  if c_left c then c_symbol c ++ (if c_space c then [32%N] else []) ++ p
  else p ++ (if c_space c then [32%N] else []) ++ c_symbol c.

Theorem print_number : forall (cfg : config F) lang y x,
  item_print cfg lang y (INumber x Decimal)
  = format_number x (cf_tsep cfg) (cf_dsep cfg) (nc_digits (cf_number cfg))
                  (nc_rm (cf_number cfg)) (nc_round (cf_number cfg)).
Proof. reflexivity. Qed.

Theorem print_percent : forall (cfg : config F) lang y x,
  item_print cfg lang y (IPercent x)
  = map_res (fun r => 37%N :: r)
      (format_number x (cf_tsep cfg) (cf_dsep cfg) (nc_digits (cf_percent cfg))
                     (nc_rm (cf_percent cfg)) (nc_round (cf_percent cfg))).
Proof. intros. cbn [item_print]. destruct (format_number _ _ _ _ _ _); reflexivity. Qed.

Theorem print_money : forall (cfg : config F) lang y x code c,
  currency_by_code cfg code = Some c ->
  item_print cfg lang y (IMoney x code)
  = map_res (money_place c)
      (format_number x (cf_tsep cfg) (cf_dsep cfg) (c_digits c) (nc_rm (cf_money cfg)) (nc_round (cf_money cfg))).
Proof.
  intros cfg lang y x code c H. cbn [item_print]. rewrite H.
  destruct (format_number _ _ _ _ _ _); [|reflexivity].
  unfold money_place. cbn [bind map_res].
  destruct (c_left c), (c_space c); cbn [app]; reflexivity.
Qed.

Definition unit_digits (d : dyntype F) : N := match dt_digits d with Some n => n | None => 2%N end.
Definition unit_rm (d : dyntype F) : bool := match dt_rm d with Some b => b | None => true end.
Definition unit_round (d : dyntype F) : bool := match dt_round d with Some b => b | None => true end.

Theorem print_unit : forall (cfg : config F) lang y x u d,
  unit_of cfg u = Some d ->
  item_print cfg lang y (IDynamicType x u)
  = map_res (fun p => replace_all (s "{value}") p (dt_format d))
      (format_number x (cf_tsep cfg) (cf_dsep cfg) (unit_digits d) (unit_rm d) (unit_round d)).
Proof.
  intros cfg lang y x u d H. cbn [item_print]. rewrite H.
  unfold unit_digits, unit_rm, unit_round.
  destruct (format_number _ _ _ _ _ _); reflexivity.
Qed.

End WithNum.
