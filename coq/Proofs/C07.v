(* Proofs for property C07. *)
From SC.Model Require Import Base.
